import MtxVerif.Model.C09
open MtxVerif MtxVerif.C09

def hexS (v : String) : Bytes := (Hex.decode v).getD []

/-! parsers for the type / value notation printed by the harness (reflection over the real Go types) -/

def isHexChar (c : Char) : Bool := ('0' ≤ c && c ≤ '9') || ('a' ≤ c && c ≤ 'f')

/-- a hex token: `-` (empty) or hex digits -/
def pHex (cs : List Char) : Bytes × List Char :=
  match cs with
  | '-' :: r => ([], r)
  | _ =>
    let h := cs.takeWhile isHexChar
    ((Hex.decodeChars h).getD [], cs.drop h.length)

mutual
partial def pTy (cs : List Char) : Option (Ty × List Char) :=
  match cs with
  | 's' :: r => some (.str, r)
  | 'i' :: r => some (.int, r)
  | 'u' :: r => some (.uint, r)
  | 'f' :: r => some (.float, r)
  | 'b' :: r => some (.bool, r)
  | 'm' :: r => some (.unm, r)
  | 'x' :: r => some (.other, r)
  | 'L' :: 's' :: r => some (.strList, r)
  | 'L' :: 'u' :: r => some (.uintList, r)
  | 'L' :: 'f' :: r => some (.floatList, r)
  | 'L' :: 'o' :: r => some (.otherList, r)
  | 'P' :: r => (pTy r).map fun (t, r') => (.ptr t, r')
  | 'D' :: r => (pTy r).map fun (t, r') => (.map t, r')
  | 'O' :: r => (pFields r).map fun (fs, r') => (.unmStruct fs, r')
  | 'A' :: r => (pFields r).map fun (fs, r') => (.structList fs, r')
  | 'S' :: r => (pFields r).map fun (fs, r') => (.struct fs, r')
  | _ => none

partial def pFields (cs : List Char) : Option (List (Bytes × Ty) × List Char) :=
  match cs with
  | '{' :: '}' :: r => some ([], r)
  | '{' :: r => pFieldList r []
  | _ => none

partial def pFieldList (cs : List Char) (acc : List (Bytes × Ty)) : Option (List (Bytes × Ty) × List Char) :=
  let (tag, r) := pHex cs
  match r with
  | '=' :: r1 =>
    match pTy r1 with
    | some (t, r2) =>
      match r2 with
      | ';' :: r3 => pFieldList r3 ((tag, t) :: acc)
      | '}' :: r3 => some (((tag, t) :: acc).reverse, r3)
      | _ => none
    | none => none
  | _ => none
end

def pInt (cs : List Char) : Option (Int × List Char) :=
  let (neg, r) := match cs with | '-' :: r => (true, r) | _ => (false, cs)
  let ds := r.takeWhile Char.isDigit
  if ds.isEmpty then none
  else
    let n : Nat := ds.foldl (fun a c => a * 10 + (c.toNat - 48)) 0
    some ((if neg then -(n : Int) else n), r.drop ds.length)

mutual
partial def pV (cs : List Char) : Option (V × List Char) :=
  match cs with
  | 's' :: r => let (h, r') := pHex r; some (.str h, r')
  | 'f' :: r => let (h, r') := pHex r; some (.float h, r')
  | 'm' :: r => let (h, r') := pHex r; some (.unm h, r')
  | 'i' :: r => (pInt r).map fun (i, r') => (.int i, r')
  | 'u' :: r => (pInt r).map fun (i, r') => (.uint i.toNat, r')
  | 'b' :: '1' :: r => some (.bool true, r)
  | 'b' :: '0' :: r => some (.bool false, r)
  | 'O' :: r => (pV r).map fun (v, r') => (.opt v, r')
  | '~' :: r => some (.nil, r)
  | '&' :: r => (pV r).map fun (v, r') => (.some v, r')
  | 'N' :: r => some (.nilList, r)
  | 'M' :: r => some (.nilMap, r)
  | '?' :: r => some (.other, r)
  | '[' :: ']' :: r => some (.list [], r)
  | '[' :: r => (pVList r ']' []).map fun (l, r') => (.list l, r')
  | '{' :: '}' :: r => some (.struct [], r)
  | '{' :: r => (pVList r '}' []).map fun (l, r') => (.struct l, r')
  | '<' :: '>' :: r => some (.map [], r)
  | '<' :: r => (pEntries r []).map fun (l, r') => (.map l, r')
  | _ => none

partial def pVList (cs : List Char) (close : Char) (acc : List V) : Option (List V × List Char) :=
  match pV cs with
  | some (v, r) =>
    match r with
    | ',' :: r1 => pVList r1 close (v :: acc)
    | c :: r1 => if c == close then some ((v :: acc).reverse, r1) else none
    | [] => none
  | none => none

partial def pEntries (cs : List Char) (acc : List (Bytes × V)) : Option (List (Bytes × V) × List Char) :=
  let (k, r) := pHex cs
  match r with
  | ':' :: r1 =>
    match pV r1 with
    | some (v, r2) =>
      match r2 with
      | ',' :: r3 => pEntries r3 ((k, v) :: acc)
      | '>' :: r3 => some (((k, v) :: acc).reverse, r3)
      | _ => none
    | none => none
  | _ => none
end

def argOf (toks : List String) (k : String) : String :=
  (toks.findSome? fun t => if t.startsWith (k ++ "=") then some ((t.drop (k.length + 1)).toString) else none).getD ""

def listOf (v : String) : List String := if v == "[]" || v == "" then [] else v.splitOn ","

def pairOf (s : String) : Bytes × Bytes :=
  match s.splitOn ":" with
  | [a, b] => (hexS a, hexS b)
  | _ => ([], [])

def parseSeg (s : String) : Option Seg :=
  match s.toList with
  | 'k' :: r => some (.key ((Hex.decode (String.ofList r)).getD []))   -- json key or map key (upper-cased the same way)
  | 'i' :: r => (String.ofList r).toNat?.map .idx
  | _ => none

structure St where
  names : List (Bytes × String) := []    -- variable name ↦ path, to detect two parameters sharing a name

def step (st : St) (op impl : String) : St × DrvOut :=
  let toks := words op
  match toks with
  | "gen" :: _ =>
    match pTy (argOf toks "t").toList, pV (argOf toks "v").toList with
    | some (ty, []), some (v, []) =>
      let env : Env := (listOf (argOf toks "e")).map pairOf
      let fl : FloatOracle := (listOf (argOf toks "fl")).map pairOf
      let fmt : Outcome V → String
        | .ok v' => "ok " ++ showV v'
        | .err => "err"
        | .panic => "panic"
        | .nondet => "-"
      -- correspondence of the generic loader model (`fx := true`: the prefix rule as of /repo 7bda13e); a panic of
      -- the loader on these test types is reported here as well
      let model := fmt (loadEnv true fl env 12 (strBytes "MTX") ty v)
      (st, { model, spec := if impl == "panic" && model != "panic" then "FAIL env.Load panics" else "ok" })
    | _, _ => (st, { model := "bad-op" })
  | "order" :: _ =>
    (st, { model := "eq", spec := if impl == "eq" then "ok" else "FAIL the variable " ++ bytesStr (hexS (argOf toks "name")) ++ " does not override the file value through conf.Load: " ++ impl })
  | "list" :: _ =>
    (st, { model := "eq",
           spec := if impl == "eq" then "ok"
                   else if argOf toks "mode" == "pair" then
                     "FAIL two paths whose names differ by a suffix, set through variables (first: " ++ bytesStr (hexS (argOf toks "name")) ++
                     "), differ from the same paths written in the file: " ++ impl
                   else "FAIL a list of " ++ argOf toks "n" ++ " items given through " ++ bytesStr (hexS (argOf toks "name")) ++
                        "_<i>_… (mode " ++ argOf toks "mode" ++ ") differs from the same list written in the file: " ++ impl })
  | "leaf" :: _ =>
    let name := hexS (argOf toks "name")
    let pathS := argOf toks "path"
    if pathS == "-" then (st, { model := "-", spec := "FAIL parameter type without a known YAML/environment encoding: " ++ bytesStr name })
    else
      match (pathS.splitOn "/").mapM parseSeg with
      | none => (st, { model := "bad-op" })
      | some segs =>
        -- the model's name scheme must produce the variable the harness used
        let mname := envName (strBytes "MTX") (segs.map fun s => match s with | .key k => .field k | s => s)
        if mname != name then (st, { model := "name-mismatch " ++ bytesStr mname })
        else
          -- no two parameters may share a variable
          let clash := st.names.find? fun (n, p) => n == name && p != pathS
          let st' : St := if st.names.any (fun (n, _) => n == name) then st else { names := (name, pathS) :: st.names }
          match clash with
          | some (_, p) => (st', { model := "-", spec := "FAIL two parameters share the variable " ++ bytesStr name ++ ": " ++ p ++ " and " ++ pathS })
          | none =>
            let spec :=
              if impl == "eq" || impl == "botherr" then "ok"
              else if impl.endsWith "panic" then "FAIL Load panics for " ++ bytesStr name ++ ": " ++ impl
              else "FAIL file and environment disagree for " ++ bytesStr name ++ ": " ++ impl
            (st', { model := "eq", spec })
  | _ => (st, { model := "bad-op" })

def main (args : List String) : IO UInt32 := runDriver args ({} : St) step
