import MtxVerif.Model.C37
import MtxVerif.Gen.C37
open MtxVerif MtxVerif.C37

def parseNP (s : String) : Option (List Nat) :=
  if s == "-" then some [] else (s.splitOn ",").mapM (·.toNat?)

/-- `strconv.IsPrint`: ASCII by range, the rest from the oracle column -/
def mkIsPrint (np : List Nat) (r : Nat) : Bool :=
  if r < 0x80 then decide (0x20 ≤ r ∧ r ≤ 0x7E) else !np.contains r

def kv (s pre : String) : Option String :=
  if s.startsWith pre then some (s.drop pre.length).toString else none

def fmtGoJSON (line ts : Bytes) : String :=
  match parseLine line with
  | some ms =>
    match field ms kTimestamp, field ms kLevel, field ms kMessage with
    | some t, some l, some m =>
      s!"gojson=ok:{Hex.encode t}:{Hex.encode l}:{Hex.encode m} tseq={if t == ts then 1 else 0}"
    | _, _, _ => "gojson=nofields tseq=0"
  | none => "gojson=err tseq=0"

/-- spec for one destination's bytes -/
def specBytes (dest : String) (q : Option Quoter) (isPrint : Nat → Bool) (written ts : Bytes) (lvl : Nat) (m : Bytes)
    (tseq : Bool) (modelLine : Bytes) : String :=
  let bad (why : String) : String :=
    if q == some .strconvQuote && goQuoteNonJSON isPrint m && written == modelLine then
      s!"KNOWN goQuoteNonJSON {dest}: {why} (message has a control byte / invalid UTF-8 / non-printable rune that strconv.Quote writes as \\a \\v \\x.. or \\U........)"
    else s!"FAIL {dest}: {why}"
  match parseLine written with
  | none => bad "record is not one line holding a JSON object with string fields"
  | some ms =>
    if field ms kLevel != some (levelStr lvl) then bad "level field does not decode to the record's level"
    else if field ms kMessage != some (sanitize m) then bad "message field does not decode to the formatted message"
    else if field ms kTimestamp == some ts || (tseq && (field ms kTimestamp).isSome) then "ok"
    else bad "timestamp field does not decode to the record's time"

def step (_ : Unit) (op impl : String) : Unit × DrvOut :=
  match words op with
  | ["reset"] => ((), { model := "ok" })
  | ["log", lvl, _sec, _nsec, _off, _fmt, _arg, msgH, tsH, npS] =>
    match lvl.toNat?, Hex.decode msgH, Hex.decode tsH, parseNP npS with
    | some lvl, some m, some ts, some np =>
      let isPrint := mkIsPrint np
      -- `none` = the extractor did not recognise the routine: no prediction ("-"), spec only
      let qs := MtxVerif.Gen.C37.stdoutQuoter?
      let qf := MtxVerif.Gen.C37.fileQuoter?
      let lineS := lineOf (quoteWith (qs.getD .jsonMarshal) isPrint m) ts lvl
      let lineF := lineOf (quoteWith (qf.getD .jsonMarshal) isPrint m) ts lvl
      -- `Logger.Log` drops records below `Logger.Level` (the harness runs with Level = Debug = 1)
      let model := if lvl < 1 then "out=- file=same gojson=err tseq=0"
        else if qs.isNone || qf.isNone then "-" else
        s!"out={Hex.encode lineS} file={if lineF == lineS then "same" else Hex.encode lineF} {fmtGoJSON lineS ts}"
      let spec :=
        if lvl < 1 || lvl > 4 then "ok"       -- not a level of the logger: outside the property
        else match words impl with
        | [o, f, _g, tq] =>
          match (kv o "out=").bind Hex.decode, kv f "file=", kv tq "tseq=" with
          | some out, some fs, some tq =>
            let v1 := specBytes "stdout" qs isPrint out ts lvl m (tq == "1") lineS
            if v1 != "ok" then v1
            else if fs == "same" then "ok"
            else match Hex.decode fs with
              | some fb => specBytes "file" qf isPrint fb ts lvl m false lineF
              | none => "FAIL unparsable implementation answer"
          | _, _, _ => "FAIL unparsable implementation answer"
        | _ => "FAIL unparsable implementation answer: " ++ impl
      ((), { model, spec })
    | _, _, _, _ => ((), { model := "bad-op" })
  | _ => ((), { model := "bad-op" })

def main (args : List String) : IO UInt32 := runDriver args () step
