import MtxVerif.Model.C37
-- no import of Gen/C37: the model is the JSON encoding the property asks for; facts are for theorems only
open MtxVerif MtxVerif.C37

def kv (s pre : String) : Option String :=
  if s.startsWith pre then some (s.drop pre.length).toString else none

def fmtGoJSON (line ts : Bytes) : String :=
  match parseLine line with
  | some ms =>
    match field ms kTimestamp, field ms kLevel, field ms kMessage with
    | some t, some l, some m =>
      s!"gojson=ok:{Hex.encode t}:{Hex.encode l}:{Hex.encode m} tseq={if t == ts then 1 else 0}"
    | _, _, _ => "gojson=nofields tseq=0"
  | none => "gojson=err tseq=0"

/-- spec for one destination's bytes -/
def specBytes (dest : String) (written ts : Bytes) (lvl : Nat) (m : Bytes) (tseq : Bool) : String :=
  match parseLine written with
  | none => s!"FAIL {dest}: record is not one line holding a JSON object with string fields"
  | some ms =>
    if field ms kLevel != some (levelStr lvl) then s!"FAIL {dest}: level field does not decode to the record's level"
    else if field ms kMessage != some (sanitize m) then s!"FAIL {dest}: message field does not decode to the formatted message"
    else if field ms kTimestamp == some ts || (tseq && (field ms kTimestamp).isSome) then "ok"
    else s!"FAIL {dest}: timestamp field does not decode to the record's time"

def step (_ : Unit) (op impl : String) : Unit × DrvOut :=
  match words op with
  | ["reset"] => ((), { model := "ok" })
  | ["conc", k, m, _structured] =>
    -- k goroutines × m records through one Logger: per destination every line a whole record, every record once
    match k.toNat?, m.toNat? with
    | some k, some m =>
      let one := s!"lines={k * m},bad=0,missing=0,dup=0"
      let model := s!"stdout:{one} file:{one}"
      let spec := if impl == model then "ok"
        else s!"FAIL concurrent Log calls: records are torn, missing or duplicated, or a line is not a whole (JSON) record — {impl}"
      ((), { model, spec })
    | _, _ => ((), { model := "bad-op" })
  | ["log", lvl, _sec, _nsec, _off, _fmt, _arg, msgH, tsH, _np] =>
    match lvl.toNat?, Hex.decode msgH, Hex.decode tsH with
    | some lvl, some m, some ts =>
      let line := lineOf (jsonString m) ts lvl
      -- `Logger.Log` drops records below `Logger.Level` (the harness runs with Level = Debug = 1)
      let model := if lvl < 1 then "out=- file=same gojson=err tseq=0" else
        s!"out={Hex.encode line} file=same {fmtGoJSON line ts}"
      let spec :=
        if lvl < 1 || lvl > 4 then "ok"       -- not a level of the logger: outside the property
        else match words impl with
        | [o, f, _g, tq] =>
          match (kv o "out=").bind Hex.decode, kv f "file=", kv tq "tseq=" with
          | some out, some fs, some tq =>
            let v1 := specBytes "stdout" out ts lvl m (tq == "1")
            if v1 != "ok" then v1
            else if fs == "same" then "ok"
            else match Hex.decode fs with
              | some fb => specBytes "file" fb ts lvl m false
              | none => "FAIL unparsable implementation answer"
          | _, _, _ => "FAIL unparsable implementation answer"
        | _ => "FAIL unparsable implementation answer: " ++ impl
      ((), { model, spec })
    | _, _, _ => ((), { model := "bad-op" })
  | _ => ((), { model := "bad-op" })

def main (args : List String) : IO UInt32 := runDriver args () step
