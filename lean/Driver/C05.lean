import MtxVerif.Model.C05
open MtxVerif MtxVerif.C05

def parsePURL (ok sch host : String) : Option PURL := do
  let s ← Hex.decode sch
  let h ← Hex.decode host
  pure { ok := ok == "1", scheme := s, host := h }

def parseAllow : List String → Option (List (Bytes × PURL))
  | [] => some []
  | raw :: ok :: sch :: host :: rest => do
    let r ← Hex.decode raw
    let u ← parsePURL ok sch host
    let t ← parseAllow rest
    pure ((r, u) :: t)
  | _ => none

def resStr : Res → String
  | .none => "none" | .star => "star" | .echo => "echo"

def step (_ : Unit) (op impl : String) : Unit × DrvOut :=
  let ws := words op
  -- `corsdep<k>`: same decision, the allow list having reached the server through conf.Load of a deprecated parameter
  let ws := match ws with
    | w :: rest => if w.startsWith "corsdep" then "cors" :: rest else ws
    | [] => ws
  match ws with
  | ["reset"] => ((), { model := "ok" })
  | "cors" :: origin :: ok :: sch :: host :: _n :: rest =>
    match Hex.decode origin, parsePURL ok sch host, parseAllow rest with
    | some origin, some o, some allow =>
      let m := isOriginAllowed origin o allow
      let v :=
        match impl with
        | "none" => (spec origin o allow .none).toStr
        | "star" => (spec origin o allow .star).toStr
        | "echo" => (spec origin o allow .echo).toStr
        | _ => "FAIL unparsable implementation answer"
      ((), { model := resStr m, spec := v })
    | _, _, _ => ((), { model := "bad-op" })
  | _ => ((), { model := "bad-op" })

def main (args : List String) : IO UInt32 := runDriver args () step
