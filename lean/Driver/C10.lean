import MtxVerif.Model.C10
open MtxVerif MtxVerif.C10

abbrev KV := List (String × String)

def kvOf (toks : List String) : KV :=
  toks.filterMap fun t =>
    match t.splitOn "=" with
    | k :: v :: rest => some (k, "=".intercalate (v :: rest))
    | _ => none

def get (kv : KV) (k : String) : String := (kv.lookup k).getD ""

def gS (kv : KV) (k : String) : Str := (Hex.decode (get kv k)).getD []
def gB (kv : KV) (k : String) : Bool := get kv k == "1"
def gI (kv : KV) (k : String) : Int := (get kv k).toInt?.getD 0
def gN (kv : KV) (k : String) : Nat := (get kv k).toNat?.getD 0
def gOpt (kv : KV) (k : String) (f : String → α) : Option α :=
  let v := get kv k
  if v == "~" then none else some (f v)
def hexS (v : String) : Str := (Hex.decode v).getD []
def listOf (v : String) (f : String → α) : List α :=
  if v == "[]" || v == "" then [] else (v.splitOn ",").map f
def gOS (kv : KV) (k : String) : Option Str := gOpt kv k hexS
def gOB (kv : KV) (k : String) : Option Bool := gOpt kv k (· == "1")

def parseUser (s : String) : User :=
  match s.splitOn ":" with
  | [u, p] => ⟨hexS u, hexS p⟩
  | _ => ⟨[], []⟩

def parseFwd (s : String) : Fwd :=
  match s.splitOn ":" with
  | [d, ok, sch] => ⟨hexS d, ok == "1", hexS sch⟩
  | _ => ⟨[], false, []⟩

def parsePath (kv : KV) : PathV :=
  { name := gS kv "name", nameValid := gB kv "nv", reOk := gB kv "reok", depc := gB kv "depc",
    hasRec := gB kv "hrec", hasRp := gB kv "hrp", hasSd := gB kv "hsd", hasDa := gB kv "hda",
    source := gS kv "src", urlOk := gB kv "uok", hostPortOk := gB kv "hpok",
    redirect := gS kv "redir", redirectOk := gB kv "redok",
    srtPubPass := gS kv "spp", srtReadPass := gS kv "srp", sod := gB kv "sod", sdpEmpty := gB kv "sdpe",
    dpo := gOB kv "dpo", overridePublisher := gB kv "ovp",
    fallback := gOS kv "fb", fallbackOk := gB kv "fbok", forward := listOf (get kv "fwd") parseFwd,
    aa := gB kv "aa", aaTracks := gN kv "aatl", aaFile := gS kv "aaf", aaFileOk := gB kv "aafok", useAbs := gB kv "uabs",
    runOnDemand := gS kv "rod", runOnUnDemand := gS kv "roud", runOnInit := gS kv "roi",
    record := gB kv "rec", recordPath := gS kv "rp", segDur := gI kv "sd", delAfter := gI kv "da",
    pubUser := gOS kv "pu", pubPass := gOS kv "pp", readUser := gOS kv "ru", readPass := gOS kv "rpw",
    udpRange := gN kv "uprn", camID := gN kv "cam", secondary := gB kv "sec", width := gN kv "w", height := gN kv "h",
    codec := gS kv "codec", exposure := gS kv "exp", awb := gS kv "awb", awbGains := gN kv "awbn",
    denoise := gS kv "den", metering := gS kv "met", afMode := gS kv "afm", afRange := gS kv "afr", afSpeed := gS kv "afs",
    profile := gOS kv "prof", level := gOS kv "lvl", hwProfile := gOS kv "hwp", hwLevel := gOS kv "hwl",
    swProfile := gOS kv "swp", swLevel := gOS kv "swl", h264Profile := gS kv "hpr", h264Level := gS kv "hlv",
    jpegQ := gOpt kv "jq" (fun v => v.toNat?.getD 0), mjpegQ := gN kv "mq", idr := gN kv "idr", bitrate := gN kv "br",
    primaryName := gS kv "prim", secW := gN kv "sw", secH := gN kv "sh", secCodec := gS kv "sc",
    secIdr := gN kv "sidr", secBitrate := gN kv "sbr", secProfile := gS kv "shp", secLevel := gS kv "shl",
    secMjpegQ := gN kv "smq" }

def parseGlobal (kv d : KV) (paths : List PathV) : ConfV :=
  { rbc := gOpt kv "rbc" (fun v => v.toInt?.getD 0), rto := gI kv "rto", wto := gI kv "wto", wqs := gI kv "wqs", ump := gI kv "ump",
    xau := gOS kv "xau", am := gN kv "am", aha := gS kv "aha", jwks := gS kv "jwks", jck := gS kv "jck",
    ucustom := gB kv "ucustom", users := listOf (get kv "users") parseUser,
    api := gB kv "api", apiAddr := gS kv "apia", metrics := gB kv "met", metricsAddr := gS kv "meta",
    pprof := gB kv "ppr", pprofAddr := gS kv "ppra", playback := gB kv "pb", playbackAddr := gS kv "pba",
    rtsp := gB kv "rtsp", rtspDisable := gOB kv "rtspd", protocols := gOpt kv "prot" (fun v => v.toNat?.getD 0),
    transports := gN kv "tr", encryption := gOpt kv "enc" (fun v => v.toNat?.getD 0), rtspEnc := gN kv "renc",
    rtspAddr := gS kv "rtspa", rtspsAddr := gS kv "rtspsa", rtpAddr := gS kv "rtpa", rtcpAddr := gS kv "rtcpa",
    mcRange := gS kv "mcr", mcRtp := gI kv "mcrtp", mcRtcp := gI kv "mcrtcp", srtpAddr := gS kv "srtpa", srtcpAddr := gS kv "srtcpa",
    mcSrtp := gI kv "mcsrtp", mcSrtcp := gI kv "mcsrtcp",
    authMethods := gOpt kv "ams" (fun v => listOf v (fun x => x.toNat?.getD 9)),
    rtspAuthMethods := listOf (get kv "rams") (fun x => x.toNat?.getD 9),
    rtmp := gB kv "rtmp", rtmpDisable := gOB kv "rtmpd", rtmpAddr := gS kv "rtmpa",
    hls := gB kv "hls", hlsDisable := gOB kv "hlsd", hlsAddr := gS kv "hlsa", cdn := gS kv "cdn", cdnOk := gB kv "cdnok",
    webrtc := gB kv "wr", webrtcDisable := gOB kv "wrd", webrtcAddr := gS kv "wra",
    ice2 := listOf (get kv "ice2") hexS, iceLegacy := gOpt kv "icel" (fun v => listOf v hexS),
    udpMux := gOS kv "udpmux", tcpMux := gOS kv "tcpmux", localUdp := gS kv "ludp", localTcp := gS kv "ltcp",
    ipsFromIf := gB kv "ipsif", nat := gOpt kv "nat" (fun v => listOf v hexS), hosts := listOf (get kv "hosts") hexS,
    moq := gB kv "moq", moqQuic := gS kv "moqq",
    gRecord := gOB kv "grec", gRecordPath := gOS kv "grp",
    gSegDur := gOpt kv "gsd" (fun v => v.toInt?.getD 0), gDelAfter := gOpt kv "gda" (fun v => v.toInt?.getD 0),
    pdDepc := gB d "depc", pdRecord := gB d "rec", pdRecordPath := gS d "rp", pdSegDur := gI d "sd", pdDelAfter := gI d "da",
    paths := paths }

/-- split a token list at the `|` tokens -/
def sections (toks : List String) : List (List String) :=
  let rec go : List String → List String → List (List String)
    | [], acc => [acc.reverse]
    | t :: ts, acc => if t == "|" then acc.reverse :: go ts [] else go ts (t :: acc)
  go toks []

def parseView (toks : List String) : Option ConfV :=
  match sections toks with
  | g :: d :: ps =>
    if g.head? != some "G" || d.head? != some "D" then none
    else if ps.any (fun p => p.head? != some "P") then none
    else some (parseGlobal (kvOf g) (kvOf d) (ps.map fun p => parsePath (kvOf p)))
  | _ => none

def parseStage (s : String) : Option StageCol :=
  if s == "~" then none else
  match s.splitOn "/" with
  | [k, b, o] => some { key := hexS k, b64 := if b == "E" then none else some (hexS b),
                        opened := if o == "E" || o == "~" then none else some (hexS o) }
  | _ => none

/-- a short description of where two views differ -/
def diffViews (a b : ConfV) : String :=
  if decide ({ a with paths := [] } = { b with paths := [] }) then
    match (a.paths.zip b.paths).find? (fun (x, y) => !decide (x = y)) with
    | some (x, y) =>
      let sx := toString (repr x)
      let sy := toString (repr y)
      let n := ((sx.toList.zip sy.toList).takeWhile (fun (p, q) => p == q)).length
      s!"path {bytesStr x.name}: …{(sx.drop (n - 40)).take 70} <> …{(sy.drop (n - 40)).take 70}"
    | none => s!"number of paths {a.paths.length} vs {b.paths.length}"
  else
    let sx := toString (repr { a with paths := [] })
    let sy := toString (repr { b with paths := [] })
    let n := ((sx.toList.zip sy.toList).takeWhile (fun (p, q) => p == q)).length
    s!"global: …{(sx.drop (n - 40)).take 70} <> …{(sy.drop (n - 40)).take 70}"

def oneLine (s : String) : String := String.ofList (s.toList.map fun c => if c == '\n' || c == '\t' then ' ' else c)

def namesSorted (ps : List PathV) : Bool :=
  let rec lt : Str → Str → Bool
    | [], [] => false
    | [], _ => true
    | _, [] => false
    | a :: as, b :: bs => a < b || (a == b && lt as bs)
  let rec go : List PathV → Bool
    | a :: b :: r => lt a.name b.name && go (b :: r)
    | _ => true
  go ps

def step (_ : Unit) (op impl : String) : Unit × DrvOut :=
  let toks := words op
  match toks with
  | ["dec", keyH, fileH, b64C, openC] =>
    let key := hexS keyH
    let file := hexS fileH
    let b64 : Option Bytes := if b64C == "E" then none else some (hexS b64C)
    let opened : Option Bytes := if openC == "E" || openC == "~" then none else some (hexS openC)
    let fmt : Outcome Bytes → String
      | .ok p => "ok " ++ Hex.encode p
      | .err => "err"
      | .panic => "panic"
    let m := decrypt (fun _ => b64) (fun _ _ _ => opened) key file
    ((), { model := fmt m, spec := if impl == "panic" then "FAIL Decrypt panics" else "ok" })
  | "load" :: rest =>
    let args := rest.takeWhile (· != ";;")
    let front := (rest.dropWhile (· != ";;")).drop 1
    let kv := kvOf args
    let rk := parseStage (get kv "rk")
    let mk := parseStage (get kv "mk")
    let envKeys : List Bytes := listOf (get kv "env") fun it => hexS ((it.splitOn ":").headD "")
    let panicSpec := if impl == "panic" then "FAIL Load panics" else "ok"
    -- (the `pu=` column and `envNilReceiver` record the class of the finding fixed in /repo 7bda13e; a panic of the
    -- front half is a failure whatever its class)
    let envClass : Option String := none
    match loadDecrypt rk mk with
    | .panic => ((), { model := "panic", spec := "FAIL Load panics while decrypting" })
    | .err => ((), { model := "err", spec := panicSpec })
    | .ok _ =>
      match front with
      | ["E"] =>
        -- (Go map order decides whether an unrelated env error or the panic comes first)
        match envClass, impl == "panic" with
        | some known, true => ((), { model := "panic", spec := known })
        | _, _ => ((), { model := "err", spec := panicSpec })
      | ["P"] =>
        match envClass with
        | some known =>
          if impl == "panic" then ((), { model := "panic", spec := known })
          else if impl == "err" then ((), { model := "err" })
          else
            -- a tree in which this class no longer panics (the recorded front-half column is stale):
            -- the model cannot predict the view, the spec is still evaluated on the accepted configuration
            let spec := match (if impl.startsWith "ok " then parseView (words ((impl.drop 3).toString)) else none) with
              | none => "FAIL unparsable implementation answer"
              | some iv => match violations iv with
                | [] => "ok"
                | l => "FAIL accepted configuration violates: " ++ "; ".intercalate l
            ((), { model := "-", spec })
        | none => ((), { model := "panic", spec := "FAIL Load panics while reading the file / environment" })
      | _ =>
        match parseView front with
        | none => ((), { model := "bad-op" })
        | some v =>
          if !namesSorted v.paths then ((), { model := "bad-op paths not sorted" }) else
          let implView : Option ConfV :=
            if impl.startsWith "ok " then parseView (words ((impl.drop 3).toString)) else none
          let spec :=
            if impl == "panic" then "FAIL Validate panics"
            else if impl == "err" then "ok"
            else match implView with
              | none => "FAIL unparsable implementation answer"
              | some iv =>
                match violations iv with
                | [] => "ok"
                | l => "FAIL accepted configuration violates: " ++ "; ".intercalate l
          match validate v with
          | .error _ => ((), { model := "err", spec })
          | .ok v' =>
            match implView with
            | some iv =>
              -- `ucustom` is an oracle about the users BEFORE Validate; it is not compared afterwards
              if decide ({ iv with ucustom := v'.ucustom } = v') then ((), { model := impl, spec })
              else ((), { model := "ok !" ++ oneLine (diffViews v' iv), spec })
            | none => ((), { model := "ok", spec })
  | _ => ((), { model := "bad-op" })

def main (args : List String) : IO UInt32 := runDriver args () step
