import MtxVerif.Gen.C24
open MtxVerif MtxVerif.C24

/-
ops:
  md  <copy> <v> <m> <d>          three-argument copy f(v, m, d)
  md2 <copy> <gofn> <x> <rate>    two-argument wrapper f(x, rate); <gofn> = Go function name (shape)
impl answer:  "<int64 result> <exact quotient by math/big>"  |  "panic"
model answer: the same line, computed by the translated (generated) definition of that copy and by
`exact`; "-" if the translator did not produce a definition for the copy (the spec is still evaluated).
-/

def fmtAns (r : Option Int) (v m d : Int) : String :=
  match r with
  | none => "panic"
  | some x => s!"{x} {exact v m d}"

def parseImpl (impl : String) : Option (Option Int) :=
  match words impl with
  | ["panic"] => some none
  | [r, _] => match r.toInt? with
    | some x => some (some x)
    | none => none
  | _ => none

def specLine (reachable : Bool) (v m d : Int) (impl : String) : String :=
  match parseImpl impl with
  | none => "FAIL unparsable implementation answer"
  | some r =>
    match verdict reachable v m d r with
    | .ok => "ok"
    | .fail why => "FAIL " ++ why
    | .known why => "KNOWN overflowRegion " ++ why

def step (_ : Unit) (op impl : String) : Unit × DrvOut :=
  match words op with
  | ["reset"] => ((), { model := "ok" })
  | ["md", name, v, m, d] =>
    match v.toInt?, m.toInt?, d.toInt? with
    | some v, some m, some d =>
      let reachable := Gen.sites.any fun s => s.copy == name && s.matches m d
      let model := match Gen.copies3.find? (·.1 == name) with
        | some c => fmtAns (c.2.2 v m d) v m d
        | none => "-"
      ((), { model, spec := specLine reachable v m d impl })
    | _, _, _ => ((), { model := "bad-op" })
  | ["md2", name, gofn, x, r] =>
    match x.toInt?, r.toInt?, shapeOf gofn with
    | some x, some r, some sh =>
      let (v, m, d) := sh.args x r
      let model := match Gen.copies2.find? (·.1 == name) with
        | some c => fmtAns (c.2.2.2 x r) v m d
        | none => "-"
      ((), { model, spec := specLine true v m d impl })
    | _, _, _ => ((), { model := "bad-op" })
  | _ => ((), { model := "bad-op" })

def main (args : List String) : IO UInt32 := runDriver args () step
