import MtxVerif.Gen.C24
open MtxVerif MtxVerif.C24

/-
ops:
  md  <copy> <v> <m> <d>          three-argument copy f(v, m, d)
  md2 <copy> <gofn> <x> <rate>    two-argument wrapper f(x, rate); <gofn> = Go function name (shape)
impl answer:  "<int64 result> <exact quotient by math/big>"  |  "panic"
model answer: the same line, computed by the translated (generated) definition of that copy and by
`exact`; "-" if the translator did not produce a definition for the copy (the spec is still evaluated).
-/

def fmtAns (r : Option Int) (v m d : Int) : String :=
  match r with
  | none => "panic"
  | some x => s!"{x} {exact v m d}"

def parseImpl (impl : String) : Option (Option Int) :=
  match words impl with
  | ["panic"] => some none
  | [r, _] => match r.toInt? with
    | some x => some (some x)
    | none => none
  | _ => none

def specLine (reachable : Bool) (v m d : Int) (impl : String) : String :=
  match parseImpl impl with
  | none => "FAIL unparsable implementation answer"
  | some r =>
    match verdict reachable v m d r with
    | .ok => "ok"
    | .fail why => "FAIL " ++ why
    | .known why => "KNOWN overflowRegion " ++ why

def step (_ : Unit) (op impl : String) : Unit × DrvOut :=
  match words op with
  | ["reset"] => ((), { model := "ok" })
  | ["md", name, v, m, d] =>
    match v.toInt?, m.toInt?, d.toInt? with
    | some v, some m, some d =>
      let reachable := Gen.sites.any fun s => s.copy == name && s.matches m d
      let model := match Gen.copies3.find? (·.1 == name) with
        | some c => fmtAns (c.2.2 v m d) v m d
        | none => "-"
      ((), { model, spec := specLine reachable v m d impl })
    | _, _, _ => ((), { model := "bad-op" })
  | ["md2", name, gofn, x, r] =>
    match x.toInt?, r.toInt?, shapeOf gofn with
    | some x, some r, some sh =>
      let (v, m, d) := sh.args x r
      let model := match Gen.copies2.find? (·.1 == name) with
        | some c => fmtAns (c.2.2.2 x r) v m d
        | none => "-"
      ((), { model, spec := specLine true v m d impl })
    | _, _, _ => ((), { model := "bad-op" })
  | ["wd", d] =>
    -- recorder.writeDuration: impl "<mvhd.DurationV0> ts=<mvhd.Timescale>"
    match d.toInt? with
    | some d =>
      let model := match Gen.inline1.find? (·.1 == "recorder_writeDuration_mvhdDuration") with
        | some c => (match c.2 d with | some r => s!"{r} ts=1000" | none => "panic")
        | none => "-"
      let spec :=
        match words impl with
        | [a, b] =>
          match a.toInt?, (if b.startsWith "ts=" then (b.drop 3).toString.toInt? else none) with
          | some dv, some ts =>
            if ts ≤ 0 then "FAIL movie time scale is not positive"
            else
              let e := exact d ts nsPerSec
              -- claimed only when the exact value is representable in the 32-bit field
              if 0 ≤ e ∧ e < 2 ^ 32 then
                (if dv = e then "ok"
                 else s!"FAIL segment duration in the movie time scale is {dv}, exact truncated quotient is {e}")
              else "ok"
          | _, _ => "FAIL unparsable implementation answer"
        | _ => "FAIL unparsable implementation answer"
      ((), { model, spec })
    | none => ((), { model := "bad-op" })
  | ["ac3", site, rate, pts, n] =>
    -- round 4: frame i of an AC-3 unit must carry the exact conversion of (unit pts + i·1536) to 90 kHz
    match rate.toInt?, pts.toInt?, n.toNat? with
    | some rate, some pts, some n =>
      let copyName := site ++ "_multiplyAndDivide"
      let model := match Gen.copies3.find? (·.1 == copyName) with
        | some c => " ".intercalate ((List.range n).map fun i =>
            match c.2.2 (pts + Int.ofNat i * 1536) 90000 rate with | some r => s!"{r}" | none => "panic")
        | none => "-"
      let spec :=
        match (words impl).mapM (·.toInt?) with
        | none => "FAIL no frame timestamps"
        | some got =>
          if got.length ≠ n then s!"FAIL {got.length} frames written instead of {n}"
          else
            match ((List.range n).zip got).find? (fun (i, g) => g ≠ exact (pts + Int.ofNat i * 1536) 90000 rate) with
            | some (i, g) => s!"FAIL frame {i}: PTS {g}, exact conversion of the frame timestamp is {exact (pts + Int.ofNat i * 1536) 90000 rate}"
            | none => "ok"
      ((), { model, spec })
    | _, _, _ => ((), { model := "bad-op" })
  | ["mp3", rate, pts, n] =>
    -- round 5: frame k of an MPEG-1/2 audio unit is stamped (RTMP: whole ms) with the exact conversion of
    -- pts + k · exact(samples per frame, 90000, sample rate) to nanoseconds
    match rate.toInt?, pts.toInt?, n.toNat? with
    | some rate, some pts, some n =>
      match words impl with
      | "skip" :: _ =>
        -- the loopback round trip could not be made (infrastructure): no verdict either way
        ((), { model := "-", spec := "ok" })
      | spfW :: rest =>
        match (if spfW.startsWith "spf=" then (spfW.drop 4).toString.toInt? else none), rest.mapM (·.toInt?) with
        | some spf, some got =>
          let adv := exact spf 90000 rate
          let want (k : Nat) : Int := Int.tdiv (exact (pts + Int.ofNat k * adv) nsPerSec 90000) 1000000
          let model := match Gen.copies2.find? (·.1 == "protocols_rtmp_timestampToDuration") with
            | some c => s!"spf={spf} " ++ " ".intercalate ((List.range n).map fun k =>
                match c.2.2.2 (pts + Int.ofNat k * adv) 90000 with
                | some r => s!"{Int.tdiv r 1000000}" | none => "panic")
            | none => "-"
          let spec :=
            if got.length ≠ n then s!"FAIL {got.length} frames received instead of {n}"
            else match ((List.range n).zip got).find? (fun (k, g) => g ≠ want k) with
              | some (k, g) => s!"FAIL frame {k}: RTMP timestamp {g} ms, exact conversion of the frame timestamp gives {want k} ms"
              | none => "ok"
          ((), { model, spec })
        | _, _ => ((), { model := "-", spec := "FAIL no frame timestamps" })
      | [] => ((), { model := "-", spec := "FAIL no frame timestamps" })
    | _, _, _ => ((), { model := "bad-op" })
  | "mp" :: ts :: _start :: durs =>
    -- round 4: the segment duration is the exact conversion of the elapsed ticks, whatever the start offset
    match ts.toInt?, durs.mapM (·.toInt?) with
    | some ts, some ds =>
      let ticks := ds.foldl (· + ·) 0
      let model := match Gen.copies2.find? (·.1 == "playback_durationMp4ToGo") with
        | some c => (match c.2.2.2 ticks ts with | some r => s!"{r}" | none => "panic")
        | none => "-"
      let e := exact ticks nsPerSec ts
      let spec := match impl.toInt? with
        | some r => if r = e then "ok" else s!"FAIL segment duration {r} ns, exact conversion of {ticks} elapsed ticks is {e}"
        | none => "FAIL no duration"
      ((), { model, spec })
    | _, _ => ((), { model := "bad-op" })
  | ["rh", dur, ts] =>
    -- playback.segmentFMP4ReadHeader: impl "<duration ns>" | "err" (time scale 0 is rejected by the code)
    match dur.toInt?, ts.toInt? with
    | some dur, some ts =>
      let model :=
        if ts = 0 then "err" else
        match Gen.inline2.find? (·.1 == "playback_readHeader_duration") with
        | some c => (match c.2 dur ts with | some r => s!"{r}" | none => "panic")
        | none => "-"
      let spec :=
        if ts = 0 then (if impl == "err" then "ok" else "FAIL time scale 0 accepted")
        else match impl.toInt? with
          | some r =>
            let e := exact dur nsPerSec ts
            if r = e then "ok" else s!"FAIL duration read back is {r} ns, exact truncated quotient is {e}"
          | none => "FAIL no duration for a valid header"
      ((), { model, spec })
    | _, _ => ((), { model := "bad-op" })
  | _ => ((), { model := "bad-op" })

def main (args : List String) : IO UInt32 := runDriver args () step
