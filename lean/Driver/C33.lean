import MtxVerif.Model.C33
open MtxVerif MtxVerif.C33

structure D where
  lim : Limits := ⟨0, 0⟩
  st : St := {}
  sp : SpecSt := {}
  n : Nat := 0

def fmtOuts (o : List SG) (s : St) : String :=
  let os := " ".intercalate (o.map fun x => s!"{x.id}:{x.tag}")
  s!"[{os}] held={s.pending.length} bytes={s.bytes}"

def parseImpl (impl : String) : Option (List (Nat × Nat) × Nat × Nat) := do
  -- "[1:0 2:3] held=2 bytes=17"
  let a := (impl.splitOn "]")
  match a with
  | [l, r] =>
    let l := (l.drop 1).toString
    let outs ← (words l).mapM fun w => match w.splitOn ":" with
      | [i, t] => do pure ((← i.toNat?), (← t.toNat?))
      | _ => none
    match words r with
    | [h, b] =>
      let h ← ((h.drop 5).toString).toNat?
      let b ← ((b.drop 6).toString).toNat?
      pure (outs, h, b)
    | _ => none
  | _ => none

def step (d : D) (op impl : String) : D × DrvOut :=
  match words op with
  | ["reset", mr, mb] =>
    match mr.toNat?, mb.toNat? with
    | some mr, some mb => ({ lim := ⟨mr, mb⟩ }, { model := "ok" })
    | _, _ => (d, { model := "bad-op" })
  | ["push", id, size] =>
    match id.toNat?, size.toNat? with
    | some id, some size =>
      let sg : SG := ⟨id, size, d.n⟩
      let (st', outs) := push d.lim d.st sg
      let (sp', verdict) :=
        match parseImpl impl with
        | some (io, h, b) =>
          let (sp', e) := specPush d.lim d.sp sg io h b
          (sp', match e with | none => "ok" | some m => "FAIL " ++ m)
        | none => (d.sp, "FAIL unparsable implementation answer")
      ({ d with st := st', sp := sp', n := d.n + 1 }, { model := fmtOuts outs st', spec := verdict })
    | _, _ => (d, { model := "bad-op" })
  | ["recheck"] =>
    -- spec only (the model's lists are values): a list returned by an earlier Push must not change afterwards
    (d, { model := "same", spec := if impl == "same" then "ok" else "FAIL a list returned by an earlier Push was modified by a later one (the caller walks it after the lock is released)" })
  | _ => (d, { model := "bad-op" })

def main (args : List String) : IO UInt32 := runDriver args ({} : D) step
