import MtxVerif.Model.C17
open MtxVerif MtxVerif.C17

structure D where
  st : St := { cap := 0 }
  sp : Spec := { cap := 0 }
  ok : Bool := false

def maskToSubs (mask nf : Nat) : List Nat :=
  (List.range nf).filter fun f => (mask >>> f) % 2 == 1

def fmtAnswer (before after : St) : String :=
  let ds := after.rds.flatMap fun r =>
    let old := match before.rds.find? (·.id == r.id) with | some b => b.delivered.length | none => 0
    (r.delivered.drop old).map fun u => s!"{r.id}:{u.fmt}:{expectedPayload u}"
  let xs := after.rds.map fun r => s!"{r.id}={r.discarded}"
  let j (l : List String) := if l.isEmpty then "-" else ",".intercalate l
  s!"d={j ds} x={j xs}"

def parseDlv (s : String) : Option Dlv :=
  match s.splitOn ":" with
  | [r, f, p] => do pure { r := (← r.toNat?), f := (← f.toNat?), payload := p }
  | _ => none

def parseCtr (s : String) : Option (Nat × Nat) :=
  match s.splitOn "=" with
  | [r, n] => do pure ((← r.toNat?), (← n.toNat?))
  | _ => none

def parseList {α : Type} (p : String → Option α) (s : String) : Option (List α) :=
  if s == "-" then some [] else (s.splitOn ",").mapM p

def parseImpl (impl : String) : Option (List Dlv × List (Nat × Nat)) :=
  match (words impl).take 2 with
  | [d, x] =>
    if d.startsWith "d=" && x.startsWith "x=" then do
      let ds ← parseList parseDlv (d.drop 2).toString
      let cs ← parseList parseCtr (x.drop 2).toString
      pure (ds, cs)
    else none
  | _ => none

/-- `write 3 tag`: the remuxed MPEG-4 Video frame comes from C22's model run on the frames written so far -/
def parseEv (nf : Nat) (cfg : Bytes) : List String → Option Ev
  | ["add", r, mask] => do pure (.add (← r.toNat?) (maskToSubs (← mask.toNat?) nf))
  | ["write", f, tag] => do
    let f ← f.toNat?
    let tag ← tag.toNat?
    pure (.write f tag (if f == 3 then (C22.stepM4V cfg (writtenM4V tag)).2 else []))
  | ["done", r] => do pure (.done (← r.toNat?))
  | ["fail", r] => do pure (.fail (← r.toNat?))
  | ["remove", r] => do pure (.remove (← r.toNat?))
  | _ => none

structure DD extends D where
  /-- always-available mini-history (publisher switch): spec only through `pubStep` -/
  aa : Bool := false
  pub : PubSt := {}
  rtp : RtpSt := {}
  nf : Nat := 0
  /-- configuration of the MPEG-4 Video format (format 3), tracked with C22's updater model -/
  cfg : Bytes := []

def pubAnswer (o : Option Nat) : String := match o with | some t => s!"got={t}" | none => "got=-"

def stepAA (d : DD) (ws : List String) (impl : String) : DD × DrvOut :=
  if impl == "bad-op" then (d, { model := "bad-op" }) else
  let ev : Option PubEv := match ws with
    | ["aapub"] => some .pub
    | ["aawrite", p, tag] => do pure (.write (← p.toNat?) (← tag.toNat?))
    | ["aarace", p, tag] => do pure (.race (← p.toNat?) (← tag.toNat?))
    | _ => none
  match ev with
  | none => (d, { model := "bad-op" })
  | some ev =>
    let r := pubStep d.pub ev
    let model := match ev with | .pub => "ok" | _ => pubAnswer r.2
    let spec :=
      if impl == model then "ok"
      else match ev with
        | .pub => "FAIL publisher sub stream could not be initialised: " ++ impl
        | _ =>
          if r.2.isNone then "FAIL readers received a unit from a publisher that is not (or no longer) the current one"
          else "FAIL the current publisher's unit was not delivered"
    ({ d with pub := r.1 }, { model, spec })

def rtpAnswer (o : Option (List Nat)) : String :=
  match o with
  | some l => "got=" ++ "+".intercalate (l.map toString)
  | none => "got=-"

def stepRtp (d : DD) (ws : List String) (impl : String) : DD × DrvOut :=
  if impl == "bad-op" then (d, { model := "bad-op" }) else
  let ev : Option RtpEv := match ws with
    | ["aapubr"] => some .pubr
    | ["aaoff"] => some .off
    | ["aartp", p, tag, m] => do pure (.rtp (← p.toNat?) (← tag.toNat?) (m == "1"))
    | _ => none
  match ev with
  | none => (d, { model := "bad-op" })
  | some ev =>
    let r := rtpStep d.rtp ev
    let model := match ev with | .off => "ok" | _ => rtpAnswer r.2
    let verdict := if impl == model then "ok"
      else "FAIL the unit handed to the readers is not the current publisher's (data of a previous publisher / missing data): " ++ (impl.take 60).toString
    ({ d with rtp := r.1 }, { model, spec := verdict })

def stepD (d : DD) (op impl : String) : DD × DrvOut :=
  match words op with
  | ["reset", _cap, _nf, "aah"] => ({ aa := true }, { model := "ok" })
  | "aapubr" :: _ => stepRtp d (words op) impl
  | "aartp" :: _ => stepRtp d (words op) impl
  | ["aaoff"] => stepRtp d (words op) impl
  | ["reset", _cap, _nf, "aa"] => ({ aa := true }, { model := "ok" })
  | "aapub" :: _ => stepAA d (words op) impl
  | "aawrite" :: _ => stepAA d (words op) impl
  | "aarace" :: _ => stepAA d (words op) impl
  | "reset" :: cap :: nf :: _share =>
    match cap.toNat?, nf.toNat? with
    | some cap, some nf => ({ st := { cap := cap }, sp := { cap := cap }, ok := true, nf := nf }, { model := "ok" })
    | _, _ => (d, { model := "bad-op" })
  | ["final"] =>
    -- every delivered unit was retained (not copied) by the harness and is re-read now
    let model := fmtRetained (d.st.rds.map fun r => (r.id, r.delivered.map expectedPayload))
    let atDelivery := fmtRetained (d.sp.rds.map fun r => (r.id, r.got))
    (d, { model, spec := if impl == atDelivery then "ok"
      else "FAIL a unit handed to a reader was modified after delivery (its payload no longer is what the callback received)" })
  | ws =>
    match parseEv d.nf d.cfg ws with
    | none => (d, { model := "bad-op" })
    | some ev =>
      let d := match ev with
        | .write 3 tag _ => { d with cfg := (C22.stepM4V d.cfg (writtenM4V tag)).1 }
        | _ => d
      let st' := step d.st ev
      let model := fmtAnswer d.st st'
      let extra := (words impl).drop 2
      match (if extra.any (·.startsWith "early=") then none else parseImpl impl) with
      | none =>
        let why := if extra.any (·.startsWith "early=") then "RemoveReader returned while a callback of the reader was still running"
          else "unparsable implementation answer: " ++ impl
        ({ d with st := st' }, { model, spec := "FAIL " ++ why })
      | some (ds, cs) =>
        match d.sp.step ev ds cs with
        | .ok sp' =>
          if extra.any (·.startsWith "stuck=") then
            ({ d with st := st', sp := sp' }, { model, spec := "FAIL a reader did not enter its callback / RemoveReader did not return (" ++ " ".intercalate extra ++ ")" })
          else ({ d with st := st', sp := sp' }, { model })
        | .error e => ({ d with st := st' }, { model, spec := "FAIL " ++ e })

def main (args : List String) : IO UInt32 := runDriver args ({} : DD) stepD
