import MtxVerif.Model.C13_Spec
open MtxVerif MtxVerif.C13

/-- driver state: the components the implementation reported as running -/
structure D where
  running : List Nat := []

def csv (s : String) : List String :=
  if s == "-" || s == "" then [] else s.splitOn ","

/-- `key=value` columns of an answer line -/
def cols (line : String) : List (String × String) :=
  (words line).filterMap fun w =>
    match w.splitOn "=" with
    | [k, v] => some (k, v)
    | _ => none

def parseLife (s : String) : Option (List (Nat × String)) :=
  (csv s).mapM fun e =>
    match e.splitOn ":" with
    | [c, v] => (idxOf? Gen.C13.compNames c).map fun k => (k, v)
    | _ => none

def step (d : D) (op impl : String) : D × DrvOut :=
  match words op with
  | "reset" :: _ =>
    match (cols impl).lookup "run" with
    | some r => ({ running := compIds (csv r) }, { model := impl })
    | none => (d, { model := "run=<components>" })
  | "reload" :: _ | "reloadf" :: _ | "api" :: _ | "burst" :: _ =>
    let c := cols impl
    match c.lookup "chg", c.lookup "ptr", c.lookup "fresh", c.lookup "life" with
    | some chgS, some ptrS, some freshS, some lifeS =>
      let chg := fieldIds (csv chgS)
      let ptr := fieldIds (csv ptrS)
      let fresh := compIds (csv freshS)
      let pred := predictLife d.running chg ptr fresh
      let model := s!"chg={chgS} ptr={ptrS} fresh={freshS} life={fmtLife pred}"
      match parseLife lifeS with
      | some life =>
        let after := life.filterMap fun (k, v) =>
          if v == "kept" || v == "recreated" || v == "started" then some k else none
        ({ running := after }, { model := model, spec := specKeeps life chg ptr fresh })
      | none => (d, { model := model, spec := "FAIL unparsable implementation answer" })
    | _, _, _, _ =>
      -- `invalid` (rejected by Validate) or `reloaderr` (a listener could not start): not a reload
      if impl.startsWith "panic" then
        (d, { model := "-", spec := "FAIL reloadConf panicked (nil component dereferenced)" })
      else (d, { model := "-" })
  | "observe" :: _ =>
    let c := cols impl
    match c.lookup "stale", c.lookup "badref" with
    | some st, some br => (d, { model := "-", spec := specApplies (csv st) (csv br) })
    | _, _ =>
      -- `dead`: the previous reload was refused; nothing to observe
      (d, { model := "-", spec := if impl == "dead" then "ok" else "FAIL unparsable implementation answer" })
  | _ => (d, { model := "bad-op" })

def main (args : List String) : IO UInt32 := runDriver args ({} : D) step
