import MtxVerif.Model.C29
open MtxVerif MtxVerif.C27 MtxVerif.C29

structure D where
  cfg : Cfg := ⟨[], 0, 0⟩
  sid : Nat := 0
  st : St := {}
  prior : List (Nat × FileSt) := []
  abandoned : Bool := false

def epochNs : Int := 1614834367000000000

def allFiles (d : D) : List (Nat × FileSt) :=
  d.prior ++ (if d.abandoned || !d.st.closed then crash d.st else d.st.files).map (fun f => (d.sid, f))

def parseTrackCfg (s : String) : Option TrackCfg :=
  let v := s.startsWith "v"
  ((s.drop 1).toString.toNat?).map fun r => ⟨v, r⟩

def trackInfos (c : Cfg) : List TrackInfo := c.tracks.zipIdx.map fun (t, i) => ⟨i + 1, t.rate⟩

/-- samples of a part with their dts in clock units since the segment start -/
def ptrkOf (t : PTrack) : PTrk :=
  let r := t.samples.foldl (fun (acc : List (Nat × Bool × Int) × Int) w => (acc.1 ++ [(w.id, w.nonSync, acc.2)], acc.2 + w.dur))
    ([], (t.base : Int))
  ⟨t.tid + 1, r.1⟩

/-- duration the list path sees: header (ms) if non-zero, else from the tracks of the last part -/
def fileDur (c : Cfg) (f : FileSt) : Int :=
  if f.hdrMs != 0 then (f.hdrMs : Int) * 1000000 else
  match f.parts.getLast? with
  | none => 0
  | some p => p.tracks.foldl (fun (m : Int) t =>
      let e := C28.mp4ToGo (Int64.ofNat (t.base + (t.samples.map (·.dur)).sum)) (rateOf c t.tid)
      max m e.toInt) 0

def gsegOf (c : Cfg) (sid : Nat) (f : FileSt) : GSeg :=
  let startRel : Int := f.startNTP - epochNs
  { seg := ⟨(startRel / 1000) * 1000, fileDur c f, sid, f.number⟩,
    startDTS := f.startDTS,
    parts := f.parts.map (fun p => p.tracks.map ptrkOf) }

def optInt (s : String) : Option (Option Int) := if s == "-" then some none else s.toInt?.map some

def isSub (a b : List Nat) : Bool := a.all (fun x => b.any (· == x))

/-- spans reported by /list, checked against the property for recordings whose segments do not overlap -/
def listSpec (gs : List GSeg) (st fin : Option Int) (impl : String) : String :=
  -- parse "200 [a+b;c+d]"
  if !impl.startsWith "200 [" then "ok" else
  let body := ((impl.drop 5).toString.dropEnd 1).toString
  let es : List (Int × Int) := if body.isEmpty then [] else
    (body.splitOn ";").filterMap fun e => match e.splitOn "+" with
      | [a, b] => match a.toInt?, b.toInt? with | some a, some b => some (a, b) | _, _ => none
      | _ => none
  -- `WF` of Props/C29: ends and starts non-decreasing, non-merged neighbours do not overlap
  let rec wfl : List Seg → Bool
    | a :: b :: r => decide (0 ≤ a.dur) && decide (a.start ≤ b.start) && decide (a.start + a.dur ≤ b.start + b.dur) &&
        (canConcat a b || decide (a.start + a.dur ≤ b.start)) && wfl (b :: r)
    | [a] => decide (0 ≤ a.dur)
    | [] => true
  let wf0 := wfl (sortSegs (gs.map (·.seg)))
  let rec ordered : List (Int × Int) → Bool
    | (a, d) :: (b, e) :: r => decide (a + d ≤ b) && ordered ((b, e) :: r)
    | _ => true
  let inWin := !wf0 || es.all fun (a, d) =>
    (match st with | some s => decide (s ≤ a) | none => true) &&
    (match fin with | some e => decide (a + d ≤ e) || decide (d < 0) | none => true)
  -- coverage: every recorded segment's interval, clipped to the window, lies inside some span
  let covered := !wf0 || gs.all fun g =>
    let a := match st with | some s => max s g.seg.start | none => g.seg.start
    let b := match fin with | some e => min e (g.seg.start + g.seg.dur) | none => g.seg.start + g.seg.dur
    decide (a > b) || es.any (fun (x, d) => decide (x ≤ a ∧ b ≤ x + d))
  -- nothing reported that was not recorded: every span is within the hull of concatenable segments
  -- (a merged span is the hull of its run: the small gaps between consecutive segments of one stream belong to it)
  let sortedAll := sortSegs (gs.map (·.seg))
  let rec inRun (a : Int) : List Seg → Bool
    | g :: n :: r => (decide (g.start ≤ a ∧ a ≤ g.start + g.dur) || (canConcat g n && decide (g.start ≤ a ∧ a ≤ n.start))) || inRun a (n :: r)
    | [g] => decide (g.start ≤ a ∧ a ≤ g.start + g.dur)
    | [] => false
  let within := es.all fun (a, d) => decide (d ≤ 0) || inRun a sortedAll
  -- the ordered / disjoint clause is about recordings whose segments do not overlap in time (hypothesis `WF` of
  -- `concat_ordered`); a recorder fed tracks that are skewed by more than a sample writes overlapping segments
  if wf0 && !ordered es then "FAIL list spans overlap or are out of order"
  else if !inWin then "FAIL list span not clipped to the requested interval"
  else if !covered then "FAIL recorded media inside the requested interval is not covered by the list"
  else if !within then "FAIL list span starts where nothing was recorded"
  else "ok"

def parseGet (impl : String) : Option (List GetOut) :=
  if !impl.startsWith "200 " then none else
  ((impl.drop 4).toString.splitOn "|").mapM fun t =>
    match t.splitOn ":" with
    | [h, ids] =>
      match (h.drop 1).toString.splitOn "@" with
      | [tid, base] => do
        let tid ← tid.toNat?
        let base ← base.toInt?
        let ids ← (if ids.isEmpty then some [] else (ids.splitOn ",").mapM (·.toNat?))
        pure ⟨tid, base, ids⟩
      | _ => none
    | _ => none

def getSpec (tracks : List TrackInfo) (gs : List GSeg) (st dur : Int) (impl : String) : String :=
  -- the run of segments GET can serve: first found + concatenable continuation
  match findSegments (gs.map (·.seg)) (some st) (some (st + dur)) with
  | none => if impl.startsWith "200" then "FAIL samples returned although no segment is in range" else "ok"
  | some l =>
    let found := l.filterMap (fun s => gs.find? (fun g => g.seg == s))
    match found with
    | [] => "ok"
    | first :: _ =>
      let outs := (parseGet impl).getD []
      let bad := tracks.filterMap fun ti =>
        let tl := trackTimeline ti st first none found
        let want := wantVisible ti dur tl
        let pre := allowedPreroll tl
        -- samples stored AFTER a visible one whose timestamp is nevertheless before the start (DTS not monotonic in the
        -- file): returning them in place is the best a player can get
        let late := ((tl.dropWhile (fun s => decide (s.dts < 0))).filter (fun s => decide (s.dts < 0))).map (·.id)
        let got := match outs.find? (·.tid == ti.tid) with | some o => o.ids | none => []
        let gotVisible := got.filter (fun i => want.any (· == i))
        let gotOther := got.filter (fun i => !want.any (· == i))
        -- decidable class: in recorded order a sample at/after the start is followed by one BEFORE the start (DTS not
        -- monotonic in the file: a zero-duration sample + the 1-tick truncation of the next part's BaseTime)
        let rec backwards : List Smp → Bool → Bool
          | [], _ => false
          | s :: r, seen => (seen && decide (s.dts < 0)) || backwards r (seen || decide (0 ≤ s.dts))
        if gotVisible != want && backwards tl false then
          some s!"NONMONO track {ti.tid}: samples in the window {want} but returned {got}: a later sample has a timestamp before the start and the muxer restarts its buffer"
        else if gotVisible != want then some s!"track {ti.tid}: samples in the window {want} but returned {got}"
        else if !isSub gotOther (pre ++ late) then some s!"track {ti.tid}: returned {gotOther} outside the window and outside the pre-roll {pre}"
        else if got != (tl.map (·.id)).filter (fun i => got.any (· == i)) then some s!"track {ti.tid}: not in recorded order: {got}"
        else none
      match bad.head? with
      | none => "ok"
      | some m => "VIOL " ++ m

def step (d : D) (op impl : String) : D × DrvOut :=
  match words op with
  | ["reset", sd, pd, ts, sid] =>
    match sd.toNat?, pd.toNat?, (ts.splitOn ",").mapM parseTrackCfg, sid.toNat? with
    | some sd, some pd, some ts, some sid =>
      let cfg : Cfg := ⟨ts, sd * 1000000, pd * 1000000⟩
      ({ cfg := cfg, sid := sid, st := init cfg }, { model := "ok" })
    | _, _, _, _ => (d, { model := "bad-op" })
  | ["w", t, dts, ntp, fl, id] =>
    match t.toNat?, dts.toNat?, ntp.toInt?, id.toNat? with
    | some t, some dts, some ntp, some id =>
      ({ d with st := write d.cfg d.st ⟨t, dts, epochNs + ntp * 1000000, fl == "n", id⟩ }, { model := "ok" })
    | _, _, _, _ => (d, { model := "bad-op" })
  | ["close"] => ({ d with st := close d.st }, { model := "ok" })
  | ["abandon"] => ({ d with abandoned := true }, { model := "ok" })
  | ["restart", sid] =>
    match sid.toNat? with
    | some sid =>
      let st := close d.st
      ({ d with prior := d.prior ++ st.files.map (fun f => (d.sid, f)), sid := sid, st := init d.cfg }, { model := "ok" })
    | none => (d, { model := "bad-op" })
  | ["segs"] => (d, { model := fmtFiles ((allFiles d).map (·.2)) })
  | ["list", s, e] =>
    match optInt s, optInt e with
    | some st, some fin =>
      let st := st.map (· * 1000)
      let fin := fin.map (· * 1000)
      let gs := (allFiles d).map (fun (sid, f) => gsegOf d.cfg sid f)
      -- no segment was ever written: the recording directory does not exist, filepath.WalkDir fails -> 400
      let m := if gs.isEmpty then "400" else match listModel (gs.map (·.seg)) st fin with
        | none => "404"
        | some es => "200 " ++ fmtEntries es
      let sp := if impl.startsWith "panic" then "FAIL GET /list panicked (handlerExitOnPanic exits the server): " ++ impl
        else listSpec gs st fin impl
      (d, { model := m, spec := sp })
    | _, _ => (d, { model := "bad-op" })
  | ["get", s, du] =>
    match s.toInt?, du.toInt? with
    | some st, some du =>
      let st := st * 1000
      let du := du * 1000000
      let gs := (allFiles d).map (fun (sid, f) => gsegOf d.cfg sid f)
      let tr := trackInfos d.cfg
      let m := if gs.isEmpty then "400" else match getModel tr gs st du with
        | none => "404"
        | some os => "200 " ++ fmtGet os
      let mFixed := if gs.isEmpty then "400" else match getFixed tr gs st du with
        | none => "404"
        | some os => "200 " ++ fmtGet os
      let mFixed2 := if gs.isEmpty then "400" else match getFixedWith muxStepFix tr gs st du with
        | none => "404"
        | some os => "200 " ++ fmtGet os
      let m := if impl != m && (impl == mFixed || impl == mFixed2) then impl else m
      let sp := if impl.startsWith "panic" then "VIOL-PANIC" else getSpec tr gs st du impl
      let sp := if sp == "VIOL-PANIC" then "FAIL GET /get panicked (handlerExitOnPanic exits the server): " ++ impl
        else if sp.startsWith "VIOL " then
          (if m == impl && (sp.drop 5).toString.startsWith "NONMONO " then
             "KNOWN get-dts-not-monotonic " ++ ((sp.drop 5).toString.drop 8).toString
           else "FAIL " ++ (sp.drop 5).toString)
        else sp
      (d, { model := m, spec := sp })
    | _, _ => (d, { model := "bad-op" })
  | _ => (d, { model := "bad-op" })

def main (args : List String) : IO UInt32 := runDriver args ({} : D) step
