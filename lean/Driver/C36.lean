import MtxVerif.Model.C36
open MtxVerif MtxVerif.C36

def sections : List Bytes :=
  ["paths", "paths_readers", "forward_dests", "hls_sessions", "hls_muxers", "rtsp_conns", "rtsp_sessions",
   "rtsps_conns", "rtsps_sessions", "rtmp_conns", "rtmps_conns", "srt_conns", "webrtc_sessions",
   "moq_sessions"].map strBytes

/-- `(<key> <valhex>)*` -/
def parseLabels : Nat → List String → Option (List Label × List String)
  | 0, rest => some ([], rest)
  | n + 1, k :: v :: rest => do
    let vb ← Hex.decode v
    let (ls, r) ← parseLabels n rest
    pure ((strBytes k, vb) :: ls, r)
  | _, _ => none

def parseFields : Nat → List String → Option (List (Bytes × Bytes) × List String)
  | 0, rest => some ([], rest)
  | n + 1, k :: v :: rest => do
    let (fs, r) ← parseFields n rest
    pure ((strBytes k, strBytes v) :: fs, r)
  | _, _ => none

def parseEntities : Nat → List String → Option (List Entity)
  | 0, [] => some []
  | 0, _ => none
  | n + 1, "E" :: sec :: nl :: rest => do
    let (labels, rest) ← parseLabels (← nl.toNat?) rest
    match rest with
    | base :: nf :: rest =>
      let (fields, rest) ← parseFields (← nf.toNat?) rest
      let es ← parseEntities n rest
      pure ({ sect := strBytes sec, labels := labels, base := strBytes base, fields := fields } :: es)
    | _ => none
  | _, _ => none

/-- a violation; if some label value is outside `safeValue` it is a regression of the label-value
escaping repaired in /repo c80dd26 (former finding F-C36, class `unescapedLabelValue`) -/
def violation (labelVals : List Bytes) (msg : String) : String :=
  if labelVals.all safeValue then "FAIL " ++ msg
  else "FAIL " ++ msg ++
    " (regression: a label value containing a double quote, a backslash or a line feed must be written escaped)"

def keysOK (m : List Label) : Bool :=
  m.all (fun p => validLabelName p.1) && (m.map (·.1)).Nodup

/-- model answer: the escaping renderer (Prometheus text-format rules) — the only renderer modelled. -/
def pick (_impl : String) (esc _raw : Bytes) : String := Hex.encode esc

def step (_ : Unit) (op impl : String) : Unit × DrvOut :=
  match words op with
  | "tags" :: n :: rest =>
    match n.toNat?.bind (fun n => parseLabels n rest) with
    | some (m, []) =>
      if !keysOK m then ((), { model := "-", spec := "ok" }) else
      let model := pick impl (tagsEsc m) (tagsRaw m)
      let spec :=
        match Hex.decode impl with
        | none => "FAIL unparsable implementation answer"
        | some b =>
          if (parseSample (sampleLine [120] b [48])).map (fun s => (s.name, sortLabels s.labels, s.value))
              == some ([120], sortLabels m, [48]) then "ok"
          else violation (m.map (·.2)) "the label set does not parse back to the map it was rendered from"
      ((), { model := model, spec := spec })
    | _ => ((), { model := "bad-op" })
  | "metric" :: name :: n :: rest =>
    match n.toNat?.bind (fun n => parseLabels n rest) with
    | some (m, kind :: a :: more) =>
      let key := strBytes name
      if !keysOK m || !validName key then ((), { model := "-", spec := "ok" }) else
      let val? : Option Bytes :=
        if kind == "i" then a.toInt?.map fmtInt
        else match more with
          | [txt] => some (strBytes txt)
          | _ => none
      match val? with
      | none => ((), { model := "bad-op" })
      | some val =>
        if !goodVal val then ((), { model := "bad-oracle", spec := "FAIL value text is not a float token" }) else
        let te := if m.isEmpty then [] else tagsEsc m
        let tr := if m.isEmpty then [] else tagsRaw m
        let model := pick impl (sampleLine key te val ++ [10]) (sampleLine key tr val ++ [10])
        let spec :=
          match Hex.decode impl with
          | none => "FAIL unparsable implementation answer"
          | some b =>
            if (parseDoc b).map (·.map fun s => (s.name, sortLabels s.labels, s.value))
                == some [(key, sortLabels m, val)] then "ok"
            else violation (m.map (·.2)) "the line does not parse back to the sample it was rendered from"
        ((), { model := model, spec := spec })
    | _ => ((), { model := "bad-op" })
  | "scrape" :: query :: _mask :: nent :: rest =>
    match nent.toNat?.bind (fun n => parseEntities n rest) with
    | none => ((), { model := "bad-op" })
    | some ents =>
      let vals := ents.flatMap (fun e => e.labels.map (·.2))
      let spec :=
        match words impl with
        | [status, body] =>
          if status != "200" then "FAIL status " ++ status
          else match Hex.decode body with
            | none => "FAIL unparsable implementation answer"
            | some b =>
              match parseDoc b with
              | none => violation vals "the exposition is not valid Prometheus text"
              | some samples =>
                match samples.find? (fun s => !sampleFaithful sections ents s) with
                | some s => violation vals
                    ("sample " ++ bytesStr s.name ++ " does not carry the labels and counter of any entity")
                | none =>
                  if query == "-" then
                    match ents.find? (fun e => !entityReported samples e) with
                    | some e => violation vals ("an entity of " ++ bytesStr e.sect ++ " is not reported")
                    | none => "ok"
                  else "ok"
        | _ => "FAIL unparsable implementation answer"
      ((), { model := "-", spec := spec })
  | _ => ((), { model := "bad-op" })

def main (args : List String) : IO UInt32 := runDriver args () step
