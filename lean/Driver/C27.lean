import MtxVerif.Model.C27
open MtxVerif MtxVerif.C27

structure CurFile where
  bytes : Bytes
  h : HInfo
  parts : List PInfo
  tracks : List C28.Track

structure D where
  cfg : Cfg := ⟨[], 0, 0⟩
  sid : Nat := 0
  st : St := {}
  prior : List (Nat × FileSt) := []     -- files of earlier instances, with their stream id
  priorDrops : List (Nat × Nat × Nat) := []   -- (stream id, segment number, track) of earlier instances
  gated : Bool := false
  cur : Option CurFile := none

def epochNs : Int := 1614834367000000000   -- 2021-03-04 05:06:07 UTC

/-- the files the writer model produced, in creation order -/
def modelFiles (d : D) : List (Nat × FileSt) := d.prior ++ (crash d.st).map (fun f => (d.sid, f))

/-- file name = start time to the microsecond -/
def nameKey (f : FileSt) : Int := f.startNTP / 1000

/-- what is on DISK: a segment created with the name of an earlier one truncates it (os.Create), so every path
shows the content of the LAST segment created with that name -/
def allFiles (d : D) : List (Nat × FileSt) :=
  let fs := modelFiles d
  fs.map fun (sid, f) =>
    match (fs.reverse.find? (fun g => nameKey g.2 == nameKey f)) with
    | some g => (sid, g.2)
    | none => (sid, f)

def hasCollision (d : D) : Bool :=
  let ks := (modelFiles d).map (fun x => nameKey x.2)
  ks.eraseDups.length != ks.length

def allDrops (d : D) : List (Nat × Nat × Nat) := d.priorDrops ++ d.st.drops.map (fun (n, t) => (d.sid, n, t))

/-- per file of the implementation's description: (track id - 1, first sample is non-sync) for every track -/
def firstFlags (impl : String) : List (List (Nat × Bool)) :=
  ((impl.splitOn "#").drop 1).map fun file =>
    match file.splitOn "[" with
    | [_, body] =>
      let body := (body.splitOn "]").headD ""
      let parts := body.splitOn ";"
      parts.foldl (fun (acc : List (Nat × Bool)) part =>
        (part.splitOn "|").foldl (fun acc tr =>
          match tr.splitOn ":" with
          | [h, ss] =>
            match ((h.drop 1).toString.splitOn "@").head?.bind (·.toNat?) with
            | some tid =>
              if acc.any (fun x => x.1 == tid - 1) then acc
              else acc ++ [(tid - 1, ((ss.splitOn ",").headD "").endsWith "n")]
            | none => acc
          | _ => acc) acc) []
    | _ => []

/-- "segments begin with a random-access sample when the stream has video", on the implementation's files -/
def syncSpec (d : D) (impl : String) : Option String :=
  let fl := firstFlags impl
  let fs := modelFiles d
  let nVideo := (d.cfg.tracks.filter (·.video)).length
  let bad := (fl.zip fs).filterMap fun (flags, (sid, f)) =>
    (flags.find? (fun (tid, ns) => ns && isVideo d.cfg tid)).map fun (tid, _) =>
      if (allDrops d).any (fun x => x == (sid, f.number, tid)) then
        s!"KNOWN sync-sample-discarded-late segment #{f.number}: the first sample of video track {tid + 1} is not a random-access sample (its pending key frame was discarded as 'received too late': another track is more than 1 s ahead, or the key frame is older than the segment)"
      else if nVideo ≥ 2 && (match f.trigger with | some t => t != tid | none => false) then
        s!"KNOWN second-video-track-not-sync segment #{f.number}: the first sample of video track {tid + 1} is not a random-access sample (the segment switch only looks at the track that triggers it)"
      else s!"FAIL segment #{f.number}: the first sample of video track {tid + 1} is not a random-access sample"
  -- FAIL first, then KNOWN
  match bad.find? (·.startsWith "FAIL") with
  | some m => some m
  | none => bad.head?

def parseTrackCfg (s : String) : Option TrackCfg :=
  let v := s.startsWith "v"
  ((s.drop 1).toString.toNat?).map fun r => ⟨v, r⟩

/-- numbers of the files of each instance must be 0,1,2,… in creation order (impl answer: "#n …" tokens) -/
def numbersOf (impl : String) : List Nat :=
  (impl.splitOn "#").drop 1 |>.filterMap fun t => (t.takeWhile Char.isDigit).toString.toNat?

def consecutiveRuns : List Nat → Bool
  | [] => true
  | [_] => true
  | a :: b :: r => (b == a + 1 || b == 0) && consecutiveRuns (b :: r)

def diskSpec (d : D) (impl : String) : String :=
  if impl == "none" then "ok" else
  if hasCollision d then
    "KNOWN segment-name-collision two segments of the recording have the same start time, hence the same file name: os.Create truncated the earlier one (segmentDuration < 1 s and a lagging track make nextSegmentStartingPos return the same pending sample twice)"
  else
  let ns := numbersOf impl
  if ns.head? != some 0 then "FAIL first segment of the recording is not numbered 0"
  else if !consecutiveRuns ns then "FAIL segment numbers on disk are not consecutive within an instance"
  else match syncSpec d impl with
    | some m => m
    | none => "ok"

def errStr : C28.Err → String
  | .moof => "moof" | .eof => "eof" | _ => "other"

/-- end (ns, as the list path computes it) of the media of the given parts: max over tracks of
    durationMp4ToGo(base + Σ durations) -/
def partEnd (tracks : List C28.Track) (p : PInfo) : Nat :=
  p.tracks.foldl (fun m t =>
    match C28.findTrack tracks t.tid with
    | some tr => max m (C28.mp4ToGo (Int64.ofNat (t.base + (t.samples.map (·.dur)).sum)) tr.ts).toInt.toNat
    | none => m) 0

/-- start (ns) of the last sample of the part: the list span must reach beyond it, or GET with the listed
    duration would not return the sample -/
def partLastStart (tracks : List C28.Track) (p : PInfo) : Nat :=
  p.tracks.foldl (fun m t =>
    match C28.findTrack tracks t.tid with
    | some tr => max m (C28.mp4ToGo (Int64.ofNat (t.base + (t.samples.dropLast.map (·.dur)).sum)) tr.ts).toInt.toNat
    | none => m) 0

/-- "t1:1,2|t2:3" → [(t1, [1,2]), (t2, [3])] -/
def parseServed (s : String) : List (String × List String) :=
  if s == "-" then [] else
  (s.splitOn "|").filterMap fun t => match t.splitOn ":" with
    | [h, ids] => some (h, if ids.isEmpty then [] else ids.splitOn ",")
    | _ => none

/-- every track's wanted ids are served first and in order (what follows them comes from the incomplete tail,
e.g. zero-filled payloads) -/
def servedCovers (got want : String) : Bool :=
  let g := parseServed got
  (parseServed want).all fun (t, ids) =>
    match g.find? (fun x => x.1 == t) with
    | some (_, gi) => ids.isPrefixOf gi
    | none => ids.isEmpty

def stepCut (cf : CurFile) (k z : Nat) (impl : String) : DrvOut :=
  let F := cf.bytes
  let k := min k F.length
  let img := image F k z
  let H := cf.h.hlen
  -- parse impl: list=<..> get=<ok|err> served=<..>
  match words impl with
  | [l, g, sv] =>
    let implList := (l.drop 5).toString
    let implGet := (g.drop 4).toString
    let implServed := (sv.drop 7).toString
    if k < H then
      -- the header itself is cut: no part can be served; the only demand is "no crash" (C28).  A zero-filled
      -- header has mvhd.Timescale = 0: the C28 model (with any Init oracle) predicts the division by zero.
      let hm := C28.readHeader C28.cur (C28.refLib .other) img
      if hm.1 == .panicDiv then
        if impl == "list=panic:div get=panic:div served=-" then
          { model := impl, spec := s!"KNOWN zero-header-div crash image with a zero-filled header ({k} bytes + {z} zeros): mvhd.Timescale = 0, integer divide by zero in segmentFMP4ReadHeader (same defect as C28 mvhd-timescale-zero)" }
        else if implList.startsWith "panic" || implGet.startsWith "panic" then
          { model := "list=panic:div get=panic:div served=-", spec := "FAIL reader panicked on a crash image: " ++ impl }
        else { model := "-", spec := if implServed == "-" then "ok" else "FAIL samples served from a segment whose header is incomplete" }
      else if implList.startsWith "panic" || implGet.startsWith "panic" then
        { model := "-", spec := "FAIL reader panicked on a crash image: " ++ impl }
      else
      { model := "-", spec := if implServed == "-" then "ok" else "FAIL samples served from a segment whose header is incomplete" }
    else
    if implList.startsWith "panic" || implGet.startsWith "panic" then
      { model := "-", spec := "FAIL reader panicked on a crash image: " ++ impl } else
    let lib := C28.refLib (.ok cf.tracks)
    let lm := C28.parseSegment C28.cur lib img
    let listS := match lm.1 with
      | .ok (_, d) => toString d.toInt
      | .err e => "err:" ++ errStr e
      | .panicDiv => "panic"
      | .hang => "hang"
    -- parts
    let complete := cf.parts.filter (fun p => p.off + p.moofLen + p.mdatLen ≤ k)
    let firstBad := cf.parts.find? (fun p => ¬ (p.off + p.moofLen + p.mdatLen ≤ k))
    let tornBy : Nat := match firstBad with | some p => k - p.off | none => 0
    let clean := z == 0 && tornBy == 0
    -- current code, pure truncation
    let curGet : Option (String × String) :=
      if z != 0 then none
      else if tornBy < 8 then
        (if complete.isEmpty then some ("err", "-") else some ("ok", servedOf complete))
      else none
    -- code with the proposed fix: only the complete parts are walked
    let fixGet : String × String := if complete.isEmpty then ("err", "-") else ("ok", servedOf complete)
    let getPart (g s : String) := s!"get={g} served={s}"
    let model :=
      match curGet with
      | some (g, s) => s!"list={listS} " ++ getPart g s
      | none =>
        -- torn tail / zero fill: the library decides; accept what happened unless it is the fixed behaviour
        s!"list={listS} " ++ getPart implGet implServed
    let model := if model != impl && s!"list={listS} " ++ getPart fixGet.1 fixGet.2 == impl then impl else model
    -- the property on the implementation's answer
    -- closed segment (header duration present): the true duration, to the millisecond;
    -- open segment ("the media lost is bounded by the last part"): the span must reach the last sample of
    -- every complete part but the last one (the duration is taken from the tracks of the last accepted moof
    -- only, which may end before samples of other tracks in the part before it)
    let needEnd :=
      if cf.h.hdrMs != 0 then complete.foldl (fun m p => max m (partEnd cf.tracks p)) 0
      else complete.foldl (fun m p => max m (partLastStart cf.tracks p)) 0
    -- what the duration would be if every accepted moof were taken into account (proposed fix)
    let acceptedParts := cf.parts.filter (fun p => p.off + p.moofLen + 8 ≤ k)
    let allEnd := acceptedParts.foldl (fun m p => max m (partEnd cf.tracks p)) 0
    let listOk : Bool := complete.isEmpty ||
      (match implList.toNat? with | some d => decide (d + 1000000 > needEnd) | none => false)
    let want := servedOf complete
    let getOk : Bool := complete.isEmpty || (implGet == "ok" && servedCovers implServed want)
    let spec :=
      if !listOk then
        if cf.h.hdrMs == 0 && implList == listS && allEnd + 1000000 > needEnd then
          s!"KNOWN open-duration-last-moof duration of an unclosed segment is taken from the tracks of the LAST moof only: {implList} ns, but a sample of another track in an earlier complete part starts at {needEnd} ns (list -> get with that duration does not return it)"
        else
        s!"FAIL list path lost complete parts: duration {implList}, complete parts end at {needEnd}"
      else if getOk then "ok"
      else if !clean then
        s!"KNOWN torn-tail-get GET of a segment with a torn tail ({tornBy} bytes of an incomplete part, {z} zero bytes): {complete.length} complete part(s) on disk, served [{implServed}] get={implGet}"
      else s!"FAIL complete parts not served although the file ends at a part boundary: served [{implServed}] want [{want}]"
    { model := model, spec := spec }
  | _ => { model := "-", spec := "FAIL unparsable answer: " ++ impl }

def step (d : D) (op impl : String) : D × DrvOut :=
  match words op with
  | "reset" :: sd :: pd :: ts :: sid :: rest =>
    match sd.toNat?, pd.toNat?, (ts.splitOn ",").mapM parseTrackCfg, sid.toNat? with
    | some sd, some pd, some ts, some sid =>
      let cfg : Cfg := ⟨ts, sd * 1000000, pd * 1000000⟩
      ({ cfg := cfg, sid := sid, st := init cfg, gated := rest == ["g"] }, { model := "ok" })
    | _, _, _, _ => (d, { model := "bad-op" })
  | ["w", t, dts, ntp, fl, id] =>
    match t.toNat?, dts.toNat?, ntp.toInt?, id.toNat? with
    | some t, some dts, some ntp, some id =>
      let x : In := ⟨t, dts, epochNs + ntp * 1000000, fl == "n", id⟩
      let d := { d with st := (if d.gated then gwrite else write) d.cfg d.st x }
      (d, { model := fmtFiles ((allFiles d).map (·.2)), spec := diskSpec d impl })
    | _, _, _, _ => (d, { model := "bad-op" })
  | ["wf", n, t, dts, ntp, fl, id] =>
    match n.toNat?, t.toNat?, dts.toNat?, ntp.toInt?, id.toNat? with
    | some n, some t, some dts, some ntp, some id =>
      let x : In := ⟨t, dts, epochNs + ntp * 1000000, fl == "n", id⟩
      let d := { d with st := writeFault (if d.gated then gwrite else write) d.cfg d.st x n }
      let m := fmtFiles ((allFiles d).map (·.2))
      -- the statement: header + complete parts + at most ONE incomplete tail (what the failed write left), no part twice
      let tornOf (s : String) : List String := ((s.splitOn " torn=").drop 1).map fun t => (t.takeWhile Char.isDigit).toString
      let sp := if tornOf impl != tornOf m then
          s!"FAIL after a failed part write the file does not end with exactly the bytes the failed write left: torn tails on disk {tornOf impl}, expected {tornOf m} (the failed part was written again?)"
        else diskSpec d impl
      (d, { model := m, spec := sp })
    | _, _, _, _, _ => (d, { model := "bad-op" })
  | ["close"] =>
    let d := { d with st := close d.st }
    (d, { model := fmtFiles ((allFiles d).map (·.2)), spec := diskSpec d impl })
  | ["restart", sid] =>
    match sid.toNat? with
    | some sid =>
      let st := close d.st
      let d := { d with prior := d.prior ++ st.files.map (fun f => (d.sid, f)),
                        priorDrops := d.priorDrops ++ st.drops.map (fun (n, t) => (d.sid, n, t)),
                        sid := sid, st := init d.cfg }
      (d, { model := fmtFiles ((allFiles d).map (·.2)), spec := diskSpec d impl })
    | none => (d, { model := "bad-op" })
  | ["concat", i, j] =>
    match i.toNat?, j.toNat? with
    | some i, some j =>
      let fs := allFiles d
      match fs[i]?, fs[j]? with
      | some a, some b =>
        let m := canConcat a.1 a.2.number b.1 b.2.number
        let spec :=
          if hasCollision d then
            "KNOWN segment-name-collision two segments of the recording have the same file name: the earlier one was truncated"
          else if j == i + 1 && a.1 == b.1 && impl != "true" then
            "FAIL consecutive segments of one recorder instance are not recognised as continuous"
          else if a.1 != b.1 && impl == "true" then "FAIL segments of different instances are merged"
          else "ok"
        (d, { model := toString m, spec := spec })
      | _, _ => (d, { model := "nofile" })
    | _, _ => (d, { model := "bad-op" })
  | ["file", i] =>
    match i.toNat? with
    | some i =>
      match (allFiles d)[i]? with
      | none => ({ d with cur := none }, { model := "nofile" })
      | some (sid, fm) =>
        match Hex.decode impl with
        | none => ({ d with cur := none }, { model := "-", spec := "FAIL file could not be read back: " ++ impl })
        | some b =>
          match parseHeader b with
          | none => ({ d with cur := none }, { model := "-", spec := "FAIL recorded file has no ftyp+moov(mvhd, mtxi) header" })
          | some h =>
            let ps := parseParts b (b.length + 1) h.hlen
            let total := ps.foldl (fun a p => a + p.moofLen + p.mdatLen) h.hlen
            let tracks : List C28.Track := d.cfg.tracks.zipIdx.map fun (t, i) => ⟨i + 1, t.rate⟩
            let got := fmtParsed h ps ++ (if b.length > total then s!" torn={b.length - total}" else "")
            let want := fmtFile fm
            let spec :=
              if total + fm.torn != b.length then
                s!"FAIL recorded file is not header ++ complete moof/mdat pairs: {total} of {b.length} bytes parsed"
              else if h.sid != sid then "FAIL stream id in the header differs from the instance's"
              else if got != want then s!"FAIL bytes on disk differ from the writer model: disk {got} model {want}"
              else "ok"
            ({ d with cur := some ⟨b, h, ps, tracks⟩ }, { model := "-", spec := spec })
    | none => (d, { model := "bad-op" })
  | ["cut", k, z] =>
    match k.toNat?, z.toNat?, d.cur with
    | some k, some z, some cf => (d, stepCut cf k z impl)
    | some _, some _, none => (d, { model := "nofile" })
    | _, _, _ => (d, { model := "bad-op" })
  | _ => (d, { model := "bad-op" })

def main (args : List String) : IO UInt32 := runDriver args ({} : D) step
