import MtxVerif.Model.C30
open MtxVerif MtxVerif.C30
open MtxVerif.C26 (tokenize decodeV decodedPath decodedStart DateArgs Start allM consistent)
open MtxVerif.C06 (isValidPathName commonPath)

/-- stateless: the model uses the code's Decode (anchored, repeated placeholders agree; fix 2f5d4aa). -/
structure D where
  anch : Bool := true
  coh : Bool := true

/-! parsing -/

def parseConfs (col : String) : Option (List Conf) :=
  (col.splitOn ",").mapM fun e =>
    match e.splitOn ":" with
    | [k, kind, f, d] => do
      let k ← Hex.decode k
      let f ← Hex.decode f
      let d ← d.toNat?
      pure { key := k, isRegexp := kind == "R", fmt := f, deleteAfter := d }
    | _ => none

def parseHexList (col : String) : Option (List Bytes) :=
  if col == "-" then some [] else (col.splitOn ",").mapM Hex.decode

abbrev RxTable := List (Bytes × Bytes × Bool)
abbrev CalTable := List (DateArgs × Int)

def parseRx (s : String) : RxTable :=
  if s == "-" then [] else
  (s.splitOn ";").filterMap fun e =>
    match e.splitOn "=" with
    | [kv, b] =>
      match kv.splitOn "~" with
      | [k, v] => do
        let k ← Hex.decode k
        let v ← Hex.decode v
        pure (k, v, b == "1")
      | _ => none
    | _ => none

def parseCalEntry (e : String) : Option (DateArgs × Int) :=
  match e.splitOn "=" with
  | [k, v] =>
    match k.splitOn ".", v.toInt? with
    | [y, mo, d, h, mi, s, us, loc], some v =>
      match y.toNat?, mo.toNat?, d.toNat?, h.toNat?, mi.toNat?, s.toNat?, us.toNat? with
      | some y, some mo, some d, some h, some mi, some s, some us =>
        let l : Option Int := if loc == "L" then none else loc.toInt?
        some ({ year := y, month := mo, day := d, hour := h, minute := mi, sec := s, micros := us, loc := l }, v)
      | _, _, _, _, _, _, _ => none
    | _, _ => none
  | _ => none

def parseCal (s : String) : CalTable :=
  if s == "-" then [] else (s.splitOn ";").filterMap parseCalEntry

def rxLookup (t : RxTable) (k v : Bytes) : Option Bool :=
  (t.find? fun e => e.1 == k && e.2.1 == v).map (·.2.2)

def calLookup (t : CalTable) : Start → Option Int
  | .unix us => some us
  | .date a => (t.find? (·.1 = a)).map (·.2)

def mkEnv (d : D) (cwd : Bytes) (now : Int) (rx : RxTable) (cal : CalTable) (dfltRx : Bool) (dfltCal : Int) : Env :=
  { cwd, anch := d.anch, coh := d.coh, now,
    rx := fun k v => (rxLookup rx k v).getD dfltRx,
    cal := fun s => (calLookup cal s).getD dfltCal }

def insertStr (s : String) : List String → List String
  | [] => [s]
  | x :: xs => if s < x then s :: x :: xs else x :: insertStr s xs

def fmtList (cwd : Bytes) (l : List Bytes) : String :=
  if l.isEmpty then "-" else
  ",".intercalate ((l.map fun f => Hex.encode (f.drop (cwd.length + 1))).foldr insertStr [])

/-! spec: "a segment of a path whose configuration has a non-zero recordDeleteAfter and whose start is
older than now minus that delay" -/

/-- candidate path names a file could belong to, seen from conf `c`. -/
def candNames (E : Env) (c : Conf) (f : Bytes) : List Bytes :=
  if !c.isRegexp then [c.key]
  else
    let rp := recPathRx E c.fmt
    if !inWalk (commonPath rp) f then []
    else ((allM (tokenize rp) f).filter fun cr => cr.2.isEmpty && consistent cr.1).map fun cr => decodedPath cr.1

/-- FindPathConf with an oracle table that may lack entries (`none` = cannot tell). -/
def confOf? (E : Env) (rx : RxTable) (confs : List Conf) (name : Bytes) : Option Conf :=
  if confs.all (fun c => !c.isRegexp || (rxLookup rx c.key name).isSome) then confOf E confs name else none

/-- `f` is, as a whole name, a recorder-written segment of path `p` under conf `c`, expired. -/
def expiredSegment (strict : Bool) (E : Env) (cal : CalTable) (c : Conf) (p f : Bytes) : Bool :=
  let rp := recPath E c.fmt p
  inWalk (commonPath rp) f &&
  match decodeV true true (tokenize rp) f with
  | some m =>
    match calLookup cal (decodedStart m.caps) with
    | some st => if strict then decide (st < E.now - (c.deleteAfter : Int)) else decide (st ≤ E.now - (c.deleteAfter : Int))
    | none => false
  | none => false

/-- (conf, path name) pairs under which `f` is an expired segment of a path with retention. -/
def justifiers (strict : Bool) (E : Env) (rx : RxTable) (cal : CalTable) (confs : List Conf) (f : Bytes) :
    List (Conf × Bytes) :=
  confs.flatMap fun c => (candNames E c f).filterMap fun p =>
    if (isValidPathName p).isNone then
      match confOf? E rx confs p with
      | some c' => if c'.deleteAfter != 0 && expiredSegment strict E cal c' p f then some (c', p) else none
      | none => none
    else none

/-- decidable class of the known finding `repeatedPlaceholder`: the path `p` of the segment `f` is served
by a regexp conf, and some regexp conf whose record path has several `%path` could list `p` from `f`
(a coherent parse exists and its regexp matches `p`) but the pattern's first full match is incoherent,
so the code rejects the file in the path-listing flow. -/
def repeatedMiss (E : Env) (rx : RxTable) (confs : List Conf) (c' : Conf) (p f : Bytes) : Bool :=
  c'.isRegexp && confs.any fun c =>
    let toks := tokenize (recPathRx E c.fmt)
    c.isRegexp && MtxVerif.C26.pathCount toks ≥ 2 && inWalk (commonPath (recPathRx E c.fmt)) f &&
    (match MtxVerif.C26.matchAnchored toks f with
      | some m => !consistent m.caps
      | none => false) &&
    (candNames E c f).contains p && rxLookup rx c.key p == some true

def justified (strict : Bool) (E : Env) (rx : RxTable) (cal : CalTable) (confs : List Conf) (f : Bytes) : Bool :=
  !(justifiers strict E rx cal confs f).isEmpty

def step (d : D) (op impl : String) : D × DrvOut :=
  match words op with
  | ["reset"] => (d, { model := "ok" })
  | ["reload", _nowS, d0S, dsS] =>
    -- cam1's retention in the initial configuration and in the configurations delivered during the first pass
    match d0S.toNat?, (if dsS == "-" then some [] else (dsS.splitOn ",").mapM String.toNat?) with
    | some d0, some ds =>
      let mk (d : Nat) : List Conf := [{ key := strBytes "cam1", isRegexp := false, fmt := strBytes "recordings/%path/%s", deleteAfter := d }]
      let cur := inForce (mk d0) (ds.map mk)
      let curDel := (cur.head?.map (·.deleteAfter)).getD 0
      -- the segment is one hour old: pass 1 (initial configuration) or the pass after the deliveries removes it
      let gone := d0 != 0 || curDel != 0
      let model := if gone then "cam1=deleted" else "cam1=kept"
      let spec :=
        if impl == "cam1=deleted" && !gone then
          "FAIL a pass used a stale configuration: deleted a segment of a path whose current recordDeleteAfter is 0"
        else if impl == "cam1=kept" && gone then
          "FAIL a pass used a stale configuration: an expired segment was not deleted"
        else if impl == "cam1=deleted" || impl == "cam1=kept" then "ok"
        else "FAIL the cleaner did not complete its passes"
      (d, { model, spec })
    | _, _ => (d, { model := "bad-op" })
  | ["run", cwdH, nowS, confsS, filesS, "|", rxS, "|", calS] =>
    match Hex.decode cwdH, nowS.toInt?, parseConfs confsS, parseHexList filesS with
    | some cwd, some now, some confs, some rels =>
      let files := rels.map fun r => cwd ++ 47 :: r
      let rx := parseRx rxS
      let cal := parseCal calS
      let E := mkEnv d cwd now rx cal false 0
      let run (E : Env) : String :=
        let d1 := deleted E files confs
        let left := files.filter fun f => !d1.contains f
        s!"{fmtList cwd d1} {fmtList cwd (deleted E left confs)}"
      let m1 := run E
      -- would a missing oracle entry have mattered?
      let m2 := run (mkEnv d cwd now rx cal true 100000000000000000000)
      let model := if m1 == m2 then m1 else "-"
      let codeDel (_ : Unit) := deleted (mkEnv { anch := false, coh := false } cwd now rx cal false 0) files confs
      let fixDel (_ : Unit) := deleted (mkEnv { anch := true, coh := true } cwd now rx cal false 0) files confs
      let spec :=
        match words impl with
        | [g1, g2] =>
          match parseHexList g1, parseHexList g2 with
          | some g1, some g2 =>
            let g1 := g1.map fun r => cwd ++ 47 :: r
            if !g2.isEmpty then "FAIL a second pass deleted further files"
            else
              -- "older than now - delay": deletion at exact equality is tolerated, not demanded
              let unjust := g1.filter fun f => !justified false E rx cal confs f
              let missed := files.filter fun f => justified true E rx cal confs f && !g1.contains f
              match unjust.head?, missed.head? with
              | some f, _ =>
                if (codeDel ()).contains f && !(fixDel ()).contains f then
                  s!"FAIL deleted a look-alike file that is not a segment (regression of F-C26): {Hex.encode f}"
                else s!"FAIL deleted a file that is not an expired segment of a path with retention: {Hex.encode f}"
              | none, some f =>
                if (justifiers true E rx cal confs f).all fun cp => repeatedMiss E rx confs cp.1 cp.2 f then
                  s!"KNOWN repeatedPlaceholder an expired segment was not deleted (record path with several %path): {Hex.encode f}"
                else s!"FAIL an expired segment was not deleted: {Hex.encode f}"
              | none, none => "ok"
          | _, _ => "FAIL unparsable implementation answer"
        | _ => "FAIL implementation panicked or gave an unparsable answer"
      (d, { model, spec })
    | _, _, _, _ => (d, { model := "bad-op" })
  | _ => (d, { model := "bad-op" })

def main (args : List String) : IO UInt32 := runDriver args ({} : D) step
