import MtxVerif.Model.C11
import MtxVerif.Gen.C11
open MtxVerif MtxVerif.C11

/-- does the real `deepClone` have a `case reflect.Interface` (regenerated from the source) -/
def ci : Bool := MtxVerif.Gen.C11.caseInterface

structure D where
  name : String := ""
  ty : Option Ty := none

/-- the property is about `conf.Conf` and `conf.Path`; the synthetic types only exercise the model -/
def subject (name : String) : Bool := name == "conf" || name == "lconf" || name == "path"

def fmtAlias (l : List String) : String := if l.isEmpty then "-" else ",".intercalate l

/-- "<V> slots=<n> alias=<p,p|->" -/
def parseImpl (impl : String) : Option (V × Nat × List String) :=
  match words impl with
  | [v, s, a] => do
    let v ← parseVAll v
    let s ← ((s.drop 6).toString).toNat?
    let a := (a.drop 6).toString
    pure (v, s, if a == "-" then [] else a.splitOn ",")
  | _ => none

/-- `clonem <Method> …` is a `clone` through another copy constructor: same model, same spec -/
def normalize : List String → List String
  | ["clonem", _, name, seed, v] => ["clone", name, seed, v]
  | ws => ws

def step (d : D) (op impl : String) : D × DrvOut :=
  match normalize (words op) with
  | ["reset", name, tyS] =>
    match parseTyAll tyS with
    | none => ({}, { model := "bad-op", spec := "FAIL unparsable type tree" })
    | some ty =>
      let spec :=
        if !subject name then "ok"
        else if noUnhandled ci ty then "ok"
        else "FAIL type tree of " ++ name ++ " contains a chan/func/array/unknown-interface node reachable through settable fields: deepClone cannot copy it"
      ({ name, ty := some ty }, { model := "ok", spec })
  | ["clone", name, _, vS] =>
    match d.ty, parseVAll vS with
    | some ty, some v =>
      if name != d.name then (d, { model := "bad-op", spec := "FAIL clone op does not match the reset type" })
      else if !hasTy v ty then (d, { model := "bad-type", spec := "FAIL value does not have the announced type tree" })
      else
        let n := maxLoc v
        let copy := (cloneRoot ci v n).1
        let sl := match copy with
          | .ptr l p => slots false l "" p
          | _ => []
        let model := showV copy ++ " slots=" ++ toString sl.length ++ " alias=" ++ fmtAlias (aliased n sl)
        let spec :=
          if !subject name then "ok"
          else match parseImpl impl with
            | some (iv, _, al) => specClone n iv al
            | none => "FAIL unparsable implementation answer: " ++ (impl.take 60).toString
        (d, { model, spec })
    | _, _ => (d, { model := "bad-op", spec := "FAIL unparsable value or missing reset" })
  | ["apiread", _, _] =>
    -- reads of the configuration through the API work on a copy: the running configuration is untouched
    (d, { model := "changed=0",
          spec := if impl == "changed=1" then "FAIL an API read (GET) changed the running configuration" else "ok" })
  | ["reject", _, slot, vS] =>
    match d.ty, parseVAll vS with
    | some ty, some v =>
      if !hasTy v ty then (d, { model := "bad-type", spec := "FAIL value does not have the announced type tree" })
      else
        let n := maxLoc v
        let copy := (cloneRoot ci v n).1
        let sl := match copy with
          | .ptr l p => slots false l "" p
          | _ => []
        let model := match sl.find? (·.1 == slot) with
          | some s => if s.2 < n then "changed=1" else "changed=0"
          | none => "no-such-slot"
        let spec :=
          if impl == "changed=1" then "FAIL a rejected edit of the copy changed the running configuration (slot " ++ slot ++ ")"
          else "ok"
        (d, { model, spec })
    | _, _ => (d, { model := "bad-op", spec := "FAIL unparsable value or missing reset" })
  | _ => (d, { model := "bad-op" })

def main (args : List String) : IO UInt32 := runDriver args ({} : D) step
