import MtxVerif.Model.C28
open MtxVerif MtxVerif.C28

/-- "t=1:90000,2:48000" / "t=-" / "err" / "none" / "libpanic" -/
def parseTracks (s : String) : Option (List Track) :=
  if s == "-" then some [] else
  (s.splitOn ",").mapM fun p => match p.splitOn ":" with
    | [a, b] => do pure ⟨← a.toNat?, ← b.toNat?⟩
    | _ => none

structure InitOr where
  res : LibRes (List Track)
  libPanic : Bool := false

/-- "t=<tracks>" / "err-eof" / "err-other" / "none" (prefix not in the file: never consulted) / "libpanic" -/
def parseInitOracle (s : String) : InitOr :=
  if s.startsWith "t=" then
    match parseTracks (s.drop 2).toString with
    | some t => { res := .ok t }
    | none => { res := .other, libPanic := true }
  else if s == "libpanic" then { res := .other, libPanic := true }
  else if s == "err-eof" then { res := .eof }
  else { res := .other }

def parseEvents (s : String) : Option (List MEv) :=
  if s == "-" then some [] else
  (s.splitOn ",").mapM fun
    | "o" => some .other
    | "h1" => some (.tfhd true)
    | "h0" => some (.tfhd false)
    | "d00" => some (.tfdt false false)
    | "d10" => some (.tfdt true false)
    | "d11" => some (.tfdt true true)
    | "r1" => some (.trun true)
    | "r0" => some (.trun false)
    | _ => none

/-- split "… alloc=<n>" -/
def splitAlloc (impl : String) : String × Option Nat :=
  match impl.splitOn " alloc=" with
  | [a, b] => (a, b.toNat?)
  | _ => (impl, none)

def tsOK (o : InitOr) : Bool := match o.res with
  | .ok tr => tr.all (fun t => t.ts != 0)
  | _ => true

/-- verdict + model answer for an in-process parser op, given the model's two predictions. -/
def judge (n : Nat) (impl : String) (curS fixS : String) (curAl fixAl : List Alloc) (curPanics : Bool) : DrvOut :=
  let (o, m?) := splitAlloc impl
  match m? with
  | none => { model := curS ++ s!" alloc={sumReq curAl}", spec := "FAIL implementation answer carries no allocation measurement: " ++ impl }
  | some m =>
    let bound := n + slack n
    if o == curS && allocConsistent n m curAl then
      if curPanics then
        { model := impl, spec := "KNOWN mvhd-timescale-zero mvhd.Timescale = 0 divides by zero in segmentFMP4ReadHeader (inside parseSegments goroutine: kills the process)" }
      else if m > bound then
        { model := impl, spec := s!"KNOWN declared-size-alloc a size field of the file is used for make() before it is compared with the file: {m} bytes allocated for a {n}-byte file" }
      else { model := impl }
    else if o == fixS && allocConsistent n m fixAl then
      { model := impl }
    else
      let sp :=
        if o.startsWith "panic" then "FAIL parser panicked outside the known classes: " ++ o
        else if m > bound then s!"FAIL {m} bytes allocated for a {n}-byte file, not explained by the model"
        else "ok"
      { model := curS ++ s!" alloc={sumReq curAl}", spec := sp }

/-- capped child: address space limited to (current + 1 GiB).  Requests ≥ 1.25 GiB must kill it, requests
< 768 MiB must not; in between either may happen. -/
def capLo : Nat := 805306368
def capHi : Nat := 1342177280

def knownAllocCrash : String :=
  "KNOWN declared-size-alloc a size field of the file is used for make() before it is compared with the file: the process dies when that much address space is not available (child capped at +1 GiB)"

def judgeX (n : Nat) (impl : String) (curS fixS : String) (curAl fixAl : List Alloc) (curPanics : Bool) : DrvOut :=
  let mx := maxReq curAl
  if impl == "crash alloc" then
    if mx ≥ capLo then { model := impl, spec := knownAllocCrash }
    else { model := curS ++ s!" alloc={sumReq curAl}", spec := "FAIL child process ran out of memory, not explained by the model" }
  else if mx ≥ capHi then
    -- the current code would have died: only the fixed behaviour explains a normal answer
    let r := judge n impl fixS fixS fixAl fixAl false
    if r.model == impl then r else { model := "crash alloc", spec := r.spec }
  else judge n impl curS fixS curAl fixAl curPanics

def stepParse (capped : Bool) (initS hex impl : String) : DrvOut :=
  match Hex.decode hex with
  | none => { model := "bad-op" }
  | some f =>
    let io := parseInitOracle initS
    if io.libPanic then { model := "-", spec := "FAIL fmp4.Init.Unmarshal panicked (library)" } else
    if !tsOK io then { model := "-", spec := "FAIL library contract broken: Init.Unmarshal returned a track with TimeScale 0" } else
    let lib := refLib io.res
    let c := parseSegment cur lib f
    let x := parseSegment fixed lib f
    (if capped then judgeX else judge) f.length impl (fmtParse c.1) (fmtParse x.1) c.2 x.2 (c.1 == .panicDiv)

def stepDur (capped : Bool) (trS hex impl : String) : DrvOut :=
  match Hex.decode hex, parseTracks trS with
  | some f, some tr =>
    let lib := refLib .other
    let c := durFromParts cur lib f tr
    let x := durFromParts fixed lib f tr
    (if capped then judgeX else judge) f.length impl (fmtDur c.1) (fmtDur x.1) c.2 x.2 false
  | _, _ => { model := "bad-op" }

def fmtMux : MOut → String
  | .noPanic => "nopanic"
  | .panicNil => "panic nil"

def stepMux (capped : Bool) (evS declS hex impl : String) : DrvOut :=
  match parseEvents evS, declS.toNat? with
  | some evs, some decl =>
    if capped && impl == "crash alloc" then
      (if decl ≥ capLo then { model := impl, spec := knownAllocCrash }
       else { model := "-", spec := s!"FAIL child process ran out of memory although the declared sample sizes sum to {decl}" }) else
    let n := (if hex == "-" then 0 else hex.length / 2)
    let c := muxWalk false false false evs
    let x := muxWalk true false false evs
    let (o, m?) := splitAlloc impl
    let m := m?.getD 0
    let bound := n + slack n
    if o == fmtMux c then
      if c == .panicNil then
        { model := impl, spec := "KNOWN mux-nil-box-order a tfdt/trun box met before any tfhd/tfdt: nil dereference in segmentFMP4MuxParts (HTTP handler: handlerExitOnPanic exits the process)" }
      else if m > bound then
        if m ≤ decl + slack n then
          { model := impl, spec := s!"KNOWN declared-size-alloc trun SampleSize is used for make() before it is compared with the file: {m} bytes allocated for a {n}-byte file" }
        else { model := impl, spec := s!"FAIL {m} bytes allocated for a {n}-byte file, declared sample sizes sum to {decl}" }
      else { model := impl }
    else if o == fmtMux x then
      if m > bound then { model := impl, spec := s!"FAIL {m} bytes allocated for a {n}-byte file" } else { model := impl }
    else
      { model := fmtMux c, spec := if o.startsWith "panic" then "FAIL mux walk panicked outside the known classes: " ++ o else "ok" }
  | _, _ => { model := "bad-op" }

/-- e2e list k (init hex)^k -/
def stepE2EList (variant : String) (args0 : List String) (impl : String) : DrvOut :=
  -- end = start of the first segment: the later segments (10 s apart) are not selected, hence not parsed
  -- listA: start is after every segment start: FindSegments keeps the LAST segment only
  let args := if variant == "listE0" || variant == "listSE0" then args0.take 2
    else if variant == "listA" then args0.drop (args0.length - 2) else args0
  let rec go : List String → Bool → Bool → Bool → Bool → Option (Bool × Bool × Bool × Bool)
    | [], anyPanic, anyErr, fxErr, bad => some (anyPanic, anyErr, fxErr, bad)
    | i :: h :: rest, anyPanic, anyErr, fxErr, bad =>
      match Hex.decode h with
      | none => none
      | some f =>
        let io := parseInitOracle i
        let lib := refLib io.res
        let c := parseSegment cur lib f
        let x := parseSegment fixed lib f
        let isErr (o : Out (List Track × Int64)) := match o with | .err _ => true | _ => false
        go rest (anyPanic || c.1 == .panicDiv) (anyErr || isErr c.1) (fxErr || isErr x.1) (bad || io.libPanic || !tsOK io)
    | _, _, _, _, _ => none
  match go args false false false false with
  | none => { model := "bad-op" }
  | some (anyPanic, anyErr, fxErr, bad) =>
    if bad then { model := "-", spec := "FAIL library oracle panicked or returned TimeScale 0" } else
    -- listB: the window ends before every segment: FindSegments finds nothing, no file is opened -> 404
    -- listA: the window starts after every segment (they last < 2 h): parsed, then the only span ends before start -> 404
    let okS := if variant == "listA" then "nocrash 404" else "nocrash 200"
    let curS := if variant == "listB" then "nocrash 404"
      else if anyPanic then "crash div" else if anyErr then "nocrash 500" else okS
    let fixS := if variant == "listB" then "nocrash 404" else if fxErr then "nocrash 500" else okS
    let anyPanic := anyPanic && variant != "listB"
    if impl == curS then
      if anyPanic then { model := impl, spec := "KNOWN mvhd-timescale-zero GET /list killed the server process (integer divide by zero in a parseSegments goroutine)" }
      else { model := impl }
    else if impl == fixS then { model := impl }
    else { model := curS, spec := if impl.startsWith "crash" || impl == "timeout" then "FAIL server process died or hung on GET /list: " ++ impl else "ok" }

def stepE2EGet (initS evS hex impl : String) : DrvOut :=
  match Hex.decode hex, parseEvents evS with
  | some f, some evs =>
    let io := parseInitOracle initS
    if io.libPanic || !tsOK io then { model := "-", spec := "FAIL library oracle panicked or returned TimeScale 0" } else
    let lib := refLib io.res
    let c := readHeader cur lib f
    let x := readHeader fixed lib f
    let hdrS (r : Res (List Track × Nat)) (guard : Bool) : String := match r.1 with
      | .panicDiv => "crash div"
      | .hang => "timeout"
      | .err _ => "nocrash 400"
      | .ok _ => match muxWalk guard false false evs with
        | .panicNil => "crash nil"
        | .noPanic => "nocrash"
    let curS := hdrS c false
    let fixS := hdrS x true
    let agrees (p : String) := if p == "nocrash" then impl.startsWith "nocrash " else impl == p
    if agrees curS then
      if curS == "crash div" then { model := impl, spec := "KNOWN mvhd-timescale-zero GET /get killed the server process (integer divide by zero, handlerExitOnPanic)" }
      else if curS == "crash nil" then { model := impl, spec := "KNOWN mux-nil-box-order GET /get killed the server process (nil dereference in segmentFMP4MuxParts, handlerExitOnPanic)" }
      else { model := impl }
    else if agrees fixS then { model := impl }
    else { model := curS, spec := if impl.startsWith "crash" || impl == "timeout" then "FAIL server process died or hung on GET /get: " ++ impl else "ok" }
  | _, _ => { model := "bad-op" }

/-- multi-segment GET: no prediction, the property itself: data or an error, never a crash, no unbounded allocation -/
def stepMget (hexes : List String) (impl : String) : DrvOut :=
  let n := hexes.foldl (fun a h => a + (if h == "-" then 0 else h.length / 2)) 0
  let (o, m?) := splitAlloc impl
  if o.startsWith "panic" || o.startsWith "crash" || o == "timeout" then
    { model := "-", spec := "FAIL GET /get over consecutive segments crashed: " ++ o }
  else match m? with
    | some m => if m > n + slack n then { model := "-", spec := s!"FAIL {m} bytes allocated for {n} bytes of segments" } else { model := "-" }
    | none => { model := "-" }

def step (u : Unit) (op impl : String) : Unit × DrvOut :=
  match words op with
  | "mget" :: _ :: _ :: hexes => (u, stepMget hexes impl)
  | "mgetx" :: _ :: _ :: hexes => (u, stepMget hexes impl)
  | "e2e" :: "mget" :: _ :: hexes => (u, stepMget hexes impl)
  | "e2e" :: "names" :: _ =>
    (u, if impl.startsWith "crash" || impl == "timeout" || impl == "nostatus" then
          { model := "-", spec := "FAIL server process died or hung on a recording directory with foreign file names: " ++ impl }
        else { model := "-" })
  | ["parse", i, h] => (u, stepParse false i h impl)
  | ["dur", t, h] => (u, stepDur false t h impl)
  | ["mux", e, d, h] => (u, stepMux false e d h impl)
  | ["parsex", i, h] => (u, stepParse true i h impl)
  | ["durx", t, h] => (u, stepDur true t h impl)
  | ["muxx", e, d, h] => (u, stepMux true e d h impl)
  | "e2e" :: "list" :: _ :: rest => (u, stepE2EList "list" rest impl)
  | "e2e" :: "lists" :: _ :: rest => (u, stepE2EList "lists" rest impl)
  | "e2e" :: "liste" :: _ :: rest => (u, stepE2EList "liste" rest impl)
  | "e2e" :: "listse" :: _ :: rest => (u, stepE2EList "listse" rest impl)
  | "e2e" :: "listA" :: _ :: rest => (u, stepE2EList "listA" rest impl)
  | "e2e" :: "listB" :: _ :: rest => (u, stepE2EList "listB" rest impl)
  | "e2e" :: "listE0" :: _ :: rest => (u, stepE2EList "listE0" rest impl)
  | "e2e" :: "listSE0" :: _ :: rest => (u, stepE2EList "listSE0" rest impl)
  | ["e2e", "get", i, e, h] => (u, stepE2EGet i e h impl)
  | _ => (u, { model := "bad-op" })

def main (args : List String) : IO UInt32 := runDriver args () step
