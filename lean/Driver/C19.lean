import MtxVerif.Model.C19
open MtxVerif MtxVerif.PathSM

structure D where
  m : Drv.M := {}
  sp : C19.Spec := {}

def step (d : D) (op impl : String) : D × DrvOut :=
  -- instance-level ops of the controlled static source: invisible to the path loop (model answer `-`)
  if op == "srcfail" then (d, { model := "-" }) else
  if op == "runs" then
    let sp' := C19.specRuns d.sp impl
    ({ d with sp := sp' }, { model := "-", spec := sp'.verdict }) else
  if op == "srcrace" then
    -- a `tick` during which the source instance reports ready / not-ready while Handler.Stop() runs
    let armedReady := d.m.st.tSrcReady
    let armedClose := d.m.st.tSrcClose
    let (m', _, ans) := Drv.exec d.m .tick
    let kind := if armedReady then "ready" else if armedClose then "notready" else "none"
    let ans := if kind == "ready" then ans ++ " src=term" else ans
    let ans := ans ++ s!" race={kind} loop=ok"
    let sp' := C19.specOp d.sp d.m.st .tick impl
    let sp' := if (Drv.implToks impl).contains "loop=dead" then
        sp'.fail "the path loop does not answer any more after the source reported ready/not-ready while its handler was being stopped (Handler.Stop never returned)"
      else sp'
    ({ m := m', sp := sp' }, { model := ans, spec := sp'.verdict }) else
  let o := Drv.parseOp op
  let (m', _, ans) := Drv.exec d.m o
  let sp' := C19.specOp d.sp d.m.st o impl
  ({ m := m', sp := sp' }, { model := ans, spec := sp'.verdict })

def main (args : List String) : IO UInt32 := runDriver args ({} : D) step
