import MtxVerif.Model.C19
open MtxVerif MtxVerif.PathSM

/-- a held request is answered 'timed out' when the START timeout expires: compare the elapsed fake time
reported by the implementation with the one expected from the configured start timeout -/
def timeoutAt (sp : C19.Spec) (model impl : String) : C19.Spec :=
  let it := words impl
  let mt := words model
  if it.any (fun t => t.endsWith "=timeout") then
    match it.findSome? (Drv.tokNat "after="), mt.findSome? (Drv.tokNat "after=") with
    | some a, some b =>
      if a != b then sp.fail s!"held request(s) answered 'timed out' after {a} ms; the start timeout expires after {b} ms"
      else sp
    | _, _ => sp
  else sp

structure D where
  m : Drv.M := {}
  sp : C19.Spec := {}

def step (d : D) (op impl : String) : D × DrvOut :=
  -- instance-level ops of the controlled static source: invisible to the path loop (model answer `-`)
  if op == "srcfail" then (d, { model := "-" }) else
  if op == "runs" then
    let sp' := C19.specRuns d.sp impl
    ({ d with sp := sp' }, { model := "-", spec := sp'.verdict }) else
  if op == "srcrace" then
    -- a `tick` during which the source instance reports ready / not-ready while Handler.Stop() runs
    let armedReady := d.m.st.tSrcReady
    let armedClose := d.m.st.tSrcClose
    let (m', _, ans) := Drv.exec d.m .tick
    let kind := if armedReady then "ready" else if armedClose then "notready" else "none"
    let ans := if kind == "ready" then ans ++ " src=term" else ans
    let ans := ans ++ s!" race={kind} loop=ok"
    let sp' := timeoutAt (C19.specOp d.sp d.m.st .tick impl) ans impl
    let sp' := if (Drv.implToks impl).contains "loop=dead" then
        sp'.fail "the path loop does not answer any more after the source reported ready/not-ready while its handler was being stopped (Handler.Stop never returned)"
      else sp'
    ({ m := m', sp := sp' }, { model := ans, spec := sp'.verdict }) else
  let o := Drv.parseOp op
  let (m', _, ans) := Drv.exec d.m o
  let sp' := C19.specOp d.sp d.m.st o impl
  let sp' := match o with | .tick => timeoutAt sp' ans impl | _ => sp'
  ({ m := m', sp := sp' }, { model := ans, spec := sp'.verdict })

def main (args : List String) : IO UInt32 := runDriver args ({} : D) step
