import MtxVerif.Model.C19
open MtxVerif MtxVerif.PathSM

structure D where
  m : Drv.M := {}
  sp : C19.Spec := {}

def step (d : D) (op impl : String) : D × DrvOut :=
  -- instance-level ops of the controlled static source: invisible to the path loop (model answer `-`)
  if op == "srcfail" then (d, { model := "-" }) else
  if op == "runs" then
    let sp' := C19.specRuns d.sp impl
    ({ d with sp := sp' }, { model := "-", spec := sp'.verdict }) else
  let o := Drv.parseOp op
  let (m', _, ans) := Drv.exec d.m o
  let sp' := C19.specOp d.sp d.m.st o impl
  ({ m := m', sp := sp' }, { model := ans, spec := sp'.verdict })

def main (args : List String) : IO UInt32 := runDriver args ({} : D) step
