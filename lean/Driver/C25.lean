import MtxVerif.Model.C25
open MtxVerif MtxVerif.C25

/-
ops:
  reset <clockRate>                      new Estimator{ClockRate}
  est <nowSec> <nowNsec> <pts> <zone>    timeNow() reads (nowSec s + nowNsec ns) after the zero time.Time;
                                         <zone> only selects the time.Location of the reading (ignored here)
impl answer:  "out=<ns> ref=<ns> pts=<refPTS>"   (ns since the zero time.Time; anchor read from the struct)
              | "panic"

round 2 — integration sites, one whole scenario per op line (run in a testing/synctest bubble):
  aa <rate> <tok>…                       always-available stream (stream.Stream + SubStream, Opus, <rate> = 48000)
  mf <rate0> <rate1> <tok>…              (round 3) stream with ReplaceNTP and one media offering two formats;
                                         p<i>:<pts> writes a frame on format i; frame flag = format index
  hls <codec> <trackRate> <outRate> <abs> <tok>…   hls.ToStream with one track
     tokens: w<ns> sleep, j<ns> wall-clock jump, on / off publisher (aa), p<pts> frame with that timestamp
impl answer:  "n=<k> <now>,<pts>,<ntp>,<flag> …"  one entry per frame handed to a stream reader
model answer: the same entries with the absolute timestamp recomputed by the estimator model, fed with what the
  site must feed it: the outgoing frame timestamp at the outgoing rate (aa) / the track timestamp at the track
  rate, and the frame timestamp rescaled by the C24 helper (hls).
-/

structure D where
  rate : Int := 0
  st : St := {}
  sp : Spec := {}

def fmt (out : Option Int) (s : St) : String :=
  match out with
  | none => "panic"
  | some o => s!"out={o} ref={s.refNTP} pts={s.refPTS}"

def field (pre : String) (w : String) : Option Int :=
  if w.startsWith pre then (w.drop pre.length).toString.toInt? else none

def parseImpl (impl : String) : Option (Option (Int × Int × Int)) :=
  match words impl with
  | ["panic"] => some none
  | [a, b, c] => do
    let o ← field "out=" a
    let r ← field "ref=" b
    let p ← field "pts=" c
    pure (some (o, r, p))
  | _ => none

structure U where
  now : Int
  pts : Int
  ntp : Int
  flag : String

def parseUnits (impl : String) : Option (List U) :=
  match words impl with
  | n :: rest =>
    if !n.startsWith "n=" then none else
    rest.mapM fun w => match w.splitOn "," with
      | [a, b, c, f] => do pure { now := ← a.toInt?, pts := ← b.toInt?, ntp := ← c.toInt?, flag := f }
      | _ => none
  | [] => none

def fmtUnits (us : List U) : String :=
  " ".intercalate (s!"n={us.length}" :: us.map fun u => s!"{u.now},{u.pts},{u.ntp},{u.flag}")

def obsVerdict (rOut tol : Int) (tr : List (Bool × Int × Int × Int)) : String :=
  match obsRun rOut tol {} 0 tr with
  | none => "ok"
  | some (i, e) => s!"FAIL frame {i}: {e}"

/-- pts of the `p<pts>` tokens, in order -/
def ptsTokens (toks : List String) : List Int :=
  toks.filterMap fun t => if t.startsWith "p" then (t.drop 1).toString.toInt? else none

def stepAA (rate : Int) (impl : String) : DrvOut :=
  match parseUnits impl with
  | none => { model := "-", spec := "FAIL unparsable implementation answer" }
  | some us =>
    -- the estimator must be fed with the outgoing frame timestamp
    let (_, ms) := us.foldl (fun (acc : St × List U) u =>
      let (st', o) := step rate acc.1 u.now u.pts
      (st', acc.2 ++ [{ u with ntp := o.getD 0 }])) (({} : St), [])
    { model := fmtUnits ms,
      spec := obsVerdict rate (obsTol rate rate) (us.map fun u => (true, u.now, u.pts, u.ntp)) }

/-- round 3: one media, two formats with their own clock rates; the frame flag is the format index.  Each
format must have its own estimator, running at that format's rate. -/
def stepMF (rates : List Int) (impl : String) : DrvOut :=
  match parseUnits impl with
  | none => { model := "-", spec := "FAIL unparsable implementation answer" }
  | some us =>
    let rateOf (u : U) : Int := (rates[u.flag.toNat?.getD 0]?).getD 1
    let (_, ms) := us.foldl (fun (acc : List (String × St) × List U) u =>
      let st := ((acc.1.find? (·.1 == u.flag)).map (·.2)).getD {}
      let (st', o) := step (rateOf u) st u.now u.pts
      ((u.flag, st') :: acc.1.filter (·.1 != u.flag), acc.2 ++ [{ u with ntp := o.getD 0 }])) ([], [])
    let verdicts := (List.range rates.length).map fun i =>
      let r := (rates[i]?).getD 1
      obsVerdict r (obsTol r r) ((us.filter (·.flag == toString i)).map fun u => (true, u.now, u.pts, u.ntp))
    let spec := match verdicts.find? (· != "ok") with
      | some v => v
      | none => "ok"
    { model := fmtUnits ms, spec }

def stepHLS (rt ro : Int) (toks : List String) (impl : String) : DrvOut :=
  match parseUnits impl with
  | none => { model := "-", spec := "FAIL unparsable implementation answer" }
  | some us =>
    let tps := ptsTokens toks
    let (_, ms) := (us.zip tps).foldl (fun (acc : St × List U) (u, tp) =>
      let (st', o) := step rt acc.1 u.now tp
      let outPts := (MtxVerif.C24.muldiv tp ro rt).getD 0
      (st', acc.2 ++ [{ u with pts := outPts, ntp := o.getD 0 }])) (({} : St), [])
    let model := if us.length = tps.length then fmtUnits ms else s!"expected {tps.length} frames"
    { model,
      spec := obsVerdict ro (obsTol ro rt)
        ((us.zip (tps ++ List.replicate us.length 0)).map fun (u, tp) =>
          (ptsSmall tp && MtxVerif.C24.rateOK rt, u.now, u.pts, u.ntp)) }

def step' (d : D) (op impl : String) : D × DrvOut :=
  match words op with
  | "aa" :: rate :: _ =>
    match rate.toInt? with
    | some r => (d, stepAA r impl)
    | none => (d, { model := "bad-op" })
  | "mf" :: r0 :: r1 :: _ =>
    match r0.toInt?, r1.toInt? with
    | some r0, some r1 => (d, stepMF [r0, r1] impl)
    | _, _ => (d, { model := "bad-op" })
  | "hls" :: _ :: rt :: ro :: _ :: toks =>
    match rt.toInt?, ro.toInt? with
    | some rt, some ro => (d, stepHLS rt ro toks impl)
    | _, _ => (d, { model := "bad-op" })
  | ["reset", r] =>
    match r.toInt? with
    | some r => ({ rate := r }, { model := "ok" })
    | none => (d, { model := "bad-op" })
  | ["est", sec, nsec, pts, _] =>
    match sec.toInt?, nsec.toInt?, pts.toInt? with
    | some sec, some nsec, some pts =>
      let now := sec * 1000000000 + nsec
      let (st', out) := step d.rate d.st now pts
      let (sp', verdict) :=
        match parseImpl impl with
        | none => (d.sp, "FAIL unparsable implementation answer")
        | some none =>
          -- a panic is only legitimate for a zero clock rate (explicit outcome of the model)
          (d.sp, if d.rate = 0 then "ok" else "FAIL Estimate panicked with a non-zero clock rate")
        | some (some (o, r, p)) =>
          let (sp', e) := specStep d.rate d.sp now pts o r p
          (sp', match e with | none => "ok" | some m => "FAIL " ++ m)
      ({ d with st := st', sp := sp' }, { model := fmt out st', spec := verdict })
    | _, _, _ => (d, { model := "bad-op" })
  | _ => (d, { model := "bad-op" })

def main (args : List String) : IO UInt32 := runDriver args ({} : D) step'
