import MtxVerif.Model.C25
open MtxVerif MtxVerif.C25

/-
ops:
  reset <clockRate>                      new Estimator{ClockRate}
  est <nowSec> <nowNsec> <pts> <zone>    timeNow() reads (nowSec s + nowNsec ns) after the zero time.Time;
                                         <zone> only selects the time.Location of the reading (ignored here)
impl answer:  "out=<ns> ref=<ns> pts=<refPTS>"   (ns since the zero time.Time; anchor read from the struct)
              | "panic"
-/

structure D where
  rate : Int := 0
  st : St := {}
  sp : Spec := {}

def fmt (out : Option Int) (s : St) : String :=
  match out with
  | none => "panic"
  | some o => s!"out={o} ref={s.refNTP} pts={s.refPTS}"

def field (pre : String) (w : String) : Option Int :=
  if w.startsWith pre then (w.drop pre.length).toString.toInt? else none

def parseImpl (impl : String) : Option (Option (Int × Int × Int)) :=
  match words impl with
  | ["panic"] => some none
  | [a, b, c] => do
    let o ← field "out=" a
    let r ← field "ref=" b
    let p ← field "pts=" c
    pure (some (o, r, p))
  | _ => none

def step' (d : D) (op impl : String) : D × DrvOut :=
  match words op with
  | ["reset", r] =>
    match r.toInt? with
    | some r => ({ rate := r }, { model := "ok" })
    | none => (d, { model := "bad-op" })
  | ["est", sec, nsec, pts, _] =>
    match sec.toInt?, nsec.toInt?, pts.toInt? with
    | some sec, some nsec, some pts =>
      let now := sec * 1000000000 + nsec
      let (st', out) := step d.rate d.st now pts
      let (sp', verdict) :=
        match parseImpl impl with
        | none => (d.sp, "FAIL unparsable implementation answer")
        | some none =>
          -- a panic is only legitimate for a zero clock rate (explicit outcome of the model)
          (d.sp, if d.rate = 0 then "ok" else "FAIL Estimate panicked with a non-zero clock rate")
        | some (some (o, r, p)) =>
          let (sp', e) := specStep d.rate d.sp now pts o r p
          (sp', match e with | none => "ok" | some m => "FAIL " ++ m)
      ({ d with st := st', sp := sp' }, { model := fmt out st', spec := verdict })
    | _, _, _ => (d, { model := "bad-op" })
  | _ => (d, { model := "bad-op" })

def main (args : List String) : IO UInt32 := runDriver args ({} : D) step'
