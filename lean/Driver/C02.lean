import MtxVerif.Model.C02
open MtxVerif MtxVerif.C02
open MtxVerif.C01 (Perm Oracle Outcome matchesPermission tilde)

/-
op lines (space separated; byte strings hex, empty = `-`, empty list = `_`):
  reset <h|j> <excl> <inq> <claimKey> <iss> <aud>      new Manager (claimKey/iss/aud are only used by the
                                                       harness; they are baked into the oracle columns)   -> ok
  serve <id> <vend> <parses> <doc>  JWKS endpoint now serves document <id>: first JSON value ends at byte
                                <vend>, keyfunc.NewJWKSetJSON ok = <parses>; id 0 = connection dropped   -> ok
  refresh                       RefreshJWTJWKS                                                          -> ok
  racerefresh <id> <vend> <parses> <doc> <auth columns>   Authenticate whose JWKS download is held at the
                                server while the endpoint switches to <doc> and RefreshJWTJWKS is called -> as auth
  auth <action> <path> <query> <proto> <user> <pass> <token> <ask> <ip> <ipStr> <ua> <id> <pq> <re> <status> <toks>
                                -> (ok <user> | err <ask>) post=<n|f,f,…> ks=<due>:<loaded|->
excl   = action:path+…
inq    = 1 iff JWTInHTTPQuery != nil && *JWTInHTTPQuery
pq     = e | <vals>;<vals>      v["token"] ; v["jwt"] of url.ParseQuery, vals = _ | hex+hex…
re     = pattern:e|0|1+…        regexp oracle against the request path
status = code | x (transport error) | - (jwt method)
toks   = _ | tok|verdicts|claim+…   verdicts = k=sub,k=!,…   claim = m | p/<A>/<S>
         A = e | L<perms>   S = e | se | sL<perms>   perms = _ | action.path&action.path…
-/

def hx (s : String) : Option Bytes := Hex.decode s

def parseList {α} (sep : String) (f : String → Option α) (s : String) : Option (List α) :=
  if s == "_" then some [] else (s.splitOn sep).mapM f

def parsePair (sep : String) (s : String) : Option Perm :=
  match s.splitOn sep with
  | [a, b] => do pure ⟨← hx a, ← hx b⟩
  | _ => none

def parseBit (s : String) : Option Bool :=
  if s == "1" then some true else if s == "0" then some false else none

def parseRe (s : String) : Option (List (Bytes × Option Bool)) :=
  parseList "+" (fun e => match e.splitOn ":" with
    | [p, r] => do
      let p ← hx p
      if r == "e" then pure (p, none) else pure (p, some (← parseBit r))
    | _ => none) s

def parsePQ (s : String) : Option (Option QueryVals) :=
  if s == "e" then some none else
  match s.splitOn ";" with
  | [a, b] => do pure (some ⟨← parseList "+" hx a, ← parseList "+" hx b⟩)
  | _ => none

def parsePermsL (s : String) : Option (List Perm) := parseList "&" (parsePair ".") s

def parseClaim (s : String) : Option Claim :=
  if s == "m" then some .missing else
  match s.splitOn "/" with
  | ["p", a, st] => do
    let a ← if a == "e" then some none else if a.startsWith "L" then (parsePermsL (a.drop 1).toString).map some else none
    let st ← if st == "e" then some none
      else if st == "se" then some (some none)
      else if st.startsWith "sL" then (parsePermsL (st.drop 2).toString).map (fun l => some (some l))
      else none
    pure (.present a st)
  | _ => none

structure TokEntry where
  tok : Bytes
  verdicts : List (Nat × Option Bytes)
  claim : Claim

def parseTok (s : String) : Option TokEntry :=
  match s.splitOn "|" with
  | [t, vs, c] => do
    let vs ← parseList "," (fun v => match v.splitOn "=" with
      | [k, sub] => do
        let k ← k.toNat?
        if sub == "!" then pure (k, none) else pure (k, some (← hx sub))
      | _ => none) vs
    pure ⟨← hx t, vs, ← parseClaim c⟩
  | _ => none

def permsOfClaim : Claim → List Perm
  | .missing => []
  | .present a s => (a.getD []) ++ (match s with | some (some l) => l | _ => [])

def fmtPost (p : Post) : String :=
  ",".intercalate [Hex.encode p.ip, Hex.encode p.user, Hex.encode p.password, Hex.encode p.token,
    Hex.encode p.action, Hex.encode p.path, Hex.encode p.protocol,
    (match p.id with | some i => Hex.encode i | none => "n"), Hex.encode p.query, Hex.encode p.userAgent]

def parsePost (s : String) : Option (Option Post) :=
  if s == "n" then some none else
  match s.splitOn "," with
  | [ip, u, pw, t, a, pa, pr, id, q, ua] => do
    let id ← if id == "n" then some none else (hx id).map some
    pure (some ⟨← hx ip, ← hx u, ← hx pw, ← hx t, ← hx a, ← hx pa, ← hx pr, id, ← hx q, ← hx ua⟩)
  | _ => none

def fmtSt (st : St) : String :=
  (if st.due then "1" else "0") ++ ":" ++ (if st.loaded == 0 then "-" else toString st.loaded)

def fmtRes (res : Result) (st : St) : String :=
  (match res.out with
   | .ok u => "ok " ++ Hex.encode u
   | .err a => "err " ++ (if a then "1" else "0")) ++
  " post=" ++ (match res.post with | some p => fmtPost p | none => "n") ++ " ks=" ++ fmtSt st

def parseRes (s : String) : Option (Result × String) :=
  match words s with
  | [o, v, post, ks] => do
    let out ← if o == "ok" then (hx v).map Outcome.ok else if o == "err" then (parseBit v).map Outcome.err else none
    let post ← if post.startsWith "post=" then parsePost (post.drop 5).toString else none
    let ks ← if ks.startsWith "ks=" then some (ks.drop 3).toString else none
    pure (⟨out, post⟩, ks)
  | _ => none

structure D where
  cfg : Cfg := ⟨.http, [], false⟩
  st : St := {}
  served : Served := .broken

def limit : Nat := 128 * 1024

def parseServed (id vend parses : String) : Option Served :=
  match id.toNat?, vend.toNat?, parseBit parses with
  | some id, some vend, some parses =>
    -- customLimitReader: the decoder may consume at most 128 KiB to complete the first JSON value
    some (if id == 0 ∨ vend > limit ∨ !parses then Served.broken else Served.keys id)
  | _, _, _ => none

/-- one Authenticate call; `after` = what happens (atomically, afterwards) before the state is observed -/
def authStep (d : D) (after : D → D) (impl : String) : List String → D × DrvOut
  | [action, path, query, proto, user, pass, token, ask, _ip, ipStr, ua, id, pq, re, status, toks] =>
    let parsed := do
      let id ← if id == "n" then some none else (hx id).map some
      let action ← hx action
      let path ← hx path
      let query ← hx query
      let proto ← hx proto
      let user ← hx user
      let pass ← hx pass
      let token ← hx token
      let ask ← parseBit ask
      let ipStr ← hx ipStr
      let ua ← hx ua
      let r : C02.Req := ⟨action, path, query, proto, user, pass, token, ask, ipStr, ua, id⟩
      let status ← if status == "x" ∨ status == "-" then some Reply.fail else status.toNat?.map Reply.status
      pure (r, ← parsePQ pq, ← parseRe re, status, ← parseList "+" parseTok toks)
    match parsed with
    | none => (d, { model := "bad-op" })
    | some (r, pq, re, status, toks) =>
      let o : Oracle := {
        regexFind := fun pat _ => match re.find? (·.1 == pat) with
          | some e => e.2
          | none => none
        sha256b64 := fun _ => []
        argon2ok := fun _ _ => false }
      let tokF : Bytes → TokInfo := fun t => match toks.find? (·.tok == t) with
        | some e => ⟨fun k => match e.verdicts.find? (·.1 == k) with
            | some v => v.2
            | none => none, e.claim⟩
        | none => ⟨fun _ => none, .missing⟩
      let env : Env := ⟨o, pq, fun _ => status, tokF, d.served⟩
      let t := tokenOf d.cfg env r
      -- oracle completeness: regex entries for every `~` pattern that may be consulted, a verdict for
      -- the chosen token under the key set in use
      let hasRe := fun (ps : List Perm) => ps.all fun p => match p.path with
        | c :: pat => if c = tilde then re.any (·.1 == pat) else true
        | [] => true
      let exc := matchesPermission o d.cfg.excl r.action r.path
      let keys := (pull d.st d.served).2
      let complete := hasRe d.cfg.excl &&
        (d.cfg.method == .http || exc || t.isEmpty || keys.isNone ||
          (match toks.find? (·.tok == t), keys with
           | some e, some k => e.verdicts.any (·.1 == k) && hasRe (permsOfClaim e.claim)
           | _, _ => false))
      if !complete then (after d, { model := "oracle-missing" })
      else
        let (st', res) := authenticate d.cfg env d.st r
        let spec := match parseRes impl with
          | some (ir, _) => (match specCheck d.cfg env keys r ir with
            | none => "ok"
            | some m => "FAIL " ++ m)
          | none => "FAIL unparsable implementation answer: " ++ impl
        let d' := after { d with st := st' }
        (d', { model := fmtRes res d'.st, spec })
  | _ => (d, { model := "bad-op" })

def step (d : D) (op impl : String) : D × DrvOut :=
  match words op with
  | ["reset", m, excl, inq, _, _, _] =>
    match (if m == "h" then some Method.http else if m == "j" then some Method.jwt else none),
          parseList "+" (parsePair ":") excl, parseBit inq with
    | some m, some excl, some inq => ({ cfg := ⟨m, excl, inq⟩ }, { model := "ok" })
    | _, _, _ => (d, { model := "bad-op" })
  | ["serve", id, vend, parses, _] =>
    match parseServed id vend parses with
    | some sv => ({ d with served := sv }, { model := "ok" })
    | none => (d, { model := "bad-op" })
  | ["refresh"] => ({ d with st := refresh d.st }, { model := "ok" })
  | "auth" :: cols => authStep d id impl cols
  -- a JWKS download in flight while the endpoint changes and RefreshJWTJWKS is called: pullJWTJWKS holds the
  -- Manager mutex for the whole download, so this linearises as  authenticate ; serve ; refresh
  | "racerefresh" :: id :: vend :: parses :: _ :: cols =>
    match parseServed id vend parses with
    | some sv => authStep d (fun d => { d with served := sv, st := refresh d.st }) impl cols
    | none => (d, { model := "bad-op" })
  | _ => (d, { model := "bad-op" })

def main (args : List String) : IO UInt32 := runDriver args ({} : D) step
