import MtxVerif.Model.C39
open MtxVerif MtxVerif.C39

structure D where
  st : St := {}
  sp : SpecSt := {}
  /-- path-level history (`reset @path …`): the real `core.path` drives the manager and only
  `APIForwardDestList` and the goroutine dump are observed — no started flag, stream or done channel -/
  reduced : Bool := false

def parseConf (w : String) : Option Conf :=
  match w.splitOn "," with
  | [d, f, t] => some ⟨d, f, t⟩
  | _ => none

def fmtConf (c : Conf) : String := s!"{c.dest},{c.fp},{c.tok}"

def b01 (b : Bool) : String := if b then "1" else "0"

def fmtHandler (reduced : Bool) (h : Handler) : String :=
  s!"{h.id}|{h.pos}|{b01 h.running}|{if reduced then 0 else h.epoch}|{b01 h.running}|{fmtConf h.conf}"

def panicNil : String := "panic runtime error: invalid memory address or nil pointer dereference"
def panicScheme : String := "panic should not happen"

def fmtSt (reduced : Bool) (s : St) : String :=
  let rl := (s.retired.filter (·.running)).map (fun h => toString h.id)
  let rls := if rl.isEmpty then "-" else ",".intercalate rl
  let hs := s.handlers.map (fmtHandler reduced)
  let st := if reduced then "x" else b01 s.started
  let tk := if reduced then "x" else toString s.stream
  s!"s={st} t={tk} g={goroutines s} r={s.retired.length} rl={rls} h=" ++
    (if hs.isEmpty then "" else " " ++ " ".intercalate hs)

def parseKV (key w : String) : Option String :=
  if w.startsWith (key ++ "=") then some (w.drop (key.length + 1)).toString else none

def parseBit (s : String) : Option Bool :=
  if s == "1" then some true else if s == "0" then some false else none

def parseObs (w : String) : Option Obs :=
  match w.splitOn "|" with
  | [id, pos, live, ep, api, conf] => do
    pure { id := ← id.toNat?, pos := ← pos.toNat?, conf := ← parseConf conf,
           live := ← parseBit live, epoch := ← ep.toNat?, api := ← parseBit api }
  | _ => none

def parseImpl (impl : String) : Option ObsSt :=
  match words impl with
  | s :: t :: g :: r :: rl :: h :: rest => do
    -- `x` = the seam into the unexported field is gone: unknown, not checked
    let sv ← parseKV "s" s
    let s ← if sv == "x" then some none else (parseBit sv).map some
    let tv ← parseKV "t" t
    let t ← if tv == "x" then some none else tv.toNat?.map some
    let g ← (← parseKV "g" g).toNat?
    let r ← (← parseKV "r" r).toNat?
    let rl ← parseKV "rl" rl
    let rl ← if rl == "-" then some [] else (rl.splitOn ",").mapM (·.toNat?)
    let _ ← parseKV "h" h
    let hs ← rest.mapM parseObs
    pure { started := s, stream := t, gor := g, hs := hs, retired := r, retiredLive := rl }
  | _ => none

/-- spec verdict for one op, given the spec state *after* accounting for the op -/
def verdict (sp : SpecSt) (isReload : Bool) (impl : String) : SpecSt × String :=
  if !sp.wfOK then (sp, "ok")   -- outside the environment contract the property demands nothing
  else if impl.startsWith "panic" then (sp, "FAIL panic in a history that respects the contract")
  else match parseImpl impl with
    | none => (sp, "FAIL unparsable implementation answer")
    | some o =>
      let e1 := if isReload then specReload sp o.hs else none
      let e := match e1 with | some m => some m | none => specState sp o
      ({ sp with prev := o.hs, seen := addSeen sp.seen o.hs },
        match e with | none => "ok" | some m => "FAIL " ++ m)

def modelOut (reduced : Bool) (before after : St) (panicMsg : String) : String :=
  if before.dead then "-" else if after.dead then panicMsg else fmtSt reduced after

def step (d : D) (op impl : String) : D × DrvOut :=
  match words op with
  | "reset" :: confs =>
    let reduced := confs.head? == some "@path"
    let confs := if reduced then confs.drop 1 else confs
    match confs.mapM parseConf with
    | none => (d, { model := "bad-op" })
    | some f =>
      let st := initSt f
      let sp : SpecSt := { cfg := f, wfOK := f.all validScheme }
      let (sp, v) := verdict sp false impl
      ({ st := st, sp := sp, reduced := reduced },
        { model := if st.dead then panicScheme else fmtSt reduced st, spec := v })
  | ["start", k] =>
    match k.toNat? with
    | none => (d, { model := "bad-op" })
    | some k =>
      let st := C39.step d.st (.start k)
      let sp := { d.sp with wfOK := d.sp.wfOK && !d.sp.avail, avail := true, strm := k }
      let (sp, v) := verdict sp false impl
      ({ d with st := st, sp := sp }, { model := modelOut d.reduced d.st st panicNil, spec := v })
  | ["stop"] =>
    let st := C39.step d.st .stop
    let sp := { d.sp with wfOK := d.sp.wfOK && d.sp.avail, avail := false }
    let (sp, v) := verdict sp false impl
    ({ d with st := st, sp := sp }, { model := modelOut d.reduced d.st st panicNil, spec := v })
  | "reload" :: confs =>
    match confs.mapM parseConf with
    | none => (d, { model := "bad-op" })
    | some f =>
      let st := C39.step d.st (.reload f)
      let sp := { d.sp with wfOK := d.sp.wfOK && f.all validScheme, cfg := f }
      let (sp, v) := verdict sp true impl
      let pm := if (created d.st.handlers f).all validScheme then panicNil else panicScheme
      ({ d with st := st, sp := sp }, { model := modelOut d.reduced d.st st pm, spec := v })
  -- two manager calls back to back (the second before the goroutines of the first have run):
  -- the model takes both steps, the property is evaluated on the state observed after quiescence
  | ["start+stop", k] =>
    match k.toNat? with
    | none => (d, { model := "bad-op" })
    | some k =>
      let st := C39.step (C39.step d.st (.start k)) .stop
      let sp := { d.sp with wfOK := d.sp.wfOK && !d.sp.avail, avail := false, strm := k }
      let (sp, v) := verdict sp false impl
      ({ d with st := st, sp := sp }, { model := modelOut d.reduced d.st st panicNil, spec := v })
  | "start+reload" :: k :: confs =>
    match k.toNat?, confs.mapM parseConf with
    | some k, some f =>
      let st := C39.step (C39.step d.st (.start k)) (.reload f)
      let sp := { d.sp with wfOK := d.sp.wfOK && !d.sp.avail && f.all validScheme, avail := true, strm := k, cfg := f }
      let (sp, v) := verdict sp false impl
      ({ d with st := st, sp := sp }, { model := modelOut d.reduced d.st st panicNil, spec := v })
    | _, _ => (d, { model := "bad-op" })
  | "reload+reload" :: rest =>
    let a := rest.takeWhile (· != "/")
    let b := (rest.dropWhile (· != "/")).drop 1
    match a.mapM parseConf, b.mapM parseConf with
    | some f1, some f2 =>
      let st := C39.step (C39.step d.st (.reload f1)) (.reload f2)
      let sp := { d.sp with wfOK := d.sp.wfOK && f1.all validScheme && f2.all validScheme, cfg := f2 }
      let (sp, v) := verdict sp false impl
      ({ d with st := st, sp := sp }, { model := modelOut d.reduced d.st st panicNil, spec := v })
    | _, _ => (d, { model := "bad-op" })
  | "reload+stop" :: confs =>
    match confs.mapM parseConf with
    | some f =>
      let st := C39.step (C39.step d.st (.reload f)) .stop
      let sp := { d.sp with wfOK := d.sp.wfOK && d.sp.avail && f.all validScheme, avail := false, cfg := f }
      let (sp, v) := verdict sp false impl
      ({ d with st := st, sp := sp }, { model := modelOut d.reduced d.st st panicNil, spec := v })
    | none => (d, { model := "bad-op" })
  | _ => (d, { model := "bad-op" })

def main (args : List String) : IO UInt32 := runDriver args ({} : D) step
