import MtxVerif.Model.C22
open MtxVerif MtxVerif.C22

inductive St where
  | none
  | h264 (p : P264)
  | h265 (p : P265)
  | av1
  | m4v (cfg : Bytes)

def parseParam (s : String) : Option (Option Bytes) :=
  if s == "nil" then some none else (Hex.decode s).map some

def fmtParam : Option Bytes → String
  | none => "nil"
  | some b => Hex.encode b

def fmtAU (au : AU) : String :=
  if au.isEmpty then "nil" else ",".intercalate (au.map Hex.encode)

def fmtOut (o : Outcome AU) (ps : List (Option Bytes)) : String :=
  match o with
  | .panic => "panic"
  | .ok au => s!"out={fmtAU au} p={",".intercalate (ps.map fmtParam)}"

def fmtM4V (out cfg : Bytes) : String :=
  s!"out={if out.isEmpty then "nil" else Hex.encode out} p={Hex.encode cfg}"

def ps264 (p : P264) : List (Option Bytes) := [p.sps, p.pps]
def ps265 (p : P265) : List (Option Bytes) := [p.vps, p.sps, p.pps]

/-- which part of the answer is wrong (for the FAIL reason) -/
def diffReason (impl expected : String) : String :=
  if impl == "panic" then "panic on an access unit without empty NAL units"
  else if expected == "panic" then "no panic although the model predicts one (empty NAL unit)"
  else
    match impl.splitOn " p=", expected.splitOn " p=" with
    | [io, ip], [eo, ep] =>
      if ip != ep then "description/format parameters are not the most recent ones seen"
      else if io != eo then "delivered unit is not [current parameters at a key frame] ++ unit without parameter sets/delimiters"
      else "answer differs"
    | _, _ => "unparsable implementation answer"

/-! always-available histories (sub-stream switches): the offline clip's units are not known to the model, so
they are checked structurally: [current parameters iff the unit has a key frame] ++ NAL units none of which is
a parameter set / delimiter; the description must report the current parameters after every op. -/

/-- `<hex>` or `<first byte hex>~<length>` for long NAL units (only the first byte matters then) -/
def parseShortNalu (s : String) : Option Bytes :=
  match s.splitOn "~" with
  | [h] => Hex.decode h
  | [h, _] => Hex.decode h
  | _ => none

def parseAAUnits (s : String) : Option (List (Option AU)) :=
  if s == "-" then some []
  else (s.splitOn "|").mapM fun u =>
    if u == "n" then some none else ((u.splitOn ",").mapM parseShortNalu).map some

def parseAA (impl : String) : Option (List (Option AU) × String) :=
  match words impl with
  | [u, p] =>
    if u.startsWith "un=" && p.startsWith "p=" then
      (parseAAUnits (u.drop 3).toString).map fun us => (us, (p.drop 2).toString)
    else none
  | _ => none

def unitOK (isDrop isKey : NALU → Bool) (pre : List NALU) (known : Bool) (u : Option AU) : Bool :=
  match u with
  | none => true
  | some nal =>
    let expPre := if nal.any isKey && known then pre else []
    nal.take expPre.length == expPre && (nal.drop expPre.length).all (fun n => !isDrop n)

def unitsOK (st : St) (us : List (Option AU)) : Bool :=
  match st with
  | .h264 p => us.all (unitOK drop264 isIDR264 (pre264 p) (known264 p))
  | .h265 p => us.all (unitOK drop265 isKey265 (pre265 p) (known265 p))
  | _ => true

def fmtPs (st : St) : String :=
  match st with
  | .h264 p => ",".intercalate ((ps264 p).map fmtParam)
  | .h265 p => ",".intercalate ((ps265 p).map fmtParam)
  | .m4v cfg => Hex.encode cfg
  | _ => ""

def switchTo (st desc : St) : St :=
  match st, desc with
  | .h264 p, .h264 d => .h264 (switch264 p d).1
  | .h265 p, .h265 d => .h265 (switch265Fixed p d).1
  | s, _ => s

def parseDesc (codec : String) (ps : List String) : Option St :=
  match codec, ps.mapM parseParam with
  | "h264", some [a, b] => some (.h264 ⟨a, b⟩)
  | "h265", some [a, b, c] => some (.h265 ⟨a, b, c⟩)
  | _, _ => none

structure DS where
  /-- stream modes: is a reader attached? -/
  attached : Bool := true
  st : St := .none
  codec : String := ""
  /-- always-available history: parameters of the offline description -/
  offline : Option St := none

/-- `before`: state the units of the answer were written under; `after`: state once the op is complete -/
def aaVerdict (before after : St) (impl : String) : String :=
  match parseAA impl with
  | none => "FAIL unparsable implementation answer: " ++ (impl.take 80).toString
  | some (us, p) =>
    if !unitsOK before us then
      "FAIL a delivered unit is not [current parameters at a key frame] ++ NAL units without parameter sets/delimiters (parameters of a previous sub stream?)"
    else if p != fmtPs after then
      "FAIL the published description does not report the parameters of the current sub stream / most recent in-band ones"
    else "ok"

def step (st : St) (op impl : String) : St × DrvOut :=
  match words op with
  | "reset" :: codec :: _mode :: ps =>
    match codec, ps.mapM parseParam with
    | "h264", some [a, b] => (.h264 ⟨a, b⟩, { model := "ok" })
    | "h265", some [a, b, c] => (.h265 ⟨a, b, c⟩, { model := "ok" })
    | "av1", some [] => (.av1, { model := "ok" })
    | "m4v", some [some c] => (.m4v c, { model := "ok" })
    | _, _ => (.none, { model := "bad-op" })
  | "w" :: args =>
    let nilPayload := args == ["nil"]
    match st, (if nilPayload then some [] else args.mapM Hex.decode) with
    | .h264 p, some au =>
      let r := if nilPayload then (p, Outcome.ok []) else step264 p au
      let m := fmtOut r.2 (ps264 r.1)
      (.h264 r.1, { model := m, spec := if impl == m then "ok" else "FAIL " ++ diffReason impl m })
    | .h265 p, some au =>
      let fx := if nilPayload then (p, Outcome.ok []) else step265Fixed p au
      let asIs := if nilPayload then (p, Outcome.ok []) else step265 p au
      let m := fmtOut fx.2 (ps265 fx.1)
      let ma := fmtOut asIs.2 (ps265 asIs.1)
      if impl == m then (.h265 fx.1, { model := m })
      else if !nilPayload && !hasEmpty au && stale265 p au && impl == ma then
        (.h265 asIs.1, { model := m, spec := "KNOWN h265StaleParam the H265 updater compares every in-band VPS/SPS/PPS with the value the format had before the access unit, so a unit that repeats the parameter set in force after a different one ends with the older one" })
      else (.h265 fx.1, { model := m, spec := "FAIL " ++ diffReason impl m })
    | .av1, some tu =>
      let o := if nilPayload then Outcome.ok [] else remuxAV1 tu
      let m := fmtOut o []
      (.av1, { model := m, spec := if impl == m then "ok" else "FAIL " ++ diffReason impl m })
    | .m4v cfg, some [frame] =>
      let r := if nilPayload then (cfg, []) else stepM4V cfg frame
      let m := fmtM4V r.2 r.1
      (.m4v r.1, { model := m, spec := if impl == m then "ok" else "FAIL " ++ diffReason impl m })
    | .m4v cfg, some [] =>
      let m := fmtM4V [] cfg
      (.m4v cfg, { model := m, spec := if impl == m then "ok" else "FAIL " ++ diffReason impl m })
    | _, _ => (st, { model := "bad-op" })
  | _ => (st, { model := "bad-op" })

def stepDS (d : DS) (op impl : String) : DS × DrvOut :=
  match words op with
  | "reset" :: codec :: "aa" :: ps =>
    match parseDesc codec ps with
    | some off => ({ st := off, codec, offline := some off }, { model := "ok" })
    | none => ({}, { model := "bad-op" })
  | "reset" :: _ =>
    let r := step .none op impl
    ({ st := r.1 }, r.2)
  | _ =>
    if d.offline.isSome && impl == "bad-op" then (d, { model := "bad-op" }) else
    match d.offline, words op with
    | some _, "aafill" :: _ => (d, { model := "-", spec := aaVerdict d.st d.st impl })
    | some _, "aapub" :: ps =>
      match parseDesc d.codec ps with
      | some desc =>
        let st' := switchTo d.st desc
        ({ d with st := st' }, { model := "-", spec := aaVerdict d.st st' impl })
      | none => (d, { model := "bad-op" })
    | some off, ["aaoff"] =>
      let st' := switchTo d.st off
      ({ d with st := st' }, { model := "-", spec := aaVerdict st' st' impl })
    | some _, "aau" :: args =>
      if impl == "bad-op" then (d, { model := "bad-op" }) else
      let r := step d.st ("w " ++ " ".intercalate args) impl
      ({ d with st := r.1 }, r.2)
    | some _, _ => (d, { model := "bad-op" })
    | none, ["detach"] => ({ d with attached := false }, { model := if impl == "bad-op" then "bad-op" else "ok" })
    | none, ["attach"] => ({ d with attached := true }, { model := if impl == "bad-op" then "bad-op" else "ok" })
    | none, ["desc"] =>
      let m := "p=" ++ fmtPs d.st
      let verdict := if impl == m || impl == "bad-op" then "ok"
        else "FAIL the published description does not report the most recent parameter sets (received while no reader was attached?)"
      (d, { model := if impl == "bad-op" then "bad-op" else m, spec := verdict })
    | none, _ =>
      if d.attached then
        let r := step d.st op impl
        ({ d with st := r.1, offline := none }, r.2)
      else
        -- no reader: nothing is delivered, but the format updater must still see the unit
        let r := step d.st op ""
        let m := r.2.model
        let expected := if m == "panic" || m == "bad-op" then m
          else match m.splitOn " p=" with
            | [_, ps] => "noreader p=" ++ ps
            | _ => m
        let verdict := if impl == expected then "ok"
          else "FAIL parameter sets received while no reader was attached were not recorded: the description is stale"
        ({ d with st := r.1 }, { model := expected, spec := verdict })

def main (args : List String) : IO UInt32 := runDriver args ({} : DS) stepDS
