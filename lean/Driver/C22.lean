import MtxVerif.Model.C22
open MtxVerif MtxVerif.C22

inductive St where
  | none
  | h264 (p : P264)
  | h265 (p : P265)
  | av1
  | m4v (cfg : Bytes)

def parseParam (s : String) : Option (Option Bytes) :=
  if s == "nil" then some none else (Hex.decode s).map some

def fmtParam : Option Bytes → String
  | none => "nil"
  | some b => Hex.encode b

def fmtAU (au : AU) : String :=
  if au.isEmpty then "nil" else ",".intercalate (au.map Hex.encode)

def fmtOut (o : Outcome AU) (ps : List (Option Bytes)) : String :=
  match o with
  | .panic => "panic"
  | .ok au => s!"out={fmtAU au} p={",".intercalate (ps.map fmtParam)}"

def fmtM4V (out cfg : Bytes) : String :=
  s!"out={if out.isEmpty then "nil" else Hex.encode out} p={Hex.encode cfg}"

def ps264 (p : P264) : List (Option Bytes) := [p.sps, p.pps]
def ps265 (p : P265) : List (Option Bytes) := [p.vps, p.sps, p.pps]

/-- which part of the answer is wrong (for the FAIL reason) -/
def diffReason (impl expected : String) : String :=
  if impl == "panic" then "panic on an access unit without empty NAL units"
  else if expected == "panic" then "no panic although the model predicts one (empty NAL unit)"
  else
    match impl.splitOn " p=", expected.splitOn " p=" with
    | [io, ip], [eo, ep] =>
      if ip != ep then "description/format parameters are not the most recent ones seen"
      else if io != eo then "delivered unit is not [current parameters at a key frame] ++ unit without parameter sets/delimiters"
      else "answer differs"
    | _, _ => "unparsable implementation answer"

def step (st : St) (op impl : String) : St × DrvOut :=
  match words op with
  | "reset" :: codec :: _mode :: ps =>
    match codec, ps.mapM parseParam with
    | "h264", some [a, b] => (.h264 ⟨a, b⟩, { model := "ok" })
    | "h265", some [a, b, c] => (.h265 ⟨a, b, c⟩, { model := "ok" })
    | "av1", some [] => (.av1, { model := "ok" })
    | "m4v", some [some c] => (.m4v c, { model := "ok" })
    | _, _ => (.none, { model := "bad-op" })
  | "w" :: args =>
    let nilPayload := args == ["nil"]
    match st, (if nilPayload then some [] else args.mapM Hex.decode) with
    | .h264 p, some au =>
      let r := if nilPayload then (p, Outcome.ok []) else step264 p au
      let m := fmtOut r.2 (ps264 r.1)
      (.h264 r.1, { model := m, spec := if impl == m then "ok" else "FAIL " ++ diffReason impl m })
    | .h265 p, some au =>
      let fx := if nilPayload then (p, Outcome.ok []) else step265Fixed p au
      let asIs := if nilPayload then (p, Outcome.ok []) else step265 p au
      let m := fmtOut fx.2 (ps265 fx.1)
      let ma := fmtOut asIs.2 (ps265 asIs.1)
      if impl == m then (.h265 fx.1, { model := m })
      else if !nilPayload && !hasEmpty au && stale265 p au && impl == ma then
        (.h265 asIs.1, { model := m, spec := "KNOWN h265StaleParam the H265 updater compares every in-band VPS/SPS/PPS with the value the format had before the access unit, so a unit that repeats the parameter set in force after a different one ends with the older one" })
      else (.h265 fx.1, { model := m, spec := "FAIL " ++ diffReason impl m })
    | .av1, some tu =>
      let o := if nilPayload then Outcome.ok [] else remuxAV1 tu
      let m := fmtOut o []
      (.av1, { model := m, spec := if impl == m then "ok" else "FAIL " ++ diffReason impl m })
    | .m4v cfg, some [frame] =>
      let r := if nilPayload then (cfg, []) else stepM4V cfg frame
      let m := fmtM4V r.2 r.1
      (.m4v r.1, { model := m, spec := if impl == m then "ok" else "FAIL " ++ diffReason impl m })
    | .m4v cfg, some [] =>
      let m := fmtM4V [] cfg
      (.m4v cfg, { model := m, spec := if impl == m then "ok" else "FAIL " ++ diffReason impl m })
    | _, _ => (st, { model := "bad-op" })
  | _ => (st, { model := "bad-op" })

def main (args : List String) : IO UInt32 := runDriver args St.none step
