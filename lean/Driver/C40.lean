import MtxVerif.Model.C40
import MtxVerif.Gen.C40
open MtxVerif MtxVerif.C40

/-- does the generated table list a blocking operation (request, await-reply, reply, join, main select)
inside function `Type.method`? -/
def knownSite (f : String) : Bool :=
  Gen.C40.ops.any fun o => Gen.C40.fnNames.getD o.fn "" == f &&
    (o.role != .closeDone && o.role != .other)

/-- Finding class `hlsMuxerLockCycle` on the watchdog's report (one entry per leftover goroutine: its
innermost frames, innermost first).  All three parties of the cycle are there: the HLS loop inside a
lock-taking muxer function, `pathManager.run` inside `hls.Server.PathReady/PathNotReady`, and a goroutine
that holds the muxer mutex while it waits for the path manager or a path (a starting muxer inside
`pathManager.AddReader`, or a session being closed under the mutex inside `path.RemoveReader`) — and the
regenerated lock table still shows the hazard. -/
def knownHLSCycle (chains : List String) : Bool :=
  chains.any (fun c => c.startsWith "hls.muxer." && (c.splitOn "<").getD 1 "" == "hls.Server.run") &&
  chains.any (fun c => c.startsWith "hls.Server.PathReady<pathManager.doSetPathReady" ||
    c.startsWith "hls.Server.PathNotReady<pathManager.doSetPathNotReady") &&
  chains.any (fun c => c.startsWith "pathManager.AddReader<hls.muxer.runInner" ||
    (c.startsWith "path." && (c.splitOn "<").contains "hls.session.close2")) &&
  !(lockCycleHazards Gen.C40.lockFns Gen.C40.loopLockCalls).isEmpty

/-- Finding class `hlsSessionCloseRace` on the frames of a panicking goroutine (innermost first): a muxer
that is being destroyed closes a session (`session.close2`) which `muxer.addSession` has already
registered but whose `reader` field `session.initialize` has not set yet: `stream.RemoveReader(nil)`. -/
def knownSessionCrash (chain : List String) : Bool :=
  chain.contains "stream.Stream.RemoveReader" && chain.contains "hls.session.close2"

/-- One op = one stress run of the real loops.  The model's answer is `done` (the theorems say every
operation, including shutdown, completes) followed by the sampled blocking sites that the extracted
table knows: a goroutine parked at a channel operation of internal/core that is NOT in the table
makes model and implementation differ (the model's waits do not cover the code).  The spec fails
exactly when the watchdog fired. -/
def step (_ : Unit) (op impl : String) : Unit × DrvOut :=
  match words op with
  | "stress" :: _ | "hls" :: _ =>
    if impl == "skipped" then ((), { model := "-" })
    else if impl.startsWith "crash" then
      let chain := (impl.drop 6).toString.splitOn "<"
      let v := if knownSessionCrash chain then "KNOWN hlsSessionCloseRace " else "FAIL "
      ((), { model := "done", spec := v ++ "the server process panicked in " ++ (impl.drop 6).toString })
    else if impl.startsWith "hang" then
      let chains := (impl.drop 5).toString.splitOn ","
      let v := if knownHLSCycle chains then "KNOWN hlsMuxerLockCycle " else "FAIL "
      ((), { model := "done", spec := v ++ "operations did not complete; goroutines blocked in " ++ (impl.drop 5).toString })
    else
      match words impl with
      | ["done", s] =>
        let sites := if s == "sites=-" then [] else ((s.drop 6).toString.splitOn ",")
        let known := sites.filter knownSite
        let m := if known.isEmpty then "done sites=-" else "done sites=" ++ ",".intercalate known
        ((), { model := m })
      | _ => ((), { model := "done sites=-", spec := "FAIL unparsable implementation answer" })
  | _ => ((), { model := "bad-op" })

def main (args : List String) : IO UInt32 := runDriver args () step
