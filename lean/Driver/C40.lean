import MtxVerif.Model.C40
import MtxVerif.Gen.C40
open MtxVerif MtxVerif.C40

/-- does the generated table list a blocking operation (request, await-reply, reply, join, main select)
inside function `Type.method`? -/
def knownSite (f : String) : Bool :=
  Gen.C40.ops.any fun o => Gen.C40.fnNames.getD o.fn "" == f &&
    (o.role != .closeDone && o.role != .other)

/-- One op = one stress run of the real loops.  The model's answer is `done` (the theorems say every
operation, including shutdown, completes) followed by the sampled blocking sites that the extracted
table knows: a goroutine parked at a channel operation of internal/core that is NOT in the table
makes model and implementation differ (the model's waits do not cover the code).  The spec fails
exactly when the watchdog fired. -/
def step (_ : Unit) (op impl : String) : Unit × DrvOut :=
  match words op with
  | "stress" :: _ =>
    if impl == "skipped" then ((), { model := "-" })
    else if impl.startsWith "hang" then
      ((), { model := "done", spec := "FAIL operations did not complete; goroutines blocked in " ++ (impl.drop 5).toString })
    else
      match words impl with
      | ["done", s] =>
        let sites := if s == "sites=-" then [] else ((s.drop 6).toString.splitOn ",")
        let known := sites.filter knownSite
        let m := if known.isEmpty then "done sites=-" else "done sites=" ++ ",".intercalate known
        ((), { model := m })
      | _ => ((), { model := "done sites=-", spec := "FAIL unparsable implementation answer" })
  | _ => ((), { model := "bad-op" })

def main (args : List String) : IO UInt32 := runDriver args () step
