import MtxVerif.Model.C40
import MtxVerif.Gen.C40
open MtxVerif MtxVerif.C40

/-- does the generated table list a blocking operation (request, await-reply, reply, join, main select)
inside function `Type.method`? -/
def knownSite (f : String) : Bool :=
  Gen.C40.ops.any fun o => Gen.C40.fnNames.getD o.fn "" == f &&
    (o.role != .closeDone && o.role != .other)

/-- an entry of the watchdog's report: frames (innermost first) and what the goroutine waits on -/
def parseEntry (e : String) : List String × String :=
  match e.splitOn "@" with
  | [c, st] => (c.splitOn "<", st)
  | _ => (e.splitOn "<", "other")

/-- frames (innermost first) of a goroutine that holds a muxer mutex while waiting for a loop -/
def holdsMuxerMutex (c : List String) : Bool :=
  let inReq := (c.headD "").startsWith "pathManager." || (c.headD "").startsWith "path."
  let rec adj : List String → Bool
    | a :: b :: rest => (a == "pathManager.AddReader" && b == "hls.muxer.runInner") || adj (b :: rest)
    | _ => false
  inReq && (adj c || c.contains "hls.session.close2")

/-- Finding class `hlsMuxerLockCycle` (F-C40a, recorded as known), defined by its NECESSARY CORE on the
watchdog's report (goroutines that were waiting at the same place in three samples):
(A) the HLS server loop is blocked on a muxer's mutex: a goroutine with `hls.Server.run` on its stack that
    waits on a mutex, or whose innermost frame is a `muxer.*` function called from the loop;
(B) a goroutine holds a muxer mutex while it waits for the path manager or a path: a starting muxer
    (`pathManager.AddReader` called by `muxer.runInner`, which still holds the mutex `muxer.initialize`
    locked), or `session.close2` (always called under the muxer's mutex) inside `path.*`/`pathManager.*`;
and the regenerated lock table still shows the hazard.  Every other blocked goroutine — `pathManager.run`
in `PathReady`, API callers, paths, publishers — is a consequence and does not matter. -/
def knownHLSCycle (entries : List String) : Bool :=
  let es := entries.map parseEntry
  es.any (fun (c, st) => c.contains "hls.Server.run" &&
    (st == "mutex" || (c.headD "").startsWith "hls.muxer.")) &&
  es.any (fun (c, _) => holdsMuxerMutex c) &&
  -- a muxer waiting for its OWN mutex in its clean-up (`muxer.run`) is explained only by another goroutine
  -- closing a session under that mutex; otherwise the mutex was leaked: a different defect
  !(es.any (fun (c, st) => c.headD "" == "hls.muxer.run" && st == "mutex") &&
    !es.any (fun (c, _) => c.contains "hls.session.close2")) &&
  !(lockCycleHazards Gen.C40.lockFns Gen.C40.loopLockCalls).isEmpty

/-- One op = one stress run of the real loops.  The model's answer is `done` (the theorems say every
operation, including shutdown, completes) followed by the sampled blocking sites that the extracted
table knows: a goroutine parked at a channel operation of internal/core that is NOT in the table
makes model and implementation differ (the model's waits do not cover the code).  The spec fails
exactly when the watchdog fired. -/
def step (_ : Unit) (op impl : String) : Unit × DrvOut :=
  match words op with
  | "stress" :: _ | "hls" :: _ | "metrics" :: _ | "rtmp" :: _ =>
    if impl == "skipped" then ((), { model := "-" })
    else if impl.startsWith "crash" then
      -- F-C40b (session closed before its initialization finished, fixed in 6317767) and F-C40c (metrics
      -- endpoint with a nil path manager, fixed in fbbecad): no KNOWN branch
      let chain := (impl.drop 6).toString.splitOn "<"
      let reg := if chain.contains "stream.Stream.RemoveReader" && chain.contains "hls.session.close2"
        then "regression of F-C40b: "
        else if chain.contains "metrics.Metrics.onMetrics" then "regression of F-C40c (nil path manager in /metrics): "
        else ""
      ((), { model := "done", spec := "FAIL " ++ reg ++ "the server process panicked in " ++ (impl.drop 6).toString })
    else if impl.startsWith "hang" then
      let chains := (impl.drop 5).toString.splitOn ","
      let v := if knownHLSCycle chains then "KNOWN hlsMuxerLockCycle " else "FAIL "
      ((), { model := "done", spec := v ++ "operations did not complete; goroutines blocked in " ++ (impl.drop 5).toString })
    else
      match words impl with
      | ["done", s] =>
        let sites := if s == "sites=-" then [] else ((s.drop 6).toString.splitOn ",")
        let known := sites.filter knownSite
        let m := if known.isEmpty then "done sites=-" else "done sites=" ++ ",".intercalate known
        ((), { model := m })
      | _ => ((), { model := "done sites=-", spec := "FAIL unparsable implementation answer" })
  | _ => ((), { model := "bad-op" })

def main (args : List String) : IO UInt32 := runDriver args () step
