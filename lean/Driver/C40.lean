import MtxVerif.Model.C40
open MtxVerif MtxVerif.C40

/-- One op = one stress run of the real loops.  The model's answer is always `done` (the theorems say
every operation, including shutdown, completes); the spec fails exactly when the watchdog fired. -/
def step (_ : Unit) (op impl : String) : Unit × DrvOut :=
  match words op with
  | "stress" :: _ =>
    let v :=
      if impl == "done" then "ok"
      else if impl.startsWith "hang" then
        "FAIL operations did not complete; goroutines blocked in " ++ (impl.drop 5).toString
      else "FAIL unparsable implementation answer"
    ((), { model := "done", spec := v })
  | _ => ((), { model := "bad-op" })

def main (args : List String) : IO UInt32 := runDriver args () step
