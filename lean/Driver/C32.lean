import MtxVerif.Model.C32_Moq
import MtxVerif.Gen.C32
open MtxVerif MtxVerif.C32

/-! ### canonical text of values (same grammar in tools/harness/c32) -/

def fnv64 (b : Bytes) : UInt64 :=
  b.foldl (fun h x => (h ^^^ x.toUInt64) * 0x100000001b3) 0xcbf29ce484222325

def hex16 (v : UInt64) : String :=
  String.ofList ((List.range 16).map fun i => Hex.digit ((v >>> (UInt64.ofNat (4 * (15 - i)))).toNat % 16))

/-- byte strings: `-`, hex (≤ 64 bytes) or `#len.fnv64` -/
def pB (b : Bytes) : String :=
  if b.length ≤ 64 then Hex.encode b else s!"#{b.length}.{hex16 (fnv64 b)}"

/-- one segment: `-`, `z<len>.<hh>` (len copies of a byte) or hex; segments joined by `+` -/
def parseSeg (s : String) : Option Bytes :=
  if s == "-" then some []
  else if s.startsWith "z" then
    match ((s.drop 1).toString).splitOn "." with
    | [n, hh] => do
      let n ← n.toNat?
      let b ← Hex.decode hh
      match b with
      | [x] => some (List.replicate n x)
      | _ => none
    | _ => none
  else Hex.decode s

def parseB (s : String) : Option Bytes := do
  let segs ← (s.splitOn "+").mapM parseSeg
  pure segs.flatten

def parseNs (s : String) : Option Namespace :=
  if s == "_" then some [] else (s.splitOn ",").mapM parseB

def pNs (ns : Namespace) : String :=
  if ns.isEmpty then "_" else ",".intercalate (ns.map pB)

def parseParams (s : String) : Option Params :=
  if s == "_" then some [] else
  (s.splitOn ",").mapM fun it =>
    match it.splitOn ":" with
    | [a, t, v] => do pure ⟨← a.toNat?, ← t.toNat?, ← parseB v⟩
    | _ => none

def pParams (ps : Params) : String :=
  if ps.isEmpty then "_" else
  ",".intercalate (ps.map fun t => s!"{t.aliasType}:{t.tokenType}:{pB t.value}")

def parseProps (s : String) : Option Props :=
  if s == "_" then some [] else (s.splitOn ",").mapM (·.toNat?)

def pProps (ps : Props) : String :=
  if ps.isEmpty then "_" else ",".intercalate (ps.map toString)

def pMsg : Msg → String
  | .setup m => s!"setup {pB m.path} {pB m.authority}"
  | .clientSetup m => s!"csetup {pB m.path} {pB m.authority}"
  | .serverSetup m => s!"ssetup {pB m.path} {pB m.authority}"
  | .subscribe m => s!"sub {m.requestID} {pNs m.ns} {pB m.trackName} {pParams m.params}"
  | .subscribeOk m => s!"subok {m.trackAlias} {pParams m.params} {pProps m.props}"
  | .requestError m => s!"reqerr {m.code} {pB m.reason}"
  | .publish m =>
    s!"pub {m.requestID} {pNs m.ns} {pB m.trackName} {m.trackAlias} {pParams m.params} {pProps m.props}"
  | .publishOk m => s!"pubok {pParams m.params} {pProps m.props}"
  | .requestOk m => s!"reqok {pParams m.params} {pProps m.props}"

def parseMsg : List String → Option Msg
  | ["setup", p, a] => do pure (.setup ⟨← parseB p, ← parseB a⟩)
  | ["csetup", p, a] => do pure (.clientSetup ⟨← parseB p, ← parseB a⟩)
  | ["ssetup", p, a] => do pure (.serverSetup ⟨← parseB p, ← parseB a⟩)
  | ["sub", rid, ns, tn, ps] => do
    pure (.subscribe ⟨← rid.toNat?, ← parseNs ns, ← parseB tn, ← parseParams ps⟩)
  | ["subok", al, ps, pr] => do pure (.subscribeOk ⟨← al.toNat?, ← parseParams ps, ← parseProps pr⟩)
  | ["reqerr", c, r] => do pure (.requestError ⟨← c.toNat?, ← parseB r⟩)
  | ["pub", rid, ns, tn, al, ps, pr] => do
    pure (.publish ⟨← rid.toNat?, ← parseNs ns, ← parseB tn, ← al.toNat?, ← parseParams ps, ← parseProps pr⟩)
  | ["pubok", ps, pr] => do pure (.publishOk ⟨← parseParams ps, ← parseProps pr⟩)
  | ["reqok", ps, pr] => do pure (.requestOk ⟨← parseParams ps, ← parseProps pr⟩)
  | _ => none

def b01 (b : Bool) : String := if b then "1" else "0"
def parse01 (s : String) : Option Bool := if s == "1" then some true else if s == "0" then some false else none

def pHeader (h : Header) : String := s!"{b01 h.properties} {b01 h.firstObject} {h.trackAlias} {h.groupID}"
def pObject (o : Object) : String := s!"{o.idDelta} {pProps o.props} {pB o.payload}"
def pSubGroup (s : SubGroup) : String :=
  s!"{pHeader s.header} {s.objects.length}" ++ String.join (s.objects.map fun o => " " ++ pObject o)

def parseObjects : List String → Option (List Object)
  | [] => some []
  | d :: pr :: pl :: rest => do
    let o : Object := ⟨← d.toNat?, ← parseProps pr, ← parseB pl⟩
    pure (o :: (← parseObjects rest))
  | _ => none

/-! ### running a decoder -/

/-- (canonical answer, modelled allocation) -/
def showOut (o : Out α) (inLen : Nat) (p : α → String) (withN : Bool := true) : String × Nat :=
  match o.r with
  | .ok v rest => ((if withN then s!"ok {p v} {inLen - rest.length}" else s!"ok {p v}"), o.alloc)
  | .err e => (s!"err {e.toStr}", o.alloc)
  | .panic => ("panic", o.alloc)

/-- `kind` = the words between `dec` and the byte string -/
def runDec (kind : List String) (b : Bytes) : Option (String × Nat) :=
  match kind with
  | ["vu"] => some (showOut (varint false b) b.length toString)
  | ["vr"] => some (showOut (varint true b) b.length toString)
  | ["ns"] => some (showOut (decNamespace b) b.length pNs)
  | ["pa", n] => do
    let n ← n.toNat?
    pure (showOut (paramsLoop n 0 b) b.length pParams)
  | ["pr"] => some (showOut (decProps b) b.length pProps false)
  | ["msg"] => some (showOut (readMsg b) b.length pMsg)
  | ["hdr"] => some (showOut (readHeader b) b.length pHeader)
  | ["obj", hp] => do
    let hp ← parse01 hp
    pure (showOut (readObject hp b) b.length pObject)
  | ["sg"] => some (showOut (readSubGroup b) b.length pSubGroup)
  | _ => none

/-- result of encoding a value given as words: bytes, decoder kind for the way back, canonical text
of the value as the decoder would print it, `wf`, and (messages) body-wf-but-too-long flag -/
structure EncRes where
  bytes : Bytes
  back : List String
  canon : String
  wf : Bool
  withN : Bool := true
  overFrame : Bool := false
  isReqErr : Bool := false

def runEnc : List String → Option EncRes
  | ["ns", ns] => do
    let ns ← parseNs ns
    pure { bytes := encNamespace ns, back := ["ns"], canon := pNs ns, wf := wfNamespace ns }
  | ["pa", ps] => do
    let ps ← parseParams ps
    pure { bytes := encParams ps, back := ["pa", toString ps.length], canon := pParams ps, wf := wfParams ps }
  | ["pr", ps] => do
    let ps ← parseProps ps
    pure { bytes := encProps ps, back := ["pr"], canon := pProps ps, wf := wfProps ps, withN := false }
  | "msg" :: rest => do
    let m ← parseMsg rest
    pure { bytes := encMsg m, back := ["msg"], canon := pMsg m, wf := wfMsg m,
           overFrame := wfMsgBody m && !fitsFrame m,
           isReqErr := match m with | .requestError _ => true | _ => false }
  | ["hdr", p, f, a, g] => do
    let h : Header := ⟨← parse01 p, ← parse01 f, ← a.toNat?, ← g.toNat?⟩
    pure { bytes := encHeader h, back := ["hdr"], canon := pHeader h, wf := wfHeader h }
  | ["obj", hp, d, pr, pl] => do
    let hp ← parse01 hp
    let o : Object := ⟨← d.toNat?, ← parseProps pr, ← parseB pl⟩
    pure { bytes := encObject hp o, back := ["obj", b01 hp], canon := pObject o, wf := wfObject hp o }
  | "sg" :: p :: f :: a :: g :: _n :: objs => do
    let h : Header := ⟨← parse01 p, ← parse01 f, ← a.toNat?, ← g.toNat?⟩
    let s : SubGroup := ⟨h, ← parseObjects objs⟩
    pure { bytes := encSubGroup s, back := ["sg"], canon := pSubGroup s, wf := wfSubGroup s }
  | _ => none

def isPanic (impl : String) : Bool := impl.startsWith "panic"

/-- canonical text of the value inside an `ok <value> [<consumed>]` answer -/
def valueOf (ans : String) (withN : Bool) : Option String :=
  match ans.splitOn " " with
  | "ok" :: rest =>
    let ws := if withN then rest.dropLast else rest
    some (" ".intercalate ws)
  | _ => none

/-- driver state: values retained by `keep` ops since the last `reset`, as printed by the model and
as printed by the implementation at decode time -/
structure St where
  model : List String := []
  impl : List String := []

def stepKeep (st : St) (op impl : String) : Option (St × DrvOut) :=
  match words op with
  | ["reset"] => some ({}, { model := "ok" })
  | "keep" :: rest =>
    match rest.getLast?, rest.dropLast with
    | some hx, kind =>
      match parseB hx with
      | some b =>
        match runDec kind b with
        | some (ans, _) =>
          let withN := kind != ["pr"]
          let st' : St :=
            { model := match valueOf ans withN with | some v => st.model ++ [v] | none => st.model,
              impl := match valueOf impl withN with | some v => st.impl ++ [v] | none => st.impl }
          some (st', { model := ans, spec := if impl.startsWith "panic" then "FAIL decoder panicked on arbitrary bytes" else "ok" })
        | none => some (st, { model := "bad-op" })
      | none => some (st, { model := "bad-op" })
    | none, _ => some (st, { model := "bad-op" })
  | ["recheck"] =>
    let show_ (l : List String) := " | ".intercalate (toString l.length :: l)
    -- the property on the implementation's own answers: every retained value still prints as it did
    -- when it was decoded (decode(encode x) = x must keep holding while the session goes on)
    some (st, { model := show_ st.model,
                spec := if impl == show_ st.impl then "ok"
                        else "FAIL a decoded value changed after later decodes/encodes (it aliases a recycled buffer)" })
  | _ => none

def step1 (op impl : String) : DrvOut :=
  match words op with
  | ["reset"] => { model := "ok" }
  | ["vi", v] =>
    match v.toNat? with
    | some v =>
      let b := encVarint v
      let d1 := (showOut (varint false b) b.length toString).1
      let d2 := (showOut (varint true b) b.length toString).1
      let model := s!"{Hex.encode b} {b.length} {d1} {d2}"
      -- the property on the implementation's answer: size table + both decoders return v
      let expect := s!"{Hex.encode b} {varintLen v} ok {v} {varintLen v} ok {v} {varintLen v}"
      ({ model, spec := if impl == expect then "ok" else
        if isPanic impl then "FAIL varint codec panicked" else "FAIL varint does not round-trip / wrong size" })
    | none => ({ model := "bad-op" })
  | "dec" :: rest =>
    match rest.getLast?, rest.dropLast with
    | some hx, kind =>
      match parseB hx with
      | some b =>
        match runDec kind b with
        | some (ans, _) =>
          ({ model := ans, spec := if isPanic impl then "FAIL decoder panicked on arbitrary bytes" else "ok" })
        | none => ({ model := "bad-op" })
      | none => ({ model := "bad-op" })
    | none, _ => ({ model := "bad-op" })
  | "mem" :: rest =>
    match rest.getLast?, rest.dropLast with
    | some hx, kind =>
      match parseB hx with
      | some b =>
        match runDec kind b, impl.toNat? with
        | some (_, a), some n =>
          let bound := 2 * a + 16 * b.length + 4096
          ({ model := "-", spec := if n ≤ bound then "ok" else
            s!"FAIL decoder allocated {n} bytes, the model accounts for {a} (bound {bound})" })
        | some _, none => ({ model := "-", spec := "FAIL unparsable implementation answer" })
        | none, _ => ({ model := "bad-op" })
      | none => ({ model := "bad-op" })
    | none, _ => ({ model := "bad-op" })
  | "enc" :: rest =>
    match runEnc rest with
    | some e =>
      match runDec e.back e.bytes with
      | some (ans, _) =>
        let model := s!"{pB e.bytes} {ans}"
        let expect := if e.withN then s!"{pB e.bytes} ok {e.canon} {e.bytes.length}"
                      else s!"{pB e.bytes} ok {e.canon}"
        let spec :=
          if isPanic impl || (impl.splitOn " panic").length > 1 then "FAIL codec panicked"
          else if e.wf then (if impl == expect then "ok" else "FAIL encoded value does not decode to itself")
          else if e.overFrame && e.isReqErr && Gen.C32.reasonUnbounded && impl != expect then
            -- fixed in /repo (4b16838): the server bounds the reason it encodes.  If a REQUEST_ERROR is
            -- again built from an unbounded string (regenerated fact), the wrapped frame length is a
            -- violation of the round-trip property, not a known finding.
            "FAIL frameLenOverflow: REQUEST_ERROR payload exceeds the 16-bit length field (the server builds the reason from an unbounded string); the frame is emitted with a truncated length and does not decode"
          else "ok"
        ({ model, spec })
      | none => ({ model := "bad-op" })
    | none => ({ model := "bad-op" })
  | _ => ({ model := "bad-op" })

def step (st : St) (op impl : String) : St × DrvOut :=
  match stepKeep st op impl with
  | some r => r
  | none => (st, step1 op impl)

def main (args : List String) : IO UInt32 := runDriver args ({} : St) step
