import MtxVerif.Model.C20
open MtxVerif MtxVerif.PathSM

structure D where
  m : Drv.M := {}
  sp : C20.Spec := {}

def step (d : D) (op impl : String) : D × DrvOut :=
  match words op with
  | ["hookobj", kind] =>
    -- hooks.OnRead / hooks.OnConnect called directly: start hook, then the returned closure once
    (d, { model := s!"h+{kind} h-{kind}", spec := if impl == s!"h+{kind} h-{kind}" then "ok"
            else s!"FAIL run-on-{kind} hook pair is not start-then-stop" })
  | _ =>
    let o := Drv.parseOp op
    let (m', _, ans) := Drv.exec d.m o
    let sp' := C20.specOp d.sp o impl
    ({ m := m', sp := sp' }, { model := ans, spec := sp'.verdict })

def main (args : List String) : IO UInt32 := runDriver args ({} : D) step
