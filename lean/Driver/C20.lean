import MtxVerif.Model.C20
open MtxVerif MtxVerif.PathSM

/-- pair automaton (same as `PathSM.alt` of Lemmas/C20Hooks, kept local so the driver stays small) -/
def altRun : Bool → List Bool → Option Bool
  | f, [] => some f
  | f, b :: bs => if b = f then none else altRun b bs

structure D where
  m : Drv.M := {}
  sp : C20.Spec := {}

def step (d : D) (op impl : String) : D × DrvOut :=
  match words op with
  | ["hookobj", kind] =>
    -- hooks.OnRead / hooks.OnConnect called directly: start hook, then the returned closure once
    (d, { model := s!"h+{kind} h-{kind}", spec := if impl == s!"h+{kind} h-{kind}" then "ok"
            else s!"FAIL run-on-{kind} hook pair is not start-then-stop" })
  | ["rtsp", evs] =>
    -- the real RTSP session handlers against the session machine of Model/C20
    let es := (evs.splitOn ",").filterMap fun e => match e with
      | "setup" => some C20.REv.setup | "play" => some .play | "pause" => some .pause | "close" => some .close
      | _ => none
    let r := C20.rtspRun .initial es
    let fmt := fun (l : List Bool) => if l.isEmpty then "-" else " ".intercalate (l.map fun b => if b then "h+read" else "h-read")
    let toks := if impl == "-" then [] else words impl
    let evsI := toks.filterMap fun t => if t == "h+read" then some true else if t == "h-read" then some false else none
    let verdict :=
      if toks.contains "PANIC" then "FAIL an RTSP session handler panicked (hook closure called twice?)"
      else if evsI.length != toks.length then "FAIL unexpected token in the RTSP session trace"
      else match altRun false evsI with
        | none => "FAIL runOnRead/runOnUnread executions of the RTSP session do not alternate: " ++ impl
        | some open_ =>
          if open_ && es.contains .close then "FAIL RTSP session closed with an open runOnRead pair" else "ok"
    (d, { model := fmt r.2, spec := verdict })
  | ["rtspconn", c] =>
    let m := if c == "1" then "h+connect h-connect" else "h+connect"
    (d, { model := m, spec := if impl == m then "ok" else "FAIL runOnConnect/runOnDisconnect pair of the RTSP connection: " ++ impl })
  | _ =>
    let o := Drv.parseOp op
    let (m', _, ans) := Drv.exec d.m o
    let sp' := C20.specOp d.sp o impl
    ({ m := m', sp := sp' }, { model := ans, spec := sp'.verdict })

def main (args : List String) : IO UInt32 := runDriver args ({} : D) step
