import MtxVerif.Model.C20
open MtxVerif MtxVerif.PathSM

/-- pair automaton (same as `PathSM.alt` of Lemmas/C20Hooks, kept local so the driver stays small) -/
def altRun : Bool → List Bool → Option Bool
  | f, [] => some f
  | f, b :: bs => if b = f then none else altRun b bs

structure D where
  m : Drv.M := {}
  sp : C20.Spec := {}

def step (d : D) (op impl : String) : D × DrvOut :=
  match words op with
  | ["hookobj", kind] =>
    -- hooks.OnRead / hooks.OnConnect called directly: start hook, then the returned closure once
    (d, { model := s!"h+{kind} h-{kind}", spec := if impl == s!"h+{kind} h-{kind}" then "ok"
            else s!"FAIL run-on-{kind} hook pair is not start-then-stop" })
  | ["rtsp", evs] =>
    -- the real RTSP session handlers against the session machine of Model/C20
    if impl == "no-shim" then (d, { model := "no-shim" }) else
    let es := (evs.splitOn ",").filterMap fun e => match e with
      | "setup" => some C20.REv.setup | "play" => some .play | "pause" => some .pause | "close" => some .close
      | _ => none
    let r := C20.rtspRun .initial es
    let fmt := fun (l : List Bool) => if l.isEmpty then "-" else " ".intercalate (l.map fun b => if b then "h+read" else "h-read")
    let toks := if impl == "-" then [] else words impl
    let evsI := toks.filterMap fun t => if t == "h+read" then some true else if t == "h-read" then some false else none
    let verdict :=
      if toks.contains "PANIC" then "FAIL an RTSP session handler panicked (hook closure called twice?)"
      else if evsI.length != toks.length then "FAIL unexpected token in the RTSP session trace"
      else match altRun false evsI with
        | none => "FAIL runOnRead/runOnUnread executions of the RTSP session do not alternate: " ++ impl
        | some open_ =>
          if open_ && es.contains .close then "FAIL RTSP session closed with an open runOnRead pair" else "ok"
    (d, { model := fmt r.2, spec := verdict })
  | ["hls", script] =>
    -- the real HLS session / muxer code against the muxer machine of Model/C20
    if impl == "no-shim" then (d, { model := "no-shim" }) else
    let num := fun (pre : String) (e : String) => if e.startsWith pre then (e.drop pre.length).toString.toNat? else none
    let es := (script.splitOn ",").filterMap fun e =>
      if e == "down" then some C20.HEv.down else if e == "up" then some .up else if e == "end" then some .fin
      else match num "open" e, num "cdn" e, num "kick" e with
        | some n, _, _ => some (.openS n)
        | _, some n, _ => some (.cdnS n)
        | _, _, some n => some (.kick n)
        | _, _, _ => none
    let tok := fun (o : C20.HOut) => match o with
      | .hook n true => s!"h+read:{n}" | .hook n false => s!"h-read:{n}" | .err n => s!"err:{n}"
    -- per event; the close2 calls of ONE "stop everything" come in map order in the real loop (the shim
    -- closes in ascending session number): order the stops of a `down` / `end` event by number
    let stepOut := fun (st : C20.HState) (e : C20.HEv) =>
      let r := C20.hlsStep st e
      let outs := match e with
        | .down | .fin =>
          (Drv.sortNat (r.2.filterMap fun (o : C20.HOut) => match o with | C20.HOut.hook n false => some n | _ => none)).map
            fun n => C20.HOut.hook n false
        | _ => r.2
      (r.1, outs)
    let modelToks := (es.foldl (fun (acc : C20.HState × List String) e =>
      let r := stepOut acc.1 e
      (r.1, acc.2 ++ r.2.map tok)) (({} : C20.HState), [])).2
    let fmt := fun (l : List String) => if l.isEmpty then "-" else " ".intercalate l
    let toks := if impl == "-" then [] else words impl
    let sess := (toks.filterMap fun t =>
      match t.splitOn ":" with | [_, n] => n.toNat? | _ => none).eraseDups
    let verdict :=
      if toks.contains "PANIC" then "FAIL an HLS session/muxer function panicked"
      else
        let bad := sess.filter fun n =>
          let evs := toks.filterMap fun t =>
            if t == s!"h+read:{n}" then some true else if t == s!"h-read:{n}" then some false else none
          match altRun false evs with
          | none => true
          | some open_ => open_ && es.contains .fin
        if bad.isEmpty then "ok"
        else s!"FAIL runOnRead/runOnUnread of HLS session(s) {bad} not in start/stop pairs closed at muxer destruction: " ++ impl
    (d, { model := fmt modelToks, spec := verdict })
  | ["rtspconn", c] =>
    if impl == "no-shim" then (d, { model := "no-shim" }) else
    let m := if c == "1" then "h+connect h-connect" else "h+connect"
    (d, { model := m, spec := if impl == m then "ok" else "FAIL runOnConnect/runOnDisconnect pair of the RTSP connection: " ++ impl })
  | _ =>
    let o := Drv.parseOp op
    let (m', _, ans) := Drv.exec d.m o
    let sp' := C20.specOp d.sp o impl
    ({ m := m', sp := sp' }, { model := ans, spec := sp'.verdict })

def main (args : List String) : IO UInt32 := runDriver args ({} : D) step
