import MtxVerif.Model.C41
open MtxVerif MtxVerif.C41

def step (_ : Unit) (op impl : String) : Unit × DrvOut :=
  match words op with
  | ["hs", _cert, hashH, fpH, _mode, _ver] =>
    match Hex.decode hashH, Hex.decode fpH with
    | some hash, some fp =>
      let m := if accept fp hash then "ok" else "reject"
      let want := ciEq fp hash
      let spec :=
        if impl == "ok" && !want then "FAIL connection succeeded although the leaf's SHA-256 differs from the fingerprint"
        else if impl == "reject" && want then "FAIL pinned certificate rejected (the decision must not depend on chain validity or letter case)"
        else if impl != "ok" && impl != "reject" then "FAIL unexpected implementation answer"
        else "ok"
      ((), { model := m, spec })
    | _, _ => ((), { model := "bad-op" })
  | ["reset"] => ((), { model := "ok" })
  | ["runes"] => ((), { model := "ok", spec := if impl == "ok" then "ok" else "FAIL a non-ASCII rune lower-cases to a hex digit (model assumption broken)" })
  | _ => ((), { model := "bad-op" })

def main (args : List String) : IO UInt32 := runDriver args () step
