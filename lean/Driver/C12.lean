import MtxVerif.Model.C12
import MtxVerif.Gen.C12
open MtxVerif MtxVerif.C12

/-- the clone shares `OptionalPath.Values` with the running configuration iff `deepClone` has no Interface case -/
def shared : Bool := !MtxVerif.Gen.C12.caseInterface

structure D where
  code : St := {}          -- state of the model of the code
  cur : St := {}           -- the implementation's state, reconstructed from its answers
  gk : List Key := []
  pk : List Key := []
  dep : Bool := false      -- deprecated parameters in play: exactness is not checked (see Model/C12)
  tainted : Bool := false  -- a rejected PATCH of an existing path happened earlier in this history

def insertSorted (x : String) : List String → List String
  | [] => [x]
  | y :: ys => if x < y then x :: y :: ys else if x == y then y :: ys else y :: insertSorted x ys

def sortedUnion (a b : List String) : List String := (a ++ b).foldl (fun acc x => insertSorted x acc) []

def setField (r : Rec) (k : Key) (v : Val) : Rec := if v == "~" then r.filter (fun e => !(e.1 == k)) else (k, v) :: r

/-- apply one snapshot token to a state -/
def applyTok (s : St) (tok : String) : Option St :=
  match tok.splitOn ":" with
  | ["G", kv] => match kv.splitOn "=" with
    | [k, v] => some { s with g := setField s.g k v }
    | _ => none
  | ["D", kv] => match kv.splitOn "=" with
    | [k, v] => some { s with d := setField s.d k v }
    | _ => none
  | [sec, n, x] =>
    let upd (m : PMap) : Option PMap :=
      if x == "+" then some ((n, []) :: premove m n)
      else if x == "-" then some (premove m n)
      else match x.splitOn "=" with
        | [k, v] => some ((n, setField ((pget m n).getD []) k v) :: m)
        | _ => none
    if sec == "O" then (upd s.o).map fun m => { s with o := m }
    else if sec == "P" then (upd s.p).map fun m => { s with p := m }
    else none
  | _ => none

def applyToks (s : St) (toks : List String) : Option St := toks.foldlM applyTok s

def diffRec (pre : String) (ks : List Key) (old cur : Rec) : List String :=
  ks.filterMap fun k =>
    match get old k, get cur k with
    | some a, some b => if a == b then none else some (pre ++ k ++ "=" ++ b)
    | none, some b => some (pre ++ k ++ "=" ++ b)
    | some _, none => some (pre ++ k ++ "=~")
    | none, none => none

def diffMap (sec : String) (pk : List Key) (old cur : PMap) : List String :=
  (sortedUnion (names old) (names cur)).flatMap fun n =>
    let pre := sec ++ ":" ++ n ++ ":"
    match pget old n, pget cur n with
    | some _, none => [pre ++ "-"]
    | none, some c => (pre ++ "+") :: diffRec pre pk [] c
    | some o, some c => diffRec pre pk o c
    | none, none => []

def diffSt (gk pk : List Key) (a b : St) : List String :=
  diffRec "G:" gk a.g b.g ++ diffRec "D:" pk a.d b.d ++ diffMap "O" pk a.o b.o ++ diffMap "P" pk a.p b.p

def fmtAns (res : String) (d : List String) : String :=
  if d.isEmpty then res else res ++ " " ++ " ".intercalate d

/-- oracle column: `ERR` | `-` | `k=v,!k=v`  →  (request, uses deprecated parameters) -/
def parseOracle (s : String) : Option (Option Rec × Bool) :=
  if s == "ERR" then some (none, false)
  else if s == "-" then some (some [], false)
  else do
    let fs ← (s.splitOn ",").mapM fun kv => match kv.splitOn "=" with
      | [k, v] => some (k, v)
      | _ => none
    let dep := fs.any fun e => e.1.startsWith "!"
    pure (some (fs.map fun e => (if e.1.startsWith "!" then (e.1.drop 1).toString else e.1, e.2)), dep)

def parseRes (s : String) : Option Res :=
  if s == "ok" then some .ok else if s == "dec-err" then some .decErr else if s == "exists" then some .exists
  else if s == "not-found" then some .notFound else if s == "invalid" then some .invalid else none

def runOp (d : D) (op : Op) (reqDep : Bool) (impl : String) : D × DrvOut :=
  let iw := words impl
  match iw.head?.bind parseRes with
  | none => (d, { model := "-", spec := "FAIL unparsable implementation answer: " ++ (impl.take 80).toString })
  | some ires =>
    let acc := ires == .ok
    let dep := d.dep || reqDep
    let (code', mres) := step shared d.code op acc
    let model := if dep then "-" else fmtAns mres.str (diffSt d.gk d.pk d.code code')
    if iw.any (·.startsWith "X:") then
      ({ d with dep, code := code' }, { model, spec := "FAIL an edit was accepted although the resulting configuration does not validate" })
    else
    match applyToks d.cur (iw.drop 1) with
    | none => ({ d with dep, code := code' }, { model, spec := "FAIL unparsable snapshot diff in the implementation answer" })
    | some cur' =>
      let opName : List Name := match op with
        | .add n _ | .patch n _ | .replace n _ | .delete n => [n]
        | _ => []
      let U : Univ := { gk := d.gk, pk := d.pk,
                        ns := sortedUnion (sortedUnion (names d.cur.o) (names cur'.o)) (sortedUnion (names d.cur.p) (names cur'.p) ++ opName) }
      let leakNow := match op with
        | .patch n (some _) => phas d.cur.o n && ires == .invalid
        | _ => false
      let tainted := d.tainted || leakNow
      let good := if dep then stepOKweak U d.cur op cur' ires else stepOK U d.cur op cur' ires
      let spec :=
        if good then "ok"
        else "FAIL " ++ (match ires with
          | .ok => "accepted edit did not change exactly the requested fields / reads do not return the stored values"
          | .exists => "add: 'exists' on a missing name or state changed"
          | .notFound => "not-found on an existing name or state changed"
          | .decErr => "undecodable request changed the configuration or decodable request refused as undecodable"
          | .invalid => "rejected edit changed the running configuration")
      -- after a divergence caused by the known leak the two states are re-synchronised on the implementation
      ({ d with dep, tainted, cur := cur', code := if dep then cur' else code' }, { model, spec })

/-- one edit op as words → (op, uses deprecated parameters) -/
def parseEdit : List String → Except String (Op × Bool)
  | ["gpatch", _, orc] => withOrc orc fun r => .gpatch r
  | ["dpatch", _, orc] => withOrc orc fun r => .dpatch r
  | ["delete", n] => .ok (.delete n, false)
  | [kind, n, _, orc] =>
    if kind == "add" then withOrc orc fun r => .add n r
    else if kind == "patch" then withOrc orc fun r => .patch n r
    else if kind == "replace" then withOrc orc fun r => .replace n r
    else .error "bad-op"
  | _ => .error "bad-op"
where
  withOrc (orc : String) (f : Option Rec → Op) : Except String (Op × Bool) :=
    if orc == "KEYS-MISMATCH" then .error "keys"
    else match parseOracle orc with
      | some (req, dep) => .ok (f req, dep)
      | none => .error "bad-op"

def splitBar (ws : List String) : List (List String) :=
  let r := ws.foldl (fun (acc : List (List String) × List String) w =>
    if w == "|" then (acc.1 ++ [acc.2], []) else (acc.1, acc.2 ++ [w])) ([], [])
  r.1 ++ [r.2]

def insertAll {α : Type} (x : α) : List α → List (List α)
  | [] => [[x]]
  | y :: ys => (x :: y :: ys) :: (insertAll x ys).map (y :: ·)

def perms {α : Type} : List α → List (List α)
  | [] => [[]]
  | x :: xs => (perms xs).flatMap (insertAll x)

/-- run the edits in the given order from `s`, with the implementation's verdicts; `none` if some result
differs from what the implementation answered for that edit -/
def runSeq (s : St) : List (Op × Res) → Option St
  | [] => some s
  | (op, res) :: rest =>
    let (s', mres) := step shared s op (res == .ok)
    if mres == res then runSeq s' rest else none

def opNames : Op → List Name
  | .add n _ | .patch n _ | .replace n _ | .delete n => [n]
  | _ => []

/-- concurrent edits: linearisability — the results and the final configuration must be those of SOME
sequential order of the edits (each step of which satisfies the property, `history_ok`) -/
def runPar (d : D) (ops : List (Op × Bool)) (impl : String) : D × DrvOut :=
  match words impl with
  | "par" :: resS :: toks =>
    match (resS.splitOn ",").mapM parseRes with
    | none => (d, { model := "-", spec := "FAIL unparsable implementation answer: " ++ (impl.take 80).toString })
    | some ress =>
      if ress.length != ops.length then (d, { model := "-", spec := "FAIL wrong number of results" }) else
      let dep := d.dep || ops.any (·.2)
      let items := (ops.map (·.1)).zip ress
      if toks.any (·.startsWith "X:") then
        ({ d with dep }, { model := "-", spec := "FAIL an edit was accepted although the resulting configuration does not validate" })
      else
      let diffToks := toks
      match applyToks d.cur diffToks with
      | none => ({ d with dep }, { model := "-", spec := "FAIL unparsable snapshot diff in the implementation answer" })
      | some cur' =>
        let orders := perms items
        let finalsCode := orders.filterMap (runSeq d.code)
        let pick := match finalsCode.find? (fun f => diffSt d.gk d.pk d.code f == diffToks) with
          | some f => some f
          | none => finalsCode.head?
        let model := if dep then "-" else match pick with
          | some f => fmtAns ("par " ++ resS) (diffSt d.gk d.pk d.code f)
          | none => "no-sequential-order"
        let U : Univ := { gk := d.gk, pk := d.pk,
                          ns := sortedUnion (sortedUnion (names d.cur.o) (names cur'.o))
                                  (sortedUnion (names d.cur.p) (names cur'.p) ++ (ops.flatMap fun o => opNames o.1)) }
        let finalsCur := orders.filterMap (runSeq d.cur)
        let spec :=
          if dep then "ok"
          else if finalsCur.any (fun f => sameSt U f cur') then "ok"
          else if finalsCur.isEmpty then
            "FAIL concurrent edits: the answers (" ++ resS ++ ") are those of no sequential order of the edits"
          else "FAIL concurrent edits: the resulting configuration is that of no sequential order of the accepted edits (lost update)"
        ({ d with dep, cur := cur', code := if dep then cur' else (pick.getD d.code) }, { model, spec })
  | _ => (d, { model := "-", spec := "FAIL unparsable implementation answer: " ++ (impl.take 80).toString })

/-- fields served as the redaction placeholder (C07) are left out of what reads are compared on -/
def readSkip (k : Key) : Bool := k == "authInternalUsers" || k == "publishPass" || k == "readPass"

def renderRead (d : D) (s : St) (what : String) (name : Name) : String :=
  let gk := d.gk.filter (!readSkip ·)
  let pk := d.pk.filter (!readSkip ·)
  let one (n : Name) (r : Rec) : List String := ("P:" ++ n ++ ":+") :: diffRec ("P:" ++ n ++ ":") pk [] r
  if what == "g" then fmtAns "200" (diffRec "G:" gk [] s.g)
  else if what == "d" then fmtAns "200" (diffRec "D:" pk [] s.d)
  else if what == "l" then
    fmtAns "200" ((sortedUnion (names s.p) []).flatMap fun n => one n ((pget s.p n).getD []))
  else match pget s.p name with
    | some r => fmtAns "200" (one name r)
    | none => "404"

/-- reads: return what is stored ("a successful edit is what subsequent reads return"), change nothing -/
def runRead (d : D) (what : String) (name : Name) (impl : String) : D × DrvOut :=
  let iw := words impl
  let model := if d.dep then "-" else renderRead d d.code what name
  let served := " ".intercalate (iw.filter (fun w => !w.startsWith "X:"))
  let spec :=
    if iw.any (·.startsWith "X:") then "FAIL a read (GET) changed the running configuration"
    else if served != renderRead d d.cur what name then
      "FAIL a read does not return the stored configuration (config/" ++
        (if what == "g" then "global/get" else if what == "d" then "pathdefaults/get" else if what == "l" then "paths/list" else "paths/get") ++ ")"
    else "ok"
  (d, { model, spec })

def step' (d : D) (op impl : String) : D × DrvOut :=
  match words op with
  | "reset" :: _ :: dep0 :: toks =>
    match applyToks {} toks with
    | none => ({}, { model := "bad-op", spec := "FAIL unparsable initial snapshot" })
    | some s =>
      -- tokens were applied front to back with prepend: restore struct order for the key universes
      let gk := (toks.filterMap fun t => match t.splitOn ":" with
        | ["G", kv] => (kv.splitOn "=").head?
        | _ => none)
      let pk := (toks.filterMap fun t => match t.splitOn ":" with
        | ["D", kv] => (kv.splitOn "=").head?
        | _ => none)
      ({ code := s, cur := s, gk, pk, dep := dep0 == "1" }, { model := "ok" })
  | ["read", what] => runRead d what "" impl
  | ["read", what, n] => runRead d what n impl
  | "par" :: rest =>
    match (splitBar rest).mapM parseEdit with
    | .ok ops => runPar d ops impl
    | .error e =>
      if e == "keys" then (d, { model := "-", spec := "FAIL request decoder dropped or invented a field" })
      else (d, { model := "bad-op" })
  | ws =>
    match parseEdit ws with
    | .ok (o, dep) => runOp d o dep impl
    | .error e =>
      if e == "keys" then (d, { model := "-", spec := "FAIL request decoder dropped or invented a field" })
      else (d, { model := "bad-op" })

def main (args : List String) : IO UInt32 := runDriver args ({} : D) step'
