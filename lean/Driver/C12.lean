import MtxVerif.Model.C12
import MtxVerif.Gen.C12
open MtxVerif MtxVerif.C12

/-- the clone shares `OptionalPath.Values` with the running configuration iff `deepClone` has no Interface case -/
def shared : Bool := !MtxVerif.Gen.C12.caseInterface

structure D where
  code : St := {}          -- state of the model of the code
  cur : St := {}           -- the implementation's state, reconstructed from its answers
  gk : List Key := []
  pk : List Key := []
  dep : Bool := false      -- deprecated parameters in play: exactness is not checked (see Model/C12)
  tainted : Bool := false  -- a rejected PATCH of an existing path happened earlier in this history

def insertSorted (x : String) : List String → List String
  | [] => [x]
  | y :: ys => if x < y then x :: y :: ys else if x == y then y :: ys else y :: insertSorted x ys

def sortedUnion (a b : List String) : List String := (a ++ b).foldl (fun acc x => insertSorted x acc) []

def setField (r : Rec) (k : Key) (v : Val) : Rec := if v == "~" then r.filter (fun e => !(e.1 == k)) else (k, v) :: r

/-- apply one snapshot token to a state -/
def applyTok (s : St) (tok : String) : Option St :=
  match tok.splitOn ":" with
  | ["G", kv] => match kv.splitOn "=" with
    | [k, v] => some { s with g := setField s.g k v }
    | _ => none
  | ["D", kv] => match kv.splitOn "=" with
    | [k, v] => some { s with d := setField s.d k v }
    | _ => none
  | [sec, n, x] =>
    let upd (m : PMap) : Option PMap :=
      if x == "+" then some ((n, []) :: premove m n)
      else if x == "-" then some (premove m n)
      else match x.splitOn "=" with
        | [k, v] => some ((n, setField ((pget m n).getD []) k v) :: m)
        | _ => none
    if sec == "O" then (upd s.o).map fun m => { s with o := m }
    else if sec == "P" then (upd s.p).map fun m => { s with p := m }
    else none
  | _ => none

def applyToks (s : St) (toks : List String) : Option St := toks.foldlM applyTok s

def diffRec (pre : String) (ks : List Key) (old cur : Rec) : List String :=
  ks.filterMap fun k =>
    match get old k, get cur k with
    | some a, some b => if a == b then none else some (pre ++ k ++ "=" ++ b)
    | none, some b => some (pre ++ k ++ "=" ++ b)
    | some _, none => some (pre ++ k ++ "=~")
    | none, none => none

def diffMap (sec : String) (pk : List Key) (old cur : PMap) : List String :=
  (sortedUnion (names old) (names cur)).flatMap fun n =>
    let pre := sec ++ ":" ++ n ++ ":"
    match pget old n, pget cur n with
    | some _, none => [pre ++ "-"]
    | none, some c => (pre ++ "+") :: diffRec pre pk [] c
    | some o, some c => diffRec pre pk o c
    | none, none => []

def diffSt (gk pk : List Key) (a b : St) : List String :=
  diffRec "G:" gk a.g b.g ++ diffRec "D:" pk a.d b.d ++ diffMap "O" pk a.o b.o ++ diffMap "P" pk a.p b.p

def fmtAns (res : String) (d : List String) : String :=
  if d.isEmpty then res else res ++ " " ++ " ".intercalate d

/-- oracle column: `ERR` | `-` | `k=v,!k=v`  →  (request, uses deprecated parameters) -/
def parseOracle (s : String) : Option (Option Rec × Bool) :=
  if s == "ERR" then some (none, false)
  else if s == "-" then some (some [], false)
  else do
    let fs ← (s.splitOn ",").mapM fun kv => match kv.splitOn "=" with
      | [k, v] => some (k, v)
      | _ => none
    let dep := fs.any fun e => e.1.startsWith "!"
    pure (some (fs.map fun e => (if e.1.startsWith "!" then (e.1.drop 1).toString else e.1, e.2)), dep)

def parseRes (s : String) : Option Res :=
  if s == "ok" then some .ok else if s == "dec-err" then some .decErr else if s == "exists" then some .exists
  else if s == "not-found" then some .notFound else if s == "invalid" then some .invalid else none

def runOp (d : D) (op : Op) (reqDep : Bool) (impl : String) : D × DrvOut :=
  let iw := words impl
  match iw.head?.bind parseRes with
  | none => (d, { model := "-", spec := "FAIL unparsable implementation answer: " ++ (impl.take 80).toString })
  | some ires =>
    let acc := ires == .ok
    let dep := d.dep || reqDep
    let (code', mres) := step shared d.code op acc
    let model := if dep then "-" else fmtAns mres.str (diffSt d.gk d.pk d.code code')
    if iw.any (·.startsWith "X:") then
      ({ d with dep, code := code' }, { model, spec := "FAIL an edit was accepted although the resulting configuration does not validate" })
    else
    match applyToks d.cur (iw.drop 1) with
    | none => ({ d with dep, code := code' }, { model, spec := "FAIL unparsable snapshot diff in the implementation answer" })
    | some cur' =>
      let opName : List Name := match op with
        | .add n _ | .patch n _ | .replace n _ | .delete n => [n]
        | _ => []
      let U : Univ := { gk := d.gk, pk := d.pk,
                        ns := sortedUnion (sortedUnion (names d.cur.o) (names cur'.o)) (sortedUnion (names d.cur.p) (names cur'.p) ++ opName) }
      let leakNow := match op with
        | .patch n (some _) => phas d.cur.o n && ires == .invalid
        | _ => false
      let tainted := d.tainted || leakNow
      let good := if dep then stepOKweak U d.cur op cur' ires else stepOK U d.cur op cur' ires
      let spec :=
        if good then "ok"
        else if shared && tainted && !dep && impl == model then
          (if leakNow then "KNOWN iface-shared a rejected PATCH of path " ++ bytesStr ((Hex.decode (opName.head?.getD "-")).getD []) ++
             " changed the stored optional values of the running configuration (the clone shares OptionalPath.Values)"
           else "KNOWN iface-shared values leaked by an earlier rejected PATCH surfaced in this edit (exactly as the model of the current code predicts)")
        else if shared && tainted && dep then
          "KNOWN iface-shared (deprecated-parameter history) a rejected PATCH changed the running configuration"
        else "FAIL " ++ (match ires with
          | .ok => "accepted edit did not change exactly the requested fields / reads do not return the stored values"
          | .exists => "add: 'exists' on a missing name or state changed"
          | .notFound => "not-found on an existing name or state changed"
          | .decErr => "undecodable request changed the configuration or decodable request refused as undecodable"
          | .invalid => "rejected edit changed the running configuration")
      -- after a divergence caused by the known leak the two states are re-synchronised on the implementation
      ({ d with dep, tainted, cur := cur', code := if dep then cur' else code' }, { model, spec })

def step' (d : D) (op impl : String) : D × DrvOut :=
  match words op with
  | "reset" :: _ :: dep0 :: toks =>
    match applyToks {} toks with
    | none => ({}, { model := "bad-op", spec := "FAIL unparsable initial snapshot" })
    | some s =>
      -- tokens were applied front to back with prepend: restore struct order for the key universes
      let gk := (toks.filterMap fun t => match t.splitOn ":" with
        | ["G", kv] => (kv.splitOn "=").head?
        | _ => none)
      let pk := (toks.filterMap fun t => match t.splitOn ":" with
        | ["D", kv] => (kv.splitOn "=").head?
        | _ => none)
      ({ code := s, cur := s, gk, pk, dep := dep0 == "1" }, { model := "ok" })
  | ["gpatch", _, orc] =>
    if orc == "KEYS-MISMATCH" then (d, { model := "-", spec := "FAIL request decoder dropped or invented a field" }) else
    match parseOracle orc with
    | some (req, dep) => runOp d (.gpatch req) dep impl
    | none => (d, { model := "bad-op" })
  | ["dpatch", _, orc] =>
    if orc == "KEYS-MISMATCH" then (d, { model := "-", spec := "FAIL request decoder dropped or invented a field" }) else
    match parseOracle orc with
    | some (req, dep) => runOp d (.dpatch req) dep impl
    | none => (d, { model := "bad-op" })
  | [kind, n, _, orc] =>
    if orc == "KEYS-MISMATCH" then (d, { model := "-", spec := "FAIL request decoder dropped or invented a field" }) else
    match parseOracle orc with
    | some (req, dep) =>
      if kind == "add" then runOp d (.add n req) dep impl
      else if kind == "patch" then runOp d (.patch n req) dep impl
      else if kind == "replace" then runOp d (.replace n req) dep impl
      else (d, { model := "bad-op" })
    | none => (d, { model := "bad-op" })
  | ["delete", n] => runOp d (.delete n) false impl
  | _ => (d, { model := "bad-op" })

def main (args : List String) : IO UInt32 := runDriver args ({} : D) step'
