import MtxVerif.Model.C35
open MtxVerif MtxVerif.C35

def b01 (b : Bool) : String := if b then "1" else "0"
def hx (b : Bytes) : String := Hex.encode b

def parseMethod (s : String) : Method :=
  if s == "GET" then .get else if s == "HEAD" then .head else if s == "PUT" then .put
  else if s == "POST" then .post else if s == "OPTIONS" then .options else if s == "PATCH" then .patch
  else if s == "DELETE" then .delete else .other

/-- regexp oracle column: `n` or comma separated hex groups; the full match (= the path) is prepended -/
def parseGroups (path : Bytes) (s : String) : Option (Option (List Bytes)) :=
  if s == "n" then some none else do
  let gs ← (s.splitOn ",").mapM Hex.decode
  pure (some (path :: gs))

def showR (r : R α) (f : α → String) : String :=
  match r with
  | .ok v => f v
  | .err => "err"
  | .panic => "panic"

def showHls : Option HlsRoute → String
  | none => "reject"
  | some .notGet => "none"
  | some .js => "js"
  | some .none => "none"
  | some (.index d) => s!"index {hx d}"
  | some (.multivariant d _) => s!"mv {hx d}"
  | some (.media d _) => s!"mux {hx d}"
  | some (.segment d _) => s!"mux {hx d}"
  | some (.redirect l) => s!"redirect {hx l}"

def showRtc (uuidOk : Bool) : RtcRoute → String
  | .whipOptions p pub => s!"auth {b01 pub} {hx p}"
  | .page p pub => s!"auth {b01 pub} {hx p}"
  | .whipPost _ _ => "post"
  | .notAllowed => "405"
  | .none => "none"
  | .patch _ => if uuidOk then "patch" else "secret400"
  | .delete _ => if uuidOk then "delete" else "secret400"
  | .publisherJS => "js-pub"
  | .readerJS => "js-read"
  | .redirect l => s!"redirect {hx l}"

def showReq (r : AccessReq) : String :=
  s!"req {b01 r.publish} {hx r.name} {hx r.query} {hx r.user} {hx r.pass}"

def showNameErr : Option NameErr → String
  | none => "ok"
  | some .empty => "bad empty"
  | some .leadingSlash => "bad leading"
  | some .trailingSlash => "bad trailing"
  | some .chars => "bad chars"
  | some .dots => "bad dots"

def showPb : PbOutcome → String
  | .badPath => "badpath" | .unauthorized => "unauthorized" | .noConf => "noconf"
  | .badStart => "badstart" | .badEnd => "badend" | .badDuration => "badduration"
  | .badFormat => "badformat" | .proceed => "proceed"

def verdict (impl : String) : String :=
  if impl.startsWith "panic" then "FAIL pre-authentication code panicked on client-chosen input"
  else if impl == "bad-oracle" then "FAIL oracle columns of the op line are stale"
  else "ok"

def step (_ : Unit) (op impl : String) : Unit × DrvOut :=
  let out (m : String) : Unit × DrvOut := ((), { model := m, spec := verdict impl })
  match words op with
  | ["reset"] => ((), { model := "ok" })
  | ["twcc", id, _raw, parsed, ext, prof, ids, nonNil] =>
    let ids? : Option (List Nat) := if ids == "_" then some [] else (ids.splitOn ",").mapM (·.toNat?)
    match id.toNat?, prof.toNat?, ids? with
    | some id, some prof, some ids =>
      if parsed != "1" then out "bad" else
      out (showR (stripTWCC id ⟨ext == "1", prof, ids⟩ (nonNil == "1")) fun p =>
        s!"ok {b01 p.ext} {p.profile} {if p.ids.isEmpty then "_" else ",".intercalate (p.ids.map toString)}")
    | _, _, _ => ((), { model := "bad-op" })
  | ["dump", cl, body] =>
    let body? : Option Bytes :=
      if body.startsWith "z" then ((body.drop 1).toString.toNat?).map fun n => List.replicate n (97 : UInt8)
      else Hex.decode body
    match cl.toInt?, body? with
    | some cl, some body =>
      out (showR (dumpCapped cl body) fun o =>
        if o.length > 64 then s!"len {o.length} tail {hx (o.drop (o.length - 20))}" else s!"body {hx o}")
    | _, _ => ((), { model := "bad-op" })
  | "http" :: _ =>
    -- raw request over a real loopback connection through the real httpp.Server chain: the answer is
    -- decided by net/http + gin (not modelled); the property is that the process survives
    ((), { model := "-", spec := verdict impl })
  | "mq" :: _ =>
    -- MoQ session history on an in-memory connection (stream fragments interleaved): spec only
    ((), { model := "-", spec := verdict impl })
  | ["srt", raw] =>
    match Hex.decode raw with
    | some raw =>
      out (showR (srtUnmarshal raw) fun s =>
        s!"ok {b01 s.publish} {hx s.path} {hx s.query} {hx s.user} {hx s.pass}")
    | none => ((), { model := "bad-op" })
  | "cred" :: n :: rest =>
    match n.toNat?, rest.mapM Hex.decode with
    | some n, some bs =>
      if bs.length == n + 2 then
        let auths := bs.take n
        out (showR (credentials auths (bs.getD n [], bs.getD (n + 1) [])) fun c =>
          s!"ok {hx c.user} {hx c.pass} {hx c.token}")
      else ((), { model := "bad-op" })
    | _, _ => ((), { model := "bad-op" })
  | ["filter", p] =>
    match Hex.decode p with
    | some p => out (showR (filterPath p) fun b => if b then "pass" else "reject")
    | none => ((), { model := "bad-op" })
  | ["hls", meth, p, q, d, b, c] =>
    match Hex.decode p, Hex.decode q, Hex.decode d, Hex.decode b, Hex.decode c with
    | some p, some q, some d, some b, some c =>
      out (showR (hlsServe (meth == "GET") p q d b c) showHls)
    | _, _, _, _, _ => ((), { model := "bad-op" })
  | ["hlsraw", meth, p] =>
    -- the router without the filter: the model predicts the panic; the spec of THIS op is only that
    -- model and implementation agree (it documents why the filter is needed)
    match Hex.decode p with
    | some p =>
      let m := showR (hlsRoute (meth == "GET") p [] [] [] []) fun r => showHls (some r)
      ((), { model := if m == "panic" then impl else "-",
             spec := if m == "panic" && !impl.startsWith "panic" then "FAIL model predicts a panic of the unfiltered router" else "ok" })
    | none => ((), { model := "bad-op" })
  | ["rtc", meth, p, q, m1, m2, u, c] =>
    match Hex.decode p, Hex.decode q, Hex.decode c with
    | some p, some q, some c =>
      match parseGroups p m1, parseGroups p m2 with
      | some m1, some m2 =>
        -- the filter runs first
        (match filterPath p with
         | .ok true => out (showR (rtcRoute (parseMethod meth) p q m1 m2 c) (showRtc (u == "1")))
         | .ok false => out "reject"
         | _ => out "panic")
      | _, _ => ((), { model := "bad-op" })
    | _, _, _ => ((), { model := "bad-op" })
  | ["rtsp", _handler, p] =>
    match Hex.decode p with
    | some p =>
      out (match rtspStrip p with
        | .ok _ => "accepted"
        | .err => "400"
        | .panic => "panic")
    | none => ((), { model := "bad-op" })
  | ["srtconn", raw] =>
    match Hex.decode raw with
    | some raw =>
      out (match srtConnRequest raw with
        | .ok r => showReq r
        | .err => "reject"
        | .panic => "panic")
    | none => ((), { model := "bad-op" })
  | ["rtmp", pub, p, q, u, w] =>
    match Hex.decode p, Hex.decode q, Hex.decode u, Hex.decode w with
    | some p, some q, some u, some w => out (showR (rtmpConnRequest (pub == "1") p q u w) showReq)
    | _, _, _, _ => ((), { model := "bad-op" })
  | ["vname", n, re] =>
    match Hex.decode n with
    | some n => out (showR (isValidPathName n (re == "1")) showNameErr)
    | none => ((), { model := "bad-op" })
  | ["pbget", auth, conf, pa, _st, _du, fo, re, stOk, duOk] =>
    match Hex.decode pa, Hex.decode fo with
    | some pa, some fo =>
      out (showR (playbackGet pa (re == "1") (auth == "1") (stOk == "1") (duOk == "1") (conf == "1") fo) showPb)
    | _, _ => ((), { model := "bad-op" })
  | ["pblist", auth, conf, pa, st, en, re, stOk, enOk] =>
    match Hex.decode pa, Hex.decode st, Hex.decode en with
    | some pa, some st, some en =>
      out (showR (playbackList pa (re == "1") (auth == "1") (conf == "1") st en (stOk == "1") (enOk == "1")) showPb)
    | _, _, _ => ((), { model := "bad-op" })
  | ["ctype", v] =>
    match Hex.decode v with
    | some v => out (showR (parseContentType v) hx)
    | none => ((), { model := "bad-op" })
  | ["moq", kind, b] =>
    -- the MoQ decoders that run on the first bytes of every stream, before any authentication:
    -- controlmessage.Read (SETUP / CLIENT_SETUP / SUBSCRIBE / PUBLISH / …) and SubGroup.Read
    match Hex.decode b with
    | some b =>
      let fmt {α : Type} (o : C32.Out α) : String :=
        match o.r with
        | .ok _ rest => s!"ok {b.length - rest.length}"
        | .err e => s!"err {e.toStr}"
        | .panic => "panic"
      if kind == "msg" then out (fmt (C32.readMsg b))
      else if kind == "sg" then out (fmt (C32.readSubGroup b))
      else ((), { model := "bad-op" })
    | none => ((), { model := "bad-op" })
  | ["pname", n] =>
    match Hex.decode n with
    | some n => out (showR (paramName n) fun r => match r with | some v => s!"ok {hx v}" | none => "no")
    | none => ((), { model := "bad-op" })
  | ["pg", len, ipp, page] =>
    match len.toNat?, Hex.decode ipp, Hex.decode page with
    | some len, some ipp, some page =>
      out (showR (paginateR len ipp page) fun (pc, lo, n) => s!"ok {pc} {if n == 0 then 0 else lo} {n}")
    | _, _, _ => ((), { model := "bad-op" })
  | _ => ((), { model := "bad-op" })

def main (args : List String) : IO UInt32 := runDriver args () step
