import MtxVerif.Model.C38
open MtxVerif MtxVerif.C38

structure Obs where
  loaded : Bool
  nsig : Nat
  c0 : Nat
  closed : Bool := true
  quit : Bool := false
  steps : List (Nat × String) := []   -- completion time, op
  evs : List Ev := []
  sigs : List Nat := []               -- receive times
  errs : List Nat := []               -- watcher errors injected at these times
  closedAt : Option Nat := none       -- the consumer saw the signal channel closed
  flood : Bool := false

def parseKV (key w : String) : Option String :=
  if w.startsWith (key ++ "=") then some (w.drop (key.length + 1)).toString else none

def parseTok (o : Obs) (w : String) : Option Obs :=
  let body := (w.drop 1).toString
  let parts := body.splitOn ","
  if w.startsWith "P" then
    match parts with
    | [t, op] => do pure { o with steps := o.steps ++ [(← t.toNat?, op)] }
    | _ => none
  else if w.startsWith "E" then
    match parts with
    | [t, c, i, x] => do
      pure { o with evs := o.evs ++ [{ t := ← t.toNat?, cur := ← c.toNat?, isCur := i == "1", wc := x == "1" }] }
    | _ => none
  else if w.startsWith "S" then
    match parts with
    | [t, _] => do pure { o with sigs := o.sigs ++ [← t.toNat?] }
    | _ => none
  else if w == "F" then some { o with flood := true }
  else if w.startsWith "X" then do pure { o with errs := o.errs ++ [← body.toNat?] }
  else if w.startsWith "C" then
    match parts with
    | [t, _] => do pure { o with closedAt := some (← t.toNat?) }
    | _ => none
  else none

def parseImpl (impl : String) : Option (Obs × String) :=
  match words impl with
  | l :: n :: c :: fin :: cl :: q :: rest => do
    let l ← parseKV "loaded" l
    let n ← (← parseKV "nsig" n).toNat?
    let c0 ← (← parseKV "c0" c).toNat?
    let _ ← parseKV "fin" fin
    let clv ← parseKV "closed" cl
    let qv ← parseKV "q" q
    let o ← rest.foldlM parseTok { loaded := l == "1", nsig := n, c0 := c0, closed := clv == "1", quit := qv == "1" }
    pure (o, " ".intercalate (c :: fin :: cl :: q :: rest))
  | _ => none

def b01 (b : Bool) : String := if b then "1" else "0"

def summary (loaded : Bool) (nsig : Nat) : String := s!"loaded={b01 loaded} nsig={nsig}"

/-- the relational tie (see Model): `none` = the automaton's rules explain the observation -/
def unexplained (o : Obs) : Option String :=
  -- model: any watcher error wakes the consumer (closed channel, or at least a signal after it);
  -- the events logged by the second watcher around an overflow were not all delivered: nothing else is checked
  if let some tx := o.errs.head? then
    (if o.closedAt.isSome || o.sigs.any (fun g => tx ≤ g + tieSlack) then none
     else some "a watcher error did not wake the consumer")
  else
  let chs := changeTimes o.c0 o.evs
  if !allLegit chs none o.sigs then some "a signal is neither an immediate nor a trailing report allowed by the loop's rules"
  else if !promptlyReported o.c0 o.evs o.sigs then some "a change was not reported within minInterval+additionalWait"
  else none

def step (_ : Unit) (op impl : String) : Unit × DrvOut :=
  match words op with
  | "scn" :: _ =>
    if impl.startsWith "skip" then ((), { model := "-", spec := "ok" }) else
    match parseImpl impl with
    | none => ((), { model := "-", spec := "FAIL unparsable implementation answer" })
    | some (o, tail) =>
      let mine := summary o.loaded o.nsig
      -- only the loop with the trailing-edge timer (/repo 65048a4) is modelled; after the consumer has
      -- gone nothing more is observed: no prediction
      let model :=
        if o.quit || !o.closed || o.flood then "-"
        else match unexplained o with
          | none => mine ++ " " ++ tail
          | some why => "unexplained: " ++ why
      let spec :=
        if !o.closed then "FAIL Close did not return within 2 s (the loop is blocked, shutdown hangs)"
        else if o.quit || o.loaded then "ok"
        else
          let changes := (o.steps.filter (fun p => p.2 != "x" && p.2 != "d")).map (·.1)
          match changes.getLast? with
          | none => "FAIL the consumer's last load differs from the final content although nothing changed"
          | some lc =>
            if !o.errs.isEmpty then
              s!"FAIL the change finished at {lc} ms was never loaded: its event was dropped (queue overflow) and the watcher error did not wake the consumer"
            else if inDropWindow lc o.sigs then
              s!"FAIL the change finished at {lc} ms was never reported: it fell into the 1 s window after a signal (regression of the trailing-edge timer, former finding dropWindow)"
            else s!"FAIL the change finished at {lc} ms was never reported although no signal preceded it by less than 1 s"
      ((), { model := model, spec := spec })
  | _ => ((), { model := "bad-op" })

def main (args : List String) : IO UInt32 := runDriver args () step
