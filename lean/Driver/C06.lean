import MtxVerif.Model.C06
import MtxVerif.Model.C30
open MtxVerif MtxVerif.C06

def errName : NameErr → String
  | .empty => "empty" | .lead => "lead" | .trail => "trail" | .chars => "chars" | .dots => "dots"

def parseConfs (col : String) : Option (List ConfEntry) :=
  if col == "-" then some [] else
  (col.splitOn ",").mapM fun e =>
    match e.splitOn ":" with
    | [k, kind, hit] => do
      let k ← Hex.decode k
      pure { key := k, isRegexp := kind == "R", hit := hit == "1" }
    | _ => none

def parseHexList (col : String) : Option (List Bytes) :=
  if col == "-" then some [] else (col.splitOn ",").mapM Hex.decode

def fmtFind : FindRes → String
  | .found k => s!"ok {Hex.encode k}"
  | .invalid _ => "invalid"
  | .notConfigured => "notconf"

def insertStr (s : String) : List String → List String
  | [] => [s]
  | x :: xs => if s < x then s :: x :: xs else x :: insertStr s xs

def sortStrs (l : List String) : List String := l.foldr insertStr []

def fmtHexList (l : List Bytes) : String :=
  if l.isEmpty then "-" else ",".intercalate (sortStrs (l.map Hex.encode))

/-- time placeholder texts of 2023-11-14T22:13:20Z in UTC -/
def fixedAssign (name : Bytes) : MtxVerif.C26.Kind → Bytes
  | .path => name
  | .Y => strBytes "2023" | .m => strBytes "11" | .d => strBytes "14"
  | .H => strBytes "22" | .M => strBytes "13" | .S => strBytes "20"
  | .f => strBytes "000000" | .z => strBytes "Z" | .s => strBytes "1700000000"

/-- component-wise containment of a cleaned absolute path in a directory -/
def underComps (dir p : List Bytes) : Bool := dir.isPrefixOf p

/-- `p` lies in the tree `filepath.WalkDir(root)` visits -/
def inWalk (root p : Bytes) : Bool :=
  !root.isEmpty && (root ++ [47]).isPrefixOf p

/-- stateless: the model is `findPathConf` as the code is written (exact lookup first, then validation). -/
structure D where
  unit : Unit := ()

def findV (_ : D) (confs : List ConfEntry) (name : Bytes) : FindRes := findPathConf confs name

/-! `paths` op: `recordstore.FindAllPathsWithSegments` (model: `C30.allPaths`) -/

def parseListConfs (col : String) : Option (List C30.Conf) :=
  (col.splitOn ",").mapM fun e =>
    match e.splitOn ":" with
    | [k, kind, f] => do
      pure { key := ← Hex.decode k, isRegexp := kind == "R", fmt := ← Hex.decode f, deleteAfter := 0 }
    | _ => none

abbrev RxTable := List (Bytes × Bytes × Bool)

def parseRx (s : String) : RxTable :=
  if s == "-" then [] else
  (s.splitOn ";").filterMap fun e =>
    match e.splitOn "=" with
    | [kv, b] =>
      match kv.splitOn "~" with
      | [k, v] => do pure ((← Hex.decode k), (← Hex.decode v), b == "1")
      | _ => none
    | _ => none

def rxLookup (t : RxTable) (k v : Bytes) : Option Bool :=
  (t.find? fun e => e.1 == k && e.2.1 == v).map (·.2.2)

def dedupStrs : List String → List String
  | [] => []
  | x :: xs => if xs.contains x then dedupStrs xs else x :: dedupStrs xs

def listedNames (cwd : Bytes) (rx : RxTable) (dflt : Bool) (confs : List C30.Conf) (files : List Bytes) : String :=
  let E : C30.Env := { cwd, anch := true, coh := true, now := 0, cal := fun _ => 0,
                       rx := fun k v => (rxLookup rx k v).getD dflt }
  let names := C30.allPaths E (files.map fun r => cwd ++ 47 :: r) confs
  if names.isEmpty then "-" else ",".intercalate (sortStrs (dedupStrs (names.map Hex.encode)))

def step (d : D) (op impl : String) : D × DrvOut :=
  match words op with
  | ["reset"] => (d, { model := "ok" })
  | ["valid", nameH] =>
    match Hex.decode nameH with
    | some name =>
      let model := match isValidPathName name with | none => "ok" | some e => errName e
      let spec := if impl == "ok" && !validSpec name then "FAIL accepted a path name that violates the stated rules"
        else if impl != "ok" && validSpec name then "FAIL rejected a path name that satisfies the stated rules"
        else "ok"
      (d, { model, spec })
    | none => (d, { model := "bad-op" })
  | ["find", nameH, confsS] =>
    match Hex.decode nameH, parseConfs confsS with
    | some name, some confs =>
      let spec :=
        if impl.startsWith "ok" && !validSpec name then
          if regexKeyAsName confs name then "KNOWN regexKeyAsName the key of a regexp path configuration is accepted as a path name"
          else "FAIL an invalid path name was accepted"
        else "ok"
      (d, { model := fmtFind (findV d confs name), spec })
    | _, _ => (d, { model := "bad-op" })
  | ["common", h] =>
    match Hex.decode h with
    | some v => (d, { model := Hex.encode (commonPath v) })
    | none => (d, { model := "bad-op" })
  | ["clean", h] =>
    match Hex.decode h with
    | some v => (d, { model := Hex.encode (clean v) })
    | none => (d, { model := "bad-op" })
  | ["inside", cwdH, baseH, candH] =>
    match Hex.decode cwdH, Hex.decode baseH, Hex.decode candH with
    | some cwd, some base, some cand =>
      let model := match absolutePathInside cwd base cand with
        | some r => s!"ok {Hex.encode r}"
        | none => "esc"
      (d, { model })
    | _, _, _ => (d, { model := "bad-op" })
  | ["paths", cwdH, confsS, filesS, "|", rxS] =>
    match Hex.decode cwdH, parseListConfs confsS, parseHexList filesS with
    | some cwd, some confs, some files =>
      let rx := parseRx rxS
      let m1 := listedNames cwd rx false confs files
      let m2 := listedNames cwd rx true confs files
      let model := if m1 == m2 then s!"{m1} {m1}" else "-"
      let spec :=
        match words impl with
        | [direct, api] =>
          match parseHexList direct, (if api == "err" then none else parseHexList api) with
          | some dn, some an =>
            match (dn ++ an).find? (fun n => !validSpec n) with
            | some n => s!"FAIL recording listing returned an invalid path name: {Hex.encode n}"
            | none => "ok"
          | _, _ => "FAIL unparsable implementation answer"
        | _ => "FAIL implementation panicked or gave an unparsable answer"
      (d, { model, spec })
    | _, _, _ => (d, { model := "bad-op" })
  | ["e2e", cwdH, fmtH, nameH, confsS, filesS] =>
    match Hex.decode cwdH, Hex.decode fmtH, Hex.decode nameH, parseConfs confsS, parseHexList filesS with
    | some cwd, some fmt, some name, some confs, some files =>
      let absOf (rel : Bytes) : Bytes := cwd ++ 47 :: rel
      let found := match findV d confs name with | .found _ => true | _ => false
      -- delete-segment
      let target := if found then deleteTarget cwd fmt name (fixedAssign name) else none
      let hitFile := match target with
        | some t => files.find? (fun rel => absOf rel == t)
        | none => none
      let delS := match hitFile with
        | some rel => s!"200 {Hex.encode rel}"
        | none => "400 -"
      -- listing
      let lstS :=
        if !found then "noconf"
        else if (isValidPathName name).isSome then "invalid"
        else
          let recordPath := C06.abs cwd (MtxVerif.C26.substPath fmt name ++ extMp4)
          let root := commonPath recordPath
          let toks := MtxVerif.C26.tokenize recordPath
          let l := files.filter fun rel =>
            inWalk root (absOf rel) && (MtxVerif.C26.decode toks (absOf rel)).isSome
          if l.isEmpty then "none" else fmtHexList l
      -- spec on the implementation's answer: everything deleted / listed lies under the fixed prefix
      let dirC := absComps cwd (commonPath fmt)
      let spec :=
        match words impl with
        | [status, gone, lst] =>
          match parseHexList gone, (if lst == "noconf" || lst == "invalid" || lst == "none" then some [] else parseHexList lst) with
          | some gone, some lst =>
            let outside := (gone ++ lst).filter fun rel => !underComps dirC (absComps cwd rel)
            if !outside.isEmpty then
              "FAIL a file outside the record path's fixed directory prefix was " ++
                (if gone.any (fun rel => !underComps dirC (absComps cwd rel)) then "deleted" else "listed")
            else if status == "200" && !validSpec name then
              if regexKeyAsName confs name then "KNOWN regexKeyAsName segment deleted for a name that is the key of a regexp path configuration"
              else "FAIL segment deletion accepted an invalid path name"
            else "ok"
          | _, _ => "FAIL unparsable implementation answer"
        | _ => "FAIL implementation panicked or gave an unparsable answer"
      (d, { model := s!"{delS} {lstS}", spec })
    | _, _, _, _, _ => (d, { model := "bad-op" })
  | _ => (d, { model := "bad-op" })

def main (args : List String) : IO UInt32 := runDriver args ({} : D) step
