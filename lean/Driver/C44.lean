import MtxVerif.Model.C44
open MtxVerif MtxVerif.C44

def fmtSpan (l : List Nat) : String :=
  match l with
  | [] => "0:0"
  | x :: _ => s!"{x}:{l.length}"

def parseSpan (s : String) : Option (Nat × Nat) :=
  match s.splitOn ":" with
  | [a, b] => do pure ((← a.toNat?), (← b.toNat?))
  | _ => none

def step (_ : Unit) (op impl : String) : Unit × DrvOut :=
  match words op with
  | ["pg", len, ippH, pageH] =>
    match len.toNat?, Hex.decode ippH, Hex.decode pageH with
    | some len, some ippS, some pageS =>
      let items := List.range len
      match parseParams ippS pageS with
      | none => ((), { model := "err", spec := if impl == "err" then "ok" else "FAIL invalid parameters accepted" })
      | some (ipp, p) =>
        let pg := page items ipp p
        ((), { model := s!"ok {pageCount len ipp} {fmtSpan pg}" })
    | _, _, _ => ((), { model := "bad-op" })
  | ["all", len, ipp] =>
    match len.toNat?, ipp.toNat? with
    | some len, some ipp =>
      let items := List.range len
      let pc := pageCount len ipp
      let spans := (List.range (pc + 2)).map fun i => fmtSpan (page items ipp i)
      let model := s!"{pc} " ++ " ".intercalate spans
      let spec :=
        match words impl with
        | pcS :: rest =>
          match pcS.toNat?, rest.mapM parseSpan with
          | some ipc, some sp =>
            if ipc != (if len == 0 then 0 else (len + ipp - 1) / ipp) then "FAIL pageCount is not ceil(len/ipp)"
            else if pagesOK len ipp ipc sp then "ok" else "FAIL pages do not partition the list"
          | _, _ => "FAIL unparsable implementation answer"
        | [] => "FAIL empty implementation answer"
      ((), { model, spec })
    | _, _ => ((), { model := "bad-op" })
  | ["hl", len, ipp, pagesS] =>
    -- the same decision reached through the real HTTP handler (GET /v3/paths/list) on ONE API instance, several
    -- requests in a row: every answer must be the requested slice of the WHOLE list (nothing a previous request
    -- did may leak into the next one)
    match len.toNat?, ipp.toNat?, (pagesS.splitOn ",").mapM String.toNat? with
    | some len, some ipp, some pages =>
      let items := List.range len
      let pc := pageCount len ipp
      let want := pages.map fun p => s!"{len}/{pc}/{fmtSpan (page items ipp p)}"
      let model := " ".intercalate want
      let spec := if words impl == want then "ok" else "FAIL a handler answer is not the requested page of the whole list (itemCount/pageCount/slice)"
      ((), { model, spec })
    | _, _, _ => ((), { model := "bad-op" })
  | ["hlc", _ipp, _walks, _names] =>
    -- spec only: every walk over pages 0..pageCount-1 of GET /v3/config/paths/list holds each configured path once
    ((), { model := "ok", spec := if impl == "ok" then "ok" else "FAIL pages of the configuration paths list do not partition the list within one walk: " ++ impl })
  | _ => ((), { model := "bad-op" })

def main (args : List String) : IO UInt32 := runDriver args () step
