import MtxVerif.Model.C26
import MtxVerif.Model.C30
open MtxVerif MtxVerif.C26

/-- the driver is stateless: the model is `decode` = anchored + coherent (the code since 2f5d4aa). -/
structure D where
  unit : Unit := ()

abbrev Table := List (DateArgs × Int)

def parseLoc (s : String) : Option (Option Int) :=
  if s == "L" then some none else s.toInt?.map some

def parseEntry (e : String) : Option (DateArgs × Int) :=
  match e.splitOn "=" with
  | [k, v] =>
    match k.splitOn ".", v.toInt? with
    | [y, mo, d, h, mi, s, us, loc], some v =>
      match y.toNat?, mo.toNat?, d.toNat?, h.toNat?, mi.toNat?, s.toNat?, us.toNat?, parseLoc loc with
      | some y, some mo, some d, some h, some mi, some s, some us, some loc =>
        some ({ year := y, month := mo, day := d, hour := h, minute := mi, sec := s, micros := us, loc := loc }, v)
      | _, _, _, _, _, _, _, _ => none
    | _, _ => none
  | _ => none

def parseTable (s : String) : Table :=
  if s == "-" then [] else (s.splitOn ";").filterMap parseEntry

/-- the calendar oracle: `time.Date` of a tuple, as computed by the library in the harness. -/
def resolve (tb : Table) : Start → Option Int
  | .unix us => some us
  | .date a => (tb.find? (·.1 = a)).map (·.2)

def matchV (_ : D) (toks : List Tok) (s : Bytes) : Option Match := decode toks s

def fmtDec (tb : Table) : Option Match → Option String
  | none => some "no"
  | some m => (resolve tb (decodedStart m.caps)).map fun us => s!"ok:{Hex.encode (decodedPath m.caps)}:{us}"

def parseDec1 (s : String) : Option (Option (Bytes × Int)) :=
  if s == "no" then some none else
  match s.splitOn ":" with
  | ["ok", p, us] => do
    let p ← Hex.decode p
    let us ← us.toInt?
    pure (some (p, us))
  | _ => none

/-- round-trip verdict for one decode flow. `wantPath` = the path the decoder must report (`none`: flow
without `%path`). -/
def rtVerdict (flow : String) (toks : List Tok) (name : Bytes) (F : Fields) (tb : Table) (us : Int)
    (wantPath : Option Bytes) (impl : Option (Bytes × Int)) : Option String :=
  let expUs : Int := if hasKind .f toks then us else us - us.emod 1000000
  let unamb := resolve tb (expectedStart toks F) == some expUs
  let bad : Option String :=
    match impl with
    | none => some s!"{flow}: the recorder's file name is not recognised as a segment"
    | some (p, ius) =>
      if wantPath.isSome ∧ wantPath != some p then some s!"{flow}: recognised with a different path name"
      else if unamb ∧ ius != expUs then some s!"{flow}: recognised with a different start instant"
      else none
  let _ := name
  bad.map fun msg => "FAIL " ++ msg

def step (d : D) (op impl : String) : D × DrvOut :=
  match words op with
  | ["reset"] => (d, { model := "ok" })
  | ["rt", _zone, _tloc, fmtH, pathH, usS, "|", y, mo, dd, h, mi, s, f, off, unix, "|", tbS] =>
    -- the instant column may carry extra nanoseconds ("<µs>.<ns>"): the name only has microseconds (truncated)
    match Hex.decode fmtH, Hex.decode pathH, ((usS.splitOn ".").headD "").toInt?, y.toInt?, mo.toNat?, dd.toNat?, h.toNat?, mi.toNat?,
      s.toNat?, f.toNat?, off.toInt?, unix.toInt? with
    | some fmt, some p, some us, some y, some mo, some dd, some h, some mi, some s, some f, some off, some unix =>
      let F : Fields := ⟨y, mo, dd, h, mi, s, f, off, unix⟩
      let tb := parseTable tbS
      let toks1 := tokenize fmt
      let toks2 := tokenize (substPath fmt p)
      let n2 := encode toks2 [] F
      let model := match fmtDec tb (matchV d toks1 n2), fmtDec tb (matchV d toks2 n2) with
        | some a, some b => s!"{Hex.encode n2} {a} {b}"
        | _, _ => "-"
      let spec :=
        match words impl with
        | [in2, d1, d2] =>
          match Hex.decode in2, parseDec1 d1, parseDec1 d2 with
          | some in2, some d1, some d2 =>
            if !fieldsOK toks2 F then "ok"
            else
              let v2 := rtVerdict "FindSegments flow" toks2 in2 F tb us none d2
              let v1 := if pathCount toks1 == 1 && spliceFree fmt p && pathOK p && fieldsOK toks1 F
                then rtVerdict "path-listing flow" toks1 in2 F tb us (some p) d1 else none
              match v2, v1 with
              | some v, _ => v
              | none, some v => v
              | none, none => "ok"
          | _, _, _ => "FAIL unparsable implementation answer"
        | _ => if impl.startsWith "panic" then "FAIL implementation panicked" else "FAIL unparsable implementation answer"
      (d, { model, spec })
    | _, _, _, _, _, _, _, _, _, _, _, _ => (d, { model := "bad-op" })
  | ["flow", _zone, _tloc, fmtH, pathH, usS, fileH, "|", y, mo, dd, h, mi, s, f, off, unix, "|", tbS] =>
    match Hex.decode fmtH, Hex.decode pathH, ((usS.splitOn ".").headD "").toInt?, Hex.decode fileH, y.toInt?, mo.toNat?, dd.toNat?,
      h.toNat?, mi.toNat?, s.toNat?, f.toNat?, off.toInt?, unix.toInt? with
    | some fmt, some p, some us, some rel, some y, some mo, some dd, some h, some mi, some s, some f, some off, some unix =>
      let F : Fields := ⟨y, mo, dd, h, mi, s, f, off, unix⟩
      let tb := parseTable tbS
      let cwd := strBytes "/tmp/vc26t"
      let file := cwd ++ 47 :: rel
      let E : C30.Env := { cwd, anch := true, coh := true, now := 0, cal := fun _ => 0, rx := fun _ _ => true }
      -- the recorder's file as the model computes it
      let recFile := C06.abs cwd (recorderName (fmt ++ C06.extMp4) p F)
      let validName := (C06.isValidPathName p).isNone
      let rp := C30.recPath E fmt p
      let segM := if !validName then some "err" else
        match C30.decodeAt E rp file with
        | none => some "none"
        | some m => (resolve tb (decodedStart m.caps)).map fun x => s!"{x}"
      let fixedM := if C30.hasSegments E [file] { key := p, isRegexp := false, fmt := fmt, deleteAfter := 0 } then "1" else "0"
      let rxL := C30.rxNames E [file] { key := strBytes "all_others", isRegexp := true, fmt := fmt, deleteAfter := 0 }
      let rxM := if rxL.isEmpty then "-" else ",".intercalate (rxL.map Hex.encode)
      let model := if recFile != file then s!"recorder-file-differs {Hex.encode file}" else
        match segM with
        | some sm => s!"seg={sm} fixed={fixedM} rx={rxM}"
        | none => "-"
      -- spec: the recorder's own file is recognised by all three flows as a segment of that path with that start
      let toks1 := tokenize fmt
      let toks2 := tokenize (substPath fmt p)
      let demand := validName && pathCount toks1 == 1 && spliceFree fmt p && fieldsOK toks1 F && fieldsOK toks2 F
      let spec :=
        if !demand then "ok"
        else
          match words impl with
          | [sg, fx, rx] =>
            let expUs : Int := if hasKind .f toks2 then us else us - us.emod 1000000
            let unamb := resolve tb (expectedStart toks2 F) == some expUs
            let cleanName := C06.clean p
            if !sg.startsWith "seg=" || sg == "seg=none" || sg == "seg=err" || sg.startsWith "seg=many" then
              "FAIL FindSegments does not recognise the recorder's file as a segment of the path"
            else if unamb && sg != s!"seg={expUs}" then "FAIL FindSegments reports another start instant for the recorder's file"
            else if fx != "fixed=1" then "FAIL fixedPathHasSegments does not see the recorder's file"
            else if !(((rx.drop 3).toString.splitOn ",").contains (Hex.encode cleanName)) then
              "FAIL the path-listing flow does not report the path of the recorder's file"
            else "ok"
          | _ => s!"FAIL the recorder's file could not be written or found: {impl}"
      (d, { model, spec })
    | _, _, _, _, _, _, _, _, _, _, _, _, _ => (d, { model := "bad-op" })
  | "dec" :: _zone :: fmtH :: candH :: _ =>
    match Hex.decode fmtH, Hex.decode candH with
    | some fmt, some cand =>
      let toks := tokenize fmt
      let model := match matchV d toks cand with
        | none => "no"
        | some m => s!"ok {Hex.encode (decodedPath m.caps)}"
      let spec :=
        if impl == "no" then "ok"
        else if impl.startsWith "ok" then
          if producibleB toks cand then "ok"
          else if unanchoredExtra toks cand then
            "FAIL recognised as a segment although only part of the name matches the format (regression of F-C26)"
          else if repeatedMismatch toks cand then
            "FAIL recognised as a segment although a repeated placeholder matched different texts (regression of F-C26)"
          else "FAIL recognised as a segment although the recorder cannot produce this name"
        else "FAIL implementation panicked or gave an unparsable answer"
      (d, { model, spec })
    | _, _ => (d, { model := "bad-op" })
  | ["dect", _zone, fmtH, candH, "|", tbS] =>
    match Hex.decode fmtH, Hex.decode candH with
    | some fmt, some cand =>
      let toks := tokenize fmt
      let model := match matchV d toks cand with
        | none => "no"
        | some m => match resolve (parseTable tbS) (decodedStart m.caps) with
          | some us => s!"{us}"
          | none => "-"
      (d, { model })
    | _, _ => (d, { model := "bad-op" })
  | _ => (d, { model := "bad-op" })

def main (args : List String) : IO UInt32 := runDriver args ({} : D) step
