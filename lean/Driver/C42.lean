import MtxVerif.Model.C42
open MtxVerif MtxVerif.C42

/-- `m=` followed by comma separated hex strings (`-` = empty string; nothing = empty list) -/
def parseMatches (s : String) : Option (List Bytes) :=
  if s.startsWith "m=" then
    let r := (s.drop 2).toString
    if r.isEmpty then some [] else (r.splitOn ",").mapM Hex.decode
  else none

def verdict (want : Bytes) (impl : String) : DrvOut :=
  let spec :=
    match Hex.decode impl with
    | none => "FAIL unparsable implementation answer"
    | some got =>
      if got == want then "ok"
      else "FAIL result is not the template with each placeholder replaced once, left to right (expected " ++ Hex.encode want ++ ")"
  { model := Hex.encode want, spec }

def step (_ : Unit) (op impl : String) : Unit × DrvOut :=
  match words op with
  | ["reset"] => ((), { model := "ok" })
  | ["src", t, q, m] =>
    match Hex.decode t, Hex.decode q, parseMatches m with
    | some t, some q, some m => ((), verdict (resolveSource t m q) impl)
    | _, _, _ => ((), { model := "bad-op" })
  | ["dst", t, p, m] =>
    match Hex.decode t, Hex.decode p, parseMatches m with
    | some t, some p, some m => ((), verdict (resolveDest t p m) impl)
    | _, _, _ => ((), { model := "bad-op" })
  | _ => ((), { model := "bad-op" })

def main (args : List String) : IO UInt32 := runDriver args () step
