import MtxVerif.Model.C42
open MtxVerif MtxVerif.C42

/-- `m=` followed by comma separated hex strings (`-` = empty string; nothing = empty list) -/
def parseMatches (s : String) : Option (List Bytes) :=
  if s.startsWith "m=" then
    let r := (s.drop 2).toString
    if r.isEmpty then some [] else (r.splitOn ",").mapM Hex.decode
  else none

def verdict (want : Bytes) (impl : String) : DrvOut :=
  let spec :=
    match Hex.decode impl with
    | none => "FAIL unparsable implementation answer"
    | some got =>
      if got == want then "ok"
      else "FAIL result is not the template with each placeholder replaced once, left to right (expected " ++ Hex.encode want ++ ")"
  { model := Hex.encode want, spec }

def step (_ : Unit) (op impl : String) : Unit × DrvOut :=
  match words op with
  | ["reset"] => ((), { model := "ok" })
  | ["src", t, q, m] =>
    match Hex.decode t, Hex.decode q, parseMatches m with
    | some t, some q, some m => ((), verdict (resolveSource t m q) impl)
    | _, _, _ => ((), { model := "bad-op" })
  | ["hnd", t, m, evs] =>
    -- one history on one real staticsources.Handler; events `a.<query>.<retries>.<reload template or ->`
    -- separated by `/`; answer: runs of one activation joined by `,`, activations by `|`
    let acts := (evs.splitOn "/").mapM fun e =>
      match e.splitOn "." with
      | ["a", q, n, r] => do
        let q ← Hex.decode q
        let n ← n.toNat?
        let r ← if r == "_" then some none else (Hex.decode r).map some
        pure ({ query := q, retries := n, reload := r } : Act)
      | _ => none
    match Hex.decode t, parseMatches m, acts with
    | some t, some m, some acts =>
      let want := histRuns t m acts
      let model := "|".intercalate (want.map fun rs => ",".intercalate (rs.map Hex.encode))
      let got := (impl.splitOn "|").map fun a => (a.splitOn ",")
      let wantS := want.map fun rs => rs.map Hex.encode
      let spec :=
        if got == wantS then "ok"
        else
          let k := ((List.range wantS.length).find? fun i => got[i]? != wantS[i]?).getD 0
          s!"FAIL activation {k + 1}: the source was not given the template with the placeholders replaced by the groups and by the query of THAT activation (expected {",".intercalate (wantS.getD k [])}, got {",".intercalate (got.getD k [])})"
      ((), { model, spec })
    | _, _, _ => ((), { model := "bad-op" })
  | ["dh", t, p, m] =>   -- what a real forward.DestHandler announces: resolved exactly once
    match Hex.decode t, Hex.decode p, parseMatches m with
    | some t, some p, some m => ((), verdict (resolveDest t p m) impl)
    | _, _, _ => ((), { model := "bad-op" })
  | ["dst", t, p, m] =>
    match Hex.decode t, Hex.decode p, parseMatches m with
    | some t, some p, some m => ((), verdict (resolveDest t p m) impl)
    | _, _, _ => ((), { model := "bad-op" })
  | _ => ((), { model := "bad-op" })

def main (args : List String) : IO UInt32 := runDriver args () step
