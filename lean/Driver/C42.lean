import MtxVerif.Model.C42
open MtxVerif MtxVerif.C42

/-- `m=` followed by comma separated hex strings (`-` = empty string; nothing = empty list) -/
def parseMatches (s : String) : Option (List Bytes) :=
  if s.startsWith "m=" then
    let r := (s.drop 2).toString
    if r.isEmpty then some [] else (r.splitOn ",").mapM Hex.decode
  else none

def verdict (phs : Phs) (tmpl : Bytes) (modelSeq : Bytes) (impl : String) : DrvOut :=
  let want := sim phs tmpl
  let splice := spliceTemplate phs tmpl
  -- inside the class the model makes no prediction (the code may do either); outside seq = sim
  let model := if splice then "-" else Hex.encode modelSeq
  let spec :=
    match Hex.decode impl with
    | none => "FAIL unparsable implementation answer"
    | some got =>
      if got == want then "ok"
      else if splice && got == modelSeq then
        "KNOWN spliceTemplate sequential ReplaceAll rescanned an inserted value or a placeholder completed by one (simultaneous substitution gives " ++ Hex.encode want ++ ")"
      else "FAIL result is not the template with each placeholder replaced once, left to right (expected " ++ Hex.encode want ++ ")"
  { model, spec }

def step (_ : Unit) (op impl : String) : Unit × DrvOut :=
  match words op with
  | ["reset"] => ((), { model := "ok" })
  | ["src", t, q, m] =>
    match Hex.decode t, Hex.decode q, parseMatches m with
    | some t, some q, some m => ((), verdict (sourcePhs m q) t (resolveSource t m q) impl)
    | _, _, _ => ((), { model := "bad-op" })
  | ["dst", t, p, m] =>
    match Hex.decode t, Hex.decode p, parseMatches m with
    | some t, some p, some m => ((), verdict (destPhs p m) t (resolveDest t p m) impl)
    | _, _, _ => ((), { model := "bad-op" })
  | _ => ((), { model := "bad-op" })

def main (args : List String) : IO UInt32 := runDriver args () step
