import MtxVerif.Model.C03
open MtxVerif MtxVerif.C03

/-- `C<namehex>,<s|p|a>,<pathex|->,<v>,<w>` -/
def parseConf (t : String) : Option Conf :=
  match ((t.drop 1).toString).splitOn "," with
  | [n, k, p, v, w] => do
    let n ← Hex.decode n
    let p ← Hex.decode p
    let k ← match k with
      | "s" => some ConfKind.static | "p" => some .prefix | "a" => some .allOthers | _ => none
    pure { name := n, kind := k, pat := p, v := ← v.toNat?, w := ← w.toNat? }
  | _ => none

def parseConfs (ts : List String) : Option (List Conf) :=
  (ts.filter (·.startsWith "C")).mapM parseConf

def confStr (c : Conf) : String := s!"{Hex.encode c.name}:{c.v}:{c.w}"

/-- `<namehex>:<v>:<w>` naming a configuration of the given list by content -/
def parseCmp (t : String) : Option (Option Conf) :=
  if t == "-" then some none else
  match t.splitOn ":" with
  | [n, k, p, v, w] => do
    let c ← parseConf ("C" ++ ",".intercalate [n, k, p, v, w])
    pure (some c)
  | _ => none

def parseRes : String → Option AuthRes
  | "ok" => some .ok | "ask" => some .denyAsk | "deny" => some .deny | _ => none

/-- `<namehex> <publish> <skip> <userhex> <passhex> <ip> <proto> <valid> <auth>` -/
def parseReq : List String → Option (AccessReq × AuthRes)
  | [n, pub, skip, u, p, ip, proto, valid, res] => do
    let n ← Hex.decode n
    let u ← Hex.decode u
    let p ← Hex.decode p
    let res ← parseRes res
    pure ({ name := n, query := [], publish := pub == "1", skipAuth := skip == "1", proto := (← proto.toNat?),
            user := u, pass := p, ip := strBytes ip, valid := valid == "1" }, res)
  | _ => none

def outStr : Out → String
  | .noPath => "nopath"
  | .changed => "changed"
  | .authErr a => "autherr " ++ (if a then "1" else "0")
  | .found c => "found " ++ confStr c
  | .noStream => "nostream"
  | .described => "described"
  | .attached cl n p => s!"attached {cl} {Hex.encode n} {if p then 1 else 0}"
  | .reloaded => "reloaded"

/-- the implementation's answer as a model `Out` (configuration content looked up by the printed identity) -/
def parseOut (confs : List Conf) (impl : String) : Option Out :=
  match words impl with
  | ["nopath"] => some .noPath
  | ["changed"] => some .changed
  | ["autherr", a] => some (.authErr (a == "1"))
  | ["nostream"] => some .noStream
  | ["described"] => some .described
  | ["reloaded"] => some .reloaded
  | ["found", c] =>
    match c.splitOn ":" with
    | [n, v, w] => do
      let n ← Hex.decode n
      let v ← v.toNat?
      let w ← w.toNat?
      match confs.find? (fun c => c.name == n) with
      | some c0 => some (.found { c0 with v := v, w := w })
      | none => some (.found { name := n, kind := .static, pat := [], v := v, w := w })
    | _ => none
  | ["attached", cl, n, p] => do
    let cl ← cl.toNat?
    let n ← Hex.decode n
    pure (.attached cl n (p == "1"))
  | _ => none

def runOp (s : St) (op : Op) (res : AuthRes) (impl : String) : St × DrvOut :=
  let auth : AuthFn := fun _ => res
  let (s', out) := step auth s op
  let spec := match parseOut s.confs impl with
    | some o => (match specOp auth s op o with | none => "ok" | some m => "FAIL " ++ m)
    | none => if impl.startsWith "other" || impl.startsWith "oracle-mismatch" then "ok"
              else "FAIL unparsable implementation answer: " ++ impl
  (s', { model := if impl.startsWith "oracle-mismatch" then "-" else outStr out, spec := spec })

/-- `k:namehex:pub:skip:adm:granted:conf` -/
def parseEv (t : String) : Option Ev :=
  match t.splitOn ":" with
  | [k, n, pub, skip, adm, gr, cf] => do
    let k ← match k with
      | "f" => some EvKind.find | "d" => some .describe | "p" => some .addPub | "r" => some .addReader
      | "m" => some .media | _ => none
    let n ← Hex.decode n
    pure { kind := k, name := n, publish := pub == "1", skip := skip == "1", admitted := adm == "1",
           granted := gr == "1", conf := ← cf.toNat? }
  | _ => none

/-- implementation answer of a `proto` op: `<client result> <conn|conn|…>`, one `ev;ev;…` per server-side
    connection object that issued a request during the op (with its complete history), or `-` -/
def parseTrace (impl : String) : Option (List (List Ev)) :=
  match words impl with
  | [_, "-"] => some []
  | [_, t] => (t.splitOn "|").mapM fun g => (g.splitOn ";").mapM parseEv
  | _ => none

def step' (s : St) (op impl : String) : St × DrvOut :=
  match words op with
  | "proto" :: _proto :: _mode :: secret :: _ =>
    -- one client connection against a real protocol server; the model does not predict the trace, the
    -- property is evaluated on it
    let spec := match parseTrace impl with
      | some conns => (match conns.findSome? (checkTrace (secret == "1")) with | none => "ok" | some m => "FAIL " ++ m)
      | none => "FAIL unparsable trace: " ++ impl
    (s, { model := "-", spec := spec })
  | "reset" :: rest =>
    match parseConfs rest with
    | some cs => ({ confs := cs }, { model := "ok" })
    | none => (s, { model := "bad-op" })
  | "reload" :: rest =>
    match parseConfs rest with
    | some cs => runOp s (.reload cs) .deny impl
    | none => (s, { model := "bad-op" })
  | "find" :: cl :: r =>
    match cl.toNat?, parseReq r with
    | some cl, some (r, res) => runOp s (.find cl r) res impl
    | _, _ => (s, { model := "bad-op" })
  | "describe" :: cl :: r =>
    match cl.toNat?, parseReq r with
    | some cl, some (r, res) => runOp s (.describe cl r) res impl
    | _, _ => (s, { model := "bad-op" })
  | "addreader" :: cl :: r =>
    match cl.toNat?, parseReq r with
    | some cl, some (r, res) => runOp s (.addReader cl r) res impl
    | _, _ => (s, { model := "bad-op" })
  | "addpub" :: cl :: cmp :: r =>
    match cl.toNat?, parseCmp cmp, parseReq r with
    | some cl, some cmp, some (r, res) => runOp s (.addPublisher cl r cmp) res impl
    | _, _, _ => (s, { model := "bad-op" })
  | _ => (s, { model := "bad-op" })

def main (args : List String) : IO UInt32 := runDriver args ({} : St) step'
