import MtxVerif.Model.C15
import MtxVerif.Gen.C15
open MtxVerif MtxVerif.C15

abbrev Table := List ((Bytes × Bytes) × Option (List Bytes))

structure DS where
  univ : List Bytes := []
  table : Table := []
  pm : PM := { confs := [], paths := [], nextInc := 0 }
  tG : List Bytes := []   -- names of path objects in the stale-groups class (F-C15b)
  tO : List Bytes := []   -- names of path objects in the delivery-order class (F-C15a)
  tS : List Bytes := []   -- static configurations whose misordered path was idle-closed (consequence of F-C15a)

def orcOf (t : Table) : Oracle := fun cn n =>
  match t.find? (fun e => e.1 == (cn, n)) with
  | some e => e.2
  | none => none

def parseGroups : List String → Option (Option (List Bytes) × List String)
  | "N" :: rest => some (none, rest)
  | t :: rest =>
    if t.startsWith "M" then do
      let k ← ((t.drop 1).toString).toNat?
      if rest.length < k then none else
      let gs ← (rest.take k).mapM Hex.decode
      pure (some gs, rest.drop k)
    else none
  | [] => none

def parseMatches (cn : Bytes) : List Bytes → List String → Option (Table × List String)
  | [], rest => some ([], rest)
  | u :: us, toks => do
    let (g, rest) ← parseGroups toks
    let (t, rest) ← parseMatches cn us rest
    pure (((cn, u), g) :: t, rest)

def parseConfs (univ : List Bytes) : Nat → List String → Option (List Conf × Table × List String)
  | 0, rest => some ([], [], rest)
  | k + 1, name :: rx :: hot :: cold :: rest => do
    let nm ← Hex.decode name
    let h ← hot.toNat?
    let c ← cold.toNat?
    let (t, rest) ← if rx == "1" then parseMatches nm univ rest else some ([], rest)
    let (cs, t2, rest) ← parseConfs univ k rest
    pure ({ name := nm, regex := rx == "1", hot := h, cold := c } :: cs, t ++ t2, rest)
  | _, _ => none

def parseConfSet (univ : List Bytes) : List String → Option (List Conf × Table × List String)
  | k :: rest => do
    let k ← k.toNat?
    parseConfs univ k rest
  | [] => none

/-! rendering -/

def joinDots (l : List String) : String := if l.isEmpty then "_" else ".".intercalate l

def label (c : Conf) : String := s!"{Hex.encode c.name}:{c.hot}:{c.cold}"

def renderPath (prev : List LivePath) (p : LivePath) : String :=
  let kn := if prev.any (fun q => q.name == p.name && q.inc == p.inc) then "K" else "N"
  "/".intercalate [Hex.encode p.name, Hex.encode p.confName, label p.conf, joinDots (p.groups.map Hex.encode), kn,
    (if p.pub then "P" else "-"), joinDots (p.readers.map toString)]

def insName (p : LivePath) : List LivePath → List LivePath
  | [] => [p]
  | x :: xs => if C14.ltB x.name p.name then x :: insName p xs else p :: x :: xs

def sortPaths (l : List LivePath) : List LivePath := l.foldr insName []

def insNat (a : Nat) : List Nat → List Nat
  | [] => [a]
  | x :: xs => if x < a then x :: insNat a xs else a :: x :: xs

def canonPath (p : LivePath) : LivePath := { p with readers := p.readers.foldr insNat [] }

def statusStr : Status → String
  | .ok => "ok" | .err => "err" | .already => "already" | .nostream => "nostream" | .none => "none" | .busy => "busy"

def render (prev : List LivePath) (st : String) (pm : PM) : String :=
  let st := if pm.panicked then "panic" else st
  " ".intercalate (st :: (sortPaths pm.paths).map (fun p => renderPath prev (canonPath p)))

/-! parsing the implementation's answer into live paths -/

def splitDots (s : String) : List String := if s == "_" then [] else s.splitOn "."

def parseLabel (s : String) : Option Conf :=
  match s.splitOn ":" with
  | [n, h, c] => do
    let nm ← Hex.decode n
    pure { name := nm, regex := C14.isRegexName nm, hot := ← h.toNat?, cold := ← c.toNat? }
  | _ => none

def parsePaths (prev : List LivePath) : Nat → List String → Option (List LivePath × Nat)
  | k, [] => some ([], k)
  | k, tok :: rest =>
    match tok.splitOn "/" with
    | [n, cn, lab, gs, kn, src, rds] => do
      let nm ← Hex.decode n
      let cnm ← Hex.decode cn
      let c ← parseLabel lab
      let groups ← (splitDots gs).mapM Hex.decode
      let readers ← (splitDots rds).mapM String.toNat?
      let (inc, k') ←
        if kn == "K" then (match prev.find? (fun q => q.name == nm) with
          | some q => some (q.inc, k)
          | none => none)
        else if kn == "N" then some (k, k + 1) else none
      let p : LivePath := { name := nm, confName := cnm, conf := c, groups := groups, inc := inc,
                            pub := src == "P", readers := readers, mailbox := [] }
      let (ps, k'') ← parsePaths prev k' rest
      pure (p :: ps, k'')
    | _ => none

def parseImpl (prev : List LivePath) (nextInc : Nat) (impl : String) : Option (String × List LivePath × Nat) :=
  match words impl with
  | st :: rest => do
    let (ps, k) ← parsePaths prev nextInc rest
    pure (st, ps, k)
  | [] => none

/-! verdicts -/

structure Judged where
  v : Verdict
  tG : List Bytes
  tO : List Bytes
  tS : List Bytes

/-- the property's spec; if it fails, the same spec with the objects of the known classes excused -/
def judge (orc : Oracle) (d : DS) (prev : List LivePath) (confs : List Conf) (trans : Bool)
    (pending : Option (List LivePath)) (D : List LivePath) (midMigrated : List Bytes := []) : Judged :=
  let tG := (d.tG.filter (sameObject prev D)) ++ migrated orc prev confs D ++
    (D.filter fun p => midMigrated.contains p.name).map (·.name)
  let tO := (d.tO.filter (sameObjectConf prev D)) ++ (match pending with
    | some pend => (misordered orc pend confs D).filter (sameObject prev D)
    | none => [])
  -- a misordered path still running with a stale REGEX configuration closes itself when idle, although the
  -- pathManager files it under a static configuration
  let tS := ((d.tS ++ (d.tO.filter fun n => prev.any fun q => q.name == n && q.conf.regex)).filter
    fun n => !hasPath D n)
  let sp (exG exO : List Bytes) (exS : List Bytes := []) : Verdict :=
    match specState orc confs exG exO D exS with
    | .ok => if trans then specTransition orc prev confs exO D else .ok
    | v => v
  let v0 := sp [] []
  if v0 == .ok then ⟨.ok, tG, tO, tS⟩
  else if sp tG [] == .ok then ⟨.knownStaleGroups, tG, tO, tS⟩
  else
    let v1 := sp tG tO tS
    if v1 == .ok then ⟨.knownOrder, tG, tO, tS⟩ else ⟨v1, tG, tO, tS⟩

/-- choose the next model state: the as-is model if it matches, else the fixed variant if that matches,
else (inside a known class) the implementation's own state -/
def choose (prev : List LivePath) (st : String) (impl : String) (mU mF : PM) (v : Verdict)
    (parsed : Option (String × List LivePath × Nat)) : PM × String :=
  let aU := render prev st mU
  let aF := render prev st mF
  if aU == impl then (mU, aU)
  else if aF == impl then (mF, aF)
  else match v, parsed with
    | .knownStaleGroups, some (_, ps, k) => ({ mU with paths := ps, nextInc := k }, aU)
    | .knownOrder, some (_, ps, k) => ({ mU with paths := ps, nextInc := k }, aU)
    | _, _ => (mU, aU)

def finish (d : DS) (table : Table) (prev : List LivePath) (st impl : String) (mU mF : PM)
    (parsed : Option (String × List LivePath × Nat)) (j : Option Judged) : DS × DrvOut :=
  match parsed, j with
  | some _, some j =>
    let (pm', a) := choose prev st impl mU mF j.v parsed
    ({ d with table := table, pm := pm', tG := j.tG, tO := j.tO, tS := j.tS }, { model := a, spec := j.v.toStr })
  | _, _ =>
    ({ d with table := table, pm := mU }, { model := render prev st mU, spec := "FAIL unparsable implementation answer" })

def stepClient (d : DS) (ev : Ev) (impl : String) : DS × DrvOut :=
  let orc := orcOf d.table
  let prev := d.pm.paths.map canonPath
  let (pm', st) := stepS asIs orc d.pm ev
  let pm' := drain pm'
  let parsed := parseImpl prev d.pm.nextInc impl
  let j := parsed.map fun (_, ps, _) => judge orc d prev pm'.confs false none ps
  finish d d.table prev (statusStr st) impl pm' pm' parsed j

def insStr (a : String) : List String → List String
  | [] => [a]
  | x :: xs => if x < a then x :: insStr a xs else a :: x :: xs

/-- the hot-reloadable fields according to the source (regenerated), sorted -/
def hotFieldsLine : String :=
  ",".intercalate ((Gen.C15.hotAssigned.filter fun f => f != "Name" && f != "Regexp").foldr insStr [])

def step (d : DS) (op impl : String) : DS × DrvOut :=
  match words op with
  | ["hotfields"] => (d, { model := hotFieldsLine })
  | "reset" :: nU :: rest =>
    match nU.toNat? with
    | some nU =>
      match (rest.take nU).mapM Hex.decode, parseConfSet ((rest.take nU).filterMap Hex.decode) (rest.drop nU) with
      | some univ, some (confs, t, _) =>
        let orc := orcOf t
        let pm := initPM confs
        let d0 : DS := { univ := univ, table := t, pm := pm }
        let parsed := parseImpl [] 0 impl
        let j := parsed.map fun (_, ps, _) => judge orc d0 [] confs false none ps
        finish d0 t [] "ok" impl pm pm parsed j
      | _, _ => (d, { model := "bad-op" })
    | none => (d, { model := "bad-op" })
  | "reload" :: rest =>
    match parseConfSet d.univ rest with
    | some (new, t, _) =>
      let table := t ++ d.table
      let orc := orcOf table
      let prev := d.pm.paths.map canonPath
      let mU := drain (reload asIs orc d.pm new)
      let mF := drain (reload fixed orc d.pm new)
      let parsed := parseImpl prev d.pm.nextInc impl
      let j := parsed.map fun (_, ps, _) => judge orc d prev new true none ps
      finish d table prev "ok" impl mU mF parsed j
    | none => (d, { model := "bad-op" })
  | "reload2" :: _mode :: rest =>
    match parseConfSet d.univ rest with
    | some (a, t1, rest) =>
      match parseConfSet d.univ rest with
      | some (b, t2, _) =>
        let table := t1 ++ t2 ++ d.table
        let orc := orcOf table
        let prev := d.pm.paths.map canonPath
        let mid := reload asIs orc d.pm a
        let pendU := reload asIs orc mid b
        -- paths created or kept by the first reload that the second one migrates to another configuration
        let midMig := (pendU.paths.filter fun p => mid.paths.any fun q => q.inc == p.inc && q.confName != p.confName).map (·.name)
        let pendF := reload fixed orc (reload fixed orc d.pm a) b
        let parsed := parseImpl prev d.pm.nextInc impl
        let j := parsed.map fun (_, ps, _) => judge orc d prev b false (some pendU.paths) ps midMig
        finish d table prev "ok" impl (drain pendU) (drain pendF) parsed j
      | none => (d, { model := "bad-op" })
    | none => (d, { model := "bad-op" })
  | ["pub", n] =>
    match Hex.decode n with
    | some n => stepClient d (.pub n) impl
    | none => (d, { model := "bad-op" })
  | ["unpub", n] =>
    match Hex.decode n with
    | some n => stepClient d (.unpub n) impl
    | none => (d, { model := "bad-op" })
  | ["read", n, id] =>
    match Hex.decode n, id.toNat? with
    | some n, some id => stepClient d (.read n id) impl
    | _, _ => (d, { model := "bad-op" })
  | ["unread", id] =>
    match id.toNat? with
    | some id => stepClient d (.unread id) impl
    | none => (d, { model := "bad-op" })
  | _ => (d, { model := "bad-op" })

def main (args : List String) : IO UInt32 := runDriver args ({} : DS) step
