import MtxVerif.Model.C07
import MtxVerif.Gen.C07
open MtxVerif MtxVerif.C07

/-- does `dumpRequest` canonicalise the map key before the lookup (regenerated from the source) -/
def canon : Bool := MtxVerif.Gen.C07.lookupCanonical

structure D where
  redactSet : List Bytes := []

def decodeList (s : String) : Option (List Bytes) :=
  if s == "-" then some [] else (s.splitOn ",").mapM Hex.decode

/-- `~` = absent / nil, otherwise hex (`-` = empty) -/
def decOpt (s : String) : Option (Option Bytes) :=
  if s == "~" then some none else (Hex.decode s).map some

def encOpt : Option Bytes → String
  | none => "~"
  | some b => Hex.encode b

def decPair (s : String) : Option PathS :=
  match s.splitOn "/" with
  | [a, b] => do pure ⟨← decOpt a, ← decOpt b⟩
  | _ => none

def encPair (p : PathS) : String := encOpt p.publishPass ++ "/" ++ encOpt p.readPass

def decPaths (s : String) : Option (List (String × PathS)) :=
  if s == "-" then some [] else
  (s.splitOn ",").mapM fun e => match e.splitOn ":" with
    | [n, p] => do pure (n, ← decPair p)
    | _ => none

def encPaths (l : List (String × PathS)) : String :=
  if l.isEmpty then "-" else ",".intercalate (l.map fun e => e.1 ++ ":" ++ encPair e.2)

def encUsers (l : List Bytes) : String := if l.isEmpty then "-" else ",".intercalate (l.map Hex.encode)

def dropPre (s : String) (n : Nat) : String := (s.drop n).toString

/-- "1.0,1.1,…" → (itemsPerPage, page) -/
def parseQueries (s : String) : Option (List (Nat × Nat)) :=
  if s == "-" || s == "" then some [] else
  (s.splitOn ",").mapM fun q => match q.splitOn "." with
    | [a, b] => do pure ((← a.toNat?), (← b.toNat?))
    | _ => none

/-- "U=… D=… P=… Q=…" -/
def parseCfg (ws : List String) : Option (ConfS × List (Nat × Nat)) :=
  match ws with
  | [u, d, p, q] => do
    let users ← decodeList (dropPre u 2)
    let defaults ← decPair (dropPre d 2)
    let paths ← decPaths (dropPre p 2)
    let qs ← parseQueries (dropPre q 2)
    pure ({ users, defaults, paths }, qs)
  | _ => none

def encPages (l : List ((Nat × Nat) × List (String × PathS))) : String :=
  ";".intercalate (l.map fun e => toString e.1.1 ++ "." ++ toString e.1.2 ++ "=" ++ encPaths e.2)

/-- "1.0=<items|->;1.1=…" -/
def decPages (s : String) : Option (List ((Nat × Nat) × List (String × PathS))) :=
  if s == "" then some [] else
  (s.splitOn ";").mapM fun e => match e.splitOn "=" with
    | [q, items] => match q.splitOn "." with
      | [a, b] => do pure (((← a.toNat?), (← b.toNat?)), (← decPaths items))
      | _ => none
    | _ => none

def parseSteps (s : String) : Option (List (List Nat)) :=
  (s.splitOn ",").mapM fun w => (w.splitOn ".").mapM String.toNat?

def stepDump (d : D) (op impl : String) : D × DrvOut :=
  match words op with
  | ["dump", _, _, rl, hl, hs, body, secrets] =>
    let parsed : Option (Bytes × Bytes × List Header × Bytes × List Bytes) := do
      let rl ← Hex.decode rl
      let hl ← Hex.decode hl
      let hs ← if hs == "-" then some [] else (hs.splitOn ",").mapM fun kv => match kv.splitOn "=" with
        | [k, vs] => do pure ((← Hex.decode k), (← (vs.splitOn "|").mapM Hex.decode))
        | _ => none
      let body ← Hex.decode body
      let secrets ← decodeList secrets
      pure (rl, hl, hs, body, secrets)
    match parsed with
    | none => (d, { model := "bad-op", spec := "FAIL unparsable dump op" })
    | some (rl, hl, hs, body, _) =>
      let model := Hex.encode (dump canon d.redactSet rl hl hs body)
      let spec := match Hex.decode impl with
        | none => "FAIL unparsable implementation answer"
        | some out =>
          -- the spec is evaluated on the IMPLEMENTATION's dump; secrets = every non-empty value of every
          -- header whose name is a listed credential header up to case
          let (bad, badOther) := leaked d.redactSet rl hl hs body out
          if !bad.isEmpty then
            "FAIL the value of a credential header appears in the request dump: " ++ bytesStr (bad.head?.getD [])
          else if !badOther.isEmpty then
            "FAIL the value of a credential header with a non-canonically spelled key appears in the request dump: " ++ bytesStr (badOther.head?.getD [])
          else "ok"
      (d, { model, spec })
  | _ => (d, { model := "bad-op" })

def step (d : D) (op impl : String) : D × DrvOut :=
  match words op with
  | ["reset", hdrs, fields, tyS, writes] =>
    match decodeList hdrs, C11.parseTyAll tyS, parseSteps writes with
    | some rs, some ty, some ws =>
      let fs := (fields.splitOn ";").filterMap fun f => match f.splitOn "|" with
        | [a, b, c] => some (a, b, c)
        | _ => none
      let unc := uncovered fs
      let mis := missing fs
      let badW := ws.filter fun w => !avoidsIface ty w
      let spec :=
        if !unc.isEmpty then
          "FAIL credential-typed password field(s) serialised by the API but not redacted: " ++
            ", ".intercalate (unc.map fun e => e.1 ++ ":" ++ e.2)
        else if !mis.isEmpty then
          "FAIL a position redactCredentials is modelled to rewrite does not exist as a credential field: " ++
            ", ".intercalate (mis.map fun e => e.1 ++ ":" ++ e.2)
        else if !badW.isEmpty then
          "FAIL redactCredentials writes into a place that lies behind an interface-typed field (shared with the live configuration by Clone)"
        else if !(rs.contains (strBytes "Authorization") && rs.contains (strBytes "Cookie") &&
                  rs.contains (strBytes "Proxy-Authorization")) then
          "FAIL requestHeadersToRedact lacks a standard credential header (Authorization, Proxy-Authorization, Cookie)"
        else "ok"
      ({ redactSet := rs }, { model := "ok", spec })
    | _, _, _ => (d, { model := "bad-op", spec := "FAIL unparsable reset line" })
  | ["probe", _, _, _] =>
    -- names that are not configuration keys: whatever is served (status 200) must be redacted
    let spec := match words impl with
      | [items, leaks, pure] =>
        let served := (items.splitOn ",").filterMap fun e => match e.splitOn "=" with
          | [_, r] => if r.startsWith "200:" then some (dropPre r 4) else none
          | _ => none
        match served.mapM decPair with
        | none => "FAIL unparsable implementation answer"
        | some ps =>
          if !(ps.all safePath) then "FAIL a password value is served by config/paths/get/<name> for a name that is not a configuration key"
          else if leaks != "leaks=0" then "FAIL a password string occurs in the body of config/paths/get/<name> for a name that is not a configuration key"
          else if pure != "pure=1" then "FAIL serving config/paths/get modified the live configuration"
          else "ok"
      | _ => "FAIL unparsable implementation answer: " ++ (impl.take 80).toString
    (d, { model := "-", spec })
  | kind :: _ :: cols =>
    if kind != "cfg" && kind != "cfgbig" then stepDump d op impl else
    match parseCfg cols with
    | none => (d, { model := "bad-op", spec := "FAIL unparsable configuration columns" })
    | some (c, qs) =>
      let r := redact c
      let pages := qs.map fun q => (q, pageOf r.paths q.1 q.2)
      let model := "G=" ++ encUsers r.users ++ " D=" ++ encPair r.defaults ++ " L=" ++ encPaths r.paths ++
        " P=" ++ encPaths r.paths ++ " Q=" ++ encPages pages ++ " leaks=0 pure=1"
      let spec :=
        match words impl with
        | [g, dd, l, p, q, leaks, pure] =>
          match decodeList (dropPre g 2), decPair (dropPre dd 2), decPaths (dropPre l 2), decPaths (dropPre p 2),
                decPages (dropPre q 2) with
          | some us, some df, some ls, some ps, some pgs =>
            let v1 : ConfS := { users := us, defaults := df, paths := ls }
            let v2 : ConfS := { users := us, defaults := df, paths := ps }
            let badPage := pgs.find? fun e => !(e.2.all fun x => safePath x.2)
            if !(safeConf v1 && safeConf v2) then "FAIL a password value is served by a configuration GET endpoint"
            else if let some e := badPage then
              "FAIL a password value is served by config/paths/list?itemsPerPage=" ++ toString e.1.1 ++ "&page=" ++ toString e.1.2
            else if leaks != "leaks=0" then "FAIL a password string occurs in the body of a configuration GET response"
            else if pure != "pure=1" then "FAIL producing the redacted view modified the live configuration"
            else if us.length != c.users.length || ls.map (·.1) != c.paths.map (·.1) || ps.map (·.1) != c.paths.map (·.1) then
              "FAIL the served view does not have the users / paths of the configuration"
            else if pgs.map (·.1) != qs || pgs.any (fun e => e.2.map (·.1) != (pageOf c.paths e.1.1 e.1.2).map (·.1)) then
              "FAIL a page of config/paths/list does not hold the paths of that page"
            else "ok"
          | _, _, _, _, _ => "FAIL unparsable implementation answer"
        | _ => "FAIL unparsable implementation answer: " ++ (impl.take 80).toString
      (d, { model, spec })
  | _ => (d, { model := "bad-op" })

def main (args : List String) : IO UInt32 := runDriver args ({} : D) step
