import MtxVerif.Model.C21
open MtxVerif MtxVerif.C21

/-
The driver does NOT import Gen/C21: the model it runs is the behaviour the property asks for (the `Wait`
closure returns the exit code), so the spec half keeps evaluating whatever the fact extractor finds.
The regenerated facts are used by the theorems only (Props/C21: `tie_*`).
-/

/-- `hexK:hexV,hexK:hexV` or `-` -/
def parseEnv (s : String) : Option Env :=
  if s == "-" then some [] else
  (s.splitOn ",").mapM fun kv =>
    match kv.splitOn ":" with
    | [k, v] => do pure ((← Hex.decode k), (← Hex.decode v))
    | _ => none

/-- `err` or `w=` followed by comma separated hex words (`-` = empty word; nothing = no words) -/
def parseSplit (s : String) : Option (Option (List Bytes)) :=
  if s == "err" then some none
  else if s.startsWith "w=" then
    let r := (s.drop 2).toString
    if r.isEmpty then some (some []) else
    ((r.splitOn ",").mapM Hex.decode).map some
  else none

def fmtWords (l : List Bytes) : String := "w=" ++ ",".intercalate (l.map Hex.encode)

def envKeys (env osenv : Env) : List Bytes :=
  let ks := env.map (·.1)
  ks ++ (osenv.map (·.1)).filter (fun k => !ks.contains k)

def fmtSeen (env osenv : Env) : String :=
  let ks := envKeys env osenv
  if ks.isEmpty then "-" else
  ",".intercalate (ks.map fun k =>
    Hex.encode k ++ ":" ++ (match childGet env osenv k with | some v => Hex.encode v | none => "unset"))

def fmtReport : Option Nat → String
  | none => "none"
  | some c => s!"code:{c}"

def fmtOutcome (env osenv : Env) : Outcome → String
  | .panic => "panic"
  | .splitErr => "spliterr"
  | .startErr => "starterr"
  | .ran argv rep => s!"ran argv={fmtWords argv} env={fmtSeen env osenv} report={fmtReport rep}"

structure ImplRan where
  argv : List Bytes
  seen : List (Bytes × Option Bytes)
  report : String

def parseImplRan (impl : String) : Option ImplRan :=
  match words impl with
  | ["ran", a, e, r] =>
    if a.startsWith "argv=" && e.startsWith "env=" && r.startsWith "report=" then do
      let argv ← (← parseSplit (a.drop 5).toString)
      let es := (e.drop 4).toString
      let seen ← if es == "-" then some [] else
        (es.splitOn ",").mapM fun kv =>
          match kv.splitOn ":" with
          | [k, v] => do
            let k ← Hex.decode k
            if v == "unset" then pure (k, none) else pure (k, some (← Hex.decode v))
          | _ => none
      pure { argv, seen, report := (r.drop 7).toString }
    else none
  | _ => none

def firstSome {α : Type} (l : List α) (f : α → Option String) : Option String :=
  l.foldl (fun acc x => match acc with | some e => some e | none => f x) none

/-- per-argument spec: clean words must be plain substitution, pure references verbatim -/
def specArg (env osenv : Env) (word got : Bytes) : Option String :=
  match pureRef word with
  | some k =>
    match envGet env k with
    | some v => if got == v then none else some s!"value of {bytesStr k} did not reach the argument verbatim"
    | none => if got == expandEnv env osenv word then none else some "reference to a process variable expanded wrongly"
  | none =>
    match cleanParse word with
    | some p => if got == renderPieces (lookupVar env osenv) p then none
                else some "argument is not the word with its references substituted once, left to right"
    | none => none

def zipSpec (env osenv : Env) : List Bytes → List Bytes → Option String
  | w :: ws, g :: gs => (specArg env osenv w g).orElse fun _ => zipSpec env osenv ws gs
  | _, _ => none

/-- the property's spec on a `run` op -/
def specRun (split : Option (List Bytes)) (env osenv : Env) (code : Nat) (impl : String) : String :=
  match split with
  | none => "ok"
  | some [] => "ok"            -- empty command: outside the property (model still predicts a panic)
  | some (_ :: ws) =>
    let argvM := ws.map (expandEnv env osenv)
    if env.any (fun kv => hasNul kv.2 || hasNul kv.1) || argvM.any hasNul then "ok"   -- not representable by the OS
    else match parseImplRan impl with
    | none => "FAIL command did not run although the command line splits and all values are representable: " ++ impl
    | some r =>
      if r.argv.length != ws.length then
        s!"FAIL values changed how the command is split: {ws.length} words, {r.argv.length} arguments"
      else match zipSpec env osenv ws r.argv with
      | some e => "FAIL " ++ e
      | none =>
        match firstSome env (fun kv =>
            match r.seen.find? (·.1 == kv.1) with
            | some (_, some v) => if v == kv.2 then none else some s!"environment variable {bytesStr kv.1} not verbatim"
            | _ => some s!"environment variable {bytesStr kv.1} missing in the command's environment") with
        | some e => "FAIL " ++ e
        | none =>
          if code == 0 then "ok"
          else if r.report == s!"code:{code}" then "ok"
          else s!"FAIL exit status {code} reported as {r.report}"

/-- words of the hook command the `hk` op configures (after the helper program):
`$MTX_QUERY ${MTX_READER_ID} $MTX_PATH-$G1 "$MTX_SEGMENT_PATH" $MTX_SOURCE_ID$MTX_CONN_ID $MTX_SEGMENT_DURATION` -/
def hookWords : List Bytes :=
  [strBytes "$MTX_QUERY", strBytes "${MTX_READER_ID}", strBytes "$MTX_PATH-$G1", strBytes "$MTX_SEGMENT_PATH",
   strBytes "$MTX_SOURCE_ID$MTX_CONN_ID", strBytes "$MTX_SEGMENT_DURATION"]

def parseKind : String → Option HookKind
  | "read" => some .read
  | "avail" => some (.avail true)
  | "availn" => some (.avail false)
  | "online" => some (.online true)
  | "onlinen" => some (.online false)
  | "demand" => some .demand
  | "connect" => some .connect
  | "seg" => some .seg
  | _ => none

/-- byte-level ReplaceAll (used to bring `{H}` and `{D}/helper` to one canonical spelling) -/
partial def replaceBytes (old new : Bytes) (s : Bytes) : Bytes :=
  if old.isEmpty then s else
  match s with
  | [] => []
  | c :: r => if old.isPrefixOf s then new ++ replaceBytes old new (s.drop old.length) else c :: replaceBytes old new r

/-- `{H}` (the helper executable) is `{D}/helper` -/
def canonH (b : Bytes) : Bytes := replaceBytes (strBytes "{H}") (strBytes "{D}/helper") b

/-- spec of a `prg` op: the program word is expanded like every other word; if its verbatim substitution
names the existing helper the hook must run, with argv[0] and all arguments verbatim -/
def specProg (split : Option (List Bytes)) (env osenv : Env) (code : Nat) (impl : String) : String :=
  match split with
  | none | some [] => "ok"
  | some ws =>
    let argvM := ws.map (fun w => canonH (expandEnv env osenv w))
    if env.any (fun kv => hasNul kv.2 || hasNul kv.1) || argvM.any hasNul then "ok"
    else if argvM.head? != some (strBytes "{D}/helper") then "ok"   -- names nothing that exists: model predicts starterr
    else match parseImplRan impl with
    | none => "FAIL the hook did not start although the verbatim substitution of its program word names an existing executable: " ++ impl
    | some r =>
      if r.argv.length != ws.length then
        s!"FAIL values changed how the command is split: {ws.length} words, {r.argv.length} arguments (incl. argv[0])"
      else if r.argv.head? != argvM.head? then "FAIL argv[0] is not the verbatim substitution of the program word"
      else if r.argv != argvM then "FAIL an argument is not the verbatim substitution of its word"
      else match firstSome env (fun kv =>
            match r.seen.find? (·.1 == kv.1) with
            | some (_, some v) => if v == canonH kv.2 then none else some s!"environment variable {bytesStr kv.1} not verbatim"
            | _ => some s!"environment variable {bytesStr kv.1} missing in the command's environment") with
        | some e => "FAIL " ++ e
        | none =>
          if code == 0 || r.report == s!"code:{code}" then "ok" else s!"FAIL exit status {code} reported as {r.report}"

def step (_ : Unit) (op impl : String) : Unit × DrvOut :=
  let rc := true
  match words op with
  | ["reset"] => ((), { model := "ok" })
  | ["exp", w, e, o] =>
    match Hex.decode w, parseEnv e, parseEnv o with
    | some w, some env, some osenv =>
      let m := expandEnv env osenv w
      let spec :=
        match Hex.decode impl with
        | none => "FAIL unparsable implementation answer"
        | some got => match specArg env osenv w got with
          | some e => "FAIL " ++ e
          | none => "ok"
      ((), { model := Hex.encode m, spec })
    | _, _, _ => ((), { model := "bad-op" })
  | ["run", _tmpl, sp, e, o, code] =>
    match parseSplit sp, parseEnv e, parseEnv o, code.toNat? with
    | some split, some env, some osenv, some code =>
      -- the harness prepends the helper program (a NUL-free, `$`-free path) to the template
      let split' := split.map (fun ws => ([] : Bytes) :: ws)
      let m := runCmd rc split' true env osenv code
      ((), { model := fmtOutcome env osenv m, spec := specRun split' env osenv code impl })
    | _, _, _, _ => ((), { model := "bad-op" })
  | ["prg", _prog, _rest, sp, e, o, code] =>
    match parseSplit sp, parseEnv e, parseEnv o, code.toNat? with
    | some split, some env, some osenv, some code =>
      let argv0 := (split.bind List.head?).map (fun w => canonH (expandEnv env osenv w))
      let progOK := argv0 == some (strBytes "{D}/helper")
      let model := match runCmd rc split progOK env osenv code with
        | .ran args rep =>
          let seen := ",".intercalate ((envKeys env osenv).map fun k =>
            Hex.encode k ++ ":" ++ (match childGet env osenv k with | some v => Hex.encode (canonH v) | none => "unset"))
          s!"ran argv={fmtWords ((argv0.getD []) :: args.map canonH)} env={if (envKeys env osenv).isEmpty then "-" else seen} report={fmtReport rep}"
        | o' => fmtOutcome env osenv o'
      ((), { model, spec := specProg split env osenv code impl })
    | _, _, _, _ => ((), { model := "bad-op" })
  | "pool" :: o :: code :: n :: k :: rest =>
    -- k restarting hooks of one Pool alive at the same time; every run of hook j sees exactly hook j's values
    let rec hooksOf : List String → Option (List (Option (List Bytes) × Env))
      | [] => some []
      | _t :: sp :: e :: r => do
        let sp ← parseSplit sp
        let e ← parseEnv e
        let tl ← hooksOf r
        pure ((sp, e) :: tl)
      | _ => none
    match parseEnv o, code.toNat?, n.toNat?, k.toNat?, hooksOf rest with
    | some osenv, some code, some n, some k, some hooks =>
      if hooks.length != k then ((), { model := "bad-op" }) else
      let allKeys := (hooks.flatMap fun h => h.2.map (·.1)) ++ osenv.map (·.1)
      let keys := allKeys.foldl (fun acc x => if acc.contains x then acc else acc ++ [x]) []
      let fmtRun (env : Env) : Outcome → String
        | .ran argv rep =>
          let seen := if keys.isEmpty then "-" else ",".intercalate (keys.map fun key =>
            Hex.encode key ++ ":" ++ (match childGet env osenv key with | some v => Hex.encode v | none => "unset"))
          s!"ran argv={fmtWords argv} env={seen} report={fmtReport rep}"
        | o' => fmtOutcome env osenv o'
      let want := (List.range k).zip hooks |>.map fun (j, (sp, env)) =>
        let split' := sp.map (fun ws => ([] : Bytes) :: ws)
        let runs := runsRestart rc split' true env osenv code n
        String.singleton (Char.ofNat (65 + j)) ++ "=" ++ " | ".intercalate (runs.map (fmtRun env))
      let model := " ; ".intercalate want
      let got := impl.splitOn " ; "
      let spec :=
        if got == want then "ok"
        else
          let j := ((List.range k).find? fun i => got[i]? != want[i]?).getD 0
          s!"FAIL a command of hook {String.singleton (Char.ofNat (65 + j))} did not receive exactly the values of its own hook while other hooks of the pool were alive: expected {want.getD j ""} got {got.getD j ""}"
      ((), { model, spec })
    | _, _, _, _, _ => ((), { model := "bad-op" })
  | ["rst", _tmpl, sp, e, o, code, n] =>
    match parseSplit sp, parseEnv e, parseEnv o, code.toNat?, n.toNat? with
    | some split, some env, some osenv, some code, some n =>
      let split' := split.map (fun ws => ([] : Bytes) :: ws)
      let ms := runsRestart rc split' true env osenv code n
      let model := " | ".intercalate (ms.map (fmtOutcome env osenv))
      let segs := impl.splitOn " | "
      let spec :=
        if segs.length != n then s!"FAIL expected {n} runs of the restarting hook, saw {segs.length}: {impl}"
        else
          let vs := (List.range n).zip segs |>.map fun (k, seg) => (k, specRun split' env osenv code seg)
          match vs.find? (fun kv => kv.2 != "ok") with
          | some (k, v) => s!"FAIL run {k + 1} of the restarting hook: " ++ (v.drop 5).toString
          | none => "ok"
      ((), { model, spec })
    | _, _, _, _, _ => ((), { model := "bad-op" })
  | ["hk", nameH, portH, groupsS, mode, k1, a1, b1, c1, _d1, k2, a2, b2, c2, _d2] =>
    match Hex.decode nameH, Hex.decode portH, parseSplit groupsS, parseKind k1, parseKind k2,
          [a1, b1, c1, a2, b2, c2].mapM Hex.decode with
    | some name, some port, some (some groups), some k1, some k2, some [a1, b1, c1, a2, b2, c2] =>
      let env (k : HookKind) (stop : Bool) (a b c : Bytes) := hookEnv k stop name port groups a b c
      let starts : List (Nat × Env) := if mode == "ru" then [(1, env k1 false a1 b1 c1), (2, env k2 false a2 b2 c2)] else []
      let order := starts ++ [(1, env k1 true a1 b1 c1), (2, env k2 true a2 b2 c2)]
      let keys := hookKeys groups.length
      let fmt (e : Env) : String :=
        let seen := ",".intercalate (keys.map fun k =>
          Hex.encode k ++ ":" ++ (match childGet e [] k with | some v => Hex.encode v | none => "unset"))
        s!"argv={fmtWords (hookWords.map (expandEnv e []))} env={seen}"
      let model := " | ".intercalate (order.map fun x => fmt x.2)
      let segs := impl.splitOn " | "
      let spec :=
        if segs.length != order.length then s!"FAIL expected {order.length} hook commands, saw: {impl}"
        else match (order.zip segs).find? (fun x => fmt x.1.2 != x.2) with
          | some ((j, e), seg) =>
            s!"FAIL a hook command of invocation {j} did not receive exactly the values of that invocation: expected {fmt e} got {seg}"
          | none => "ok"
      ((), { model, spec })
    | _, _, _, _, _, _ => ((), { model := "bad-op" })
  | ["raw", _cmd, sp, e, o] =>
    match parseSplit sp, parseEnv e, parseEnv o with
    | some split, some env, some osenv =>
      let m := runCmd rc split false env osenv 0
      ((), { model := fmtOutcome env osenv m })
    | _, _, _ => ((), { model := "bad-op" })
  | _ => ((), { model := "bad-op" })

def main (args : List String) : IO UInt32 := runDriver args () step
