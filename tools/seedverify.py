#!/usr/bin/env python3
"""
tools/seedverify.py <Cxx> <dir with patch.diff, zz_seed_demo_test.go, meta.json> <seed-name> [--checks Cxx,Cyy]

Confirms a seeded change independently and runs our checks against it:
  1. fresh worktree of /repo HEAD under /tmp/seedv-<name>; demo test must PASS on the clean tree
  2. apply patch.diff; must compile; demo test must FAIL; the package's existing tests must PASS
  3. run ./check for the property (and any extra checks) with VERIF_REPO pointing at the patched worktree
  4. if 1+2 hold, store everything under /verif/seeded/<name>/ (patch.diff, demo, meta.json with what was run)
The worktree is removed at the end.
"""
import sys, os, json, subprocess, shutil, re, time

ROOT = os.path.dirname(os.path.dirname(os.path.abspath(__file__)))


def netns(cmd):
    """run go tests in a private network namespace: other jobs on the host hold the ports the project's tests bind"""
    import shlex
    if os.environ.get("SEEDVERIFY_NONETNS"):   # demos that need real interfaces (WebRTC ICE gathering)
        return cmd
    return ["unshare", "-rn", "sh", "-c", "ip link set lo up; exec " + " ".join(shlex.quote(c) for c in cmd)]


def sh(cmd, cwd=None, env=None, timeout=1800):
    e = dict(os.environ); e.update({"GOFLAGS": "-mod=mod", "GOPROXY": "off"})
    if env: e.update(env)
    p = subprocess.run(cmd, cwd=cwd, env=e, stdout=subprocess.PIPE, stderr=subprocess.STDOUT, text=True,
                       errors="replace", timeout=timeout, shell=isinstance(cmd, str))
    return p.returncode, p.stdout


def save_gen():
    """generated Lean facts are rewritten from the patched tree by the checks run here: keep the /repo versions"""
    import glob
    return {f: open(f).read() for f in glob.glob(os.path.join(ROOT, "lean", "MtxVerif", "Gen", "*.lean"))}


def restore_gen(saved):
    for f, txt in saved.items():
        try:
            if open(f).read() != txt: open(f, "w").write(txt)
        except FileNotFoundError:
            open(f, "w").write(txt)


def main():
    pid, src, name = sys.argv[1], os.path.abspath(sys.argv[2]), sys.argv[3]
    checks = [pid]
    if "--checks" in sys.argv:
        checks = sys.argv[sys.argv.index("--checks") + 1].split(",")
    wt = "/tmp/seedv-" + name
    sh(["git", "-C", "/repo", "worktree", "remove", "--force", wt])
    rc, out = sh(["git", "-C", "/repo", "worktree", "add", "--detach", wt, "HEAD"])
    assert rc == 0, out
    res = {"property": pid, "name": name, "ran": []}
    try:
        meta = {}
        mp = os.path.join(src, "meta.json")
        if os.path.exists(mp):
            try: meta = json.load(open(mp))
            except Exception as ex: meta = {"unparsable_meta": str(ex)}
        demo = open(os.path.join(src, "zz_seed_demo_test.go")).read()
        pkg = meta.get("demo_package")
        if not pkg:
            m = re.search(r"(\./internal/[A-Za-z0-9_/]+|internal/[A-Za-z0-9_/]+)", demo.split("\n", 3)[0] + demo[:400])
            pkg = m.group(1) if m else None
        assert pkg, "cannot determine demo package"
        pkg = "./" + pkg.lstrip("./").rstrip("/")
        # embed stubs so that core / hls build
        os.makedirs(os.path.join(wt, "internal/core"), exist_ok=True)
        open(os.path.join(wt, "internal/core/VERSION"), "w").write("v0.0.0")
        open(os.path.join(wt, "internal/servers/hls/hls.min.js"), "w").write("/* stub */")
        shutil.copy(os.path.join(src, "zz_seed_demo_test.go"), os.path.join(wt, pkg, "zz_seed_demo_test.go"))
        run_demo = ["go", "test", "-count=1", "-run", "Seed|Demo|seed|demo", pkg]
        # find the demo's test function names to run only them
        names = re.findall(r"^func (Test\w+)\(", demo, re.M)
        if names:
            run_demo = ["go", "test", "-count=1", "-run", "^(" + "|".join(names) + ")$", pkg]
        rc, out = sh(netns(run_demo), cwd=wt)
        res["demo_clean_rc"] = rc; res["ran"].append(" ".join(run_demo) + "  (clean tree)")
        res["demo_passes_without_patch"] = rc == 0
        if rc != 0: res["demo_clean_tail"] = out[-800:]
        rc, out = sh(["git", "apply", os.path.join(src, "patch.diff")], cwd=wt)
        res["patch_applies"] = rc == 0
        assert rc == 0, "patch does not apply: " + out
        rc, out = sh(["go", "build", "./..."], cwd=wt)
        res["builds"] = rc == 0
        if rc != 0: res["build_tail"] = out[-800:]
        rc, out = sh(netns(run_demo), cwd=wt)
        res["demo_fails_with_patch"] = rc != 0; res["ran"].append(" ".join(run_demo) + "  (patched tree)")
        res["demo_patched_tail"] = out[-600:]
        # existing tests of the touched packages (demo removed)
        os.remove(os.path.join(wt, pkg, "zz_seed_demo_test.go"))
        rc, out = sh("git diff --name-only", cwd=wt)
        pkgs = sorted({"./" + os.path.dirname(f) for f in out.split() if f.endswith(".go")} | {pkg})
        t0 = time.time()
        rc, out = sh(netns(["go", "test", "-count=1", "-vet=off"] + pkgs), cwd=wt, timeout=3000)
        if rc != 0:   # the suite has timing-sensitive tests: one retry
            rc, out = sh(netns(["go", "test", "-count=1", "-vet=off"] + pkgs), cwd=wt, timeout=3000)
        res["existing_tests_pass_with_patch"] = rc == 0; res["ran"].append("go test -count=1 " + " ".join(pkgs) + "  (patched tree, demo removed)")
        if rc != 0: res["existing_tests_tail"] = out[-1500:]
        res["existing_tests_s"] = round(time.time() - t0, 1)
        # remove stubs: ./check supplies them through the overlay
        os.remove(os.path.join(wt, "internal/core/VERSION")); os.remove(os.path.join(wt, "internal/servers/hls/hls.min.js"))
        res["valid_seed"] = bool(res["demo_passes_without_patch"] and res["builds"] and res["demo_fails_with_patch"] and res["existing_tests_pass_with_patch"])
        res["checks"] = {}
        gen_saved = save_gen()
        for c in checks:
            rc, out = sh([os.path.join(ROOT, "check"), c, "--tier", "quick"], cwd=ROOT, env={"VERIF_REPO": wt}, timeout=3000)
            lines = [l for l in out.splitlines() if l.startswith(("VIOLATION", "OK ", "BROKEN", "DIVERGED", "KNOWN-FINDING"))]
            detail = ""
            m = re.search(r"replay=(\S+)", out)
            if m and os.path.exists(os.path.join(ROOT, m.group(1))):
                try:
                    r = json.load(open(os.path.join(ROOT, m.group(1))))
                    detail = {k: (v if not isinstance(v, list) else v[-3:]) for k, v in r.items() if k in ("kind", "reason", "history", "impl_answer", "model_answer", "broken")}
                except Exception: pass
            res["checks"][c] = {"exit": rc, "lines": lines[:8], "replay": detail,
                                "caught": rc == 1 and any(l.startswith("VIOLATION") for l in lines),
                                "with_failing_input": rc == 1 and not any("no-failing-input-found" in l for l in lines)}
            res["ran"].append("VERIF_REPO=<patched worktree> ./check %s --tier quick" % c)
        # evidence files were rewritten by the runs against the patched tree: restore them from git
        sh("git checkout -- evidence", cwd=ROOT)
        restore_gen(gen_saved)
    finally:
        sh(["git", "-C", "/repo", "worktree", "remove", "--force", wt])
    print(json.dumps(res, indent=1))
    if res.get("valid_seed"):
        d = os.path.join(ROOT, "seeded", name)
        os.makedirs(d, exist_ok=True)
        shutil.copy(os.path.join(src, "patch.diff"), d)
        shutil.copy(os.path.join(src, "zz_seed_demo_test.go"), os.path.join(d, "zz_seed_demo_test.go"))
        out = {"breaks_property": pid, "summary": meta.get("summary"), "needs_to_manifest": meta.get("needs_to_manifest"),
               "files_changed": meta.get("files_changed"), "demo_package": pkg, "author": "independent seeding sub-agent (given only the property text and a scratch worktree)",
               "confirmed_by_coordinator": {k: res[k] for k in ("demo_passes_without_patch", "builds", "demo_fails_with_patch", "existing_tests_pass_with_patch")},
               "what_was_run": res["ran"], "check_results": res["checks"]}
        json.dump(out, open(os.path.join(d, "meta.json"), "w"), indent=1)
    return 0


if __name__ == "__main__":
    sys.exit(main())
