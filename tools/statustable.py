#!/usr/bin/env python3
"""prints the per-property status table (DESIGN.md §8.4) from props/*.json, evidence/*.json, KNOWN_FINDINGS.txt, seeded/*"""
import json, glob, os, re
ROOT = os.path.dirname(os.path.dirname(os.path.abspath(__file__)))
ready = set(open(os.path.join(ROOT, "props", "READY")).read().split())
known, fixed = {}, {}
for l in open(os.path.join(ROOT, "KNOWN_FINDINGS.txt")):
    m = re.match(r"(known|fixed): property=(C\d+) (?:class=(\S+)|(\w+))", l)
    if m:
        (known if m.group(1) == "known" else fixed).setdefault(m.group(2), []).append(m.group(3) or m.group(4))
seeds = {}
for p in glob.glob(os.path.join(ROOT, "seeded", "*", "meta.json")):
    m = json.load(open(p)); pid = m["breaks_property"]
    cr = m.get("check_results", {})
    st = seeds.setdefault(pid, [0, 0, 0])
    st[0] += 1
    if any(r.get("caught") and r.get("with_failing_input") for r in cr.values()): st[1] += 1
    elif any(r.get("caught") for r in cr.values()): st[2] += 1
print("| id | claimed | theorems | tie | quick evals | quick wall (s) | fixes in /repo | known classes | seeds: total / failing input / tie-broken only |")
print("|---|---|---|---|---|---|---|---|---|")
for l in open(os.path.join(ROOT, "properties.jsonl")):
    pid = json.loads(l)["id"]
    pj = os.path.join(ROOT, "props", pid + ".json")
    if not os.path.exists(pj):
        print("| %s | no | | | | | | | |" % pid); continue
    meta = json.load(open(pj))
    ev = {}
    ep = os.path.join(ROOT, "evidence", pid + ".json")
    if os.path.exists(ep): ev = json.load(open(ep))
    cov = ev.get("coverage", {})
    tie = "T+H" if meta.get("xlate") else "H"
    s = seeds.get(pid, [0, 0, 0])
    print("| %s | %s | %s | %s | %s | %s | %s | %s | %d / %d / %d |" % (
        pid, "yes" if pid in ready else "no", cov.get("obligations", ""), tie, cov.get("evaluations", ""), ev.get("wall_s", ""),
        ", ".join(fixed.get(pid, [])), ", ".join(known.get(pid, [])), s[0], s[1], s[2]))
