#!/usr/bin/env python3
"""
tools/seedrecheck.py <seed-name> [--checks Cxx,Cyy] [--all-missed]

Re-runs checks against an already stored seeded change (seeded/<name>/patch.diff) after a check was strengthened and
updates seeded/<name>/meta.json "check_results".  Worktree /tmp/seedr-<name> of /repo HEAD, removed at the end; the
evidence files of the checks that ran are restored afterwards (evidence must describe runs against /repo itself).
--all-missed: every stored seed whose own property's check has no recorded failing-input catch.
"""
import sys, os, json, subprocess, shutil, re, glob

ROOT = os.path.dirname(os.path.dirname(os.path.abspath(__file__)))


def sh(cmd, cwd=None, env=None, timeout=3000):
    e = dict(os.environ); e.update({"GOFLAGS": "-mod=mod", "GOPROXY": "off"})
    if env: e.update(env)
    p = subprocess.run(cmd, cwd=cwd, env=e, stdout=subprocess.PIPE, stderr=subprocess.STDOUT, text=True, errors="replace", timeout=timeout)
    return p.returncode, p.stdout


def recheck(name, checks):
    d = os.path.join(ROOT, "seeded", name)
    meta = json.load(open(os.path.join(d, "meta.json")))
    checks = checks or [meta["breaks_property"]]
    wt = "/tmp/seedr-" + name
    sh(["git", "-C", "/repo", "worktree", "remove", "--force", wt])
    rc, out = sh(["git", "-C", "/repo", "worktree", "add", "--detach", wt, "HEAD"])
    assert rc == 0, out
    saved = {}
    gen_saved = save_gen()
    try:
        rc, out = sh(["git", "apply", os.path.join(d, "patch.diff")], cwd=wt)
        if rc != 0:   # /repo moved on since the seed was made (a later fix: commit touched the same file): merge
            rc, out = sh(["git", "apply", "--3way", os.path.join(d, "patch.diff")], cwd=wt)
            if rc == 0: sh(["git", "reset", "-q"], cwd=wt)
        if rc != 0:
            print(name, "patch no longer applies to HEAD:", out[-300:]); return
        for c in checks:
            ev = os.path.join(ROOT, "evidence", c + ".json")
            if os.path.exists(ev): saved[ev] = open(ev).read()
            rc, out = sh([os.path.join(ROOT, "check"), c, "--tier", "quick"], cwd=ROOT, env={"VERIF_REPO": wt})
            lines = [l for l in out.splitlines() if l.startswith(("VIOLATION", "OK ", "BROKEN", "DIVERGED", "KNOWN-FINDING"))]
            detail = ""
            m = re.search(r"replay=(\S+)", out)
            if m and os.path.exists(os.path.join(ROOT, m.group(1))):
                try:
                    r = json.load(open(os.path.join(ROOT, m.group(1))))
                    detail = {k: (v if not isinstance(v, list) else v[-4:]) for k, v in r.items() if k in ("kind", "reason", "history", "impl_answer", "model_answer", "broken")}
                except Exception: pass
            meta.setdefault("check_results", {})[c] = {
                "exit": rc, "lines": lines[:8], "replay": detail,
                "caught": rc == 1 and any(l.startswith("VIOLATION") for l in lines),
                "with_failing_input": rc == 1 and any(l.startswith("VIOLATION") for l in lines) and not any("no-failing-input-found" in l for l in lines),
                "rechecked_after_strengthening": True}
            w = "VERIF_REPO=<patched worktree> ./check %s --tier quick  (re-run after the check was strengthened)" % c
            if w not in meta.setdefault("what_was_run", []): meta["what_was_run"].append(w)
            r = meta["check_results"][c]
            print(name, c, "caught failing-input" if r["with_failing_input"] else ("caught (tie broken only)" if r["caught"] else "MISSED"), lines[:2], flush=True)
        json.dump(meta, open(os.path.join(d, "meta.json"), "w"), indent=1)
    finally:
        for ev, txt in saved.items(): open(ev, "w").write(txt)
        restore_gen(gen_saved)
        sh(["git", "-C", "/repo", "worktree", "remove", "--force", wt])


def save_gen():
    """generated Lean facts are rewritten from the patched tree by the checks run here: keep the /repo versions"""
    import glob
    return {f: open(f).read() for f in glob.glob(os.path.join(ROOT, "lean", "MtxVerif", "Gen", "*.lean"))}


def restore_gen(saved):
    for f, txt in saved.items():
        try:
            if open(f).read() != txt: open(f, "w").write(txt)
        except FileNotFoundError:
            open(f, "w").write(txt)


def main():
    a = sys.argv[1:]
    checks = None
    if "--checks" in a:
        checks = a[a.index("--checks") + 1].split(","); del a[a.index("--checks"):a.index("--checks") + 2]
    if "--all-missed" in a:
        names = []
        for mp in sorted(glob.glob(os.path.join(ROOT, "seeded", "*", "meta.json"))):
            m = json.load(open(mp)); own = m.get("check_results", {}).get(m["breaks_property"], {})
            if not own.get("with_failing_input"): names.append(os.path.basename(os.path.dirname(mp)))
        print("re-checking:", " ".join(names), flush=True)
    else:
        names = a
    for n in names:
        try: recheck(n, checks)
        except Exception as ex: print(n, "ERROR", ex, flush=True)


if __name__ == "__main__":
    main()
