#!/usr/bin/env python3
"""prints the markdown table of seeded changes (seeded/*/meta.json) for DESIGN.md §8.3"""
import json, glob, os
ROOT = os.path.dirname(os.path.dirname(os.path.abspath(__file__)))
print("| seed | property | change (independent sub-agent) | needs to manifest | caught by | how |")
print("|---|---|---|---|---|---|")
for p in sorted(glob.glob(os.path.join(ROOT, "seeded", "*", "meta.json"))):
    m = json.load(open(p))
    name = os.path.basename(os.path.dirname(p))
    def short(s, n):
        s = (s or "").replace("|", "/").replace("\n", " ")
        return s if len(s) <= n else s[:n - 1] + "…"
    caught, how = [], []
    for c, r in (m.get("check_results") or {}).items():
        if r.get("caught"):
            caught.append(c)
            how.append("failing input + replay" if r.get("with_failing_input") else "tie/proof broken, no-failing-input-found")
        else:
            caught.append("**" + c + " MISSED**"); how.append("—")
    note = m.get("note")
    print("| %s | %s | %s | %s | %s | %s |" % (name, m.get("breaks_property"), short(m.get("summary"), 150), short(m.get("needs_to_manifest"), 140),
                                          ", ".join(caught), "; ".join(how) + ((" — " + note) if note else "")))
