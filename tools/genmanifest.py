#!/usr/bin/env python3
"""Regenerates MANIFEST.json from props/Cxx.json (claimed) and props/not_applicable.json."""
import json, os, glob
ROOT = os.path.dirname(os.path.dirname(os.path.abspath(__file__)))
base = json.load(open("/root/.vp/BASELINE.json")) if os.path.exists("/root/.vp/BASELINE.json") else {"cmd": ""}
props = [json.loads(l)["id"] for l in open(os.path.join(ROOT, "properties.jsonl"))]
ready = set(open(os.path.join(ROOT, "props", "READY")).read().split())
checks, claimed = [], set()
for p in sorted(glob.glob(os.path.join(ROOT, "props", "C*.json"))):
    m = json.load(open(p))
    if m.get("disabled") or m["id"] not in ready:
        continue
    pid = m["id"]
    claimed.add(pid)
    checks.append({
        "property_id": pid,
        "quick_cmd": "./check %s --tier quick" % pid,
        "thorough_cmd": "./check %s --tier thorough" % pid,
        "evidence_file": "/verif/evidence/%s.json" % pid,
        "replay_cmd_template": "./check %s --replay {path}" % pid,
        "engine": "lean4-proof+correspondence",
        "level_claimed": {"category": "proof", "text": m["level_text"], "design_ref": m.get("design_ref", "DESIGN.md §5 " + pid)},
        "level_note": m["level_note"],
        "technique": m.get("technique", "Lean 4 machine-checked proof + differential correspondence with the Go implementation"),
    })
na_path = os.path.join(ROOT, "props", "not_applicable.json")
na_reasons = json.load(open(na_path)) if os.path.exists(na_path) else {}
na = []
for pid in props:
    if pid not in claimed:
        na.append({"property_id": pid, "reason": na_reasons.get(pid, "not yet covered: no Lean model/theorem with a checked tie to the code has been built for this property (work in progress; the technique is not switched)")})
man = {
    "version": 1,
    "setup_cmd": "./setup.sh",
    "hooks": {
        "guard": "verif",
        "enable": "cd /repo && GOFLAGS=-mod=mod GOPROXY=off go test -c -tags verif -overlay /verif/.gen/<id>/overlay.json <pkg>  (harness files live in /verif/tools/harness and are injected by -overlay; nothing is added to /repo)",
        "baseline_off_cmd": base.get("cmd", ""),
        "source_commits": [],
        "add_only": True,
    },
    "engines": [{"name": "lean4-proof+correspondence", "path": "/verif/check",
                 "serves_properties": sorted(claimed),
                 "kind_free_text": "Lean 4 model + theorems (lake project /verif/lean), Go fact extractor tools/xlate regenerating Gen/*.lean, Go correspondence harness injected with -overlay under build tag verif, compiled Lean line-protocol driver, diff + executable spec on the implementation's answers"}],
    "checks": checks,
    "not_applicable": na,
    "notes": "See DESIGN.md. KNOWN_FINDINGS.txt lists recorded/fixed defects. All checks rebuild harness and facts from /repo's working tree.",
}
json.dump(man, open(os.path.join(ROOT, "MANIFEST.json"), "w"), indent=1)
print("claimed", len(claimed), "not_applicable", len(na))
