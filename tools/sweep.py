#!/usr/bin/env python3
"""tools/sweep.py [--tier quick|thorough] [--seed N] [--jobs J] [--skip C22,C23] [ids…]: runs ./check for every claimed
property (props/READY) J at a time and prints one line per property; exit 1 if any check did not exit 0."""
import sys, os, subprocess, concurrent.futures as cf, time
ROOT = os.path.dirname(os.path.dirname(os.path.abspath(__file__)))
a = sys.argv[1:]
def opt(name, d):
    if name in a:
        i = a.index(name); v = a[i + 1]; del a[i:i + 2]; return v
    return d
tier = opt("--tier", "quick"); seed = opt("--seed", None); jobs = int(opt("--jobs", "4")); skip = set(opt("--skip", "").split(","))
ids = a or open(os.path.join(ROOT, "props", "READY")).read().split()
ids = [i for i in ids if i not in skip]
def run(pid):
    env = dict(os.environ)
    if seed: env["VERIF_SEED"] = seed
    t = time.time()
    p = subprocess.run([os.path.join(ROOT, "check"), pid, "--tier", tier], cwd=ROOT, env=env, stdout=subprocess.PIPE, stderr=subprocess.STDOUT, text=True, errors="replace")
    lines = [l for l in p.stdout.splitlines() if l.startswith(("OK ", "VIOLATION", "KNOWN-FINDING", "BROKEN", "DIVERGED"))]
    return pid, p.returncode, round(time.time() - t), lines
bad = 0
with cf.ThreadPoolExecutor(jobs) as ex:
    for pid, rc, dt, lines in ex.map(run, ids):
        if rc != 0: bad += 1
        print("%s rc=%d %ds %s" % (pid, rc, dt, " | ".join(l[:140] for l in lines if not l.startswith("KNOWN-FINDING") or rc)), flush=True)
print("SWEEP tier=%s seed=%s failed=%d of %d" % (tier, seed, bad, len(ids)))
sys.exit(1 if bad else 0)
