module verif/xlate/c35

go 1.23
