// Fact extractor for C35: inventory of the MediaMTX-owned code that handles client-chosen strings
// before (or at) the authentication boundary, (re)written to lean/MtxVerif/Gen/C35.lean.
// Standard library only (go/ast, no type information).
//
// Facts:
//
//	sites    : every index expression `x[i]` and slice expression `x[a:b]` in the listed functions
//	           (file, function, expression text).  Props/C35 states the exact expected list, each row
//	           annotated with the model that carries its obligation or the reason it is not
//	           client-indexed: a NEW index/slice expression in pre-auth code breaks the build.
//	boundary : every function of the listed files that calls the authentication boundary
//	           (pathManager.FindPathConf / AddReader / AddPublisher / Describe, AuthManager.Authenticate,
//	           doAuth, checkAuthOutsideSession, newSession): a NEW pre-auth entry point breaks the build.
//	rtspGuards : for onDescribe / onAnnounce / onSetup — does the body start with
//	           `if len(ctx.Path) == 0 || ctx.Path[0] != '/' { return … }` followed by
//	           `ctx.Path = ctx.Path[1:]` ?
//	filterBeforeRouter : in protocols/httpp/server.go the handler chain wraps handlerFilterRequests
//	           around the user handler (so it runs before any router).
package main

import (
	"flag"
	"fmt"
	"go/ast"
	"go/parser"
	"go/printer"
	"go/token"
	"os"
	"path/filepath"
	"strings"
)

// file → functions to inventory ("*" = all)
var scope = []struct {
	file  string
	funcs []string
}{
	{"internal/protocols/httpp/credentials.go", []string{"*"}},
	{"internal/protocols/httpp/handler_filter_requests.go", []string{"*"}},
	{"internal/protocols/httpp/content_type.go", []string{"*"}},
	{"internal/protocols/httpp/handler_logger.go", []string{"*"}},
	{"internal/protocols/httpp/handler_origin.go", []string{"*"}},
	{"internal/protocols/httpp/handler_server_header.go", []string{"*"}},
	{"internal/protocols/httpp/handler_write_timeout.go", []string{"*"}},
	{"internal/protocols/httpp/handler_tracker.go", []string{"*"}},
	{"internal/protocols/httpp/handler_exit_on_panic.go", []string{"*"}},
	{"internal/protocols/httpp/remote_addr.go", []string{"*"}},
	{"internal/conf/path.go", []string{"IsValidPathName"}},
	{"internal/servers/srt/streamid.go", []string{"*"}},
	{"internal/servers/srt/conn.go", []string{"*"}},
	{"internal/servers/rtmp/conn.go", []string{"*"}},
	{"internal/servers/rtsp/conn.go", []string{"*"}},
	{"internal/servers/rtsp/session.go", []string{"*"}},
	{"internal/servers/hls/http_server.go", []string{"*"}},
	{"internal/servers/webrtc/http_server.go", []string{"*"}},
	{"internal/servers/moq/session.go", []string{"*"}},
	{"internal/api/api.go", []string{"paramName"}},
	{"internal/api/paginate.go", []string{"*"}},
	{"internal/playback/server.go", []string{"*"}},
	{"internal/playback/on_get.go", []string{"onGet", "parseDuration"}},
	{"internal/playback/on_list.go", []string{"onList"}},
}

var boundaryCalls = map[string]bool{
	"FindPathConf": true, "AddReader": true, "AddPublisher": true, "Describe": true,
	"Authenticate": true, "doAuth": true, "checkAuthOutsideSession": true, "newSession": true,
}

func exprStr(fset *token.FileSet, e ast.Node) string {
	var sb strings.Builder
	printer.Fprint(&sb, fset, e)
	return strings.Join(strings.Fields(sb.String()), " ")
}

func funcName(fset *token.FileSet, fn *ast.FuncDecl) string {
	if fn.Recv != nil && len(fn.Recv.List) == 1 {
		return exprStr(fset, fn.Recv.List[0].Type) + "." + fn.Name.Name
	}
	return fn.Name.Name
}

func main() {
	repo := flag.String("repo", "/repo", "repository root")
	out := flag.String("out", "", "lean source root")
	flag.Parse()
	fset := token.NewFileSet()

	type row struct{ file, fn, expr string }
	var sites, boundary, makes, closes []row
	guards := map[string]bool{}

	for _, sc := range scope {
		f, err := parser.ParseFile(fset, filepath.Join(*repo, sc.file), nil, 0)
		if err != nil {
			fmt.Fprintln(os.Stderr, "parse:", err)
			os.Exit(1)
		}
		for _, d := range f.Decls {
			fn, ok := d.(*ast.FuncDecl)
			if !ok || fn.Body == nil {
				continue
			}
			want := false
			for _, n := range sc.funcs {
				if n == "*" || n == fn.Name.Name {
					want = true
				}
			}
			if !want {
				continue
			}
			name := funcName(fset, fn)
			seenB := map[string]bool{}
			ast.Inspect(fn.Body, func(n ast.Node) bool {
				switch x := n.(type) {
				case *ast.IndexExpr:
					// generic instantiation (errors.AsType[*T]) is not an index operation
					if _, isType := x.Index.(*ast.StarExpr); isType {
						return true
					}
					sites = append(sites, row{sc.file, name, exprStr(fset, x)})
				case *ast.SliceExpr:
					sites = append(sites, row{sc.file, name, exprStr(fset, x)})
				case *ast.CallExpr:
					if id, ok := x.Fun.(*ast.Ident); ok && id.Name == "make" && len(x.Args) >= 2 {
						// allocation sized at run time (a literal size is not listed)
						lit := true
						for _, a := range x.Args[1:] {
							if _, ok := a.(*ast.BasicLit); !ok {
								lit = false
							}
						}
						if !lit {
							makes = append(makes, row{sc.file, name, exprStr(fset, x)})
						}
					}
					if id, ok := x.Fun.(*ast.Ident); ok && id.Name == "close" && len(x.Args) == 1 {
						closes = append(closes, row{sc.file, name, exprStr(fset, x)})
					}
					callee := ""
					switch fx := x.Fun.(type) {
					case *ast.SelectorExpr:
						callee = fx.Sel.Name
					case *ast.Ident:
						callee = fx.Name
					}
					if boundaryCalls[callee] && !seenB[callee] {
						seenB[callee] = true
						boundary = append(boundary, row{sc.file, name, callee})
					}
				}
				return true
			})
			// RTSP guard shape
			if strings.HasSuffix(sc.file, "servers/rtsp/conn.go") || strings.HasSuffix(sc.file, "servers/rtsp/session.go") {
				if fn.Name.Name == "onDescribe" || fn.Name.Name == "onAnnounce" || fn.Name.Name == "onSetup" {
					ok := false
					if len(fn.Body.List) >= 2 {
						if ifs, isIf := fn.Body.List[0].(*ast.IfStmt); isIf {
							cond := exprStr(fset, ifs.Cond)
							ret := false
							for _, st := range ifs.Body.List {
								if _, isRet := st.(*ast.ReturnStmt); isRet {
									ret = true
								}
							}
							second := exprStr(fset, fn.Body.List[1])
							ok = cond == "len(ctx.Path) == 0 || ctx.Path[0] != '/'" && ret && second == "ctx.Path = ctx.Path[1:]"
						}
					}
					guards[fn.Name.Name] = ok
				}
			}
		}
	}

	// every panic( in the protocol / server packages (code reachable from network input), with the
	// conditions of all if statements that precede or enclose it in its function ("guarded as on HEAD")
	var panics []row
	for _, dir := range []string{"internal/protocols", "internal/servers"} {
		filepath.Walk(filepath.Join(*repo, dir), func(pth string, info os.FileInfo, err error) error { //nolint:errcheck
			if err != nil || info.IsDir() || !strings.HasSuffix(pth, ".go") || strings.HasSuffix(pth, "_test.go") ||
				strings.Contains(pth, "zz_verif") {
				return nil
			}
			f, perr := parser.ParseFile(fset, pth, nil, 0)
			if perr != nil {
				return nil
			}
			rel, _ := filepath.Rel(*repo, pth)
			for _, d := range f.Decls {
				fn, ok := d.(*ast.FuncDecl)
				if !ok || fn.Body == nil {
					continue
				}
				var conds []string
				ast.Inspect(fn.Body, func(n ast.Node) bool {
					switch x := n.(type) {
					case *ast.IfStmt:
						conds = append(conds, exprStr(fset, x.Cond))
					case *ast.CallExpr:
						if id, ok := x.Fun.(*ast.Ident); ok && id.Name == "panic" {
							g := conds
							if len(g) > 4 {
								g = g[len(g)-4:] // the four nearest preceding conditions
							}
							panics = append(panics, row{rel, funcName(fset, fn), strings.Join(g, " ; ") + " => " + exprStr(fset, x)})
						}
					}
					return true
				})
			}
			return nil
		})
	}

	// handler chain of httpp.Server: `h = &handlerFilterRequests{h}` must appear, and no handler that
	// could call the user handler may be assigned before it except those that only wrap the response
	filterWraps := false
	if f, err := parser.ParseFile(fset, filepath.Join(*repo, "internal/protocols/httpp/server.go"), nil, 0); err == nil {
		ast.Inspect(f, func(n ast.Node) bool {
			as, ok := n.(*ast.AssignStmt)
			if !ok || len(as.Lhs) != 1 || len(as.Rhs) != 1 {
				return true
			}
			if exprStr(fset, as.Lhs[0]) == "h" && exprStr(fset, as.Rhs[0]) == "&handlerFilterRequests{h}" {
				filterWraps = true
			}
			return true
		})
	}

	var sb strings.Builder
	sb.WriteString("/- GENERATED by tools/xlate/c35 from the pre-authentication code of /repo — do not edit. -/\n")
	sb.WriteString("namespace MtxVerif.Gen.C35\n\n")
	sb.WriteString("/-- every index / slice expression in the inventoried pre-auth functions: (file, function, expression) -/\n")
	sb.WriteString("def sites : List (String × String × String) := [\n")
	for i, s := range sites {
		sep := ","
		if i == len(sites)-1 {
			sep = ""
		}
		fmt.Fprintf(&sb, "  (%q, %q, %q)%s\n", s.file, s.fn, s.expr, sep)
	}
	sb.WriteString("]\n\n/-- functions that call the authentication boundary: (file, function, callee) -/\n")
	sb.WriteString("def boundary : List (String × String × String) := [\n")
	for i, s := range boundary {
		sep := ","
		if i == len(boundary)-1 {
			sep = ""
		}
		fmt.Fprintf(&sb, "  (%q, %q, %q)%s\n", s.file, s.fn, s.expr, sep)
	}
	sb.WriteString("]\n\n")
	emitRows := func(name, doc string, rows []row) {
		fmt.Fprintf(&sb, "/-- %s -/\ndef %s : List (String × String × String) := [\n", doc, name)
		for i, s := range rows {
			sep := ","
			if i == len(rows)-1 {
				sep = ""
			}
			fmt.Fprintf(&sb, "  (%q, %q, %q)%s\n", s.file, s.fn, s.expr, sep)
		}
		sb.WriteString("]\n\n")
	}
	emitRows("makes", "every `make` with a run-time size in the inventoried functions", makes)
	emitRows("panics", "every `panic(` in internal/protocols and internal/servers with the (up to four) nearest preceding if-conditions of its function", panics)
	emitRows("closes", "every `close(ch)` in the inventoried functions (a channel closed twice panics)", closes)
	if len(guards) == 3 {
		fmt.Fprintf(&sb, "/-- RTSP handlers start with the path guard followed by `ctx.Path = ctx.Path[1:]` -/\ndef rtspGuards : Bool := %v\n",
			guards["onDescribe"] && guards["onAnnounce"] && guards["onSetup"])
	} else {
		fmt.Fprintln(os.Stderr, "RTSP handlers not found: rtspGuards not emitted")
	}
	fmt.Fprintf(&sb, "/-- httpp.Server wraps the user handler in handlerFilterRequests -/\ndef filterBeforeRouter : Bool := %v\n", filterWraps)
	sb.WriteString("\nend MtxVerif.Gen.C35\n")
	dst := filepath.Join(*out, "MtxVerif/Gen/C35.lean")
	if err := os.WriteFile(dst, []byte(sb.String()), 0o644); err != nil {
		fmt.Fprintln(os.Stderr, err)
		os.Exit(1)
	}
	fmt.Printf("wrote %s: %d sites, %d boundary functions\n", dst, len(sites), len(boundary))
}
