module verif/xlate/c13

go 1.23
