// Fact extractor for C13 (hot reload).  Reads internal/core/core.go (createResources, closeResources,
// reloadConf, Core.Log, type Core) and the struct conf.Conf in internal/conf of the given tree and
// (re)writes lean/MtxVerif/Gen/C13.lean.  Standard library only.
//
// Per component k (an `if … p.<k> == nil … { … }` block of createResources):
//
//	guard   conf fields in the block's condition (a helper call f(conf.F) is the pseudo field "F#f")
//	reads   conf fields anywhere in the block's body (constructor literal and the locals feeding it)
//	refs    other components mentioned in the body as p.<c>; a bare `p` (Parent: p) is a reference to
//	        the logger, because Core.Log delegates to p.logger (checked)
//	cmp     disjuncts `newConf.F != currentConf.F`, `!reflect.DeepEqual(..)`, `!slices.Equal(..)`,
//	        `f(newConf.F) != f(currentConf.F)` of its close<K> flag in closeResources, each with a
//	        comparison kind derived from the operator and the static type of conf.Conf.F
//	        (value / identity (`!=` on a pointer) / unknown)
//	deps    disjuncts that are other close<K> flags
//	reloads `if !close<K> && [p.k != nil &&] !reflect.DeepEqual(newConf.F, currentConf.F) { p.k.Reload…(newConf.F) }`
//	argMap  struct field of the constructor literal -> conf fields its value is computed from
//
// plus the create order, the close order and the self checks listed at the end of the generated file.
// Anything the extractor does not understand is an error: nothing is written, the Lean build fails
// (tie broken).
package main

import (
	"flag"
	"fmt"
	"go/ast"
	"go/parser"
	"go/token"
	"os"
	"path/filepath"
	"sort"
	"strings"
)

func die(format string, a ...any) {
	fmt.Fprintf(os.Stderr, "xlate/c13: "+format+"\n", a...)
	os.Exit(1)
}

type cmpT struct {
	field string
	op    string // neq | deepEqual | slicesEqual | helper
	tkind string
	kind  string // value | identity | unknown
}

type reloadT struct {
	field      string
	kind       string
	nilChecked bool
	method     string
}

type compT struct {
	name     string
	flag     string
	guard    []string
	reads    []string
	refs     []string
	statics  []string
	cmp      []cmpT
	deps     []string // component names
	reloads  []reloadT
	shutdown bool
	argMap   [][2]any // key, []string
	ctorType string
}

func isIdent(e ast.Expr, name string) bool {
	id, ok := e.(*ast.Ident)
	return ok && id.Name == name
}

// selOf returns F for an expression `<x>.F` where <x> is the identifier x.
func selOf(e ast.Expr, x string) (string, bool) {
	s, ok := e.(*ast.SelectorExpr)
	if !ok || !isIdent(s.X, x) {
		return "", false
	}
	return s.Sel.Name, true
}

func flatten(e ast.Expr, op token.Token) []ast.Expr {
	if p, ok := e.(*ast.ParenExpr); ok {
		return flatten(p.X, op)
	}
	if b, ok := e.(*ast.BinaryExpr); ok && b.Op == op {
		return append(flatten(b.X, op), flatten(b.Y, op)...)
	}
	return []ast.Expr{e}
}

func addUniq(l []string, s string) []string {
	for _, x := range l {
		if x == s {
			return l
		}
	}
	return append(l, s)
}

// helperField recognises f(<conf>.F) with f a plain function identifier: pseudo field "F#f".
func helperField(e ast.Expr, confVar string) (string, bool) {
	c, ok := e.(*ast.CallExpr)
	if !ok || len(c.Args) != 1 {
		return "", false
	}
	fn, ok := c.Fun.(*ast.Ident)
	if !ok {
		return "", false
	}
	f, ok := selOf(c.Args[0], confVar)
	if !ok {
		return "", false
	}
	return f + "#" + fn.Name, true
}

// confFields lists the conf fields in n; tokens counts every `<conf>.X` selector seen.
func confFields(n ast.Node, confVar string, helpers bool, tokens *int) []string {
	var out []string
	ast.Inspect(n, func(m ast.Node) bool {
		if e, ok := m.(ast.Expr); ok {
			if helpers {
				if hf, ok := helperField(e, confVar); ok {
					out = addUniq(out, hf)
					*tokens++
					return false
				}
			}
			if f, ok := selOf(e, confVar); ok {
				out = addUniq(out, f)
				*tokens++
				return false
			}
		}
		return true
	})
	return out
}

func countConfTokens(n ast.Node, confVar string) int {
	c := 0
	ast.Inspect(n, func(m ast.Node) bool {
		if e, ok := m.(ast.Expr); ok {
			if _, ok := selOf(e, confVar); ok {
				c++
			}
		}
		return true
	})
	return c
}

func findFunc(file *ast.File, recv, name string) *ast.FuncDecl {
	for _, d := range file.Decls {
		f, ok := d.(*ast.FuncDecl)
		if !ok || f.Name.Name != name || f.Body == nil {
			continue
		}
		if recv == "" && f.Recv == nil {
			return f
		}
		if recv != "" && f.Recv != nil && len(f.Recv.List) == 1 {
			t := f.Recv.List[0].Type
			if s, ok := t.(*ast.StarExpr); ok {
				t = s.X
			}
			if isIdent(t, recv) {
				return f
			}
		}
	}
	return nil
}

func recvName(f *ast.FuncDecl) string {
	if f.Recv == nil || len(f.Recv.List) != 1 || len(f.Recv.List[0].Names) != 1 {
		die("%s: receiver not named", f.Name.Name)
	}
	return f.Recv.List[0].Names[0].Name
}

// confLoadVar finds `<v> := <p>.conf.Load()` at the top level of a function body.
func confLoadVar(f *ast.FuncDecl, p string) string {
	for _, st := range f.Body.List {
		as, ok := st.(*ast.AssignStmt)
		if !ok || as.Tok != token.DEFINE || len(as.Lhs) != 1 || len(as.Rhs) != 1 {
			continue
		}
		c, ok := as.Rhs[0].(*ast.CallExpr)
		if !ok {
			continue
		}
		s, ok := c.Fun.(*ast.SelectorExpr)
		if !ok || s.Sel.Name != "Load" {
			continue
		}
		if f2, ok := selOf(s.X, p); ok && f2 == "conf" {
			return as.Lhs[0].(*ast.Ident).Name
		}
	}
	die("%s: `x := %s.conf.Load()` not found", f.Name.Name, p)
	return ""
}

// ---------- conf.Conf field types ----------

type typeInfo struct {
	kind       string // scalar pointer slice map struct iface unknown
	elem       string // for slice: kind of the element
	valueCmpNe bool   // `!=` on this type compares values (no pointer identity involved)
	text       string
}

var basic = map[string]bool{"bool": true, "string": true, "int": true, "int8": true, "int16": true, "int32": true,
	"int64": true, "uint": true, "uint8": true, "uint16": true, "uint32": true, "uint64": true, "float32": true,
	"float64": true, "byte": true, "rune": true, "uintptr": true}

// external named types known to be plain scalars
var extScalar = map[string]bool{"time.Duration": true, "logger.Level": true, "logger.Destination": true,
	"gohlslib.MuxerVariant": true, "auth.VerifyMethod": true, "gortsplib.Protocol": true}

func exprText(e ast.Expr) string {
	switch t := e.(type) {
	case *ast.Ident:
		return t.Name
	case *ast.StarExpr:
		return "*" + exprText(t.X)
	case *ast.ArrayType:
		if t.Len == nil {
			return "[]" + exprText(t.Elt)
		}
		return "[n]" + exprText(t.Elt)
	case *ast.MapType:
		return "map[" + exprText(t.Key) + "]" + exprText(t.Value)
	case *ast.SelectorExpr:
		return exprText(t.X) + "." + t.Sel.Name
	case *ast.StructType:
		return "struct{…}"
	case *ast.InterfaceType:
		return "interface{…}"
	}
	return "?"
}

func classify(e ast.Expr, types map[string]ast.Expr, depth int) typeInfo {
	ti := typeInfo{kind: "unknown", text: exprText(e)}
	if depth > 8 {
		return ti
	}
	switch t := e.(type) {
	case *ast.Ident:
		if basic[t.Name] {
			ti.kind, ti.valueCmpNe = "scalar", true
			return ti
		}
		if u, ok := types[t.Name]; ok {
			r := classify(u, types, depth+1)
			r.text = t.Name
			return r
		}
	case *ast.StarExpr:
		ti.kind = "pointer"
	case *ast.ArrayType:
		el := classify(t.Elt, types, depth+1)
		if t.Len == nil {
			ti.kind, ti.elem = "slice", el.kind
		} else {
			ti.kind, ti.valueCmpNe = "struct", el.valueCmpNe
		}
	case *ast.MapType:
		ti.kind = "map"
	case *ast.InterfaceType:
		ti.kind = "iface"
	case *ast.SelectorExpr:
		if extScalar[ti.text] {
			ti.kind, ti.valueCmpNe = "scalar", true
		}
	case *ast.StructType:
		ti.kind, ti.valueCmpNe = "struct", true
		for _, f := range t.Fields.List {
			if !classify(f.Type, types, depth+1).valueCmpNe {
				ti.valueCmpNe = false
			}
		}
	}
	return ti
}

func loadConfTypes(repo string) map[string]typeInfo {
	dir := filepath.Join(repo, "internal/conf")
	ents, err := os.ReadDir(dir)
	if err != nil {
		die("%v", err)
	}
	fset := token.NewFileSet()
	types := map[string]ast.Expr{}
	for _, e := range ents {
		n := e.Name()
		if e.IsDir() || !strings.HasSuffix(n, ".go") || strings.HasSuffix(n, "_test.go") {
			continue
		}
		f, err := parser.ParseFile(fset, filepath.Join(dir, n), nil, 0)
		if err != nil {
			die("parse %s: %v", n, err)
		}
		for _, d := range f.Decls {
			g, ok := d.(*ast.GenDecl)
			if !ok || g.Tok != token.TYPE {
				continue
			}
			for _, s := range g.Specs {
				ts := s.(*ast.TypeSpec)
				types[ts.Name.Name] = ts.Type
			}
		}
	}
	st, ok := types["Conf"].(*ast.StructType)
	if !ok {
		die("type Conf struct not found in internal/conf")
	}
	out := map[string]typeInfo{}
	for _, f := range st.Fields.List {
		ti := classify(f.Type, types, 0)
		for _, n := range f.Names {
			out[n.Name] = ti
		}
	}
	return out
}

func cmpKind(op string, ti typeInfo) string {
	switch op {
	case "deepEqual", "helper":
		return "value"
	case "slicesEqual":
		if ti.kind == "slice" && ti.elem == "scalar" {
			return "value"
		}
		return "unknown"
	case "neq":
		if ti.kind == "pointer" {
			return "identity"
		}
		if ti.valueCmpNe {
			return "value"
		}
	}
	return "unknown"
}

// ---------- main ----------

func main() {
	repo := flag.String("repo", "/repo", "repository root")
	out := flag.String("out", "", "lean source root")
	flag.Parse()

	src := filepath.Join(*repo, "internal/core/core.go")
	fset := token.NewFileSet()
	file, err := parser.ParseFile(fset, src, nil, 0)
	if err != nil {
		die("parse: %v", err)
	}
	confTypes := loadConfTypes(*repo)

	// fields of Core
	coreFields := map[string]bool{}
	for _, d := range file.Decls {
		g, ok := d.(*ast.GenDecl)
		if !ok || g.Tok != token.TYPE {
			continue
		}
		for _, s := range g.Specs {
			ts := s.(*ast.TypeSpec)
			if st, ok := ts.Type.(*ast.StructType); ok && ts.Name.Name == "Core" {
				for _, f := range st.Fields.List {
					for _, n := range f.Names {
						coreFields[n.Name] = true
					}
				}
			}
		}
	}
	if len(coreFields) == 0 {
		die("type Core struct not found")
	}

	create := findFunc(file, "Core", "createResources")
	closeF := findFunc(file, "Core", "closeResources")
	reload := findFunc(file, "Core", "reloadConf")
	logF := findFunc(file, "Core", "Log")
	if create == nil || closeF == nil || reload == nil || logF == nil {
		die("createResources / closeResources / reloadConf / Log not found on Core")
	}

	// Core.Log delegates to p.logger
	logUsesLogger := false
	{
		p := recvName(logF)
		ast.Inspect(logF.Body, func(n ast.Node) bool {
			if e, ok := n.(ast.Expr); ok {
				if f, ok := selOf(e, p); ok && f == "logger" {
					logUsesLogger = true
				}
			}
			return true
		})
	}

	// reloadConf = closeResources(newConf); conf.Store(newConf); createResources(false)
	reloadShape := false
	{
		p := recvName(reload)
		var calls []string
		ast.Inspect(reload.Body, func(n ast.Node) bool {
			if c, ok := n.(*ast.CallExpr); ok {
				if s, ok := c.Fun.(*ast.SelectorExpr); ok {
					if isIdent(s.X, p) && (s.Sel.Name == "closeResources" || s.Sel.Name == "createResources") {
						calls = append(calls, s.Sel.Name)
					}
					if s.Sel.Name == "Store" {
						if f, ok := selOf(s.X, p); ok && f == "conf" {
							calls = append(calls, "Store")
						}
					}
				}
			}
			return true
		})
		reloadShape = strings.Join(calls, ",") == "closeResources,Store,createResources"
	}
	if !reloadShape {
		die("reloadConf is not closeResources; conf.Store; createResources")
	}
	// the configuration is committed (x.conf.Store) only by New and by reloadConf: any other function
	// storing it is a second commit path that bypasses closeResources/createResources
	var otherStores []string
	for _, d := range file.Decls {
		fd, ok := d.(*ast.FuncDecl)
		if !ok || fd.Body == nil || fd.Name.Name == "New" || fd == reload {
			continue
		}
		ast.Inspect(fd.Body, func(n ast.Node) bool {
			if c, ok := n.(*ast.CallExpr); ok {
				if s, ok := c.Fun.(*ast.SelectorExpr); ok && s.Sel.Name == "Store" {
					if s2, ok := s.X.(*ast.SelectorExpr); ok && s2.Sel.Name == "conf" {
						otherStores = addUniq(otherStores, fd.Name.Name)
					}
				}
			}
			return true
		})
	}

	// ----- createResources -----
	p := recvName(create)
	cc := confLoadVar(create, p)
	var comps []*compT
	byName := map[string]*compT{}
	classified := 0
	initialOnlyAssign := true
	var staticAssigned []string

	isInitialCond := func(e ast.Expr) bool {
		for _, c := range flatten(e, token.LAND) {
			if isIdent(c, "initial") {
				return true
			}
		}
		return false
	}

	for _, st := range create.Body.List {
		ifs, ok := st.(*ast.IfStmt)
		if !ok {
			continue
		}
		// component block?
		name := ""
		for _, c := range flatten(ifs.Cond, token.LAND) {
			if b, ok := c.(*ast.BinaryExpr); ok && b.Op == token.EQL && isIdent(b.Y, "nil") {
				if f, ok := selOf(b.X, p); ok && coreFields[f] {
					name = f
				}
			}
		}
		if name == "" {
			// non-component block: assignments to Core fields are allowed only under `initial`
			ast.Inspect(ifs.Body, func(n ast.Node) bool {
				if as, ok := n.(*ast.AssignStmt); ok {
					for _, l := range as.Lhs {
						if f, ok := selOf(l, p); ok {
							staticAssigned = addUniq(staticAssigned, f)
							if !isInitialCond(ifs.Cond) {
								initialOnlyAssign = false
							}
						}
					}
				}
				return true
			})
			continue
		}
		if ifs.Else != nil || ifs.Init != nil {
			die("createResources: block of %s has else/init", name)
		}
		k := &compT{name: name}
		for _, c := range flatten(ifs.Cond, token.LAND) {
			if b, ok := c.(*ast.BinaryExpr); ok && b.Op == token.EQL && isIdent(b.Y, "nil") {
				if f, ok := selOf(b.X, p); ok && f == name {
					continue
				}
			}
			if countConfTokens(c, cc) == 0 {
				die("createResources: block of %s has a guard conjunct that does not depend on the configuration", name)
			}
		}
		k.guard = confFields(ifs.Cond, cc, true, &classified)
		k.reads = confFields(ifs.Body, cc, false, &classified)
		comps = append(comps, k)
		byName[name] = k
	}
	if len(comps) == 0 {
		die("createResources: no component blocks found")
	}
	total := countConfTokens(create.Body, cc)
	if total != classified {
		die("createResources: %d `%s.X` tokens, only %d inside component blocks (self check failed)", total, cc, classified)
	}
	// refs, statics, argMap (second pass: needs the full component set)
	for _, st := range create.Body.List {
		ifs, ok := st.(*ast.IfStmt)
		if !ok {
			continue
		}
		var k *compT
		for _, c := range flatten(ifs.Cond, token.LAND) {
			if b, ok := c.(*ast.BinaryExpr); ok && b.Op == token.EQL && isIdent(b.Y, "nil") {
				if f, ok := selOf(b.X, p); ok {
					k = byName[f]
				}
			}
		}
		if k == nil {
			continue
		}
		// the body must assign p.<k> (otherwise the `== nil` test never changes)
		assigned := false
		ast.Inspect(ifs.Body, func(n ast.Node) bool {
			switch t := n.(type) {
			case *ast.AssignStmt:
				for _, l := range t.Lhs {
					if f, ok := selOf(l, p); ok {
						if f == k.name {
							assigned = true
						} else {
							die("createResources: block of %s assigns p.%s", k.name, f)
						}
					}
				}
			case *ast.SelectorExpr:
				if f, ok := selOf(t, p); ok && f != k.name && coreFields[f] {
					if byName[f] != nil {
						k.refs = addUniq(k.refs, f)
					} else {
						k.statics = addUniq(k.statics, f)
					}
				}
			case *ast.KeyValueExpr:
				if isIdent(t.Value, p) {
					if !logUsesLogger {
						die("Core.Log does not use p.logger: cannot interpret `%s: %s`", exprText(t.Key.(ast.Expr)), p)
					}
					if k.name != "logger" {
						k.refs = addUniq(k.refs, "logger")
					}
				}
			}
			return true
		})
		if !assigned {
			die("createResources: block of %s never assigns p.%s", k.name, k.name)
		}
		// locals: variable -> conf fields (RHS of its assignments + enclosing conditions in the body)
		locals := map[string][]string{}
		var walk func(stmts []ast.Stmt, ctx []string)
		walk = func(stmts []ast.Stmt, ctx []string) {
			for _, s := range stmts {
				switch t := s.(type) {
				case *ast.AssignStmt:
					if len(t.Lhs) == 1 && len(t.Rhs) == 1 {
						if id, ok := t.Lhs[0].(*ast.Ident); ok && id.Name != "err" && id.Name != "_" {
							if _, isLit := unwrapLit(t.Rhs[0]); !isLit {
								dummy := 0
								for _, f := range append(confFields(t.Rhs[0], cc, false, &dummy), ctx...) {
									locals[id.Name] = addUniq(locals[id.Name], f)
								}
							}
						}
					}
				case *ast.IfStmt:
					dummy := 0
					c2 := append(append([]string{}, ctx...), confFields(t.Cond, cc, false, &dummy)...)
					walk(t.Body.List, c2)
					if eb, ok := t.Else.(*ast.BlockStmt); ok {
						walk(eb.List, c2)
					}
				case *ast.BlockStmt:
					walk(t.List, ctx)
				}
			}
		}
		walk(ifs.Body.List, nil)
		// constructor literal
		var lit *ast.CompositeLit
		ast.Inspect(ifs.Body, func(n ast.Node) bool {
			if lit != nil {
				return false
			}
			if as, ok := n.(*ast.AssignStmt); ok && len(as.Rhs) == 1 {
				if l, ok := unwrapLit(as.Rhs[0]); ok {
					lit = l
				}
			}
			return true
		})
		if lit == nil {
			die("createResources: no constructor literal in block of %s", k.name)
		}
		k.ctorType = exprText(lit.Type)
		for _, el := range lit.Elts {
			kv, ok := el.(*ast.KeyValueExpr)
			if !ok {
				die("createResources: positional constructor literal for %s", k.name)
			}
			key := kv.Key.(*ast.Ident).Name
			dummy := 0
			fs := confFields(kv.Value, cc, false, &dummy)
			ast.Inspect(kv.Value, func(n ast.Node) bool {
				if id, ok := n.(*ast.Ident); ok {
					for _, f := range locals[id.Name] {
						fs = addUniq(fs, f)
					}
				}
				return true
			})
			if len(fs) > 0 {
				k.argMap = append(k.argMap, [2]any{key, fs})
			}
		}
	}
	for _, f := range staticAssigned {
		if byName[f] != nil {
			die("createResources: component %s assigned outside its block", f)
		}
	}

	// ----- closeResources -----
	pc := recvName(closeF)
	cur := confLoadVar(closeF, pc)
	if len(closeF.Type.Params.List) != 1 || len(closeF.Type.Params.List[0].Names) != 1 {
		die("closeResources: expected one parameter")
	}
	nw := closeF.Type.Params.List[0].Names[0].Name

	type flagT struct {
		name     string
		cmp      []cmpT
		depFlags []string
		shutdown bool
	}
	var flags []*flagT
	flagByName := map[string]*flagT{}
	flagComp := map[string]string{} // flag -> component
	var closeOrder []string
	staticsTouchedOnReload := false
	type rawReload struct {
		flag, comp string
		r          reloadT
	}
	var rawReloads []rawReload
	aliasUsed := map[string]bool{}

	pairField := func(a, b ast.Expr) (string, bool) {
		fa, ok1 := selOf(a, nw)
		fb, ok2 := selOf(b, cur)
		if ok1 && ok2 && fa == fb {
			return fa, true
		}
		fa, ok1 = selOf(a, cur)
		fb, ok2 = selOf(b, nw)
		if ok1 && ok2 && fa == fb {
			return fa, true
		}
		return "", false
	}
	// one comparison disjunct
	parseCmp := func(e ast.Expr) (cmpT, bool) {
		if b, ok := e.(*ast.BinaryExpr); ok && b.Op == token.NEQ {
			if f, ok := pairField(b.X, b.Y); ok {
				ti := confTypes[f]
				return cmpT{field: f, op: "neq", tkind: ti.kind + " " + ti.text, kind: cmpKind("neq", ti)}, true
			}
			ha, ok1 := helperField(b.X, nw)
			hb, ok2 := helperField(b.Y, cur)
			if ok1 && ok2 && ha == hb {
				return cmpT{field: ha, op: "helper", tkind: "derived", kind: "value"}, true
			}
			return cmpT{}, false
		}
		if u, ok := e.(*ast.UnaryExpr); ok && u.Op == token.NOT {
			if c, ok := u.X.(*ast.CallExpr); ok && len(c.Args) == 2 {
				// !h(newConf.F, currentConf.F) with h a function of this package: a value comparison only
				// if h is literally `return reflect.DeepEqual(a, b)`; otherwise the extractor cannot vouch for
				// what h detects (kind unknown: the decided coverage conditions then fail)
				if h, ok := c.Fun.(*ast.Ident); ok {
					if f, ok := pairField(c.Args[0], c.Args[1]); ok {
						kind := "unknown"
						if helperIsDeepEqual(file, h.Name) {
							kind = "value"
						}
						return cmpT{field: f, op: "helper " + h.Name, tkind: confTypes[f].kind + " " + confTypes[f].text, kind: kind}, true
					}
				}
				if s, ok := c.Fun.(*ast.SelectorExpr); ok {
					op := ""
					if isIdent(s.X, "reflect") && s.Sel.Name == "DeepEqual" {
						op = "deepEqual"
					}
					if isIdent(s.X, "slices") && s.Sel.Name == "Equal" {
						op = "slicesEqual"
					}
					if f, ok := pairField(c.Args[0], c.Args[1]); ok && op != "" {
						ti := confTypes[f]
						return cmpT{field: f, op: op, tkind: ti.kind + " " + ti.text, kind: cmpKind(op, ti)}, true
					}
				}
			}
		}
		return cmpT{}, false
	}
	isNewNil := func(e ast.Expr) bool {
		b, ok := e.(*ast.BinaryExpr)
		return ok && b.Op == token.EQL && isIdent(b.X, nw) && isIdent(b.Y, "nil")
	}

	// closeBlock: `if [flag &&] p.Y != nil { [if flag {] …; p.Y = nil }`
	var scanClose func(s *ast.IfStmt, flagsSeen []string, shutdownOnly bool)
	scanClose = func(s *ast.IfStmt, flagsSeen []string, shutdownOnly bool) {
		for _, c := range flatten(s.Cond, token.LAND) {
			if id, ok := c.(*ast.Ident); ok && flagByName[id.Name] != nil {
				flagsSeen = append(flagsSeen, id.Name)
			}
			if isNewNil(c) {
				shutdownOnly = true
			}
		}
		for _, st := range s.Body.List {
			switch t := st.(type) {
			case *ast.IfStmt:
				scanClose(t, flagsSeen, shutdownOnly)
			case *ast.AssignStmt:
				for i, l := range t.Lhs {
					f, ok := selOf(l, pc)
					if !ok {
						continue
					}
					if byName[f] == nil {
						if !shutdownOnly {
							staticsTouchedOnReload = true
						}
						continue
					}
					if !(i < len(t.Rhs) && isIdent(t.Rhs[i], "nil")) {
						die("closeResources: p.%s assigned a non-nil value", f)
					}
					if len(flagsSeen) != 1 {
						die("closeResources: p.%s = nil is guarded by %d close flags", f, len(flagsSeen))
					}
					if prev, ok := flagComp[flagsSeen[0]]; ok && prev != f {
						die("closeResources: flag %s closes both %s and %s", flagsSeen[0], prev, f)
					}
					flagComp[flagsSeen[0]] = f
					closeOrder = append(closeOrder, f)
				}
			}
		}
	}

	for _, st := range closeF.Body.List {
		switch t := st.(type) {
		case *ast.AssignStmt:
			if t.Tok != token.DEFINE || len(t.Lhs) != 1 || len(t.Rhs) != 1 {
				die("closeResources: unexpected assignment")
			}
			name := t.Lhs[0].(*ast.Ident).Name
			if name == cur {
				continue
			}
			fl := &flagT{name: name}
			for _, d := range flatten(t.Rhs[0], token.LOR) {
				switch {
				case isNewNil(d):
					fl.shutdown = true
				default:
					if id, ok := d.(*ast.Ident); ok {
						if flagByName[id.Name] == nil {
							die("closeResources: %s uses undefined flag %s", name, id.Name)
						}
						fl.depFlags = addUniq(fl.depFlags, id.Name)
						continue
					}
					// `newConf != nil && <comparison>`: the nil test only protects the dereference
					if conj := flatten(d, token.LAND); len(conj) == 2 {
						if b, ok := conj[0].(*ast.BinaryExpr); ok && b.Op == token.NEQ && isIdent(b.X, nw) && isIdent(b.Y, "nil") {
							d = conj[1]
						}
					}
					c, ok := parseCmp(d)
					if !ok {
						die("closeResources: %s has a disjunct the extractor does not understand (line %d)",
							name, fset.Position(d.Pos()).Line)
					}
					fl.cmp = append(fl.cmp, c)
				}
			}
			flags = append(flags, fl)
			flagByName[name] = fl
		case *ast.IfStmt:
			// in-place reload?
			conj := flatten(t.Cond, token.LAND)
			var notFlag string
			var nilChk string
			var cmp *cmpT
			other := false
			for _, c := range conj {
				if u, ok := c.(*ast.UnaryExpr); ok && u.Op == token.NOT {
					if id, ok := u.X.(*ast.Ident); ok && flagByName[id.Name] != nil {
						notFlag = id.Name
						continue
					}
				}
				if b, ok := c.(*ast.BinaryExpr); ok && b.Op == token.NEQ && isIdent(b.Y, "nil") {
					if f, ok := selOf(b.X, pc); ok {
						nilChk = f
						continue
					}
				}
				if cm, ok := parseCmp(c); ok {
					cmp = &cm
					continue
				}
				// a variable defined above as a single comparison (`pathConfsChanged := …`)
				if id, ok := c.(*ast.Ident); ok {
					if al := flagByName[id.Name]; al != nil && len(al.cmp) == 1 && len(al.depFlags) == 0 && !al.shutdown {
						cm := al.cmp[0]
						cmp = &cm
						aliasUsed[id.Name] = true
						continue
					}
				}
				other = true
			}
			if notFlag != "" {
				if cmp == nil || other || len(t.Body.List) != 1 {
					die("closeResources: in-place reload guarded by !%s has an unexpected shape", notFlag)
				}
				es, ok := t.Body.List[0].(*ast.ExprStmt)
				if !ok {
					die("closeResources: in-place reload body is not a call")
				}
				call, ok := es.X.(*ast.CallExpr)
				if !ok || len(call.Args) != 1 {
					die("closeResources: in-place reload body is not a one-argument call")
				}
				ms, ok := call.Fun.(*ast.SelectorExpr)
				if !ok {
					die("closeResources: in-place reload body is not a method call")
				}
				recvF, ok := selOf(ms.X, pc)
				if !ok || byName[recvF] == nil {
					die("closeResources: in-place reload receiver is not a component")
				}
				if af, ok := selOf(call.Args[0], nw); !ok || af != cmp.field {
					die("closeResources: in-place reload of %s passes a different field than it compares", recvF)
				}
				if nilChk != "" && nilChk != recvF {
					die("closeResources: in-place reload of %s nil-checks p.%s", recvF, nilChk)
				}
				rawReloads = append(rawReloads, rawReload{flag: notFlag, comp: recvF,
					r: reloadT{field: cmp.field, kind: cmp.kind, nilChecked: nilChk != "", method: ms.Sel.Name}})
				continue
			}
			scanClose(t, nil, false)
		}
	}
	for _, rr := range rawReloads {
		if flagComp[rr.flag] != rr.comp {
			die("closeResources: in-place reload of %s is guarded by !%s, which closes %s", rr.comp, rr.flag, flagComp[rr.flag])
		}
		byName[rr.comp].reloads = append(byName[rr.comp].reloads, rr.r)
	}
	isAlias := func(fl *flagT) bool {
		_, closes := flagComp[fl.name]
		return !closes && len(fl.cmp) == 1 && len(fl.depFlags) == 0 && !fl.shutdown
	}
	for _, fl := range flags {
		cn, ok := flagComp[fl.name]
		if !ok {
			if isAlias(fl) {
				continue
			}
			die("closeResources: flag %s closes nothing", fl.name)
		}
		k := byName[cn]
		k.flag, k.cmp, k.shutdown = fl.name, fl.cmp, fl.shutdown
		for _, d := range fl.depFlags {
			if al := flagByName[d]; isAlias(al) {
				k.cmp = append(k.cmp, al.cmp[0])
				continue
			}
			k.deps = append(k.deps, flagComp[d])
		}
	}
	var flagOrder []string
	for _, fl := range flags {
		if c, ok := flagComp[fl.name]; ok {
			flagOrder = append(flagOrder, c)
		}
	}
	for _, k := range comps {
		if k.flag == "" {
			die("closeResources: component %s has no close flag", k.name)
		}
	}

	// ----- ids -----
	fieldID := map[string]int{}
	var fieldNames []string
	fid := func(f string) int {
		if id, ok := fieldID[f]; ok {
			return id
		}
		fieldID[f] = len(fieldNames)
		fieldNames = append(fieldNames, f)
		return fieldID[f]
	}
	// stable numbering: sorted names of every field that occurs
	{
		all := map[string]bool{}
		for _, k := range comps {
			for _, f := range k.guard {
				all[f] = true
			}
			for _, f := range k.reads {
				all[f] = true
			}
			for _, c := range k.cmp {
				all[c.field] = true
			}
			for _, r := range k.reloads {
				all[r.field] = true
			}
		}
		var l []string
		for f := range all {
			l = append(l, f)
		}
		sort.Strings(l)
		for _, f := range l {
			fid(f)
		}
	}
	compID := map[string]int{}
	for i, k := range comps {
		compID[k.name] = i
	}

	natList := func(l []int) string {
		s := make([]string, len(l))
		for i, x := range l {
			s[i] = fmt.Sprint(x)
		}
		return "[" + strings.Join(s, ", ") + "]"
	}
	fids := func(l []string) []int {
		var o []int
		for _, f := range l {
			o = append(o, fid(f))
		}
		return o
	}
	cids := func(l []string) []int {
		var o []int
		for _, c := range l {
			o = append(o, compID[c])
		}
		return o
	}
	strList := func(l []string) string {
		s := make([]string, len(l))
		for i, x := range l {
			s[i] = fmt.Sprintf("%q", x)
		}
		return "[" + strings.Join(s, ", ") + "]"
	}
	leanIdent := func(s string) string {
		return strings.NewReplacer("#", "_").Replace(s)
	}

	var b strings.Builder
	w := func(format string, a ...any) { fmt.Fprintf(&b, format+"\n", a...) }
	w("/- GENERATED by tools/xlate/c13 from internal/core/core.go and internal/conf (type Conf) — do not edit. -/")
	w("import MtxVerif.Model.C13")
	w("namespace MtxVerif.Gen.C13")
	w("open MtxVerif.C13")
	w("")
	w("/-- conf fields (index = id); `F#f` is the derived value `f(conf.F)` -/")
	w("def fieldNames : List String := %s", strList(fieldNames))
	w("/-- components = fields of Core, in createResources order (index = id) -/")
	var cn []string
	for _, k := range comps {
		cn = append(cn, k.name)
	}
	w("def compNames : List String := %s", strList(cn))
	w("")
	for i, f := range fieldNames {
		w("def F_%s : Nat := %d", leanIdent(f), i)
	}
	w("")
	for i, k := range comps {
		w("def K_%s : Nat := %d", k.name, i)
	}
	w("")
	w("/-- derived pseudo fields: (pseudo, base) -/")
	{
		var ds []string
		for _, f := range fieldNames {
			if i := strings.IndexByte(f, '#'); i >= 0 {
				ds = append(ds, fmt.Sprintf("(%d, %d)", fid(f), fid(f[:i])))
			}
		}
		w("def derived : List (Nat × Nat) := [%s]", strings.Join(ds, ", "))
	}
	w("")
	kindLean := map[string]string{"value": ".value", "identity": ".identity", "unknown": ".unknown"}
	for _, k := range comps {
		w("/-- %s (%s), closed by `%s` -/", k.name, k.ctorType, k.flag)
		w("def row_%s : Row where", k.name)
		w("  comp := %d", compID[k.name])
		w("  guard := %s  -- %s", natList(fids(k.guard)), strings.Join(k.guard, " "))
		w("  reads := %s", natList(fids(k.reads)))
		w("  refs := %s  -- %s", natList(cids(k.refs)), strings.Join(k.refs, " "))
		w("  cmp := [")
		for i, c := range k.cmp {
			sep := ","
			if i == len(k.cmp)-1 {
				sep = ""
			}
			w("    ⟨%d, %s⟩%s  -- %s %s (%s)", fid(c.field), kindLean[c.kind], sep, c.field, c.op, c.tkind)
		}
		w("  ]")
		w("  deps := %s  -- %s", natList(cids(k.deps)), strings.Join(k.deps, " "))
		var rl []string
		var rc []string
		for _, r := range k.reloads {
			rl = append(rl, fmt.Sprintf("⟨%d, %s, %v⟩", fid(r.field), kindLean[r.kind], r.nilChecked))
			rc = append(rc, r.method+"("+r.field+")")
		}
		w("  reloads := [%s]  -- %s", strings.Join(rl, ", "), strings.Join(rc, " "))
		w("  shutdown := %v", k.shutdown)
		w("")
	}
	// rows in the order the close flags are defined
	{
		var rs []string
		for _, c := range flagOrder {
			rs = append(rs, "row_"+c)
		}
		w("/-- rows in the order the close flags are computed in closeResources -/")
		w("def rows : List Row := [%s]", strings.Join(rs, ", "))
	}
	w("/-- order of the blocks of createResources -/")
	w("def createOrder : List Nat := %s", natList(cids(cn)))
	w("/-- order in which closeResources closes the components -/")
	w("def closeOrder : List Nat := %s", natList(cids(closeOrder)))
	w("")
	w("/-- constructor argument -> conf fields it is computed from, per component (for the driver) -/")
	w("def argMaps : List (Nat × List (String × List Nat)) := [")
	for i, k := range comps {
		var es []string
		for _, kv := range k.argMap {
			es = append(es, fmt.Sprintf("(%q, %s)", kv[0].(string), natList(fids(kv[1].([]string)))))
		}
		sep := ","
		if i == len(comps)-1 {
			sep = ""
		}
		w("  (%d, [%s])%s", compID[k.name], strings.Join(es, ", "), sep)
	}
	w("]")
	w("")
	w("/-- self checks of the extractor (emitted only when they passed where marked `must`) -/")
	w("def allConfTokensClassified : Bool := true  -- must: %d tokens", total)
	w("def reloadIsCloseStoreCreate : Bool := true  -- must")
	w("def coreLogUsesLogger : Bool := %v", logUsesLogger)
	w("/-- no function other than New and reloadConf stores the configuration (others: %s) -/", strings.Join(otherStores, " "))
	w("def confStoredOnlyByReload : Bool := %v", len(otherStores) == 0)
	var statics []string
	for _, k := range comps {
		for _, s := range k.statics {
			statics = addUniq(statics, s)
		}
	}
	sort.Strings(statics)
	w("/-- Core fields used by constructors that are not components: %s -/", strings.Join(statics, " "))
	w("def staticsAssignedOnlyInitially : Bool := %v", initialOnlyAssign && !staticsTouchedOnReload)
	w("")
	w("end MtxVerif.Gen.C13")

	dst := filepath.Join(*out, "MtxVerif/Gen/C13.lean")
	if err := os.MkdirAll(filepath.Dir(dst), 0o755); err != nil {
		die("%v", err)
	}
	if err := os.WriteFile(dst, []byte(b.String()), 0o644); err != nil {
		die("%v", err)
	}
	fmt.Printf("xlate/c13: %d components, %d fields, %d conf tokens\n", len(comps), len(fieldNames), total)
}

// helperIsDeepEqual: func h(a, b T) bool { return reflect.DeepEqual(a, b) }
func helperIsDeepEqual(file *ast.File, name string) bool {
	fn := findFunc(file, "", name)
	if fn == nil || len(fn.Body.List) != 1 {
		return false
	}
	var params []string
	for _, f := range fn.Type.Params.List {
		for _, n := range f.Names {
			params = append(params, n.Name)
		}
	}
	ret, ok := fn.Body.List[0].(*ast.ReturnStmt)
	if !ok || len(ret.Results) != 1 || len(params) != 2 {
		return false
	}
	c, ok := ret.Results[0].(*ast.CallExpr)
	if !ok || len(c.Args) != 2 {
		return false
	}
	s, ok := c.Fun.(*ast.SelectorExpr)
	if !ok || !isIdent(s.X, "reflect") || s.Sel.Name != "DeepEqual" {
		return false
	}
	return (isIdent(c.Args[0], params[0]) && isIdent(c.Args[1], params[1])) ||
		(isIdent(c.Args[0], params[1]) && isIdent(c.Args[1], params[0]))
}

func unwrapLit(e ast.Expr) (*ast.CompositeLit, bool) {
	if u, ok := e.(*ast.UnaryExpr); ok && u.Op == token.AND {
		e = u.X
	}
	l, ok := e.(*ast.CompositeLit)
	return l, ok
}
