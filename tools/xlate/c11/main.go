// Fact extractor for C11: reads func deepClone in internal/conf/conf.go of the given tree and (re)writes
// lean/MtxVerif/Gen/C11.lean (or Gen/<name>.lean with -name: C12 uses the same facts).  Standard library only.
//
// Facts: which `case reflect.X:` labels the kind switch of deepClone has (Pointer/Ptr, Struct, Slice, Map,
// Interface; any other label is counted in otherCases) and whether the switch ends in `default: return rv`
// where rv is the function's parameter.  If the function or its switch is not found nothing is written:
// the Lean build then fails (tie broken).
package main

import (
	"flag"
	"fmt"
	"go/ast"
	"go/parser"
	"go/token"
	"os"
	"path/filepath"
	"strings"
)

func main() {
	repo := flag.String("repo", "/repo", "repository root")
	out := flag.String("out", "", "lean source root")
	name := flag.String("name", "C11", "property id the fact file is written for (Gen/<name>.lean, namespace MtxVerif.Gen.<name>)")
	flag.Parse()

	src := filepath.Join(*repo, "internal/conf/conf.go")
	fset := token.NewFileSet()
	file, err := parser.ParseFile(fset, src, nil, 0)
	if err != nil {
		fmt.Fprintln(os.Stderr, "parse:", err)
		os.Exit(1)
	}

	var fn *ast.FuncDecl
	for _, d := range file.Decls {
		if f, ok := d.(*ast.FuncDecl); ok && f.Recv == nil && f.Name.Name == "deepClone" && f.Body != nil {
			fn = f
		}
	}
	if fn == nil || len(fn.Type.Params.List) != 1 || len(fn.Type.Params.List[0].Names) != 1 {
		fmt.Fprintln(os.Stderr, "func deepClone(rv reflect.Value) not found")
		os.Exit(1)
	}
	param := fn.Type.Params.List[0].Names[0].Name

	// the body must be exactly one switch on <param>.Kind()
	if len(fn.Body.List) != 1 {
		fmt.Fprintln(os.Stderr, "deepClone: body is not a single switch statement")
		os.Exit(1)
	}
	sw, ok := fn.Body.List[0].(*ast.SwitchStmt)
	if !ok || sw.Init != nil {
		fmt.Fprintln(os.Stderr, "deepClone: body is not a single switch statement")
		os.Exit(1)
	}
	tagOK := false
	if c, ok := sw.Tag.(*ast.CallExpr); ok && len(c.Args) == 0 {
		if s, ok := c.Fun.(*ast.SelectorExpr); ok && s.Sel.Name == "Kind" {
			if id, ok := s.X.(*ast.Ident); ok && id.Name == param {
				tagOK = true
			}
		}
	}
	if !tagOK {
		fmt.Fprintln(os.Stderr, "deepClone: switch tag is not "+param+".Kind()")
		os.Exit(1)
	}

	known := map[string]string{"Pointer": "Pointer", "Ptr": "Pointer", "Struct": "Struct", "Slice": "Slice", "Map": "Map", "Interface": "Interface"}
	have := map[string]bool{}
	other := 0
	defaultReturnsArg := false
	for _, st := range sw.Body.List {
		cc := st.(*ast.CaseClause)
		if cc.List == nil {
			if len(cc.Body) == 1 {
				if r, ok := cc.Body[0].(*ast.ReturnStmt); ok && len(r.Results) == 1 {
					if id, ok := r.Results[0].(*ast.Ident); ok && id.Name == param {
						defaultReturnsArg = true
					}
				}
			}
			continue
		}
		for _, e := range cc.List {
			s, ok := e.(*ast.SelectorExpr)
			if !ok {
				other++
				continue
			}
			pk, ok := s.X.(*ast.Ident)
			if !ok || pk.Name != "reflect" {
				other++
				continue
			}
			if k, ok := known[s.Sel.Name]; ok {
				have[k] = true
			} else {
				other++
			}
		}
	}

	// clone-like constructors of package conf: every function or method whose name contains "clone" or "copy"
	// (any case), and every exported parameterless method of Conf / Path that returns a Conf / Path.  The model
	// knows deepClone, Conf.Clone and Path.Clone (both = deepClone of the receiver); anything else is counted
	// as unknown and breaks theorem gen_clone_constructors until it is modelled.
	var ctors, unknown []string
	files, _ := filepath.Glob(filepath.Join(*repo, "internal/conf/*.go"))
	for _, fp := range files {
		if strings.HasSuffix(fp, "_test.go") {
			continue
		}
		f2, err := parser.ParseFile(token.NewFileSet(), fp, nil, 0)
		if err != nil {
			fmt.Fprintln(os.Stderr, "parse:", err)
			os.Exit(1)
		}
		for _, d := range f2.Decls {
			fd, ok := d.(*ast.FuncDecl)
			if !ok {
				continue
			}
			tname := func(e ast.Expr) string {
				if st, ok := e.(*ast.StarExpr); ok {
					e = st.X
				}
				if id, ok := e.(*ast.Ident); ok {
					return id.Name
				}
				return ""
			}
			recv := ""
			if fd.Recv != nil && len(fd.Recv.List) == 1 {
				recv = tname(fd.Recv.List[0].Type)
			}
			lname := strings.ToLower(fd.Name.Name)
			byName := strings.Contains(lname, "clone") || (strings.Contains(lname, "copy") && fd.Name.Name != "copyStructFields")
			bySig := false
			if (recv == "Conf" || recv == "Path") && fd.Name.IsExported() && fd.Type.Params.NumFields() == 0 &&
				fd.Type.Results != nil && len(fd.Type.Results.List) == 1 {
				rt := tname(fd.Type.Results.List[0].Type)
				bySig = rt == "Conf" || rt == "Path"
			}
			if !byName && !bySig {
				continue
			}
			full := fd.Name.Name
			if recv != "" {
				full = recv + "." + full
			}
			ctors = append(ctors, full)
			if full != "deepClone" && full != "Conf.Clone" && full != "Path.Clone" {
				unknown = append(unknown, full)
			}
		}
	}

	b := func(v bool) string {
		if v {
			return "true"
		}
		return "false"
	}
	var sb strings.Builder
	sb.WriteString("/- GENERATED by tools/xlate/c11 from internal/conf/conf.go (func deepClone) — do not edit. -/\n")
	sb.WriteString("namespace MtxVerif.Gen." + *name + "\n\n")
	sb.WriteString("/-- `case reflect.X:` labels of the kind switch in `deepClone` -/\n")
	for _, k := range []string{"Pointer", "Struct", "Slice", "Map", "Interface"} {
		fmt.Fprintf(&sb, "def case%s : Bool := %s\n", k, b(have[k]))
	}
	sb.WriteString("/-- number of case labels other than the five above -/\n")
	fmt.Fprintf(&sb, "def otherCases : Nat := %d\n", other)
	sb.WriteString("/-- the switch ends in `default: return rv` -/\n")
	fmt.Fprintf(&sb, "def defaultReturnsArg : Bool := %s\n", b(defaultReturnsArg))
	fmt.Fprintf(&sb, "/-- clone-like constructors found in internal/conf: %s -/\n", strings.Join(ctors, ", "))
	fmt.Fprintf(&sb, "def cloneConstructors : Nat := %d\n", len(ctors))
	fmt.Fprintf(&sb, "/-- those the model does not know: %s -/\n", strings.Join(unknown, ", "))
	fmt.Fprintf(&sb, "def unknownCloneConstructors : Nat := %d\n", len(unknown))
	sb.WriteString("\nend MtxVerif.Gen." + *name + "\n")

	dst := filepath.Join(*out, "MtxVerif/Gen/"+*name+".lean")
	if err := os.MkdirAll(filepath.Dir(dst), 0o755); err != nil {
		fmt.Fprintln(os.Stderr, err)
		os.Exit(1)
	}
	if err := os.WriteFile(dst, []byte(sb.String()), 0o644); err != nil {
		fmt.Fprintln(os.Stderr, err)
		os.Exit(1)
	}
	fmt.Printf("C11 facts: pointer=%v struct=%v slice=%v map=%v interface=%v other=%d default-returns-arg=%v\n",
		have["Pointer"], have["Struct"], have["Slice"], have["Map"], have["Interface"], other, defaultReturnsArg)
}
