module verif/xlate/c11

go 1.23
