// Fact extractor for C04: reads the four administrative HTTP servers of the given tree
// (internal/api, internal/metrics, internal/pprof, internal/playback) with go/ast and (re)writes
// lean/MtxVerif/Gen/C04.lean.  Standard library only.
//
// Per server it emits
//
//   - the routes registered in Initialize (method, full path, handler name), each with the list of
//     middleware KINDS that gin will run before the handler.  gin semantics used: `r.Use(m)` appends to the
//     router's chain; `r.Group(p, hs...)` COPIES the parent's chain at the time of the call; a route gets the
//     chain of its router at the time of registration.  So a `Use` after a `Group`/route does not protect it.
//   - the classification of each middleware by pattern match on its body: `preflight` (one `if` on
//     OPTIONS + Access-Control-Request-Method that only sets literal headers and aborts with 204), `auth`
//     (builds auth.Request with an action constant, calls Authenticate, and every error path ends in
//     writeErrorNoLog(ctx, 401, "authentication error") = AbortWithStatusJSON + return), else `other`.
//   - for handlers: `guarded` = the handler body starts with  pathName := ctx.Query("path");
//     err := conf.IsValidPathName(pathName); if err != nil {writeError; return}; if !s.doAuth(ctx, pathName) {return}
//     (the playback shape), and the facts of doAuth.
//   - `otherRouterUses`: number of references to the router/group variables that are not one of the
//     understood forms (anything else could register routes behind our back).
//
// The routes of pprof are registered by github.com/gin-contrib/pprof.Register: its source is read from
// the module cache (version from go.mod).  A fact that cannot be established is emitted as false /
// `.other`; a server whose Initialize cannot be found is not emitted at all (Lean build fails = tie broken).
package main

import (
	"flag"
	"fmt"
	"go/ast"
	"go/parser"
	"go/token"
	"os"
	"os/exec"
	"path/filepath"
	"sort"
	"strconv"
	"strings"
)

type pkgInfo struct {
	fset  *token.FileSet
	files map[string]*ast.File
	funcs map[string][]*ast.FuncDecl // by name (methods and functions)
}

func loadPkg(dir string) (*pkgInfo, error) {
	p := &pkgInfo{fset: token.NewFileSet(), files: map[string]*ast.File{}, funcs: map[string][]*ast.FuncDecl{}}
	ents, err := os.ReadDir(dir)
	if err != nil {
		return nil, err
	}
	for _, e := range ents {
		n := e.Name()
		if e.IsDir() || !strings.HasSuffix(n, ".go") || strings.HasSuffix(n, "_test.go") {
			continue
		}
		f, err := parser.ParseFile(p.fset, filepath.Join(dir, n), nil, 0)
		if err != nil {
			return nil, err
		}
		p.files[n] = f
		for _, d := range f.Decls {
			if fd, ok := d.(*ast.FuncDecl); ok && fd.Body != nil {
				p.funcs[fd.Name.Name] = append(p.funcs[fd.Name.Name], fd)
			}
		}
	}
	return p, nil
}

func (p *pkgInfo) fn(name string) *ast.FuncDecl {
	l := p.funcs[name]
	if len(l) != 1 {
		return nil
	}
	return l[0]
}

// ---------- small syntactic helpers ----------

// selChain renders a.b.c selector chains ("" if not a pure chain of identifiers).
func selChain(e ast.Expr) string {
	switch x := e.(type) {
	case *ast.Ident:
		return x.Name
	case *ast.SelectorExpr:
		l := selChain(x.X)
		if l == "" {
			return ""
		}
		return l + "." + x.Sel.Name
	}
	return ""
}

func strLit(e ast.Expr) (string, bool) {
	b, ok := e.(*ast.BasicLit)
	if !ok || b.Kind != token.STRING {
		return "", false
	}
	s, err := strconv.Unquote(b.Value)
	return s, err == nil
}

func callOf(s ast.Stmt) *ast.CallExpr {
	es, ok := s.(*ast.ExprStmt)
	if !ok {
		return nil
	}
	c, _ := es.X.(*ast.CallExpr)
	return c
}

// callName returns the selector chain of the called function.
func callName(c *ast.CallExpr) string {
	if c == nil {
		return ""
	}
	return selChain(c.Fun)
}

func lastSel(name string) string {
	if i := strings.LastIndexByte(name, '.'); i >= 0 {
		return name[i+1:]
	}
	return name
}

func isReturn(s ast.Stmt, want string) bool {
	r, ok := s.(*ast.ReturnStmt)
	if !ok {
		return false
	}
	if want == "" {
		return len(r.Results) == 0
	}
	return len(r.Results) == 1 && selChain(r.Results[0]) == want
}

func paramNames(fd *ast.FuncDecl) []string {
	var out []string
	for _, f := range fd.Type.Params.List {
		for _, n := range f.Names {
			out = append(out, n.Name)
		}
	}
	return out
}

// ---------- classification of middleware / auth helper / handlers ----------

type authFacts struct {
	isAuth   bool   // builds an auth.Request with an action constant and calls Authenticate on it
	ok       bool   // whole pattern recognised, incl. "every error path denies with the constant 401 and aborts"
	action   string // AuthActionAPI …
	usesPath bool   // Path: <2nd parameter>
	why      string
}

// isDenyCall: X.writeErrorNoLog(ctx, http.StatusUnauthorized, fmt.Errorf("authentication error"))
func isDenyCall(p *pkgInfo, s ast.Stmt, ctx string) bool {
	c := callOf(s)
	if c == nil || lastSel(callName(c)) != "writeErrorNoLog" || len(c.Args) != 3 {
		return false
	}
	if selChain(c.Args[0]) != ctx || selChain(c.Args[1]) != "http.StatusUnauthorized" {
		return false
	}
	e, ok := c.Args[2].(*ast.CallExpr)
	if !ok || selChain(e.Fun) != "fmt.Errorf" || len(e.Args) != 1 {
		return false
	}
	if m, ok := strLit(e.Args[0]); !ok || m != "authentication error" {
		return false
	}
	return writeErrorNoLogAborts(p)
}

// writeErrorNoLog's body is exactly ctx.AbortWithStatusJSON(status, &defs.APIError{Status:…, Error: err.Error()})
func writeErrorNoLogAborts(p *pkgInfo) bool {
	fd := p.fn("writeErrorNoLog")
	if fd == nil || len(fd.Body.List) != 1 {
		return false
	}
	ps := paramNames(fd)
	if len(ps) != 3 {
		return false
	}
	c := callOf(fd.Body.List[0])
	if c == nil || callName(c) != ps[0]+".AbortWithStatusJSON" || len(c.Args) != 2 || selChain(c.Args[0]) != ps[1] {
		return false
	}
	u, ok := c.Args[1].(*ast.UnaryExpr)
	if !ok || u.Op != token.AND {
		return false
	}
	cl, ok := u.X.(*ast.CompositeLit)
	if !ok || selChain(cl.Type) != "defs.APIError" {
		return false
	}
	for _, el := range cl.Elts {
		kv, ok := el.(*ast.KeyValueExpr)
		if !ok {
			return false
		}
		switch selChain(kv.Key) {
		case "Status":
			if selChain(kv.Value) != "defs.APIErrorStatusError" {
				return false
			}
		case "Error":
			ce, ok := kv.Value.(*ast.CallExpr)
			if !ok || selChain(ce.Fun) != ps[2]+".Error" {
				return false
			}
		default:
			return false
		}
	}
	return true
}

// deniesAll: every path through the statement list ends in  DENY; return <ret>  and before that only
// harmless statements occur (ctx.Header with literal arguments, auth.LogAndDelayError, nested ifs that deny).
func deniesAll(p *pkgInfo, l []ast.Stmt, ctx, ret string) bool {
	if len(l) < 2 || !isReturn(l[len(l)-1], ret) || !isDenyCall(p, l[len(l)-2], ctx) {
		return false
	}
	for _, s := range l[:len(l)-2] {
		switch x := s.(type) {
		case *ast.IfStmt:
			if x.Init != nil || x.Else != nil || !deniesAll(p, x.Body.List, ctx, ret) {
				return false
			}
		case *ast.ExprStmt:
			c := callOf(s)
			switch callName(c) {
			case ctx + ".Header":
				for _, a := range c.Args {
					if _, ok := strLit(a); !ok {
						return false
					}
				}
			case "auth.LogAndDelayError":
			default:
				return false
			}
		default:
			return false
		}
	}
	return true
}

// classifyAuth recognises middlewareAuth (helper=false) and doAuth (helper=true).
func classifyAuth(p *pkgInfo, fd *ast.FuncDecl, helper bool) authFacts {
	var f authFacts
	ps := paramNames(fd)
	body := fd.Body.List
	wantParams, wantStmts, ret := 1, 3, ""
	if helper {
		wantParams, wantStmts, ret = 2, 4, "false"
	}
	if len(ps) != wantParams || len(body) < 2 {
		f.why = "parameter/statement count"
		return f
	}
	ctx := ps[0]
	// req := &auth.Request{…}
	as, ok := body[0].(*ast.AssignStmt)
	if !ok || len(as.Lhs) != 1 || len(as.Rhs) != 1 {
		f.why = "stmt 0 not an assignment"
		return f
	}
	reqVar := selChain(as.Lhs[0])
	u, ok := as.Rhs[0].(*ast.UnaryExpr)
	if !ok || u.Op != token.AND {
		f.why = "stmt 0 not &auth.Request{}"
		return f
	}
	cl, ok := u.X.(*ast.CompositeLit)
	if !ok || selChain(cl.Type) != "auth.Request" {
		f.why = "stmt 0 not &auth.Request{}"
		return f
	}
	seen := map[string]bool{}
	bad := "" // a field of the request is not built the expected way: still an auth function, but not `ok`
	for _, el := range cl.Elts {
		kv, ok := el.(*ast.KeyValueExpr)
		if !ok {
			f.why = "positional auth.Request literal"
			return f
		}
		k := selChain(kv.Key)
		seen[k] = true
		switch k {
		case "Action":
			v := selChain(kv.Value)
			if !strings.HasPrefix(v, "conf.AuthAction") {
				f.why = "Action is not a conf.AuthAction constant"
				return f
			}
			f.action = strings.TrimPrefix(v, "conf.")
		case "Path":
			if !helper || selChain(kv.Value) != ps[1] {
				bad = "Path is not the helper's path parameter"
				continue
			}
			f.usesPath = true
		case "Credentials":
			c, ok := kv.Value.(*ast.CallExpr)
			if !ok || selChain(c.Fun) != "httpp.Credentials" || len(c.Args) != 1 || selChain(c.Args[0]) != ctx+".Request" {
				bad = "Credentials not httpp.Credentials(ctx.Request)"
				continue
			}
		case "IP":
			c, ok := kv.Value.(*ast.CallExpr)
			if !ok || selChain(c.Fun) != "net.ParseIP" || len(c.Args) != 1 {
				bad = "IP not net.ParseIP(ctx.ClientIP())"
				continue
			}
			ci, ok := c.Args[0].(*ast.CallExpr)
			if !ok || selChain(ci.Fun) != ctx+".ClientIP" {
				bad = "IP not net.ParseIP(ctx.ClientIP())"
				continue
			}
		case "Query":
			if selChain(kv.Value) != ctx+".Request.URL.RawQuery" {
				bad = "Query not ctx.Request.URL.RawQuery"
				continue
			}
		case "EnableAskCredentials":
		default:
			bad = "unexpected auth.Request field " + k
			continue
		}
	}
	if !seen["Action"] {
		f.why = "Action missing"
		return f
	}
	if bad == "" && (!seen["Credentials"] || !seen["IP"]) {
		bad = "Credentials/IP missing"
	}
	// _, err := X.AuthManager.Authenticate(req)
	as, ok = body[1].(*ast.AssignStmt)
	if !ok || len(as.Lhs) != 2 || len(as.Rhs) != 1 {
		f.why = "stmt 1 not `_, err := …Authenticate(req)`"
		return f
	}
	errVar := selChain(as.Lhs[1])
	c, ok := as.Rhs[0].(*ast.CallExpr)
	if !ok || !strings.HasSuffix(callName(c), ".AuthManager.Authenticate") || len(c.Args) != 1 || selChain(c.Args[0]) != reqVar {
		f.why = "stmt 1 not `_, err := …Authenticate(req)`"
		return f
	}
	f.isAuth = true
	if bad != "" {
		f.why = bad
		return f
	}
	if len(body) != wantStmts {
		f.why = "statement count"
		return f
	}
	// if err != nil { … deny on every path … }
	is, ok := body[2].(*ast.IfStmt)
	if !ok || is.Init != nil || is.Else != nil {
		f.why = "stmt 2 not `if err != nil {…}`"
		return f
	}
	be, ok := is.Cond.(*ast.BinaryExpr)
	if !ok || be.Op != token.NEQ || selChain(be.X) != errVar || selChain(be.Y) != "nil" {
		f.why = "stmt 2 not `if err != nil {…}`"
		return f
	}
	if !deniesAll(p, is.Body.List, ctx, ret) {
		f.why = "an error path does not end in writeErrorNoLog(ctx, 401, \"authentication error\"); return"
		return f
	}
	if helper && !isReturn(body[3], "true") {
		f.why = "helper does not end in `return true`"
		return f
	}
	f.ok = true
	return f
}

func classifyPreflight(fd *ast.FuncDecl) bool {
	ps := paramNames(fd)
	if len(ps) != 1 || len(fd.Body.List) != 1 {
		return false
	}
	ctx := ps[0]
	is, ok := fd.Body.List[0].(*ast.IfStmt)
	if !ok || is.Init != nil || is.Else != nil {
		return false
	}
	and, ok := is.Cond.(*ast.BinaryExpr)
	if !ok || and.Op != token.LAND {
		return false
	}
	l, ok := and.X.(*ast.BinaryExpr)
	if !ok || l.Op != token.EQL || selChain(l.X) != ctx+".Request.Method" || selChain(l.Y) != "http.MethodOptions" {
		return false
	}
	r, ok := and.Y.(*ast.BinaryExpr)
	if !ok || r.Op != token.NEQ {
		return false
	}
	if s, ok := strLit(r.Y); !ok || s != "" {
		return false
	}
	g, ok := r.X.(*ast.CallExpr)
	if !ok || selChain(g.Fun) != ctx+".Request.Header.Get" || len(g.Args) != 1 {
		return false
	}
	if s, ok := strLit(g.Args[0]); !ok || s != "Access-Control-Request-Method" {
		return false
	}
	b := is.Body.List
	if len(b) < 2 || !isReturn(b[len(b)-1], "") {
		return false
	}
	ab := callOf(b[len(b)-2])
	if callName(ab) != ctx+".AbortWithStatus" || len(ab.Args) != 1 || selChain(ab.Args[0]) != "http.StatusNoContent" {
		return false
	}
	for _, s := range b[:len(b)-2] {
		c := callOf(s)
		if callName(c) != ctx+".Header" {
			return false
		}
		for _, a := range c.Args {
			if _, ok := strLit(a); !ok {
				return false
			}
		}
	}
	return true
}

// classifyGuarded: handler starts with the playback guard; returns the name of the auth helper it calls.
func classifyGuarded(fd *ast.FuncDecl) (string, bool) {
	ps := paramNames(fd)
	b := fd.Body.List
	if len(ps) != 1 || len(b) < 4 {
		return "", false
	}
	ctx := ps[0]
	// pathName := ctx.Query("path")
	as, ok := b[0].(*ast.AssignStmt)
	if !ok || len(as.Lhs) != 1 || len(as.Rhs) != 1 {
		return "", false
	}
	pn := selChain(as.Lhs[0])
	c, ok := as.Rhs[0].(*ast.CallExpr)
	if !ok || selChain(c.Fun) != ctx+".Query" || len(c.Args) != 1 {
		return "", false
	}
	if s, ok := strLit(c.Args[0]); !ok || s != "path" {
		return "", false
	}
	// err := conf.IsValidPathName(pathName)
	as, ok = b[1].(*ast.AssignStmt)
	if !ok || len(as.Lhs) != 1 || len(as.Rhs) != 1 {
		return "", false
	}
	ev := selChain(as.Lhs[0])
	c, ok = as.Rhs[0].(*ast.CallExpr)
	if !ok || selChain(c.Fun) != "conf.IsValidPathName" || len(c.Args) != 1 || selChain(c.Args[0]) != pn {
		return "", false
	}
	// if err != nil { X.writeError(ctx, http.StatusBadRequest, …); return }
	is, ok := b[2].(*ast.IfStmt)
	if !ok || is.Init != nil || is.Else != nil || len(is.Body.List) != 2 || !isReturn(is.Body.List[1], "") {
		return "", false
	}
	be, ok := is.Cond.(*ast.BinaryExpr)
	if !ok || be.Op != token.NEQ || selChain(be.X) != ev || selChain(be.Y) != "nil" {
		return "", false
	}
	we := callOf(is.Body.List[0])
	if lastSel(callName(we)) != "writeError" || len(we.Args) != 3 || selChain(we.Args[0]) != ctx || selChain(we.Args[1]) != "http.StatusBadRequest" {
		return "", false
	}
	// if !X.doAuth(ctx, pathName) { return }
	is, ok = b[3].(*ast.IfStmt)
	if !ok || is.Init != nil || is.Else != nil || len(is.Body.List) != 1 || !isReturn(is.Body.List[0], "") {
		return "", false
	}
	un, ok := is.Cond.(*ast.UnaryExpr)
	if !ok || un.Op != token.NOT {
		return "", false
	}
	dc, ok := un.X.(*ast.CallExpr)
	if !ok || len(dc.Args) != 2 || selChain(dc.Args[0]) != ctx || selChain(dc.Args[1]) != pn {
		return "", false
	}
	return lastSel(selChain(dc.Fun)), true
}

// ---------- walking Initialize ----------

type route struct {
	method, path, handler string
	mws                   []string // names of the middleware functions in chain order
}

type router struct {
	prefix string
	mws    []string
}

type walker struct {
	p         *pkgInfo
	routers   map[string]*router
	routes    []route
	accounted map[token.Pos]bool
	problems  []string
	used      []string // every middleware name passed to Use / Group, also when no route ends up behind it
	pprofPkg  string   // local name of the gin-contrib/pprof import
	extRoutes func() ([]route, error)
}

var httpMethods = map[string]bool{"GET": true, "POST": true, "PUT": true, "PATCH": true, "DELETE": true, "OPTIONS": true, "HEAD": true}

func (w *walker) handlerNames(args []ast.Expr) ([]string, bool) {
	var out []string
	for _, a := range args {
		s, ok := a.(*ast.SelectorExpr)
		if !ok {
			return nil, false
		}
		if _, ok := s.X.(*ast.Ident); !ok {
			return nil, false
		}
		out = append(out, s.Sel.Name)
	}
	return out, true
}

func (w *walker) recvRouter(c *ast.CallExpr) (*ast.Ident, *router, string) {
	s, ok := c.Fun.(*ast.SelectorExpr)
	if !ok {
		return nil, nil, ""
	}
	id, ok := s.X.(*ast.Ident)
	if !ok {
		return nil, nil, ""
	}
	r := w.routers[id.Name]
	if r == nil {
		return nil, nil, ""
	}
	return id, r, s.Sel.Name
}

func (w *walker) call(c *ast.CallExpr, lhs ast.Expr) {
	// x := gin.New()
	if selChain(c.Fun) == "gin.New" && lhs != nil {
		if id, ok := lhs.(*ast.Ident); ok {
			w.routers[id.Name] = &router{}
			w.accounted[id.Pos()] = true
		}
		return
	}
	// pprof.Register(router)
	if w.pprofPkg != "" && selChain(c.Fun) == w.pprofPkg+".Register" && len(c.Args) == 1 {
		if id, ok := c.Args[0].(*ast.Ident); ok && w.routers[id.Name] != nil {
			w.accounted[id.Pos()] = true
			ext, err := w.extRoutes()
			if err != nil {
				w.problems = append(w.problems, "pprof.Register: "+err.Error())
				return
			}
			r := w.routers[id.Name]
			for _, e := range ext {
				e.path = r.prefix + e.path
				e.mws = append(append([]string{}, r.mws...), e.mws...)
				w.routes = append(w.routes, e)
			}
		}
		return
	}
	id, r, sel := w.recvRouter(c)
	if r == nil {
		return
	}
	switch {
	case sel == "SetTrustedProxies":
		w.accounted[id.Pos()] = true
	case sel == "Use":
		hs, ok := w.handlerNames(c.Args)
		if !ok {
			w.problems = append(w.problems, "Use with a non-method argument")
			return
		}
		r.mws = append(r.mws, hs...)
		w.used = append(w.used, hs...)
		w.accounted[id.Pos()] = true
	case sel == "Group":
		g, ok := lhs.(*ast.Ident)
		if !ok || len(c.Args) < 1 {
			return
		}
		pfx, ok := strLit(c.Args[0])
		if !ok {
			return
		}
		hs, ok := w.handlerNames(c.Args[1:])
		if !ok {
			return
		}
		w.used = append(w.used, hs...)
		w.routers[g.Name] = &router{prefix: r.prefix + pfx, mws: append(append([]string{}, r.mws...), hs...)}
		w.accounted[id.Pos()] = true
		w.accounted[g.Pos()] = true
	case httpMethods[sel]:
		if len(c.Args) < 2 {
			return
		}
		pth, ok := strLit(c.Args[0])
		if !ok {
			return
		}
		hs, ok := w.handlerNames(c.Args[1:])
		if !ok {
			return
		}
		w.routes = append(w.routes, route{method: sel, path: r.prefix + pth, handler: hs[len(hs)-1],
			mws: append(append([]string{}, r.mws...), hs[:len(hs)-1]...)})
		w.accounted[id.Pos()] = true
	}
}

func (w *walker) stmts(l []ast.Stmt) {
	for _, s := range l {
		switch x := s.(type) {
		case *ast.ExprStmt:
			if c, ok := x.X.(*ast.CallExpr); ok {
				w.call(c, nil)
			}
		case *ast.AssignStmt:
			if len(x.Rhs) == 1 {
				if c, ok := x.Rhs[0].(*ast.CallExpr); ok {
					var lhs ast.Expr
					if len(x.Lhs) == 1 {
						lhs = x.Lhs[0]
					}
					w.call(c, lhs)
				}
				// X.httpServer = &httpp.Server{…, Handler: router, …}
				if u, ok := x.Rhs[0].(*ast.UnaryExpr); ok {
					if cl, ok := u.X.(*ast.CompositeLit); ok && selChain(cl.Type) == "httpp.Server" {
						for _, el := range cl.Elts {
							if kv, ok := el.(*ast.KeyValueExpr); ok && selChain(kv.Key) == "Handler" {
								if id, ok := kv.Value.(*ast.Ident); ok && w.routers[id.Name] != nil {
									w.accounted[id.Pos()] = true
								}
							}
						}
					}
				}
			}
		case *ast.IfStmt:
			// both branches are walked: routes registered conditionally are recorded as routes
			w.stmts(x.Body.List)
			if b, ok := x.Else.(*ast.BlockStmt); ok {
				w.stmts(b.List)
			}
		case *ast.BlockStmt:
			w.stmts(x.List)
		}
	}
}

func gomodcache() string {
	if v := os.Getenv("GOMODCACHE"); v != "" {
		return v
	}
	out, err := exec.Command("go", "env", "GOMODCACHE").Output()
	if err == nil && strings.TrimSpace(string(out)) != "" {
		return strings.TrimSpace(string(out))
	}
	h, _ := os.UserHomeDir()
	return filepath.Join(h, "go", "pkg", "mod")
}

// ginContribPprofRoutes parses RouteRegister of the pinned gin-contrib/pprof.
func ginContribPprofRoutes(repo string) ([]route, error) {
	gm, err := os.ReadFile(filepath.Join(repo, "go.mod"))
	if err != nil {
		return nil, err
	}
	ver := ""
	for _, l := range strings.Split(string(gm), "\n") {
		f := strings.Fields(l)
		for i, w := range f {
			if w == "github.com/gin-contrib/pprof" && i+1 < len(f) {
				ver = f[i+1]
			}
		}
	}
	if ver == "" {
		return nil, fmt.Errorf("gin-contrib/pprof not in go.mod")
	}
	dir := filepath.Join(gomodcache(), "github.com", "gin-contrib", "pprof@"+ver)
	p, err := loadPkg(dir)
	if err != nil {
		return nil, err
	}
	reg, rr := p.fn("Register"), p.fn("RouteRegister")
	if reg == nil || rr == nil {
		return nil, fmt.Errorf("Register/RouteRegister not found in %s", dir)
	}
	// Register(r, opts...) { RouteRegister(r, opts...) }
	if len(reg.Body.List) != 1 || callName(callOf(reg.Body.List[0])) != "RouteRegister" {
		return nil, fmt.Errorf("Register is not a plain call of RouteRegister")
	}
	// DefaultPrefix constant
	prefix := ""
	for _, f := range p.files {
		for _, d := range f.Decls {
			gd, ok := d.(*ast.GenDecl)
			if !ok || gd.Tok != token.CONST {
				continue
			}
			for _, sp := range gd.Specs {
				vs := sp.(*ast.ValueSpec)
				for i, n := range vs.Names {
					if n.Name == "DefaultPrefix" && i < len(vs.Values) {
						prefix, _ = strLit(vs.Values[i])
					}
				}
			}
		}
	}
	if prefix == "" {
		return nil, fmt.Errorf("DefaultPrefix not found")
	}
	// RouteRegister: prefix := getPrefix(opts...); prefixRouter := rg.Group(prefix); { prefixRouter.M(path, h) … }
	var out []route
	grp := ""
	var walk func(l []ast.Stmt) error
	walk = func(l []ast.Stmt) error {
		for _, s := range l {
			switch x := s.(type) {
			case *ast.AssignStmt:
				if len(x.Lhs) == 1 && len(x.Rhs) == 1 {
					if c, ok := x.Rhs[0].(*ast.CallExpr); ok {
						switch {
						case callName(c) == "getPrefix":
						case lastSel(callName(c)) == "Group" && len(c.Args) == 1 && selChain(c.Args[0]) == "prefix":
							grp = selChain(x.Lhs[0])
						default:
							return fmt.Errorf("unexpected assignment in RouteRegister")
						}
					}
				}
			case *ast.BlockStmt:
				if err := walk(x.List); err != nil {
					return err
				}
			case *ast.ExprStmt:
				c := callOf(s)
				n := callName(c)
				if grp == "" || !strings.HasPrefix(n, grp+".") || !httpMethods[lastSel(n)] || len(c.Args) != 2 {
					return fmt.Errorf("unexpected statement in RouteRegister: %s", n)
				}
				pth, ok := strLit(c.Args[0])
				if !ok {
					return fmt.Errorf("non-literal path in RouteRegister")
				}
				out = append(out, route{method: lastSel(n), path: prefix + pth, handler: "pprof"})
			default:
				return fmt.Errorf("unexpected statement kind in RouteRegister")
			}
		}
		return nil
	}
	if err := walk(rr.Body.List); err != nil {
		return nil, err
	}
	if len(out) == 0 {
		return nil, fmt.Errorf("no routes found in RouteRegister")
	}
	return out, nil
}

// ---------- output ----------

func leanStr(s string) string { return strconv.Quote(s) }

var actionLean = map[string]string{
	"AuthActionPublish": ".publish", "AuthActionRead": ".read", "AuthActionPlayback": ".playback",
	"AuthActionAPI": ".api", "AuthActionMetrics": ".metrics", "AuthActionPprof": ".pprof",
}

func main() {
	repo := flag.String("repo", "/repo", "repository root")
	out := flag.String("out", "", "lean source root")
	flag.Parse()

	servers := []struct{ srv, dir, file string }{
		{"api", "internal/api", "api.go"},
		{"metrics", "internal/metrics", "metrics.go"},
		{"pprof", "internal/pprof", "pprof.go"},
		{"playback", "internal/playback", "server.go"},
	}

	var sb strings.Builder
	sb.WriteString("/- GENERATED by tools/xlate/c04 from internal/{api,metrics,pprof,playback} — do not edit. -/\n")
	sb.WriteString("import MtxVerif.Model.C04\n\nnamespace MtxVerif.Gen.C04\nopen MtxVerif.C04\n\n")
	var names []string
	total := 0

	for _, sv := range servers {
		p, err := loadPkg(filepath.Join(*repo, sv.dir))
		if err != nil {
			fmt.Fprintln(os.Stderr, "missing:", sv.srv, err)
			sb.WriteString("-- MISSING " + sv.srv + ": " + err.Error() + "\n")
			continue
		}
		file := p.files[sv.file]
		var init *ast.FuncDecl
		if file != nil {
			for _, d := range file.Decls {
				if fd, ok := d.(*ast.FuncDecl); ok && fd.Name.Name == "Initialize" && fd.Recv != nil && fd.Body != nil {
					init = fd
				}
			}
		}
		if init == nil {
			fmt.Fprintln(os.Stderr, "missing:", sv.srv, "Initialize not found")
			sb.WriteString("-- MISSING " + sv.srv + ": Initialize not found in " + sv.file + "\n")
			continue
		}
		w := &walker{p: p, routers: map[string]*router{}, accounted: map[token.Pos]bool{}}
		for _, im := range file.Imports {
			if pth, _ := strconv.Unquote(im.Path.Value); pth == "github.com/gin-contrib/pprof" {
				w.pprofPkg = "pprof"
				if im.Name != nil {
					w.pprofPkg = im.Name.Name
				}
			}
		}
		w.extRoutes = func() ([]route, error) { return ginContribPprofRoutes(*repo) }
		w.stmts(init.Body.List)

		// every reference to a router/group variable must be one of the understood forms
		other := 0
		ast.Inspect(init.Body, func(n ast.Node) bool {
			if id, ok := n.(*ast.Ident); ok && w.routers[id.Name] != nil && !w.accounted[id.Pos()] {
				other++
				w.problems = append(w.problems, fmt.Sprintf("unaccounted use of %s at %s", id.Name, p.fset.Position(id.Pos())))
			}
			return true
		})

		// classify every middleware name that occurs
		kinds := map[string]string{}
		var mwAuth *authFacts
		preflightOK := true
		mwNames := append([]string{}, w.used...)
		for _, r := range w.routes {
			mwNames = append(mwNames, r.mws...)
		}
		{
			for _, m := range mwNames {
				if _, done := kinds[m]; done {
					continue
				}
				fd := p.fn(m)
				switch {
				case fd == nil:
					kinds[m] = ".other"
				case classifyPreflight(fd):
					kinds[m] = ".preflight"
				default:
					af := classifyAuth(p, fd, false)
					if af.isAuth && (mwAuth == nil || mwAuth.action == af.action) {
						kinds[m] = ".auth"
						if mwAuth != nil && !mwAuth.ok {
							af.ok = false
						}
						mwAuth = &af
						if !af.ok {
							w.problems = append(w.problems, "middleware "+m+": "+af.why)
						}
					} else {
						kinds[m] = ".other"
						w.problems = append(w.problems, "middleware "+m+" not recognised: "+af.why)
					}
				}
			}
		}
		// handlers: guarded?
		helperFacts := map[string]authFacts{}
		guarded := map[string]bool{}
		var hAuth *authFacts
		for _, r := range w.routes {
			fd := p.fn(r.handler)
			if fd == nil {
				continue
			}
			if h, ok := classifyGuarded(fd); ok {
				af, done := helperFacts[h]
				if !done {
					if hf := p.fn(h); hf != nil {
						af = classifyAuth(p, hf, true)
					}
					helperFacts[h] = af
					if !af.ok {
						w.problems = append(w.problems, "auth helper "+h+" not recognised: "+af.why)
					}
				}
				if af.isAuth && (hAuth == nil || hAuth.action == af.action) {
					guarded[r.handler] = true
					a := af
					if hAuth != nil && !hAuth.ok {
						a.ok = false
					}
					hAuth = &a
				}
			}
		}
		_ = preflightOK

		action, usesPath, denyOK := "", false, false
		switch {
		case mwAuth != nil && hAuth == nil:
			action, usesPath, denyOK = mwAuth.action, mwAuth.usesPath, mwAuth.ok
		case mwAuth == nil && hAuth != nil:
			action, usesPath, denyOK = hAuth.action, hAuth.usesPath, hAuth.ok
		case mwAuth != nil && hAuth != nil && mwAuth.action == hAuth.action:
			action, usesPath, denyOK = mwAuth.action, hAuth.usesPath, mwAuth.ok && hAuth.ok
		}
		al, ok := actionLean[action]
		if !ok {
			fmt.Fprintln(os.Stderr, "missing:", sv.srv, "no recognised auth function / action constant", w.problems)
			sb.WriteString("-- MISSING " + sv.srv + ": no recognised auth function (" + strings.Join(w.problems, "; ") + ")\n")
			continue
		}

		sort.SliceStable(w.routes, func(i, j int) bool {
			if w.routes[i].path != w.routes[j].path {
				return w.routes[i].path < w.routes[j].path
			}
			return w.routes[i].method < w.routes[j].method
		})
		for _, pr := range w.problems {
			sb.WriteString("-- NOTE " + sv.srv + ": " + pr + "\n")
			fmt.Fprintln(os.Stderr, "note:", sv.srv, pr)
		}
		fmt.Fprintf(&sb, "def %sRoutes : List RouteF := [\n", sv.srv)
		for i, r := range w.routes {
			var ks []string
			for _, m := range r.mws {
				ks = append(ks, kinds[m])
			}
			sep := ","
			if i == len(w.routes)-1 {
				sep = ""
			}
			fmt.Fprintf(&sb, "  { method := %s, path := %s, handler := %s, mws := [%s], guarded := %v }%s\n",
				leanStr(r.method), leanStr(r.path), leanStr(r.handler), strings.Join(ks, ", "), guarded[r.handler], sep)
		}
		sb.WriteString("]\n\n")
		fmt.Fprintf(&sb, "def %s : ServerF :=\n  { srv := .%s, authAction := %s, authUsesPath := %v, authDenyOK := %v,\n    otherRouterUses := %d, routes := %sRoutes }\n\n",
			sv.srv, sv.srv, al, usesPath, denyOK, other, sv.srv)
		names = append(names, sv.srv)
		total += len(w.routes)
	}

	// `servers` is always emitted (the driver must keep building when the source changes shape);
	// a server that could not be recognised is absent and `gen_servers_complete` fails
	sb.WriteString("def servers : List ServerF := [" + strings.Join(names, ", ") + "]\n")
	if len(names) != len(servers) {
		sb.WriteString("-- MISSING servers: only " + strings.Join(names, ", ") + " recognised\n")
	}
	sb.WriteString("\nend MtxVerif.Gen.C04\n")

	dst := filepath.Join(*out, "MtxVerif/Gen/C04.lean")
	if err := os.MkdirAll(filepath.Dir(dst), 0o755); err != nil {
		fmt.Fprintln(os.Stderr, err)
		os.Exit(1)
	}
	if err := os.WriteFile(dst, []byte(sb.String()), 0o644); err != nil {
		fmt.Fprintln(os.Stderr, err)
		os.Exit(1)
	}
	fmt.Printf("c04: %d servers, %d routes -> %s\n", len(names), total, dst)
}
