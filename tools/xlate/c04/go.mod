module verif/xlate/c04

go 1.23
