module verif/xlate/c20

go 1.23
