// Fact extractor for C32: reads internal/protocols/moq/** (non-test files) and
// internal/servers/moq/session.go of the given tree and (re)writes lean/MtxVerif/Gen/C32.lean.
// Standard library only.
//
// Facts:
//
//	makeSites : List MakeSite     every `make(` call with the classification of its size argument:
//	    const      — literal / no size                     (maps, empty slices)
//	    fromLen    — only len(..) / MarshalSize() of values already in memory (encoder side)
//	    switchLit n— a local int only ever assigned integer literals (max n)
//	    u16        — a uint16 assembled from two input bytes (≤ 65535)
//	    checked n  — a decoded varint, dominated by `if x > LIMIT { return … }`, LIMIT = n
//	    unguarded  — a decoded value with no dominating bound check        (must not exist)
//	maxFieldCount, maxPropsLen, maxPayloadSize, type… : Nat     the constants, evaluated
//	reasonSites / reasonUnbounded    is the Reason of a server-built REQUEST_ERROR an unbounded
//	                                 err.Error() (true) or passed through a truncating helper?
//
// A constant that cannot be found is NOT emitted: the Lean build then fails (tie broken).
package main

import (
	"flag"
	"fmt"
	"go/ast"
	"go/parser"
	"go/printer"
	"go/token"
	"os"
	"path/filepath"
	"sort"
	"strconv"
	"strings"
)

type site struct {
	file, fn, expr, guard string
}

func exprStr(fset *token.FileSet, e ast.Node) string {
	var sb strings.Builder
	printer.Fprint(&sb, fset, e)
	return strings.Join(strings.Fields(sb.String()), " ")
}

// evalConst evaluates integer literal arithmetic (+ - * << |) over literals and known constants.
func evalConst(e ast.Expr, consts map[string]uint64) (uint64, bool) {
	switch x := e.(type) {
	case *ast.BasicLit:
		if x.Kind == token.INT {
			v, err := strconv.ParseUint(x.Value, 0, 64)
			return v, err == nil
		}
	case *ast.Ident:
		v, ok := consts[x.Name]
		return v, ok
	case *ast.ParenExpr:
		return evalConst(x.X, consts)
	case *ast.BinaryExpr:
		a, ok1 := evalConst(x.X, consts)
		b, ok2 := evalConst(x.Y, consts)
		if !ok1 || !ok2 {
			return 0, false
		}
		switch x.Op {
		case token.ADD:
			return a + b, true
		case token.SUB:
			return a - b, true
		case token.MUL:
			return a * b, true
		case token.SHL:
			return a << b, true
		case token.OR:
			return a | b, true
		}
	}
	return 0, false
}

// pkgConsts collects `const name [type] = expr` of a file set.
func pkgConsts(files []*ast.File) map[string]uint64 {
	consts := map[string]uint64{}
	for pass := 0; pass < 3; pass++ {
		for _, f := range files {
			for _, d := range f.Decls {
				g, ok := d.(*ast.GenDecl)
				if !ok || g.Tok != token.CONST {
					continue
				}
				for _, s := range g.Specs {
					vs := s.(*ast.ValueSpec)
					for i, n := range vs.Names {
						if i < len(vs.Values) {
							if v, ok := evalConst(vs.Values[i], consts); ok {
								consts[n.Name] = v
							}
						}
					}
				}
			}
		}
	}
	return consts
}

// classify the size expression of a make call inside fn.
func classify(fset *token.FileSet, fn *ast.FuncDecl, call *ast.CallExpr, consts map[string]uint64) string {
	if len(call.Args) < 2 {
		return "const"
	}
	worst := "const"
	rank := map[string]int{"const": 0, "fromLen": 1}
	up := func(g string) {
		r, ok := rank[g]
		if !ok {
			r = 2
		}
		w, ok := rank[worst]
		if !ok {
			w = 2
		}
		if g == "unguarded" || (r > w && worst != "unguarded") {
			worst = g
		}
	}
	for _, a := range call.Args[1:] {
		var idents []*ast.Ident
		ast.Inspect(a, func(n ast.Node) bool {
			switch x := n.(type) {
			case *ast.CallExpr:
				// len(x), x.MarshalSize(), x.marshalSize(..): size of data already in memory
				if id, ok := x.Fun.(*ast.Ident); ok && id.Name == "len" {
					up("fromLen")
					return false
				}
				if s, ok := x.Fun.(*ast.SelectorExpr); ok &&
					(s.Sel.Name == "MarshalSize" || s.Sel.Name == "marshalSize") {
					up("fromLen")
					return false
				}
			case *ast.Ident:
				idents = append(idents, x)
			}
			return true
		})
		for _, id := range idents {
			if _, ok := consts[id.Name]; ok {
				continue
			}
			up(classifyIdent(fn, id, call.Pos(), consts))
		}
	}
	return worst
}

func classifyIdent(fn *ast.FuncDecl, id *ast.Ident, makePos token.Pos, consts map[string]uint64) string {
	name := id.Name
	isVarint, isU16 := false, false
	onlyLits, maxLit, assigned := true, uint64(0), false
	guard := ""
	ast.Inspect(fn.Body, func(n ast.Node) bool {
		switch x := n.(type) {
		case *ast.DeclStmt:
			g := x.Decl.(*ast.GenDecl)
			for _, s := range g.Specs {
				vs, ok := s.(*ast.ValueSpec)
				if !ok {
					continue
				}
				for _, n := range vs.Names {
					if n.Name != name {
						continue
					}
					if se, ok := vs.Type.(*ast.SelectorExpr); ok && se.Sel.Name == "Varint" {
						isVarint = true
					}
					if vs.Type != nil && len(vs.Values) == 0 {
						if t, ok := vs.Type.(*ast.Ident); !ok || t.Name != "int" {
							onlyLits = false
						}
					}
				}
			}
		case *ast.AssignStmt:
			for i, l := range x.Lhs {
				li, ok := l.(*ast.Ident)
				if !ok || li.Name != name || i >= len(x.Rhs) {
					continue
				}
				assigned = true
				if v, ok := evalConst(x.Rhs[i], consts); ok {
					if v > maxLit {
						maxLit = v
					}
				} else {
					onlyLits = false
					// uint16(a)<<8 | uint16(b)
					u16 := true
					ast.Inspect(x.Rhs[i], func(m ast.Node) bool {
						if c, ok := m.(*ast.CallExpr); ok {
							if f, ok := c.Fun.(*ast.Ident); !ok || f.Name != "uint16" {
								u16 = false
							}
							return false
						}
						if _, ok := m.(*ast.IndexExpr); ok {
							u16 = false
						}
						return true
					})
					if u16 {
						isU16 = true
					}
				}
			}
		case *ast.IfStmt:
			if x.Pos() >= makePos {
				return true
			}
			be, ok := x.Cond.(*ast.BinaryExpr)
			if !ok || be.Op != token.GTR {
				return true
			}
			li, ok := be.X.(*ast.Ident)
			if !ok || li.Name != name {
				return true
			}
			returns := false
			for _, s := range x.Body.List {
				if _, ok := s.(*ast.ReturnStmt); ok {
					returns = true
				}
			}
			if v, ok := evalConst(be.Y, consts); ok && returns {
				guard = fmt.Sprintf("checked %d", v)
			}
		}
		return true
	})
	switch {
	case isVarint && guard != "":
		return guard
	case isVarint:
		return "unguarded"
	case isU16:
		return "u16"
	case assigned && onlyLits:
		return fmt.Sprintf("switchLit %d", maxLit)
	}
	return "unguarded"
}

func main() {
	repo := flag.String("repo", "/repo", "repository root")
	out := flag.String("out", "", "lean source root")
	flag.Parse()

	root := filepath.Join(*repo, "internal/protocols/moq")
	fset := token.NewFileSet()
	byDir := map[string][]*ast.File{}
	names := map[*ast.File]string{}
	err := filepath.Walk(root, func(p string, info os.FileInfo, err error) error {
		if err != nil {
			return err
		}
		if info.IsDir() || !strings.HasSuffix(p, ".go") || strings.HasSuffix(p, "_test.go") {
			return nil
		}
		f, err := parser.ParseFile(fset, p, nil, 0)
		if err != nil {
			return err
		}
		d := filepath.Dir(p)
		byDir[d] = append(byDir[d], f)
		rel, _ := filepath.Rel(*repo, p)
		names[f] = rel
		return nil
	})
	if err != nil {
		fmt.Fprintln(os.Stderr, "walk:", err)
		os.Exit(1)
	}

	var sites []site
	allConsts := map[string]uint64{}
	dirs := []string{}
	for d := range byDir {
		dirs = append(dirs, d)
	}
	sort.Strings(dirs)
	for _, d := range dirs {
		files := byDir[d]
		consts := pkgConsts(files)
		pkg := filepath.Base(d)
		for k, v := range consts {
			allConsts[pkg+"."+k] = v
		}
		sort.Slice(files, func(i, j int) bool { return names[files[i]] < names[files[j]] })
		for _, f := range files {
			for _, decl := range f.Decls {
				fn, ok := decl.(*ast.FuncDecl)
				if !ok || fn.Body == nil {
					continue
				}
				fname := fn.Name.Name
				if fn.Recv != nil && len(fn.Recv.List) == 1 {
					fname = exprStr(fset, fn.Recv.List[0].Type) + "." + fname
				}
				ast.Inspect(fn.Body, func(n ast.Node) bool {
					c, ok := n.(*ast.CallExpr)
					if !ok {
						return true
					}
					if id, ok := c.Fun.(*ast.Ident); !ok || id.Name != "make" {
						return true
					}
					sites = append(sites, site{names[f], fname, exprStr(fset, c), classify(fset, fn, c, consts)})
					return true
				})
			}
		}
	}

	// REQUEST_ERROR reasons built by the server
	type reason struct {
		expr    string
		bounded bool
	}
	var reasons []reason
	sess := filepath.Join(*repo, "internal/servers/moq/session.go")
	if sf, err := parser.ParseFile(fset, sess, nil, 0); err == nil {
		ast.Inspect(sf, func(n ast.Node) bool {
			cl, ok := n.(*ast.CompositeLit)
			if !ok {
				return true
			}
			se, ok := cl.Type.(*ast.SelectorExpr)
			if !ok || se.Sel.Name != "RequestError" {
				return true
			}
			for _, el := range cl.Elts {
				kv, ok := el.(*ast.KeyValueExpr)
				if !ok {
					continue
				}
				if k, ok := kv.Key.(*ast.Ident); !ok || k.Name != "Reason" {
					continue
				}
				bounded := false
				switch v := kv.Value.(type) {
				case *ast.BasicLit:
					bounded = true
				case *ast.CallExpr:
					// a helper whose name says it bounds the string: truncate…/limit…/clamp…
					if id, ok := v.Fun.(*ast.Ident); ok {
						l := strings.ToLower(id.Name)
						bounded = strings.HasPrefix(l, "truncate") || strings.HasPrefix(l, "limit") ||
							strings.HasPrefix(l, "clamp")
					}
				case *ast.SliceExpr:
					bounded = v.High != nil
				}
				reasons = append(reasons, reason{exprStr(fset, kv.Value), bounded})
			}
			return true
		})
	}

	var sb strings.Builder
	sb.WriteString("/- GENERATED by tools/xlate/c32 from internal/protocols/moq/** and internal/servers/moq/session.go — do not edit. -/\n")
	sb.WriteString("namespace MtxVerif.Gen.C32\n\n")
	sb.WriteString("inductive Guard\n  | const | fromLen | switchLit (max : Nat) | u16 | checked (limit : Nat) | unguarded\n  deriving DecidableEq, Repr\n\n")
	sb.WriteString("structure MakeSite where\n  file : String\n  func : String\n  expr : String\n  guard : Guard\n\n")
	sb.WriteString("/-- every `make(` in internal/protocols/moq (non-test), with the bound on its size -/\n")
	sb.WriteString("def makeSites : List MakeSite := [\n")
	for i, s := range sites {
		g := "." + s.guard
		if strings.Contains(s.guard, " ") {
			g = "(." + s.guard + ")"
		}
		sep := ","
		if i == len(sites)-1 {
			sep = ""
		}
		fmt.Fprintf(&sb, "  ⟨%q, %q, %q, %s⟩%s\n", s.file, s.fn, s.expr, g, sep)
	}
	sb.WriteString("]\n\n")
	emit := func(lean, key string) {
		if v, ok := allConsts[key]; ok {
			fmt.Fprintf(&sb, "/-- `%s` -/\ndef %s : Nat := %d\n", key, lean, v)
		} else {
			fmt.Fprintf(os.Stderr, "constant %s not found: not emitted\n", key)
		}
	}
	emit("maxFieldCount", "namespace.maxFieldCount")
	emit("maxPropsLen", "subgroup.maxPropsLen")
	emit("maxPayloadSize", "subgroup.maxPayloadSize")
	emit("objectStatusEndOfGroup", "subgroup.objectStatusEndOfGroup")
	emit("objectStatusEndOfTrack", "subgroup.objectStatusEndOfTrack")
	emit("typeAuthorizationToken", "parameter.typeAuthorizationToken")
	emit("aliasUseValue", "parameter.AuthorizationTokenAliasTypeUseValue")
	emit("timestampPropertyType", "property.timestampPropertyType")
	for _, n := range []string{"typeSetup", "typeClientSetup", "typeServerSetup", "typeSubscribe", "typeSubscribeOk",
		"typeRequestError", "typePublish", "typePublishOk", "typeRequestOk", "setupOptionPath", "setupOptionAuthority"} {
		emit(n, "controlmessage."+n)
	}
	sb.WriteString("\n/-- `Reason:` expressions of the REQUEST_ERROR messages built in servers/moq/session.go; `true` = bounded -/\n")
	sb.WriteString("def reasonSites : List (String × Bool) := [")
	for i, r := range reasons {
		if i > 0 {
			sb.WriteString(", ")
		}
		fmt.Fprintf(&sb, "(%q, %v)", r.expr, r.bounded)
	}
	sb.WriteString("]\n")
	if len(reasons) > 0 {
		unb := false
		for _, r := range reasons {
			if !r.bounded {
				unb = true
			}
		}
		fmt.Fprintf(&sb, "def reasonUnbounded : Bool := %v\n", unb)
	} else {
		fmt.Fprintln(os.Stderr, "no REQUEST_ERROR construction found: reasonUnbounded not emitted")
	}
	sb.WriteString("\nend MtxVerif.Gen.C32\n")

	dst := filepath.Join(*out, "MtxVerif/Gen/C32.lean")
	if err := os.WriteFile(dst, []byte(sb.String()), 0o644); err != nil {
		fmt.Fprintln(os.Stderr, err)
		os.Exit(1)
	}
	fmt.Printf("wrote %s: %d make sites, %d reason sites\n", dst, len(sites), len(reasons))
}
