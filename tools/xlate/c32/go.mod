module verif/xlate/c32

go 1.23
