// Fact extractor for C15: reads internal/core/path_manager.go and internal/core/path.go of the given tree and
// (re)writes lean/MtxVerif/Gen/C15.lean.  Standard library only.
//
// Facts
//   hotAssigned   the fields X of `clone.X = newPathConf.X` in func pathConfCanBeUpdated, in source order.  The
//                 function must have exactly the shape
//                     clone := oldPathConf.Clone(); (clone.X = newPathConf.X)*; return newPathConf.Equal(clone)
//                 otherwise nothing is written (the Lean build then fails = tie broken).
//   reloadIsGo    every call of `….reloadConf(…)` inside pathManager.doReloadConf is a `go` statement (true) / a plain
//                 call (false) / mixed (nothing written): selects how pending configurations reach a path.
//   pathConfFields  the field names of struct conf.Path (internal/conf/path.go), in source order.
package main

import (
	"flag"
	"fmt"
	"go/ast"
	"go/parser"
	"go/token"
	"os"
	"path/filepath"
	"strings"
)

func die(msg string) {
	fmt.Fprintln(os.Stderr, "xlate c15:", msg)
	os.Exit(1)
}

func parse(p string) *ast.File {
	f, err := parser.ParseFile(token.NewFileSet(), p, nil, 0)
	if err != nil {
		die("parse: " + err.Error())
	}
	return f
}

func sel(e ast.Expr) (string, string, bool) {
	s, ok := e.(*ast.SelectorExpr)
	if !ok {
		return "", "", false
	}
	id, ok := s.X.(*ast.Ident)
	if !ok {
		return "", "", false
	}
	return id.Name, s.Sel.Name, true
}

func leanList(xs []string) string {
	q := make([]string, len(xs))
	for i, x := range xs {
		q[i] = fmt.Sprintf("%q", x)
	}
	return "[" + strings.Join(q, ", ") + "]"
}

func main() {
	repo := flag.String("repo", "/repo", "repository root")
	out := flag.String("out", "", "lean source root")
	flag.Parse()

	pmFile := parse(filepath.Join(*repo, "internal/core/path_manager.go"))

	// ---- pathConfCanBeUpdated
	var fn, reload *ast.FuncDecl
	for _, d := range pmFile.Decls {
		if f, ok := d.(*ast.FuncDecl); ok && f.Body != nil {
			if f.Recv == nil && f.Name.Name == "pathConfCanBeUpdated" {
				fn = f
			}
			if f.Recv != nil && f.Name.Name == "doReloadConf" {
				reload = f
			}
		}
	}
	if fn == nil || reload == nil {
		die("pathConfCanBeUpdated / doReloadConf not found")
	}
	ps := fn.Type.Params.List
	var params []string
	for _, p := range ps {
		for _, n := range p.Names {
			params = append(params, n.Name)
		}
	}
	if len(params) != 2 {
		die("pathConfCanBeUpdated: expected two parameters")
	}
	oldP, newP := params[0], params[1]
	body := fn.Body.List
	if len(body) < 2 {
		die("pathConfCanBeUpdated: unexpected shape")
	}
	// clone := old.Clone()
	first, ok := body[0].(*ast.AssignStmt)
	if !ok || first.Tok != token.DEFINE || len(first.Lhs) != 1 || len(first.Rhs) != 1 {
		die("pathConfCanBeUpdated: first statement is not `clone := old.Clone()`")
	}
	cloneName := first.Lhs[0].(*ast.Ident).Name
	if c, ok := first.Rhs[0].(*ast.CallExpr); !ok || len(c.Args) != 0 {
		die("pathConfCanBeUpdated: first statement is not `clone := old.Clone()`")
	} else if x, m, ok := sel(c.Fun); !ok || x != oldP || m != "Clone" {
		die("pathConfCanBeUpdated: first statement is not `clone := old.Clone()`")
	}
	// return new.Equal(clone)
	last, ok := body[len(body)-1].(*ast.ReturnStmt)
	if !ok || len(last.Results) != 1 {
		die("pathConfCanBeUpdated: last statement is not `return new.Equal(clone)`")
	}
	if c, ok := last.Results[0].(*ast.CallExpr); !ok || len(c.Args) != 1 {
		die("pathConfCanBeUpdated: last statement is not `return new.Equal(clone)`")
	} else {
		x, m, ok1 := sel(c.Fun)
		a, ok2 := c.Args[0].(*ast.Ident)
		if !ok1 || !ok2 || x != newP || m != "Equal" || a.Name != cloneName {
			die("pathConfCanBeUpdated: last statement is not `return new.Equal(clone)`")
		}
	}
	var hot []string
	for _, st := range body[1 : len(body)-1] {
		as, ok := st.(*ast.AssignStmt)
		if !ok || as.Tok != token.ASSIGN || len(as.Lhs) != 1 || len(as.Rhs) != 1 {
			die("pathConfCanBeUpdated: a middle statement is not `clone.X = new.X`")
		}
		lx, lf, ok1 := sel(as.Lhs[0])
		rx, rf, ok2 := sel(as.Rhs[0])
		if !ok1 || !ok2 || lx != cloneName || rx != newP || lf != rf {
			die("pathConfCanBeUpdated: a middle statement is not `clone.X = new.X`")
		}
		hot = append(hot, lf)
	}

	// ---- how doReloadConf hands a configuration to a path
	nGo, nPlain := 0, 0
	goCalls := map[*ast.CallExpr]bool{}
	ast.Inspect(reload.Body, func(n ast.Node) bool {
		if g, ok := n.(*ast.GoStmt); ok {
			goCalls[g.Call] = true
		}
		return true
	})
	ast.Inspect(reload.Body, func(n ast.Node) bool {
		if c, ok := n.(*ast.CallExpr); ok {
			if s, ok := c.Fun.(*ast.SelectorExpr); ok && s.Sel.Name == "reloadConf" {
				if goCalls[c] {
					nGo++
				} else {
					nPlain++
				}
			}
		}
		return true
	})
	if nGo+nPlain == 0 || (nGo > 0 && nPlain > 0) {
		die("doReloadConf: reloadConf calls not found or mixed go/plain")
	}

	// ---- fields of conf.Path
	confFile := parse(filepath.Join(*repo, "internal/conf/path.go"))
	var fields []string
	for _, d := range confFile.Decls {
		g, ok := d.(*ast.GenDecl)
		if !ok {
			continue
		}
		for _, s := range g.Specs {
			ts, ok := s.(*ast.TypeSpec)
			if !ok || ts.Name.Name != "Path" {
				continue
			}
			st, ok := ts.Type.(*ast.StructType)
			if !ok {
				continue
			}
			for _, f := range st.Fields.List {
				for _, n := range f.Names {
					fields = append(fields, n.Name)
				}
			}
		}
	}
	if len(fields) == 0 {
		die("struct conf.Path not found")
	}

	var sb strings.Builder
	sb.WriteString("/- GENERATED by tools/xlate/c15 from internal/core/path_manager.go and internal/conf/path.go — do not edit. -/\n")
	sb.WriteString("namespace MtxVerif.Gen.C15\n\n")
	sb.WriteString("/-- fields X of `clone.X = newPathConf.X` in pathConfCanBeUpdated (shape checked by the extractor) -/\n")
	sb.WriteString("def hotAssigned : List String :=\n  " + leanList(hot) + "\n\n")
	sb.WriteString("/-- pathManager.doReloadConf hands configurations to a path with `go pa.reloadConf(c)` -/\n")
	fmt.Fprintf(&sb, "def reloadIsGo : Bool := %v\n\n", nGo > 0)
	fmt.Fprintf(&sb, "def reloadConfCalls : Nat := %d\n\n", nGo+nPlain)
	sb.WriteString("/-- field names of struct conf.Path -/\n")
	sb.WriteString("def pathConfFields : List String :=\n  " + leanList(fields) + "\n\n")
	sb.WriteString("end MtxVerif.Gen.C15\n")

	dst := filepath.Join(*out, "MtxVerif/Gen/C15.lean")
	if err := os.MkdirAll(filepath.Dir(dst), 0o755); err != nil {
		die(err.Error())
	}
	if err := os.WriteFile(dst, []byte(sb.String()), 0o644); err != nil {
		die(err.Error())
	}
}
