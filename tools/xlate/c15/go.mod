module verif/xlate/c15

go 1.23
