module verif/xlate/c40

go 1.23
