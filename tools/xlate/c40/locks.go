// Lock/unlock pairing, second table of the C40 extractor.
//
// For every function (and function literal) of internal/core/{core,path_manager,path}.go and
// internal/servers/hls/*.go that calls x.Lock/Unlock/RLock/RUnlock, and for every mutex it touches:
// the lock balance (locks minus unlocks, deferred unlocks applied) at EVERY exit of the function — each
// `return` and the end of the body — computed by walking the structured control flow (sequence, if/else,
// switch/select clauses, loops, labelled break/continue, panic).  A loop body must be balanced
// (loopsBalanced).  A function may hand a held mutex over (muxer.initialize returns with +1, and the
// goroutine it starts releases it in muxer.runInner: -1 on every exit); what is decided in Lean is that
// all exits of a function agree and that the hand-overs of each mutex cancel out.
package main

import (
	"fmt"
	"go/ast"
	"go/parser"
	"go/token"
	"os"
	"path/filepath"
	"sort"
	"strings"
)

type lockState map[string]int

func (s lockState) clone() lockState {
	c := lockState{}
	for k, v := range s {
		c[k] = v
	}
	return c
}

func (s lockState) key() string {
	var ks []string
	for k, v := range s {
		if v != 0 {
			ks = append(ks, fmt.Sprintf("%s=%d", k, v))
		}
	}
	sort.Strings(ks)
	return strings.Join(ks, ";")
}

func dedupe(l []lockState) []lockState {
	seen := map[string]bool{}
	var out []lockState
	for _, s := range l {
		if k := s.key(); !seen[k] {
			seen[k] = true
			out = append(out, s)
		}
	}
	return out
}

type jump struct {
	label string
	st    lockState
}

// reqAt: a blocking request to a loop (a call through a field/variable named …pathManager…/…parent…
// of another component, or a channel send/receive) made in the given lock state
type reqAt struct {
	what string
	st   lockState
}

// ---- callee resolution (syntactic type hints) ----
//
// callTargets[call] = the functions ("pkg.Type.method" / "pkg.func") a call may mean.  The receiver's type
// comes from: the enclosing method's receiver, struct field declarations (also element types of map /
// slice fields when ranged over or indexed), locals bound by `x := &T{…}`, `x := T{…}`, `var x *T`,
// `for _, x := range <resolvable>`.  An unresolved receiver means any type of the package that has the
// method EXCEPT the enclosing type (a call on some other object cannot re-enter the same instance's mutex
// through its own type).
var (
	callTargets  = map[*ast.CallExpr][]string{}
	structFields = map[string]map[string]ast.Expr{} // pkg.Type -> field -> type
	methodsOf    = map[string][]string{}            // pkg.name -> pkg.Type.name …
	funcsOf      = map[string]bool{}                // pkg.name (plain functions)
)

func namedOf(e ast.Expr) (name string, elem ast.Expr) {
	switch t := e.(type) {
	case *ast.StarExpr:
		return namedOf(t.X)
	case *ast.Ident:
		return t.Name, nil
	case *ast.MapType:
		return "", t.Value
	case *ast.ArrayType:
		return "", t.Elt
	}
	return "", nil
}

type resolver struct {
	pkg, recv, typ string
	locals         map[string]ast.Expr // local -> type expression
}

// typeExprOf returns a type expression for e, or nil
func (r *resolver) typeExprOf(e ast.Expr) ast.Expr {
	switch t := e.(type) {
	case *ast.ParenExpr:
		return r.typeExprOf(t.X)
	case *ast.Ident:
		if t.Name == r.recv && r.typ != "" {
			return &ast.Ident{Name: r.typ}
		}
		return r.locals[t.Name]
	case *ast.SelectorExpr:
		if bt := r.typeExprOf(t.X); bt != nil {
			if n, _ := namedOf(bt); n != "" {
				return structFields[r.pkg+"."+n][t.Sel.Name]
			}
		}
	case *ast.IndexExpr:
		if bt := r.typeExprOf(t.X); bt != nil {
			if _, el := namedOf(bt); el != nil {
				return el
			}
		}
	case *ast.UnaryExpr:
		if t.Op == token.AND {
			if cl, ok := t.X.(*ast.CompositeLit); ok {
				return cl.Type
			}
		}
	case *ast.CompositeLit:
		return t.Type
	case *ast.TypeAssertExpr:
		return t.Type
	}
	return nil
}

func resolveCalls(pkg, recv, typ string, body *ast.BlockStmt) {
	r := &resolver{pkg: pkg, recv: recv, typ: typ, locals: map[string]ast.Expr{}}
	ast.Inspect(body, func(n ast.Node) bool {
		switch t := n.(type) {
		case *ast.AssignStmt:
			if t.Tok == token.DEFINE && len(t.Rhs) == 1 && len(t.Lhs) >= 1 {
				if id, ok := t.Lhs[0].(*ast.Ident); ok {
					if te := r.typeExprOf(t.Rhs[0]); te != nil {
						r.locals[id.Name] = te
					}
				}
			}
		case *ast.RangeStmt:
			if te := r.typeExprOf(t.X); te != nil {
				if _, el := namedOf(te); el != nil {
					if id, ok := t.Value.(*ast.Ident); ok {
						r.locals[id.Name] = el
					}
				}
			}
		case *ast.DeclStmt:
			if gd, ok := t.Decl.(*ast.GenDecl); ok {
				for _, sp := range gd.Specs {
					if vs, ok := sp.(*ast.ValueSpec); ok && vs.Type != nil {
						for _, id := range vs.Names {
							r.locals[id.Name] = vs.Type
						}
					}
				}
			}
		case *ast.CallExpr:
			switch f := t.Fun.(type) {
			case *ast.Ident:
				if funcsOf[pkg+"."+f.Name] {
					callTargets[t] = []string{pkg + "." + f.Name}
				}
			case *ast.SelectorExpr:
				if te := r.typeExprOf(f.X); te != nil {
					if n, _ := namedOf(te); n != "" {
						if _, isStruct := structFields[pkg+"."+n]; isStruct {
							callTargets[t] = []string{pkg + "." + n + "." + f.Sel.Name}
							return true
						}
					}
				}
				for _, m := range methodsOf[pkg+"."+f.Sel.Name] {
					if typ == "" || !strings.HasPrefix(m, pkg+"."+typ+".") {
						callTargets[t] = append(callTargets[t], m)
					}
				}
			}
		}
		return true
	})
}

// requesters: pkg.name of every function that (transitively, by simple name inside its package) makes a
// blocking request: a call through a field named …pathManager / .path, or a channel send/receive
var requesters = map[string]bool{}

type lockWalker struct {
	pkg       string
	calls     []reqAt // every call x.name(…) / name(…) with the lock states it is made in
	reqs      []reqAt
	recv, typ string
	defers    lockState // deferred unlocks registered so far (applied at exits)
	exits     []lockState
	loopsOK   bool
	lits      []*ast.FuncLit
}

// lockCall: x.Lock() etc. -> (mutex key, delta)
func (w *lockWalker) lockCall(e ast.Expr) (string, int, bool) {
	c, ok := e.(*ast.CallExpr)
	if !ok || len(c.Args) != 0 {
		return "", 0, false
	}
	s, ok := c.Fun.(*ast.SelectorExpr)
	if !ok {
		return "", 0, false
	}
	d := 0
	suffix := ""
	switch s.Sel.Name {
	case "Lock":
		d = 1
	case "Unlock":
		d = -1
	case "RLock":
		d, suffix = 1, "(R)"
	case "RUnlock":
		d, suffix = -1, "(R)"
	default:
		return "", 0, false
	}
	// only sync mutexes: the receiver is a field/variable, not a call
	t := text(s.X)
	if strings.Contains(t, "()") {
		return "", 0, false
	}
	if w.recv != "" && strings.HasPrefix(t, w.recv+".") {
		t = w.typ + "." + strings.TrimPrefix(t, w.recv+".")
	}
	return t + suffix, d, true
}

type flow struct {
	fall   []lockState // states that fall through to the next statement
	breaks []jump
	conts  []jump
}

func (w *lockWalker) exit(st lockState) {
	c := st.clone()
	for k, v := range w.defers {
		c[k] += v
	}
	w.exits = append(w.exits, c)
}

func (w *lockWalker) block(stmts []ast.Stmt, in []lockState) flow {
	cur := in
	var out flow
	for _, s := range stmts {
		if len(cur) == 0 {
			break
		}
		f := w.stmt(s, cur, "")
		out.breaks = append(out.breaks, f.breaks...)
		out.conts = append(out.conts, f.conts...)
		cur = dedupe(f.fall)
	}
	out.fall = cur
	return out
}

func (w *lockWalker) collectLits(n ast.Node) {
	ast.Inspect(n, func(m ast.Node) bool {
		if fl, ok := m.(*ast.FuncLit); ok {
			w.lits = append(w.lits, fl)
			return false
		}
		return true
	})
}

func (w *lockWalker) stmt(s ast.Stmt, in []lockState, label string) flow {
	switch t := s.(type) {
	case *ast.ExprStmt:
		if k, d, ok := w.lockCall(t.X); ok {
			var out []lockState
			for _, st := range in {
				c := st.clone()
				c[k] += d
				out = append(out, c)
			}
			return flow{fall: out}
		}
		if c, ok := t.X.(*ast.CallExpr); ok && isIdent(c.Fun, "panic") {
			return flow{}
		}
		w.collectLits(t)
		w.noteRequests(t, in)
		return flow{fall: in}
	case *ast.DeferStmt:
		if k, d, ok := w.lockCall(t.Call); ok {
			w.defers[k] += d
			return flow{fall: in}
		}
		if fl, ok := t.Call.Fun.(*ast.FuncLit); ok {
			// defer func() { …; x.Unlock(); … }()
			ast.Inspect(fl.Body, func(n ast.Node) bool {
				if es, ok := n.(*ast.ExprStmt); ok {
					if k, d, ok := w.lockCall(es.X); ok {
						w.defers[k] += d
					}
				}
				return true
			})
		}
		return flow{fall: in}
	case *ast.ReturnStmt:
		w.collectLits(t)
		w.noteRequests(t, in)
		for _, st := range in {
			w.exit(st)
		}
		return flow{}
	case *ast.BranchStmt:
		var f flow
		lab := ""
		if t.Label != nil {
			lab = t.Label.Name
		}
		for _, st := range in {
			switch t.Tok {
			case token.BREAK:
				f.breaks = append(f.breaks, jump{lab, st})
			case token.CONTINUE:
				f.conts = append(f.conts, jump{lab, st})
			}
		}
		return f
	case *ast.BlockStmt:
		return w.block(t.List, in)
	case *ast.LabeledStmt:
		return w.stmt(t.Stmt, in, t.Label.Name)
	case *ast.IfStmt:
		if t.Init != nil {
			w.collectLits(t.Init)
			w.noteRequests(t.Init, in)
		}
		w.collectLits(t.Cond)
		w.noteRequests(t.Cond, in)
		a := w.block(t.Body.List, in)
		var b flow
		if t.Else != nil {
			b = w.stmt(t.Else, in, "")
		} else {
			b = flow{fall: in}
		}
		return flow{fall: append(a.fall, b.fall...), breaks: append(a.breaks, b.breaks...), conts: append(a.conts, b.conts...)}
	case *ast.ForStmt, *ast.RangeStmt:
		var body *ast.BlockStmt
		infinite := false
		if fs, ok := t.(*ast.ForStmt); ok {
			body = fs.Body
			infinite = fs.Cond == nil
		} else {
			body = t.(*ast.RangeStmt).Body
		}
		f := w.block(body.List, in)
		inKeys := map[string]bool{}
		for _, st := range in {
			inKeys[st.key()] = true
		}
		var out flow
		// the body (fall through and continue) must come back with the state it started with
		for _, st := range f.fall {
			if !inKeys[st.key()] {
				w.loopsOK = false
			}
		}
		for _, j := range f.conts {
			if j.label == "" || j.label == label {
				if !inKeys[j.st.key()] {
					w.loopsOK = false
				}
			} else {
				out.conts = append(out.conts, j)
			}
		}
		if !infinite {
			out.fall = append(out.fall, in...)
		}
		for _, j := range f.breaks {
			if j.label == "" || j.label == label {
				out.fall = append(out.fall, j.st)
			} else {
				out.breaks = append(out.breaks, j)
			}
		}
		return out
	case *ast.SwitchStmt, *ast.TypeSwitchStmt, *ast.SelectStmt:
		var clauses []ast.Stmt
		hasDefault := false
		switch u := t.(type) {
		case *ast.SwitchStmt:
			clauses = u.Body.List
		case *ast.TypeSwitchStmt:
			clauses = u.Body.List
		case *ast.SelectStmt:
			clauses = u.Body.List
			hasDefault = true // a select always takes one of its arms
		}
		var out flow
		for _, c := range clauses {
			var body []ast.Stmt
			switch cc := c.(type) {
			case *ast.CaseClause:
				body = cc.Body
				if cc.List == nil {
					hasDefault = true
				}
			case *ast.CommClause:
				body = cc.Body
			}
			f := w.block(body, in)
			out.fall = append(out.fall, f.fall...)
			out.conts = append(out.conts, f.conts...)
			for _, j := range f.breaks {
				if j.label == "" || j.label == label {
					out.fall = append(out.fall, j.st)
				} else {
					out.breaks = append(out.breaks, j)
				}
			}
		}
		if !hasDefault {
			out.fall = append(out.fall, in...)
		}
		return out
	case *ast.GoStmt:
		w.collectLits(t)
		return flow{fall: in}
	default:
		w.collectLits(s)
		w.noteRequests(s, in)
		return flow{fall: in}
	}
}

// noteRequests records calls like x.pathManager.AddReader(…) / x.PathManager.Y(…) and channel operations in a
// simple statement, with the lock states they are made in
func (w *lockWalker) noteRequests(n ast.Node, in []lockState) {
	// calls (also those inside function literals that are called on the spot, e.g. struct-literal fields
	// computed by `func() T {…}()`)
	ast.Inspect(n, func(m ast.Node) bool {
		if c, ok := m.(*ast.CallExpr); ok {
			for _, tgt := range callTargets[c] {
				for _, st := range in {
					w.calls = append(w.calls, reqAt{tgt, st.clone()})
				}
			}
		}
		return true
	})
	ast.Inspect(n, func(m ast.Node) bool {
		what := ""
		switch t := m.(type) {
		case *ast.FuncLit:
			return false
		case *ast.CallExpr:
			if s, ok := t.Fun.(*ast.SelectorExpr); ok {
				r := text(s.X)
				if strings.HasSuffix(r, "athManager") || strings.HasSuffix(r, ".path") {
					what = r + "." + s.Sel.Name
				} else if requesters[w.pkg+"."+s.Sel.Name] {
					what = "call " + s.Sel.Name
				}
			} else if id, ok := t.Fun.(*ast.Ident); ok && funcsOf[w.pkg+"."+id.Name] && requesters[w.pkg+"."+id.Name] {
				what = "call " + id.Name
			}
		case *ast.SendStmt:
			what = "send " + text(t.Chan)
		case *ast.UnaryExpr:
			if t.Op == token.ARROW {
				what = "recv " + text(t.X)
			}
		}
		if what != "" {
			for _, st := range in {
				w.reqs = append(w.reqs, reqAt{what, st.clone()})
			}
		}
		return true
	})
}

type lockRow struct {
	fn      string
	mutex   string
	exits   []int
	loopsOK bool
	across  []string // blocking requests made while the mutex is held
	pkg     string
	held    []string // simple names of functions called while the mutex is held
}

func analyseLocks(pkg, name, recv, typ string, body *ast.BlockStmt, rows *[]lockRow) {
	w := &lockWalker{pkg: pkg, recv: recv, typ: typ, defers: lockState{}, loopsOK: true}
	f := w.block(body.List, []lockState{{}})
	for _, st := range f.fall {
		w.exit(st)
	}
	mutexes := map[string]bool{}
	for _, e := range w.exits {
		for k := range e {
			mutexes[k] = true
		}
	}
	for k := range w.defers {
		mutexes[k] = true
	}
	// also mutexes that are locked and unlocked again (balance 0 everywhere)
	ast.Inspect(body, func(n ast.Node) bool {
		if _, ok := n.(*ast.FuncLit); ok {
			return false
		}
		if c, ok := n.(*ast.CallExpr); ok {
			if k, _, ok := w.lockCall(c); ok {
				mutexes[k] = true
			}
		}
		return true
	})
	var ms []string
	for k := range mutexes {
		ms = append(ms, k)
	}
	sort.Strings(ms)
	for _, m := range ms {
		r := lockRow{fn: name, mutex: m, loopsOK: w.loopsOK}
		for _, e := range w.exits {
			r.exits = append(r.exits, e[m])
		}
		// held on entry iff the function releases more than it takes
		entry := 0
		if len(r.exits) > 0 && r.exits[0] < 0 {
			entry = -r.exits[0]
		}
		for _, q := range w.reqs {
			if entry+q.st[m] > 0 {
				r.across = addUniqS(r.across, q.what)
			}
		}
		r.pkg = w.pkg
		for _, q := range w.calls {
			if entry+q.st[m] > 0 {
				r.held = addUniqS(r.held, q.what)
			}
		}
		*rows = append(*rows, r)
	}
	for i, fl := range w.lits {
		analyseLocks(pkg, fmt.Sprintf("%s.func%d", name, i+1), recv, typ, fl.Body, rows)
	}
}

func addUniqS(l []string, s string) []string {
	for _, x := range l {
		if x == s {
			return l
		}
	}
	return append(l, s)
}

func lockTable(repo string) []lockRow {
	var files []string
	for _, f := range []string{"core.go", "path_manager.go", "path.go"} {
		files = append(files, filepath.Join(repo, "internal/core", f))
	}
	for _, srv := range []string{"hls", "rtsp", "rtmp", "srt", "webrtc", "moq"} {
		ents, err := os.ReadDir(filepath.Join(repo, "internal/servers", srv))
		if err != nil {
			die("%v", err)
		}
		for _, e := range ents {
			if n := e.Name(); strings.HasSuffix(n, ".go") && !strings.HasSuffix(n, "_test.go") {
				files = append(files, filepath.Join(repo, "internal/servers", srv, n))
			}
		}
	}
	var rows []lockRow
	fs := token.NewFileSet()
	var parsedFiles []*ast.File
	for _, fp := range files {
		f, err := parser.ParseFile(fs, fp, nil, 0)
		if err != nil {
			die("parse: %v", err)
		}
		parsedFiles = append(parsedFiles, f)
	}
	// pass 0: declarations, then the callees of every call
	for _, f := range parsedFiles {
		pkg := f.Name.Name
		for _, d := range f.Decls {
			switch t := d.(type) {
			case *ast.GenDecl:
				for _, sp := range t.Specs {
					if ts, ok := sp.(*ast.TypeSpec); ok {
						if st, ok := ts.Type.(*ast.StructType); ok {
							m := map[string]ast.Expr{}
							for _, fl := range st.Fields.List {
								for _, n := range fl.Names {
									m[n.Name] = fl.Type
								}
							}
							structFields[pkg+"."+ts.Name.Name] = m
						}
					}
				}
			case *ast.FuncDecl:
				if t.Recv != nil && len(t.Recv.List) == 1 {
					k := pkg + "." + t.Name.Name
					methodsOf[k] = append(methodsOf[k], pkg+"."+baseType(t.Recv.List[0].Type)+"."+t.Name.Name)
				} else {
					funcsOf[pkg+"."+t.Name.Name] = true
				}
			}
		}
	}
	for _, f := range parsedFiles {
		pkg := f.Name.Name
		for _, d := range f.Decls {
			if fd, ok := d.(*ast.FuncDecl); ok && fd.Body != nil {
				recv, typ := "", ""
				if fd.Recv != nil && len(fd.Recv.List) == 1 {
					typ = baseType(fd.Recv.List[0].Type)
					if len(fd.Recv.List[0].Names) == 1 {
						recv = fd.Recv.List[0].Names[0].Name
					}
				}
				resolveCalls(pkg, recv, typ, fd.Body)
			}
		}
	}
	// pass 1: who makes blocking requests (fixpoint over calls by simple name inside the package)
	type fnBody struct {
		pkg, name string
		full      string // pkg.Type.name or pkg.name
		body      *ast.BlockStmt
	}
	var all []fnBody
	for _, f := range parsedFiles {
		for _, d := range f.Decls {
			if fd, ok := d.(*ast.FuncDecl); ok && fd.Body != nil {
				full := f.Name.Name + "." + fd.Name.Name
				if fd.Recv != nil && len(fd.Recv.List) == 1 {
					full = f.Name.Name + "." + baseType(fd.Recv.List[0].Type) + "." + fd.Name.Name
				}
				all = append(all, fnBody{f.Name.Name, fd.Name.Name, full, fd.Body})
			}
		}
	}
	for changed := true; changed; {
		changed = false
		for _, fb := range all {
			if requesters[fb.pkg+"."+fb.name] {
				continue
			}
			req := false
			ast.Inspect(fb.body, func(n ast.Node) bool {
				switch t := n.(type) {
				case *ast.SendStmt:
					req = true
				case *ast.UnaryExpr:
					if t.Op == token.ARROW {
						req = true
					}
				case *ast.CallExpr:
					if s, ok := t.Fun.(*ast.SelectorExpr); ok {
						r := text(s.X)
						if strings.HasSuffix(r, "athManager") || strings.HasSuffix(r, ".path") || requesters[fb.pkg+"."+s.Sel.Name] {
							req = true
						}
					} else if id, ok := t.Fun.(*ast.Ident); ok && funcsOf[fb.pkg+"."+id.Name] && requesters[fb.pkg+"."+id.Name] {
						req = true
					}
				}
				return !req
			})
			if req {
				requesters[fb.pkg+"."+fb.name] = true
				changed = true
			}
		}
	}
	for _, f := range parsedFiles {
		pkg := f.Name.Name
		for _, d := range f.Decls {
			fd, ok := d.(*ast.FuncDecl)
			if !ok || fd.Body == nil {
				continue
			}
			recv, typ := "", ""
			name := pkg + "." + fd.Name.Name
			if fd.Recv != nil && len(fd.Recv.List) == 1 {
				typ = baseType(fd.Recv.List[0].Type)
				if len(fd.Recv.List[0].Names) == 1 {
					recv = fd.Recv.List[0].Names[0].Name
				}
				name = pkg + "." + typ + "." + fd.Name.Name
				typ = pkg + "." + typ
			}
			analyseLocks(pkg, name, recv, typ, fd.Body, &rows)
		}
	}
	// recursive locking: who (transitively, through resolved calls) takes which mutex object …
	lockers := map[string]map[string]bool{} // pkg.Type.name -> mutex objects
	addLocker := func(k, obj string) bool {
		if lockers[k] == nil {
			lockers[k] = map[string]bool{}
		}
		if lockers[k][obj] {
			return false
		}
		lockers[k][obj] = true
		return true
	}
	for _, r := range rows {
		fn := r.fn
		if i := strings.Index(fn, ".func"); i >= 0 {
			fn = fn[:i] // a literal inside the function
		}
		addLocker(fn, strings.TrimSuffix(r.mutex, "(R)"))
	}
	for changed := true; changed; {
		changed = false
		for _, fb := range all {
			ast.Inspect(fb.body, func(n ast.Node) bool {
				if c, ok := n.(*ast.CallExpr); ok {
					for _, tgt := range callTargets[c] {
						for obj := range lockers[tgt] {
							if addLocker(fb.full, obj) {
								changed = true
							}
						}
					}
				}
				return true
			})
		}
	}
	// … and which function calls such a function while it already holds that mutex object
	for _, r := range rows {
		obj := strings.TrimSuffix(r.mutex, "(R)")
		for _, callee := range r.held {
			if lockers[callee][obj] {
				recursive = append(recursive, [3]string{r.fn, r.mutex, callee})
			}
		}
	}
	// the event loops (`run` with a `for { select … }`) and the lock-taking functions they call directly
	lockTaking := map[string][]string{} // pkg.simpleName -> row function names
	for _, r := range rows {
		parts := strings.Split(r.fn, ".")
		k := parts[0] + "." + parts[len(parts)-1]
		lockTaking[k] = addUniqS(lockTaking[k], r.fn)
	}
	for _, f := range parsedFiles {
		pkg := f.Name.Name
		for _, d := range f.Decls {
			fd, ok := d.(*ast.FuncDecl)
			if !ok || fd.Body == nil || fd.Name.Name != "run" || fd.Recv == nil {
				continue
			}
			isLoop := false
			ast.Inspect(fd.Body, func(n ast.Node) bool {
				if fs, ok := n.(*ast.ForStmt); ok && fs.Cond == nil {
					for _, st := range fs.Body.List {
						if _, ok := st.(*ast.SelectStmt); ok {
							isLoop = true
						}
					}
				}
				return true
			})
			if !isLoop {
				continue
			}
			name := pkg + "." + baseType(fd.Recv.List[0].Type) + ".run"
			loopNames = append(loopNames, name)
			ast.Inspect(fd.Body, func(n ast.Node) bool {
				if _, ok := n.(*ast.FuncLit); ok {
					return false
				}
				if c, ok := n.(*ast.CallExpr); ok {
					if s, ok := c.Fun.(*ast.SelectorExpr); ok {
						for _, callee := range lockTaking[pkg+"."+s.Sel.Name] {
							loopCalls = append(loopCalls, [2]string{name, callee})
						}
					}
				}
				return true
			})
		}
	}
	return rows
}

var (
	loopNames []string
	loopCalls [][2]string
	recursive [][3]string
)

func emitLocks(w func(string, ...any), rows []lockRow) {
	fnID := map[string]int{}
	var fnNames []string
	muID := map[string]int{}
	var muNames []string
	objID := map[string]int{}
	var objNames []string
	id := func(m map[string]int, l *[]string, s string) int {
		if v, ok := m[s]; ok {
			return v
		}
		m[s] = len(*l)
		*l = append(*l, s)
		return m[s]
	}
	w("/-- lock balance at every exit of every function that touches a mutex (tools/xlate/c40/locks.go) -/")
	w("def lockFns : List LockFn := [")
	for i, r := range rows {
		sep := ","
		if i == len(rows)-1 {
			sep = ""
		}
		es := make([]string, len(r.exits))
		for j, e := range r.exits {
			es[j] = fmt.Sprintf("(%d : Int)", e)
		}
		w("  { fn := %d, mutex := %d, lockObj := %d, exits := [%s], loopsBalanced := %v, heldAcrossRequest := %v }%s  -- %s %s %s",
			id(fnID, &fnNames, r.fn), id(muID, &muNames, r.mutex), id(objID, &objNames, strings.TrimSuffix(r.mutex, "(R)")),
			strings.Join(es, ", "), r.loopsOK, len(r.across) > 0, sep,
			r.fn, r.mutex, strings.Join(r.across, " | "))
	}
	w("]")
	q := func(l []string) string {
		s := make([]string, len(l))
		for i, x := range l {
			s[i] = fmt.Sprintf("%q", x)
		}
		return "[" + strings.Join(s, ", ") + "]"
	}
	w("def lockFnNames : List String := %s", q(fnNames))
	w("def lockMutexNames : List String := %s", q(muNames))
	for i, n := range fnNames {
		w("def LF_%s : Nat := %d", strings.NewReplacer(".", "_").Replace(n), i)
	}
	for i, n := range muNames {
		w("def MU_%s : Nat := %d", strings.NewReplacer(".", "_", "(R)", "_R").Replace(n), i)
	}
	w("def lockObjNames : List String := %s", q(objNames))
	for i, n := range objNames {
		w("def LO_%s : Nat := %d", strings.NewReplacer(".", "_").Replace(n), i)
	}
	w("/-- the event loops (`run` containing `for { select … }`) -/")
	w("def loopNames : List String := %s", q(loopNames))
	for i, n := range loopNames {
		w("def LP_%s : Nat := %d", strings.NewReplacer(".", "_").Replace(n), i)
	}
	w("/-- (loop, function): the loop calls this lock-taking function directly -/")
	var lc []string
	for _, c := range loopCalls {
		li := 0
		for i, n := range loopNames {
			if n == c[0] {
				li = i
			}
		}
		lc = append(lc, fmt.Sprintf("(%d, %d)", li, fnID[c[1]]))
	}
	w("def loopLockCalls : List (Nat × Nat) := [%s]", strings.Join(lc, ", "))
	w("/-- (function, mutex): the function calls, while it holds the mutex, a function of its package that")
	w("(transitively, by simple name) takes the same mutex object again -/")
	var rl []string
	for _, r := range recursive {
		rl = append(rl, fmt.Sprintf("(%d, %d)", fnID[r[0]], muID[r[1]]))
		w("-- recursive: %s holds %s and calls %s", r[0], r[1], r[2])
	}
	w("def recursiveLocks : List (Nat × Nat) := [%s]", strings.Join(rl, ", "))
	w("")
}
