// Fact extractor for C40 (deadlock freedom of the message protocol in internal/core).
// Reads internal/core/{core,path_manager,path}.go of the given tree and (re)writes
// lean/MtxVerif/Gen/C40.lean: one row per channel operation (send, receive, close, wg.Wait) with
//
//	fn, line      where it is
//	chan          the channel expression
//	role          mainRecv | request | awaitReply | reply | join | doneArm | timer | event | closeDone | other
//	cls           which goroutine class executes the enclosing function: the three loops
//	              (Core.run → core, pathManager.run → pm, path.run → path) and everything they call
//	              (call graph over the three types, resolved syntactically); `go x.m()` → aux;
//	              functions not reachable from a loop are entry points run by client goroutines
//	peer          the class owning the channel (request, join) — for replies: the requester
//	inSelect, doneCore/donePM/donePath/doneParam, hasDefault   the select it sits in and its Done() arms
//	expectsReply, replyRead   the request carries a reply channel / the requester reads it first thing
//	                          in the body of the send's select case (or right after the send)
//	afterCancel   (join) the joined context is cancelled immediately before, in the same function or,
//	              for a one-statement wrapper, at every call site (x.close(); x.wait())
//
// plus per loop: the loop exits only … followed by ctxCancel() (exitCancels).
// Standard library only; anything not understood is role `other` (a decided side condition then fails)
// or an error (nothing is written).
package main

import (
	"flag"
	"fmt"
	"go/ast"
	"go/parser"
	"go/token"
	"os"
	"path/filepath"
	"sort"
	"strings"
)

func die(format string, a ...any) {
	fmt.Fprintf(os.Stderr, "xlate/c40: "+format+"\n", a...)
	os.Exit(1)
}

var ourTypes = []string{"Core", "pathManager", "path"}
var clsOfType = map[string]string{"Core": "core", "pathManager": "pm", "path": "path"}

// receiver-name conventions used in the three files (checked against every method declaration)
var convName = map[string]string{"p": "Core", "pm": "pathManager", "pa": "path", "pa2": "path"}

type fnT struct {
	key  string // Type.method
	typ  string
	decl *ast.FuncDecl
	recv string
	file string
	cls  map[string]bool
}

type opT struct {
	fn           string
	line         int
	ch           string
	role         string
	cls          string
	peer         string
	inSelect     bool
	dCore        bool
	dPM          bool
	dPath        bool
	dParam       bool
	hasDefault   bool
	expectsReply bool
	replyRead    bool
	afterCancel  bool
	mainLoop     bool
	site         int // line a blocked goroutine reports: the select statement, or the operation itself
}

var (
	fset    = token.NewFileSet()
	fns     = map[string]*fnT{}
	fields  = map[string]map[string]ast.Expr{} // type -> field -> type expr
	ifaces  = map[string][]string{}            // interface -> method names
	methods = map[string][]string{}            // method name -> types having it
)

func text(e ast.Expr) string {
	switch t := e.(type) {
	case *ast.Ident:
		return t.Name
	case *ast.SelectorExpr:
		return text(t.X) + "." + t.Sel.Name
	case *ast.CallExpr:
		return text(t.Fun) + "()"
	case *ast.StarExpr:
		return "*" + text(t.X)
	case *ast.ParenExpr:
		return text(t.X)
	case *ast.TypeAssertExpr:
		return text(t.X) + ".(" + text(t.Type) + ")"
	case *ast.IndexExpr:
		return text(t.X) + "[…]"
	case *ast.UnaryExpr:
		return t.Op.String() + text(t.X)
	}
	return "?"
}

func baseType(e ast.Expr) string {
	if s, ok := e.(*ast.StarExpr); ok {
		e = s.X
	}
	if id, ok := e.(*ast.Ident); ok {
		return id.Name
	}
	return ""
}

// typeOfExpr resolves an expression to one of our three types ("" = unknown), syntactically.
func typeOfExpr(e ast.Expr, in *fnT) string {
	switch t := e.(type) {
	case *ast.ParenExpr:
		return typeOfExpr(t.X, in)
	case *ast.Ident:
		if in != nil && t.Name == in.recv {
			return in.typ
		}
		return convName[t.Name]
	case *ast.TypeAssertExpr:
		bt := baseType(t.Type)
		for _, o := range ourTypes {
			if bt == o {
				return o
			}
		}
	case *ast.SelectorExpr:
		// x.f where x is one of ours and f a field whose type is one of ours / an interface of ours
		if xt := typeOfExpr(t.X, in); xt != "" {
			if ft, ok := fields[xt][t.Sel.Name]; ok {
				bt := baseType(ft)
				for _, o := range ourTypes {
					if bt == o {
						return o
					}
				}
				if ms, ok := ifaces[bt]; ok && len(ms) > 0 {
					// the unique type of ours implementing every method of the interface
					var cands []string
					for _, o := range ourTypes {
						all := true
						for _, m := range ms {
							if fns[o+"."+m] == nil {
								all = false
							}
						}
						if all {
							cands = append(cands, o)
						}
					}
					if len(cands) == 1 {
						return cands[0]
					}
				}
			}
		}
		// res.path / res1.Path
		if t.Sel.Name == "path" || t.Sel.Name == "Path" {
			return "path"
		}
	}
	return ""
}

type chanInfo struct {
	kind  string // request | reply | done | ctxDone | timer | event | unknown
	owner string // class
}

func classifyChan(e ast.Expr, in *fnT, locals map[string]string) chanInfo {
	if p, ok := e.(*ast.ParenExpr); ok {
		return classifyChan(p.X, in, locals)
	}
	switch t := e.(type) {
	case *ast.CallExpr:
		// x.ctx.Done() / ctx.Done()
		if s, ok := t.Fun.(*ast.SelectorExpr); ok && s.Sel.Name == "Done" && len(t.Args) == 0 {
			if s2, ok := s.X.(*ast.SelectorExpr); ok && s2.Sel.Name == "ctx" {
				if xt := typeOfExpr(s2.X, in); xt != "" {
					return chanInfo{"ctxDone", clsOfType[xt]}
				}
			}
			if _, ok := s.X.(*ast.Ident); ok {
				return chanInfo{"ctxDone", "param"}
			}
		}
	case *ast.SelectorExpr:
		name := t.Sel.Name
		if name == "Res" || name == "res" {
			return chanInfo{"reply", ""}
		}
		if name == "C" {
			return chanInfo{"timer", ""}
		}
		if xt := typeOfExpr(t.X, in); xt != "" {
			if _, ok := fields[xt][name].(*ast.ChanType); ok {
				if name == "done" {
					return chanInfo{"done", clsOfType[xt]}
				}
				if strings.HasPrefix(name, "ch") {
					return chanInfo{"request", clsOfType[xt]}
				}
			}
		}
	case *ast.Ident:
		if k, ok := locals[t.Name]; ok {
			return chanInfo{k, ""}
		}
	}
	return chanInfo{"unknown", ""}
}

// locals: identifiers bound to reply channels (`res := make(chan …)`) or event channels
func scanLocals(body *ast.BlockStmt) map[string]string {
	out := map[string]string{}
	ast.Inspect(body, func(n ast.Node) bool {
		as, ok := n.(*ast.AssignStmt)
		if !ok || len(as.Lhs) != 1 || len(as.Rhs) != 1 {
			return true
		}
		id, ok := as.Lhs[0].(*ast.Ident)
		if !ok {
			return true
		}
		if c, ok := as.Rhs[0].(*ast.CallExpr); ok {
			if isIdent(c.Fun, "make") && len(c.Args) >= 1 {
				if ct, ok := c.Args[0].(*ast.ChanType); ok {
					if s, ok := ct.Value.(*ast.SelectorExpr); ok && text(s) == "os.Signal" {
						out[id.Name] = "event"
					} else {
						out[id.Name] = "reply"
					}
				}
			}
			// confChanged := func() chan struct{} {…}()
			if fl, ok := c.Fun.(*ast.FuncLit); ok && fl.Type.Results != nil && len(fl.Type.Results.List) == 1 {
				if _, ok := fl.Type.Results.List[0].Type.(*ast.ChanType); ok {
					out[id.Name] = "event"
				}
			}
			// t := time.NewTimer(0)
			if s, ok := c.Fun.(*ast.SelectorExpr); ok && text(s) == "time.NewTimer" {
				out[id.Name] = "timerObj"
			}
		}
		return true
	})
	return out
}

func isIdent(e ast.Expr, n string) bool {
	id, ok := e.(*ast.Ident)
	return ok && id.Name == n
}

// makesReplyChan: the function creates a reply channel (`x.Res = make(chan …)`, `res := make(chan …)`,
// `res: make(chan …)` in a literal)
func makesReplyChan(body *ast.BlockStmt) bool {
	found := false
	ast.Inspect(body, func(n ast.Node) bool {
		switch t := n.(type) {
		case *ast.AssignStmt:
			for i, r := range t.Rhs {
				if c, ok := r.(*ast.CallExpr); ok && isIdent(c.Fun, "make") && len(c.Args) >= 1 {
					if _, ok := c.Args[0].(*ast.ChanType); ok && i < len(t.Lhs) {
						l := text(t.Lhs[i])
						if strings.HasSuffix(l, "Res") || strings.HasSuffix(l, "res") {
							found = true
						}
					}
				}
			}
		case *ast.KeyValueExpr:
			if k, ok := t.Key.(*ast.Ident); ok && (k.Name == "res" || k.Name == "Res") {
				if c, ok := t.Value.(*ast.CallExpr); ok && isIdent(c.Fun, "make") {
					found = true
				}
			}
		}
		return true
	})
	return found
}

// recvOf returns the channel expression if the statement is a receive (`<-c`, `x := <-c`, `return <-c`)
func recvExprs(n ast.Node) []ast.Expr {
	var out []ast.Expr
	ast.Inspect(n, func(m ast.Node) bool {
		switch t := m.(type) {
		case *ast.FuncLit:
			return false
		case *ast.SelectStmt:
			return false
		case *ast.UnaryExpr:
			if t.Op == token.ARROW {
				out = append(out, t.X)
			}
		}
		return true
	})
	return out
}

type walker struct {
	in     *fnT
	locals map[string]string
	makes  bool
	ops    []opT
}

func (w *walker) add(o opT, pos token.Pos) {
	o.fn = w.in.key
	o.line = fset.Position(pos).Line
	if o.site == 0 {
		o.site = o.line
	}
	w.ops = append(w.ops, o)
}

func (w *walker) roleOfSend(ch ast.Expr) (string, string) {
	ci := classifyChan(ch, w.in, w.locals)
	switch ci.kind {
	case "request":
		return "request", ci.owner
	case "reply":
		return "reply", "client"
	}
	return "other", ""
}

func (w *walker) roleOfRecv(ch ast.Expr, mainLoop bool) (string, string) {
	ci := classifyChan(ch, w.in, w.locals)
	switch ci.kind {
	case "request":
		if mainLoop && ci.owner == clsOfType[w.in.typ] {
			return "mainRecv", ci.owner
		}
		return "other", ci.owner
	case "reply":
		return "awaitReply", ""
	case "done":
		return "join", ci.owner
	case "ctxDone":
		return "doneArm", ci.owner
	case "timer":
		return "timer", ""
	case "event":
		return "event", ""
	}
	return "other", ""
}

// stmts walks a statement list outside any select
func (w *walker) stmts(list []ast.Stmt, inLoop bool) {
	for i, s := range list {
		w.stmt(s, inLoop, list, i)
	}
}

func (w *walker) stmt(s ast.Stmt, inLoop bool, sibl []ast.Stmt, idx int) {
	switch t := s.(type) {
	case *ast.SelectStmt:
		w.selectStmt(t, inLoop)
	case *ast.ForStmt:
		// `for { select {…} }` directly in run/runInner = the main loop
		main := t.Cond == nil && t.Init == nil && t.Post == nil &&
			(w.in.decl.Name.Name == "run" || w.in.decl.Name.Name == "runInner")
		w.stmts(t.Body.List, main)
	case *ast.RangeStmt:
		w.stmts(t.Body.List, false)
	case *ast.BlockStmt:
		w.stmts(t.List, false)
	case *ast.IfStmt:
		w.exprOps(t.Cond, t.Pos())
		w.stmts(t.Body.List, false)
		if t.Else != nil {
			w.stmt(t.Else, false, nil, 0)
		}
	case *ast.LabeledStmt:
		w.stmt(t.Stmt, inLoop, sibl, idx)
	case *ast.SwitchStmt:
		for _, c := range t.Body.List {
			w.stmts(c.(*ast.CaseClause).Body, false)
		}
	case *ast.TypeSwitchStmt:
		for _, c := range t.Body.List {
			w.stmts(c.(*ast.CaseClause).Body, false)
		}
	case *ast.SendStmt:
		role, peer := w.roleOfSend(t.Chan)
		o := opT{ch: text(t.Chan), role: role, peer: peer}
		if role == "request" {
			o.expectsReply = w.makes
			// reply read right after an unguarded send?
			if idx+1 < len(sibl) {
				for _, r := range recvExprs(sibl[idx+1]) {
					if classifyChan(r, w.in, w.locals).kind == "reply" {
						o.replyRead = true
					}
				}
			}
		}
		w.add(o, t.Pos())
	case *ast.DeferStmt:
		// defer close(x.done) / defer x.wg.Done()
		w.callOps(t.Call, true)
	case *ast.GoStmt:
		// the spawned function is a root of its own; nothing blocks here
	default:
		ast.Inspect(s, func(n ast.Node) bool {
			switch e := n.(type) {
			case *ast.FuncLit:
				// closures are walked as part of the function (they run on the same goroutine here)
				w.stmts(e.Body.List, false)
				return false
			case *ast.UnaryExpr:
				if e.Op == token.ARROW {
					role, peer := w.roleOfRecv(e.X, false)
					// draining a timer created with NewTimer(0) is not a rendezvous
					w.add(opT{ch: text(e.X), role: role, peer: peer}, e.Pos())
				}
			case *ast.CallExpr:
				w.callOps(e, false)
			}
			return true
		})
	}
}

func (w *walker) exprOps(e ast.Expr, pos token.Pos) {
	for _, r := range recvExprs(e) {
		role, peer := w.roleOfRecv(r, false)
		w.add(opT{ch: text(r), role: role, peer: peer}, pos)
	}
}

func (w *walker) callOps(c *ast.CallExpr, deferred bool) {
	if isIdent(c.Fun, "close") && len(c.Args) == 1 {
		ci := classifyChan(c.Args[0], w.in, w.locals)
		switch ci.kind {
		case "reply":
			w.add(opT{ch: "close(" + text(c.Args[0]) + ")", role: "reply", peer: "client"}, c.Pos())
		case "done":
			w.add(opT{ch: "close(" + text(c.Args[0]) + ")", role: "closeDone", peer: ci.owner}, c.Pos())
		default:
			w.add(opT{ch: "close(" + text(c.Args[0]) + ")", role: "other"}, c.Pos())
		}
		return
	}
	if s, ok := c.Fun.(*ast.SelectorExpr); ok && s.Sel.Name == "Wait" {
		if s2, ok := s.X.(*ast.SelectorExpr); ok && s2.Sel.Name == "wg" {
			if xt := typeOfExpr(s2.X, w.in); xt != "" {
				w.add(opT{ch: text(s.X) + ".Wait()", role: "join", peer: "wg:" + xt}, c.Pos())
			}
		}
	}
}

func (w *walker) selectStmt(sel *ast.SelectStmt, mainLoop bool) {
	var dCore, dPM, dPath, dParam, hasDefault bool
	for _, cl := range sel.Body.List {
		cc := cl.(*ast.CommClause)
		if cc.Comm == nil {
			hasDefault = true
			continue
		}
		for _, r := range recvExprs(cc.Comm) {
			ci := classifyChan(r, w.in, w.locals)
			if ci.kind == "ctxDone" {
				switch ci.owner {
				case "core":
					dCore = true
				case "pm":
					dPM = true
				case "path":
					dPath = true
				default:
					dParam = true
				}
			}
		}
	}
	for _, cl := range sel.Body.List {
		cc := cl.(*ast.CommClause)
		if cc.Comm == nil {
			w.stmts(cc.Body, false)
			continue
		}
		o := opT{inSelect: true, dCore: dCore, dPM: dPM, dPath: dPath, dParam: dParam, hasDefault: hasDefault, mainLoop: mainLoop,
			site: fset.Position(sel.Pos()).Line}
		switch t := cc.Comm.(type) {
		case *ast.SendStmt:
			o.ch = text(t.Chan)
			o.role, o.peer = w.roleOfSend(t.Chan)
			if o.role == "request" {
				o.expectsReply = w.makes
				if len(cc.Body) > 0 {
					for _, r := range recvExprs(cc.Body[0]) {
						if classifyChan(r, w.in, w.locals).kind == "reply" {
							o.replyRead = true
						}
					}
				}
			}
		default:
			rs := recvExprs(cc.Comm)
			if len(rs) != 1 {
				die("%s: select arm with %d receives (line %d)", w.in.key, len(rs), fset.Position(cc.Pos()).Line)
			}
			o.ch = text(rs[0])
			o.role, o.peer = w.roleOfRecv(rs[0], mainLoop)
		}
		w.add(o, cc.Pos())
		w.stmts(cc.Body, false)
	}
}

func main() {
	repo := flag.String("repo", "/repo", "repository root")
	out := flag.String("out", "", "lean source root")
	flag.Parse()

	files := []string{"core.go", "path_manager.go", "path.go"}
	var parsed []*ast.File
	for _, fn := range files {
		f, err := parser.ParseFile(fset, filepath.Join(*repo, "internal/core", fn), nil, 0)
		if err != nil {
			die("parse: %v", err)
		}
		parsed = append(parsed, f)
	}
	// declarations
	for fi, f := range parsed {
		for _, d := range f.Decls {
			switch t := d.(type) {
			case *ast.GenDecl:
				if t.Tok != token.TYPE {
					continue
				}
				for _, s := range t.Specs {
					ts := s.(*ast.TypeSpec)
					switch u := ts.Type.(type) {
					case *ast.StructType:
						m := map[string]ast.Expr{}
						for _, fl := range u.Fields.List {
							for _, n := range fl.Names {
								m[n.Name] = fl.Type
							}
						}
						fields[ts.Name.Name] = m
					case *ast.InterfaceType:
						var ms []string
						for _, fl := range u.Methods.List {
							for _, n := range fl.Names {
								ms = append(ms, n.Name)
							}
						}
						ifaces[ts.Name.Name] = ms
					}
				}
			case *ast.FuncDecl:
				if t.Recv == nil || t.Body == nil || len(t.Recv.List) != 1 {
					continue
				}
				typ := baseType(t.Recv.List[0].Type)
				ok := false
				for _, o := range ourTypes {
					if o == typ {
						ok = true
					}
				}
				if !ok {
					continue
				}
				rn := ""
				if len(t.Recv.List[0].Names) == 1 {
					rn = t.Recv.List[0].Names[0].Name
				}
				if c, has := convName[rn]; has && c != typ {
					die("receiver %s of %s.%s breaks the naming convention the resolver relies on", rn, typ, t.Name.Name)
				}
				k := typ + "." + t.Name.Name
				fns[k] = &fnT{key: k, typ: typ, decl: t, recv: rn, file: files[fi], cls: map[string]bool{}}
				methods[t.Name.Name] = append(methods[t.Name.Name], typ)
			}
		}
	}
	for _, r := range []string{"Core.run", "pathManager.run", "path.run"} {
		if fns[r] == nil {
			die("loop %s not found", r)
		}
	}

	// call graph
	type edge struct {
		to    string
		spawn bool
	}
	calls := map[string][]edge{}
	callSites := map[string][][2]any{} // callee -> (caller fn, call expr)
	for _, f := range fns {
		var visit func(n ast.Node, spawned bool)
		visit = func(n ast.Node, spawned bool) {
			ast.Inspect(n, func(m ast.Node) bool {
				switch t := m.(type) {
				case *ast.GoStmt:
					visit(t.Call, true)
					return false
				case *ast.CallExpr:
					if s, ok := t.Fun.(*ast.SelectorExpr); ok {
						if len(methods[s.Sel.Name]) > 0 {
							rt := typeOfExpr(s.X, f)
							if rt == "" && len(methods[s.Sel.Name]) == 1 {
								// unique method name among the three types, receiver not resolvable: only accept
								// when the receiver is not obviously something else (a field of another package)
								rt = ""
							}
							if rt != "" && fns[rt+"."+s.Sel.Name] != nil {
								calls[f.key] = append(calls[f.key], edge{rt + "." + s.Sel.Name, spawned})
								callSites[rt+"."+s.Sel.Name] = append(callSites[rt+"."+s.Sel.Name], [2]any{f, t})
							}
						}
					}
					spawned = false
				}
				return true
			})
		}
		visit(f.decl.Body, false)
	}
	// classes: reachability from the three loops; `go x.m()` starts class aux (unless m is a loop)
	var mark func(k, cls string)
	mark = func(k, cls string) {
		f := fns[k]
		if f == nil || f.cls[cls] {
			return
		}
		f.cls[cls] = true
		for _, e := range calls[k] {
			c := cls
			if e.spawn {
				if strings.HasSuffix(e.to, ".run") {
					continue
				}
				c = "aux"
			}
			mark(e.to, c)
		}
	}
	mark("Core.run", "core")
	mark("pathManager.run", "pm")
	mark("path.run", "path")
	// entry points: not reached from a loop → client goroutines (and what they call)
	for k, f := range fns {
		if len(f.cls) == 0 {
			reached := false
			for _, cs := range callSites[k] {
				_ = cs
				reached = true
			}
			if !reached {
				mark(k, "client")
			}
		}
	}
	for k, f := range fns {
		if len(f.cls) == 0 {
			mark(k, "client")
		}
	}

	// ops
	var ops []opT
	keys := make([]string, 0, len(fns))
	for k := range fns {
		keys = append(keys, k)
	}
	sort.Slice(keys, func(i, j int) bool {
		a, b := fns[keys[i]], fns[keys[j]]
		if a.file != b.file {
			return a.file < b.file
		}
		return a.decl.Pos() < b.decl.Pos()
	})
	cancelsBefore := func(body []ast.Stmt, upto token.Pos) bool {
		found := false
		for _, s := range body {
			if s.Pos() >= upto {
				break
			}
			ast.Inspect(s, func(n ast.Node) bool {
				if c, ok := n.(*ast.CallExpr); ok {
					if sel, ok := c.Fun.(*ast.SelectorExpr); ok && sel.Sel.Name == "ctxCancel" {
						found = true
					}
				}
				return true
			})
		}
		return found
	}
	exitCancels := map[string]bool{}
	for _, k := range keys {
		f := fns[k]
		w := &walker{in: f, locals: scanLocals(f.decl.Body), makes: makesReplyChan(f.decl.Body)}
		w.stmts(f.decl.Body.List, false)
		for i := range w.ops {
			o := &w.ops[i]
			// drain of a fresh timer: `t := time.NewTimer(0); <-t.C`
			if o.role == "join" {
				pos := token.Pos(0)
				// find the op position again (line based)
				for _, s := range f.decl.Body.List {
					if fset.Position(s.Pos()).Line <= o.line {
						pos = s.Pos()
					}
				}
				if cancelsBefore(f.decl.Body.List, pos) {
					o.afterCancel = true
				} else if len(f.decl.Body.List) == 1 && len(callSites[k]) > 0 {
					// one-statement wrapper (x.wait()): every call site must be preceded by x.close()
					// whose body is x.ctxCancel()
					all := true
					for _, cs := range callSites[k] {
						caller := cs[0].(*fnT)
						call := cs[1].(*ast.CallExpr)
						recvTxt := text(call.Fun.(*ast.SelectorExpr).X)
						ok := false
						ast.Inspect(caller.decl.Body, func(n ast.Node) bool {
							bl, isB := n.(*ast.BlockStmt)
							if !isB {
								return true
							}
							for i, s := range bl.List {
								es, isE := s.(*ast.ExprStmt)
								if !isE || es.X != ast.Expr(call) || i == 0 {
									continue
								}
								if pe, isE := bl.List[i-1].(*ast.ExprStmt); isE {
									if pc, isC := pe.X.(*ast.CallExpr); isC {
										if ps, isS := pc.Fun.(*ast.SelectorExpr); isS && text(ps.X) == recvTxt {
											if cf := fns[f.typ+"."+ps.Sel.Name]; cf != nil && len(cf.decl.Body.List) == 1 &&
												cancelsBefore(cf.decl.Body.List, cf.decl.Body.End()) {
												ok = true
											}
										}
									}
								}
							}
							return true
						})
						if !ok {
							all = false
						}
					}
					o.afterCancel = all
				}
			}
		}
		// an awaited reply comes from the loop the preceding request of the same function went to
		lastPeer := ""
		for i := range w.ops {
			if w.ops[i].role == "request" {
				lastPeer = w.ops[i].peer
			}
			if w.ops[i].role == "awaitReply" {
				if lastPeer == "" {
					w.ops[i].role = "other"
				}
				w.ops[i].peer = lastPeer
			}
		}
		// one row per executing class
		var cl []string
		for c := range f.cls {
			cl = append(cl, c)
		}
		sort.Strings(cl)
		for _, c := range cl {
			for _, o := range w.ops {
				o.cls = c
				ops = append(ops, o)
			}
		}
		if f.decl.Name.Name == "run" {
			// the loop function cancels its own context after the loop (or after runInner returned)
			found := false
			seenLoop := false
			for _, s := range f.decl.Body.List {
				isLoop := false
				ast.Inspect(s, func(n ast.Node) bool {
					switch t := n.(type) {
					case *ast.ForStmt:
						isLoop = true
					case *ast.CallExpr:
						if sel, ok := t.Fun.(*ast.SelectorExpr); ok && sel.Sel.Name == "runInner" {
							isLoop = true
						}
					}
					return true
				})
				if isLoop {
					seenLoop = true
					continue
				}
				if seenLoop {
					ast.Inspect(s, func(n ast.Node) bool {
						if c, ok := n.(*ast.CallExpr); ok {
							if sel, ok := c.Fun.(*ast.SelectorExpr); ok && sel.Sel.Name == "ctxCancel" {
								found = true
							}
						}
						return true
					})
				}
			}
			exitCancels[f.typ] = found
		}
	}
	// drop the drain of a zero timer in emptyTimer (plain function, not a method: never walked) — nothing to do.

	// which loops does the shared WaitGroup count?  (x.wg.Done() deferred in run)
	wgClasses := []string{}
	for _, t := range ourTypes {
		f := fns[t+".run"]
		has := false
		ast.Inspect(f.decl.Body, func(n ast.Node) bool {
			if d, ok := n.(*ast.DeferStmt); ok {
				if s, ok := d.Call.Fun.(*ast.SelectorExpr); ok && s.Sel.Name == "Done" && strings.HasSuffix(text(s.X), ".wg") {
					has = true
				}
			}
			return true
		})
		if has {
			wgClasses = append(wgClasses, clsOfType[t])
		}
	}
	// expand wg joins: one row per counted class
	var ops2 []opT
	for _, o := range ops {
		if strings.HasPrefix(o.peer, "wg:") {
			for _, c := range wgClasses {
				o2 := o
				o2.peer = c
				ops2 = append(ops2, o2)
			}
			continue
		}
		ops2 = append(ops2, o)
	}
	ops = ops2

	// ----- emit -----
	fnID := map[string]int{}
	var fnNames []string
	chID := map[string]int{}
	var chNames []string
	id := func(m map[string]int, l *[]string, s string) int {
		if v, ok := m[s]; ok {
			return v
		}
		m[s] = len(*l)
		*l = append(*l, s)
		return m[s]
	}
	clsLean := map[string]string{"client": ".client", "core": ".core", "pm": ".pm", "path": ".path", "aux": ".aux", "": ".client", "param": ".client"}
	var b strings.Builder
	w := func(format string, a ...any) { fmt.Fprintf(&b, format+"\n", a...) }
	w("/- GENERATED by tools/xlate/c40 from internal/core/{core,path_manager,path}.go — do not edit. -/")
	w("import MtxVerif.Model.C40")
	w("namespace MtxVerif.Gen.C40")
	w("open MtxVerif.C40")
	w("")
	w("def ops : List Op := [")
	for i, o := range ops {
		sep := ","
		if i == len(ops)-1 {
			sep = ""
		}
		peer := o.peer
		if _, ok := clsLean[peer]; !ok {
			peer = ""
		}
		w("  { fn := %d, line := %d, site := %d, chan := %d, role := .%s, cls := %s, peer := %s, inSelect := %v, mainLoop := %v,\n    doneCore := %v, donePM := %v, donePath := %v, doneParam := %v, hasDefault := %v,\n    expectsReply := %v, replyRead := %v, afterCancel := %v }%s  -- %s:%d %s",
			id(fnID, &fnNames, o.fn), o.line, o.site, id(chID, &chNames, o.ch), o.role, clsLean[o.cls], clsLean[peer],
			o.inSelect, o.mainLoop, o.dCore, o.dPM, o.dPath, o.dParam, o.hasDefault, o.expectsReply, o.replyRead,
			o.afterCancel, sep, o.fn, o.line, o.ch)
	}
	w("]")
	w("")
	q := func(l []string) string {
		s := make([]string, len(l))
		for i, x := range l {
			s[i] = fmt.Sprintf("%q", x)
		}
		return "[" + strings.Join(s, ", ") + "]"
	}
	w("def fnNames : List String := %s", q(fnNames))
	w("def chanNames : List String := %s", q(chNames))
	w("")
	w("/-- every loop cancels its own context when it leaves the loop (so: exited ⇒ cancelled) -/")
	w("def exitCancelsCore : Bool := %v", exitCancels["Core"])
	w("def exitCancelsPM : Bool := %v", exitCancels["pathManager"])
	w("def exitCancelsPath : Bool := %v", exitCancels["path"])
	w("/-- loops counted by the shared WaitGroup: %s -/", strings.Join(wgClasses, " "))
	w("def wgCountsPM : Bool := %v", contains(wgClasses, "pm"))
	w("def wgCountsPath : Bool := %v", contains(wgClasses, "path"))
	w("")
	emitLocks(w, lockTable(*repo))
	w("end MtxVerif.Gen.C40")

	dst := filepath.Join(*out, "MtxVerif/Gen/C40.lean")
	if err := os.MkdirAll(filepath.Dir(dst), 0o755); err != nil {
		die("%v", err)
	}
	if err := os.WriteFile(dst, []byte(b.String()), 0o644); err != nil {
		die("%v", err)
	}
	fmt.Printf("xlate/c40: %d functions, %d channel operations\n", len(fns), len(ops))
}

func contains(l []string, s string) bool {
	for _, x := range l {
		if x == s {
			return true
		}
	}
	return false
}
