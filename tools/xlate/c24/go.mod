module mtxverif/xlate/c24

go 1.21
