// Translator for property C24 (timestamp scaling is exact).
//
// Finds every function named multiplyAndDivide*, timestampToDuration, durationToTimestamp,
// durationGoToMp4, durationMp4ToGo in the repository, translates its straight-line int64 body into a
// Lean definition over Int with explicit 64-bit wrap-around (primitives MtxVerif.C24.I64.*), and lists
// the call sites of the three-argument copies together with their syntactically constant rate arguments.
//
//	go run . -repo /repo -out /verif/lean      (writes MtxVerif/Gen/C24.lean)
//
// A function whose body is outside the supported fragment is NOT emitted (a comment says why); the
// theorems in Props/C24.lean that name it then fail to build, which is the intended signal.
package main

import (
	"flag"
	"fmt"
	"go/ast"
	"go/parser"
	"go/token"
	"go/types"
	"math/big"
	"os"
	"path/filepath"
	"regexp"
	"sort"
	"strings"
)

var targetRe = regexp.MustCompile(`^(multiplyAndDivide[0-9]*|timestampToDuration|durationToTimestamp|durationGoToMp4|durationMp4ToGo)$`)

// helper of the proposed repair: trusted primitive (see Model/C24.lean, I64.mulDivTrunc128)
const fixHelper = "mulDivTrunc128"

type kind int

const (
	kI64   kind = iota // int64, time.Duration, int (64 bit)
	kU32               // uint32: may only appear under a widening conversion
	kConst             // untyped constant
)

var timeUnits = map[string]int64{
	"Nanosecond": 1, "Microsecond": 1000, "Millisecond": 1000000, "Second": 1000000000,
	"Minute": 60 * 1000000000, "Hour": 3600 * 1000000000,
}

var leanKeywords = map[string]bool{
	"at": true, "from": true, "do": true, "let": true, "fun": true, "if": true, "then": true, "else": true,
	"end": true, "in": true, "with": true, "match": true, "have": true, "show": true, "by": true, "def": true,
	"theorem": true, "open": true, "import": true, "where": true, "pure": true, "some": true, "none": true,
	"return": true, "for": true, "mut": true, "type": true, "Type": true, "Prop": true, "Int": true,
}

func leanIdent(s string) string {
	if leanKeywords[s] || strings.HasPrefix(s, "t_") {
		return s + "_"
	}
	return s
}

type copyFn struct {
	pkgDir  string // e.g. internal/protocols/rtmp
	file    string
	line    int
	name    string
	lean    string // Lean identifier
	arity   int
	body    string // Lean def text ("" if not translatable)
	err     string
	usesFix bool
	callees []string
}

type site struct {
	copyLean string
	file     string
	line     int
	m, d     *big.Int
}

func typeKind(e ast.Expr) (kind, bool) {
	switch t := e.(type) {
	case *ast.Ident:
		switch t.Name {
		case "int64", "int":
			return kI64, true
		case "uint32":
			return kU32, true
		}
	case *ast.SelectorExpr:
		if x, ok := t.X.(*ast.Ident); ok && x.Name == "time" && t.Sel.Name == "Duration" {
			return kI64, true
		}
	}
	return 0, false
}

func isConvTarget(e ast.Expr) bool {
	k, ok := typeKind(e)
	return ok && k == kI64
}

// Inline conversions between nanoseconds and an MP4 time scale that do not go through one of the helpers
// (round 2): the right-hand side of one assignment in a named function, translated with the listed free
// variables as parameters.
type inlineVar struct {
	expr string // printed Go expression
	lean string // parameter name
	k    kind
}

type inlineSite struct {
	file string
	fn   string
	lhs  string
	lean string
	vars []inlineVar
}

var inlineSites = []inlineSite{
	{"internal/recorder/format_fmp4_segment.go", "writeDuration", "mvhd.DurationV0",
		"recorder_writeDuration_mvhdDuration", []inlineVar{{"d", "d", kI64}}},
	{"internal/playback/segment_fmp4.go", "segmentFMP4ReadHeader", "d",
		"playback_readHeader_duration", []inlineVar{{"mvhd.DurationV0", "durationV0", kU32}, {"mvhd.Timescale", "timescale", kU32}}},
}

type xl struct {
	free    map[string]inlineVar
	pkgLean string
	targets map[string]int // same-package target functions -> arity
	vars    map[string]kind
	lines   []string
	ntmp    int
	usesFix bool
	callees []string
}

func (x *xl) tmp() string {
	x.ntmp++
	return fmt.Sprintf("t_%d", x.ntmp)
}

func (x *xl) expr(e ast.Expr) (string, kind, error) {
	if x.free != nil {
		if v, ok := x.free[types.ExprString(e)]; ok {
			return v.lean, v.k, nil
		}
	}
	switch t := e.(type) {
	case *ast.ParenExpr:
		return x.expr(t.X)
	case *ast.Ident:
		k, ok := x.vars[t.Name]
		if !ok {
			return "", 0, fmt.Errorf("unknown identifier %s", t.Name)
		}
		return leanIdent(t.Name), k, nil
	case *ast.BasicLit:
		if t.Kind == token.INT {
			v, ok := new(big.Int).SetString(t.Value, 0)
			if !ok {
				return "", 0, fmt.Errorf("bad literal %s", t.Value)
			}
			return "(" + v.String() + " : Int)", kConst, nil
		}
		return "", 0, fmt.Errorf("unsupported literal %s", t.Value)
	case *ast.SelectorExpr:
		if p, ok := t.X.(*ast.Ident); ok && p.Name == "time" {
			if v, ok := timeUnits[t.Sel.Name]; ok {
				return fmt.Sprintf("(%d : Int)", v), kI64, nil
			}
		}
		return "", 0, fmt.Errorf("unsupported selector")
	case *ast.UnaryExpr:
		if t.Op == token.SUB {
			a, k, err := x.expr(t.X)
			if err != nil {
				return "", 0, err
			}
			if k == kU32 {
				return "", 0, fmt.Errorf("arithmetic on uint32")
			}
			n := x.tmp()
			x.lines = append(x.lines, fmt.Sprintf("let %s := I64.neg %s", n, a))
			return n, kI64, nil
		}
		return "", 0, fmt.Errorf("unsupported unary operator %s", t.Op)
	case *ast.CallExpr:
		if id, ok := t.Fun.(*ast.Ident); ok && id.Name == "uint32" && len(t.Args) == 1 && x.free != nil {
			// narrowing conversion: keeps the low 32 bits
			a, k, err := x.expr(t.Args[0])
			if err != nil {
				return "", 0, err
			}
			if k == kU32 {
				return a, kU32, nil
			}
			n := x.tmp()
			x.lines = append(x.lines, fmt.Sprintf("let %s := I64.toU32 %s", n, a))
			return n, kU32, nil
		}
		if isConvTarget(t.Fun) && len(t.Args) == 1 {
			a, k, err := x.expr(t.Args[0])
			if err != nil {
				return "", 0, err
			}
			if k == kU32 {
				n := x.tmp()
				x.lines = append(x.lines, fmt.Sprintf("let %s := I64.ofU32 %s", n, a))
				return n, kI64, nil
			}
			return a, kI64, nil // int64 <-> Duration <-> int: identity on 64-bit values
		}
		if id, ok := t.Fun.(*ast.Ident); ok {
			ar, isTarget := x.targets[id.Name]
			isFix := id.Name == fixHelper
			if (isTarget && ar == len(t.Args)) || (isFix && len(t.Args) == 3) {
				var args []string
				for _, a := range t.Args {
					s, k, err := x.expr(a)
					if err != nil {
						return "", 0, err
					}
					if k == kU32 {
						return "", 0, fmt.Errorf("uint32 passed without conversion")
					}
					args = append(args, s)
				}
				n := x.tmp()
				if isFix {
					x.usesFix = true
					x.lines = append(x.lines, fmt.Sprintf("let %s ← I64.mulDivTrunc128 %s", n, strings.Join(args, " ")))
				} else {
					x.callees = append(x.callees, x.pkgLean+"_"+id.Name)
					x.lines = append(x.lines, fmt.Sprintf("let %s ← %s_%s %s", n, x.pkgLean, id.Name, strings.Join(args, " ")))
				}
				return n, kI64, nil
			}
		}
		return "", 0, fmt.Errorf("unsupported call")
	case *ast.BinaryExpr:
		a, ka, err := x.expr(t.X)
		if err != nil {
			return "", 0, err
		}
		b, kb, err := x.expr(t.Y)
		if err != nil {
			return "", 0, err
		}
		if ka == kU32 || kb == kU32 {
			return "", 0, fmt.Errorf("arithmetic on uint32")
		}
		n := x.tmp()
		switch t.Op {
		case token.ADD:
			x.lines = append(x.lines, fmt.Sprintf("let %s := I64.add %s %s", n, a, b))
		case token.SUB:
			x.lines = append(x.lines, fmt.Sprintf("let %s := I64.sub %s %s", n, a, b))
		case token.MUL:
			x.lines = append(x.lines, fmt.Sprintf("let %s := I64.mul %s %s", n, a, b))
		case token.QUO:
			x.lines = append(x.lines, fmt.Sprintf("let %s ← I64.div %s %s", n, a, b))
		case token.REM:
			x.lines = append(x.lines, fmt.Sprintf("let %s ← I64.mod %s %s", n, a, b))
		default:
			return "", 0, fmt.Errorf("unsupported operator %s", t.Op)
		}
		return n, kI64, nil
	}
	return "", 0, fmt.Errorf("unsupported expression %T", e)
}

func pkgLeanName(dir string) string {
	d := strings.TrimPrefix(filepath.ToSlash(dir), "internal/")
	d = strings.NewReplacer("/", "_", "-", "_", ".", "_").Replace(d)
	if d == "" {
		d = "root"
	}
	return d
}

func translate(fset *token.FileSet, fd *ast.FuncDecl, c *copyFn, targets map[string]int) {
	x := &xl{pkgLean: pkgLeanName(c.pkgDir), targets: targets, vars: map[string]kind{}}
	var params []string
	for _, f := range fd.Type.Params.List {
		k, ok := typeKind(f.Type)
		if !ok {
			c.err = "unsupported parameter type"
			return
		}
		for _, n := range f.Names {
			x.vars[n.Name] = k
			params = append(params, leanIdent(n.Name))
		}
	}
	if fd.Type.Results == nil || len(fd.Type.Results.List) != 1 {
		c.err = "unsupported result list"
		return
	}
	if k, ok := typeKind(fd.Type.Results.List[0].Type); !ok || k != kI64 {
		c.err = "unsupported result type"
		return
	}
	returned := false
	for _, st := range fd.Body.List {
		if returned {
			c.err = "statement after return"
			return
		}
		switch s := st.(type) {
		case *ast.AssignStmt:
			if s.Tok != token.DEFINE || len(s.Lhs) != 1 || len(s.Rhs) != 1 {
				c.err = "unsupported assignment"
				return
			}
			id, ok := s.Lhs[0].(*ast.Ident)
			if !ok {
				c.err = "unsupported assignment target"
				return
			}
			v, k, err := x.expr(s.Rhs[0])
			if err != nil {
				c.err = err.Error()
				return
			}
			if k == kU32 {
				c.err = "uint32 local"
				return
			}
			if _, dup := x.vars[id.Name]; dup {
				c.err = "redeclared variable"
				return
			}
			x.vars[id.Name] = kI64
			x.lines = append(x.lines, fmt.Sprintf("let %s := %s", leanIdent(id.Name), v))
		case *ast.ReturnStmt:
			if len(s.Results) != 1 {
				c.err = "unsupported return"
				return
			}
			v, k, err := x.expr(s.Results[0])
			if err != nil {
				c.err = err.Error()
				return
			}
			if k == kU32 {
				c.err = "uint32 returned"
				return
			}
			x.lines = append(x.lines, "pure "+v)
			returned = true
		default:
			c.err = fmt.Sprintf("unsupported statement %T", st)
			return
		}
	}
	if !returned {
		c.err = "no return"
		return
	}
	var sb strings.Builder
	fmt.Fprintf(&sb, "/-- %s:%d `%s` -/\n", c.file, c.line, c.name)
	fmt.Fprintf(&sb, "def %s (%s : Int) : Option Int := do\n", c.lean, strings.Join(params, " "))
	for _, l := range x.lines {
		sb.WriteString("  " + l + "\n")
	}
	c.body = sb.String()
	c.arity = len(params)
	c.usesFix = x.usesFix
	c.callees = x.callees
}

// constant value of a syntactically constant integer expression
func constVal(e ast.Expr) *big.Int {
	switch t := e.(type) {
	case *ast.ParenExpr:
		return constVal(t.X)
	case *ast.BasicLit:
		switch t.Kind {
		case token.INT:
			v, ok := new(big.Int).SetString(t.Value, 0)
			if ok {
				return v
			}
		case token.FLOAT:
			f, ok := new(big.Float).SetPrec(200).SetString(t.Value)
			if ok && f.IsInt() {
				v, _ := f.Int(nil)
				return v
			}
		}
	case *ast.SelectorExpr:
		if p, ok := t.X.(*ast.Ident); ok && p.Name == "time" {
			if v, ok := timeUnits[t.Sel.Name]; ok {
				return big.NewInt(v)
			}
		}
	case *ast.CallExpr:
		if isConvTarget(t.Fun) && len(t.Args) == 1 {
			return constVal(t.Args[0])
		}
	case *ast.BinaryExpr:
		a, b := constVal(t.X), constVal(t.Y)
		if a == nil || b == nil {
			return nil
		}
		switch t.Op {
		case token.MUL:
			return new(big.Int).Mul(a, b)
		case token.ADD:
			return new(big.Int).Add(a, b)
		case token.SUB:
			return new(big.Int).Sub(a, b)
		}
	}
	return nil
}

func optInt(v *big.Int) string {
	if v == nil {
		return "none"
	}
	return "some (" + v.String() + ")"
}

func main() {
	repo := flag.String("repo", "/repo", "repository root")
	out := flag.String("out", "", "lean source root")
	flag.Parse()
	if *out == "" {
		fmt.Fprintln(os.Stderr, "usage: -repo DIR -out LEANDIR")
		os.Exit(2)
	}

	type pfile struct {
		rel string
		f   *ast.File
	}
	pkgs := map[string][]pfile{} // dir -> files
	fset := token.NewFileSet()
	err := filepath.Walk(*repo, func(p string, info os.FileInfo, err error) error {
		if err != nil {
			return err
		}
		if info.IsDir() {
			n := info.Name()
			if p != *repo && (strings.HasPrefix(n, ".") || n == "vendor" || n == "testdata" || n == "node_modules") {
				return filepath.SkipDir
			}
			return nil
		}
		if !strings.HasSuffix(p, ".go") || strings.HasSuffix(p, "_test.go") {
			return nil
		}
		src, err := os.ReadFile(p)
		if err != nil {
			return err
		}
		// cheap pre-filter
		relp, _ := filepath.Rel(*repo, p)
		isInline := false
		for _, is := range inlineSites {
			if filepath.ToSlash(relp) == is.file {
				isInline = true
			}
		}
		if !(isInline || strings.Contains(string(src), "multiplyAndDivide") ||
			strings.Contains(string(src), "timestampToDuration") || strings.Contains(string(src), "durationToTimestamp") ||
			strings.Contains(string(src), "durationGoToMp4") || strings.Contains(string(src), "durationMp4ToGo")) {
			return nil
		}
		f, err := parser.ParseFile(fset, p, src, parser.SkipObjectResolution)
		if err != nil {
			return fmt.Errorf("parse %s: %v", p, err)
		}
		rel, _ := filepath.Rel(*repo, p)
		rel = filepath.ToSlash(rel)
		dir := filepath.ToSlash(filepath.Dir(rel))
		pkgs[dir] = append(pkgs[dir], pfile{rel, f})
		return nil
	})
	if err != nil {
		fmt.Fprintln(os.Stderr, "c24 xlate:", err)
		os.Exit(1)
	}

	var dirs []string
	for d := range pkgs {
		dirs = append(dirs, d)
	}
	sort.Strings(dirs)

	var copies []*copyFn
	var sites []site
	for _, dir := range dirs {
		files := pkgs[dir]
		sort.Slice(files, func(i, j int) bool { return files[i].rel < files[j].rel })
		targets := map[string]int{}
		decls := map[string]*ast.FuncDecl{}
		declFile := map[string]string{}
		for _, pf := range files {
			for _, d := range pf.f.Decls {
				fd, ok := d.(*ast.FuncDecl)
				if !ok || fd.Recv != nil || fd.Body == nil || !targetRe.MatchString(fd.Name.Name) {
					continue
				}
				if _, dup := decls[fd.Name.Name]; dup {
					fmt.Fprintf(os.Stderr, "c24 xlate: %s: duplicate %s (build-tag variants are not supported)\n", dir, fd.Name.Name)
					os.Exit(1)
				}
				n := 0
				for _, f := range fd.Type.Params.List {
					n += len(f.Names)
				}
				targets[fd.Name.Name] = n
				decls[fd.Name.Name] = fd
				declFile[fd.Name.Name] = pf.rel
			}
		}
		var names []string
		for n := range decls {
			names = append(names, n)
		}
		// three-argument bodies first: wrappers call them
		sort.Slice(names, func(i, j int) bool {
			ai, aj := targets[names[i]], targets[names[j]]
			if ai != aj {
				return ai > aj
			}
			return names[i] < names[j]
		})
		pl := pkgLeanName(dir)
		for _, n := range names {
			fd := decls[n]
			c := &copyFn{pkgDir: dir, file: declFile[n], line: fset.Position(fd.Pos()).Line, name: n, lean: pl + "_" + n}
			translate(fset, fd, c, targets)
			copies = append(copies, c)
		}
		// call sites of the three-argument copies
		for _, pf := range files {
			ast.Inspect(pf.f, func(nd ast.Node) bool {
				ce, ok := nd.(*ast.CallExpr)
				if !ok {
					return true
				}
				id, ok := ce.Fun.(*ast.Ident)
				if !ok || targets[id.Name] != 3 || len(ce.Args) != 3 || !strings.HasPrefix(id.Name, "multiplyAndDivide") {
					return true
				}
				sites = append(sites, site{copyLean: pl + "_" + id.Name, file: pf.rel,
					line: fset.Position(ce.Pos()).Line, m: constVal(ce.Args[1]), d: constVal(ce.Args[2])})
				return true
			})
		}
	}
	sort.SliceStable(sites, func(i, j int) bool {
		if sites[i].file != sites[j].file {
			return sites[i].file < sites[j].file
		}
		return sites[i].line < sites[j].line
	})

	type inlineDef struct {
		site inlineSite
		body string
		err  string
		line int
	}
	var inlines []*inlineDef
	for _, is := range inlineSites {
		d := &inlineDef{site: is, err: "function or assignment not found"}
		inlines = append(inlines, d)
		for _, pf := range pkgs[filepath.ToSlash(filepath.Dir(is.file))] {
			if pf.rel != is.file {
				continue
			}
			for _, dd := range pf.f.Decls {
				fd, ok := dd.(*ast.FuncDecl)
				if !ok || fd.Body == nil || fd.Name.Name != is.fn {
					continue
				}
				var found []*ast.AssignStmt
				ast.Inspect(fd.Body, func(nd ast.Node) bool {
					if as, ok := nd.(*ast.AssignStmt); ok && len(as.Lhs) == 1 && len(as.Rhs) == 1 &&
						(as.Tok == token.ASSIGN || as.Tok == token.DEFINE) && types.ExprString(as.Lhs[0]) == is.lhs {
						found = append(found, as)
					}
					return true
				})
				if len(found) != 1 {
					d.err = fmt.Sprintf("%d assignments to %s", len(found), is.lhs)
					continue
				}
				x := &xl{free: map[string]inlineVar{}, targets: map[string]int{}, vars: map[string]kind{}}
				var params []string
				for _, v := range is.vars {
					x.free[v.expr] = v
					params = append(params, v.lean)
				}
				v, _, err := x.expr(found[0].Rhs[0])
				d.line = fset.Position(found[0].Pos()).Line
				if err != nil {
					d.err = err.Error()
					continue
				}
				var b strings.Builder
				fmt.Fprintf(&b, "/-- %s:%d `%s`: right-hand side of the assignment to `%s` -/\n", is.file, d.line, is.fn, is.lhs)
				fmt.Fprintf(&b, "def %s (%s : Int) : Option Int := do\n", is.lean, strings.Join(params, " "))
				for _, l := range x.lines {
					b.WriteString("  " + l + "\n")
				}
				b.WriteString("  pure " + v + "\n")
				d.body = b.String()
				d.err = ""
			}
		}
	}

	var sb strings.Builder
	sb.WriteString("/-\nGENERATED by tools/xlate/c24 from the repository working tree — do not edit.\n")
	sb.WriteString("One definition per copy of the timestamp-scaling helpers, plus the call sites of the\nthree-argument copies with their syntactically constant rate arguments.\n-/\n")
	sb.WriteString("import MtxVerif.Model.C24\n\nnamespace MtxVerif.C24.Gen\nopen MtxVerif.C24\n\n")
	n3, n2, skipped := 0, 0, 0
	byLean := map[string]*copyFn{}
	for _, c := range copies {
		byLean[c.lean] = c
	}
	for changed := true; changed; { // a wrapper is "fixed" iff a helper it calls is
		changed = false
		for _, c := range copies {
			for _, cal := range c.callees {
				if k := byLean[cal]; k != nil && k.usesFix && !c.usesFix {
					c.usesFix = true
					changed = true
				}
			}
		}
	}
	for _, c := range copies {
		if c.body == "" {
			fmt.Fprintf(&sb, "-- NOT TRANSLATED %s:%d %s: %s\n\n", c.file, c.line, c.name, c.err)
			fmt.Fprintf(os.Stderr, "c24 xlate: not translated %s:%d %s: %s\n", c.file, c.line, c.name, c.err)
			skipped++
			continue
		}
		sb.WriteString(c.body + "\n")
		fmt.Fprintf(&sb, "/-- does `%s` compute the remainder term with the repaired 128-bit helper? -/\n", c.lean)
		fmt.Fprintf(&sb, "def %s_usesFix : Bool := %v\n\n", c.lean, c.usesFix)
	}
	sb.WriteString("/-- three-argument copies `f(v, m, d)`: (name, uses the repaired remainder term, function) -/\n")
	sb.WriteString("def copies3 : List (String × Bool × (Int → Int → Int → Option Int)) := [\n")
	first := true
	for _, c := range copies {
		if c.body != "" && c.arity == 3 {
			if !first {
				sb.WriteString(",\n")
			}
			first = false
			fmt.Fprintf(&sb, "  (%q, %s_usesFix, %s)", c.lean, c.lean, c.lean)
			n3++
		}
	}
	sb.WriteString("]\n\n")
	sb.WriteString("/-- two-argument wrappers `f(x, rate)`: (name, Go function name, repaired, function) -/\n")
	sb.WriteString("def copies2 : List (String × String × Bool × (Int → Int → Option Int)) := [\n")
	first = true
	for _, c := range copies {
		if c.body != "" && c.arity == 2 {
			if !first {
				sb.WriteString(",\n")
			}
			first = false
			fmt.Fprintf(&sb, "  (%q, %q, %s_usesFix, %s)", c.lean, c.name, c.lean, c.lean)
			n2++
		}
	}
	sb.WriteString("]\n\n")
	for _, d := range inlines {
		if d.body == "" {
			fmt.Fprintf(&sb, "-- NOT TRANSLATED inline conversion %s %s (%s): %s\n\n", d.site.file, d.site.fn, d.site.lhs, d.err)
			fmt.Fprintf(os.Stderr, "c24 xlate: not translated inline conversion %s %s (%s): %s\n", d.site.file, d.site.fn, d.site.lhs, d.err)
			skipped++
			continue
		}
		sb.WriteString(d.body + "\n")
	}
	for ar := 1; ar <= 2; ar++ {
		fmt.Fprintf(&sb, "/-- inline conversions with %d free variable(s) -/\n", ar)
		ty := "Int → Option Int"
		if ar == 2 {
			ty = "Int → Int → Option Int"
		}
		fmt.Fprintf(&sb, "def inline%d : List (String × (%s)) := [", ar, ty)
		first = true
		for _, d := range inlines {
			if d.body != "" && len(d.site.vars) == ar {
				if !first {
					sb.WriteString(", ")
				}
				first = false
				fmt.Fprintf(&sb, "(%q, %s)", d.site.lean, d.site.lean)
			}
		}
		sb.WriteString("]\n\n")
	}
	sb.WriteString("/-- call sites of the three-argument copies -/\n")
	sb.WriteString("def sites : List Site := [\n")
	for i, s := range sites {
		if i > 0 {
			sb.WriteString(",\n")
		}
		fmt.Fprintf(&sb, "  ⟨%q, %q, %d, %s, %s⟩", s.copyLean, s.file, s.line, optInt(s.m), optInt(s.d))
	}
	sb.WriteString("]\n\nend MtxVerif.C24.Gen\n")

	dst := filepath.Join(*out, "MtxVerif", "Gen", "C24.lean")
	if err := os.MkdirAll(filepath.Dir(dst), 0o755); err != nil {
		fmt.Fprintln(os.Stderr, err)
		os.Exit(1)
	}
	if err := os.WriteFile(dst, []byte(sb.String()), 0o644); err != nil {
		fmt.Fprintln(os.Stderr, err)
		os.Exit(1)
	}
	fmt.Printf("c24 xlate: %d three-argument copies, %d wrappers, %d not translated, %d call sites -> %s\n",
		n3, n2, skipped, len(sites), dst)
}
