// Fact extractor for C41: where is tls.MakeConfig (internal/protocols/tls) called, with which argument, under which
// enclosing conditions, and what happens to its result?  (Re)writes lean/MtxVerif/Gen/C41.lean.  Standard library only.
//
// The property speaks about every outgoing TLS connection for which a fingerprint is configured (sources, forwarding,
// auth server, JWKS).  MakeConfig decides correctly (theorems of Props/C41) — but only if every client is given its
// result: the call must not be skipped for some URLs or replaced by another configuration.  The facts pinned here:
//
//	site     = (file, enclosing function, argument, conditions that guard the call, how the result is used)
//	literals = every composite literal `tls.Config{…}` of crypto/tls in non-test code of the client packages
//	           (a hand-made client configuration next to a pinned one is how the pin gets bypassed)
package main

import (
	"bytes"
	"flag"
	"fmt"
	"go/ast"
	"go/parser"
	"go/printer"
	"go/token"
	"os"
	"path/filepath"
	"sort"
	"strings"
)

const tlsPkg = "github.com/bluenviron/mediamtx/internal/protocols/tls"

func txt(fs *token.FileSet, n ast.Node) string {
	var b bytes.Buffer
	printer.Fprint(&b, fs, n) //nolint:errcheck
	return strings.Join(strings.Fields(b.String()), " ")
}

type site struct{ file, fn, arg, conds, use string }

func main() {
	repo := flag.String("repo", "/repo", "repository root")
	out := flag.String("out", "", "lean source root")
	flag.Parse()
	var sites []site
	var lits []string
	root := filepath.Join(*repo, "internal")
	filepath.Walk(root, func(p string, info os.FileInfo, err error) error { //nolint:errcheck
		if err != nil || info.IsDir() || !strings.HasSuffix(p, ".go") || strings.HasSuffix(p, "_test.go") {
			return nil
		}
		fs := token.NewFileSet()
		f, err := parser.ParseFile(fs, p, nil, 0)
		if err != nil {
			return nil
		}
		rel, _ := filepath.Rel(*repo, p)
		local, ctls := "", ""
		for _, im := range f.Imports {
			path := strings.Trim(im.Path.Value, `"`)
			name := filepath.Base(path)
			if im.Name != nil {
				name = im.Name.Name
			}
			if path == tlsPkg {
				local = name
			}
			if path == "crypto/tls" {
				ctls = name
			}
		}
		if local == "" && ctls == "" {
			return nil
		}
		if rel == "internal/protocols/tls/make_config.go" {
			return nil
		}
		for _, d := range f.Decls {
			fd, ok := d.(*ast.FuncDecl)
			if !ok || fd.Body == nil {
				continue
			}
			fn := fd.Name.Name
			if fd.Recv != nil && len(fd.Recv.List) == 1 {
				fn = strings.TrimPrefix(txt(fs, fd.Recv.List[0].Type), "*") + "." + fn
			}
			var stack []ast.Node
			ast.Inspect(fd.Body, func(n ast.Node) bool {
				if n == nil {
					stack = stack[:len(stack)-1]
					return true
				}
				stack = append(stack, n)
				if cl, ok := n.(*ast.CompositeLit); ok && ctls != "" {
					if se, ok := cl.Type.(*ast.SelectorExpr); ok {
						if id, ok := se.X.(*ast.Ident); ok && id.Name == ctls && se.Sel.Name == "Config" {
							// server-side configurations (they carry Certificates / GetCertificate) are not clients
							t := txt(fs, cl)
							if !strings.Contains(t, "Certificates") && !strings.Contains(t, "GetCertificate") {
								lits = append(lits, rel+"|"+fn+"|"+t)
							}
						}
					}
				}
				c, ok := n.(*ast.CallExpr)
				if !ok || local == "" {
					return true
				}
				se, ok := c.Fun.(*ast.SelectorExpr)
				if !ok || se.Sel.Name != "MakeConfig" {
					return true
				}
				id, ok := se.X.(*ast.Ident)
				if !ok || id.Name != local || len(c.Args) != 1 {
					return true
				}
				var conds []string
				for i := 0; i < len(stack)-1; i++ {
					switch s := stack[i].(type) {
					case *ast.IfStmt:
						// the call sits in the body or in the else branch (not in the condition itself)
						if i+1 < len(stack) && stack[i+1] == ast.Node(s.Body) {
							conds = append(conds, txt(fs, s.Cond))
						} else if i+1 < len(stack) && s.Else != nil && stack[i+1] == s.Else {
							conds = append(conds, "!("+txt(fs, s.Cond)+")")
						}
					case *ast.CaseClause:
						conds = append(conds, "case "+func() string {
							var l []string
							for _, e := range s.List {
								l = append(l, txt(fs, e))
							}
							if len(l) == 0 {
								return "default"
							}
							return strings.Join(l, ",")
						}())
					case *ast.ForStmt, *ast.RangeStmt:
						conds = append(conds, "loop")
					case *ast.FuncLit:
						conds = append(conds, "closure")
					}
				}
				// how the result is used: the parent node of the call
				use := "other"
				if len(stack) >= 2 {
					switch pn := stack[len(stack)-2].(type) {
					case *ast.KeyValueExpr:
						use = "field " + txt(fs, pn.Key)
					case *ast.AssignStmt:
						use = "assign " + txt(fs, pn.Lhs[0])
					}
				}
				sites = append(sites, site{rel, fn, txt(fs, c.Args[0]), strings.Join(conds, " && "), use})
				return true
			})
		}
		return nil
	})
	sort.Slice(sites, func(i, j int) bool {
		if sites[i].file != sites[j].file {
			return sites[i].file < sites[j].file
		}
		return sites[i].fn+sites[i].arg < sites[j].fn+sites[j].arg
	})
	sort.Strings(lits)
	q := func(s string) string { return `"` + strings.NewReplacer("\\", "\\\\", "\"", "\\\"").Replace(s) + `"` }
	kinds := map[string]string{
		"internal/auth/manager.go|m.HTTPFingerprint":                            "authHTTP",
		"internal/auth/manager.go|m.JWTJWKSFingerprint":                         "authJWKS",
		"internal/forward/rtmp/dest.go|d.DestFingerprint":                       "fwdRTMP",
		"internal/forward/rtsp/dest.go|d.DestFingerprint":                       "fwdRTSP",
		"internal/forward/webrtc/dest.go|d.DestFingerprint":                     "fwdWebRTC",
		"internal/staticsources/hls/source.go|params.Conf.SourceFingerprint":    "srcHLS",
		"internal/staticsources/moq/source.go|params.Conf.SourceFingerprint":    "srcMoQ",
		"internal/staticsources/rtmp/source.go|params.Conf.SourceFingerprint":   "srcRTMP",
		"internal/staticsources/rtsp/source.go|params.Conf.SourceFingerprint":   "srcRTSP",
		"internal/staticsources/webrtc/source.go|params.Conf.SourceFingerprint": "srcWebRTC",
	}
	var b strings.Builder
	b.WriteString("/- GENERATED by tools/xlate/c41 from the Go source; do not edit. -/\nnamespace MtxVerif.Gen.C41\n\n")
	b.WriteString("inductive Client where\n  | authHTTP | authJWKS | fwdRTMP | fwdRTSP | fwdWebRTC | srcHLS | srcMoQ | srcRTMP | srcRTSP | srcWebRTC | other\nderiving DecidableEq, Repr\n\n")
	b.WriteString("/-- conditions guarding the call: none, only the JWKS refresh period, or anything else -/\ninductive Guard where\n  | none | refreshPeriod | other\nderiving DecidableEq, Repr\n\n")
	b.WriteString("/-- what happens to the result: stored in the client's TLS configuration field, assigned to the local `tlsConfig`, other -/\ninductive Use where\n  | tlsField | tlsConfigVar | other\nderiving DecidableEq, Repr\n\n")
	b.WriteString("structure Site where\n  client : Client\n  argIsFingerprint : Bool\n  guard : Guard\n  use : Use\n  text : String\nderiving Repr\n\n")
	b.WriteString("/-- every call of tls.MakeConfig outside its own package -/\ndef makeConfigSites : List Site := [\n")
	for i, s := range sites {
		k := kinds[s.file+"|"+s.arg]
		if k == "" {
			k = "other"
		}
		g := "other"
		switch s.conds {
		case "":
			g = "none"
		case "now.Sub(m.jwksLastRefresh) >= jwksRefreshPeriod":
			g = "refreshPeriod"
		}
		u := "other"
		switch s.use {
		case "field TLSClientConfig", "field TLSConfig":
			u = "tlsField"
		case "assign tlsConfig":
			u = "tlsConfigVar"
		}
		fmt.Fprintf(&b, "  { client := .%s, argIsFingerprint := %v, guard := .%s, use := .%s,\n    text := %s }", k,
			strings.HasSuffix(s.arg, "Fingerprint"), g, u, q(s.file+" "+s.fn+" MakeConfig("+s.arg+") if ["+s.conds+"] -> "+s.use))
		if i+1 < len(sites) {
			b.WriteString(",")
		}
		b.WriteString("\n")
	}
	b.WriteString("]\n\n/-- client-side `crypto/tls` configuration literals outside make_config.go (file|function|literal); the empty\nliteral is the fallback used when no fingerprint is configured -/\n")
	b.WriteString("def clientConfigLiterals : List String := [\n")
	nonEmpty := 0
	for i, s := range lits {
		if !strings.HasSuffix(s, "|tls.Config{}") {
			nonEmpty++
		}
		b.WriteString("  " + q(s))
		if i+1 < len(lits) {
			b.WriteString(",")
		}
		b.WriteString("\n")
	}
	fmt.Fprintf(&b, "]\n\n/-- how many of them set any field (a hand-made client configuration would bypass the pin) -/\ndef nonEmptyClientConfigLiterals : Nat := %d\n\nend MtxVerif.Gen.C41\n", nonEmpty)
	if err := os.WriteFile(filepath.Join(*out, "MtxVerif", "Gen", "C41.lean"), []byte(b.String()), 0o644); err != nil {
		fmt.Fprintln(os.Stderr, err)
		os.Exit(1)
	}
	fmt.Printf("C41 facts: %d MakeConfig call sites, %d client tls.Config literals\n", len(sites), len(lits))
}
