module verif/xlate/c41

go 1.23
