module verif/xlate/c03

go 1.23
