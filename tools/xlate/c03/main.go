// Fact extractor for C03: finds every place in internal/** (non-test files, all build tags) that sets
// `SkipAuth` of a defs.PathAccessRequest and (re)writes lean/MtxVerif/Gen/C03.lean with one row per site
// carrying the syntactic facts its justification needs.  Standard library only (go/ast, no type checking).
//
// A site is  `SkipAuth: true` in a defs.PathAccessRequest literal, or an assignment `x.SkipAuth = true`.
// Any other occurrence of the identifier (except the field declaration and reads of it) is counted in
// `otherSkipAuthUses`.  Facts per site:
//
//	target            pathManager method that receives the request (AddPublisher / AddReader / Describe)
//	publish           `Publish: true`
//	cmpPresent        the enclosing Path…Req literal has a ConfToCompare entry
//	tie               how the request is tied to an authenticated FindPathConf:
//	    sameFunc      an earlier FindPathConf call in the same function
//	    viaParams     Name / ConfToCompare are parameters; EVERY caller in the package has an earlier FindPathConf
//	                  and passes its result
//	    viaField      ConfToCompare is `recv.F`; in the whole package the field name F only ever receives
//	                  `<FindPathConf result>.Conf` (publish, no SkipAuth, error path returns) or a copy `x.F`
//	findNoSkip / findPublish / findErrReturns / findSameName / cmpIsFindConf   facts about that FindPathConf
//	noClientData      the request carries no Credentials / IP / CustomVerifyFunc
//	nameFromServer    Name is a field of the receiver or a configuration value (`….Conf.…`)
//	ctors             functions of the package that construct the receiver type (composite literal)
//	secretGuard       assignment under `if recv.G`; every `G: v` in the package is `G: true` inside `if g {` where
//	                  g := (S != "" && ctx.Request.Header.Get("Authorization") == "Bearer "+S); G is never assigned
package main

import (
	"flag"
	"fmt"
	"go/ast"
	"go/parser"
	"go/token"
	"go/types"
	"os"
	"path/filepath"
	"sort"
	"strings"
)

type pkg struct {
	dir   string // relative to repo
	fset  *token.FileSet
	files map[string]*ast.File
}

func es(e ast.Expr) string {
	if e == nil {
		return ""
	}
	return types.ExprString(e)
}

func kv(cl *ast.CompositeLit, key string) ast.Expr {
	for _, el := range cl.Elts {
		if k, ok := el.(*ast.KeyValueExpr); ok {
			if id, ok := k.Key.(*ast.Ident); ok && id.Name == key {
				return k.Value
			}
		}
	}
	return nil
}

func litOf(e ast.Expr, typ string) *ast.CompositeLit {
	if u, ok := e.(*ast.UnaryExpr); ok && u.Op == token.AND {
		e = u.X
	}
	cl, ok := e.(*ast.CompositeLit)
	if !ok || es(cl.Type) != typ {
		return nil
	}
	return cl
}

func recvName(fd *ast.FuncDecl) (name, typ string) {
	if fd.Recv == nil || len(fd.Recv.List) == 0 {
		return "", ""
	}
	f := fd.Recv.List[0]
	if len(f.Names) > 0 {
		name = f.Names[0].Name
	}
	t := f.Type
	if s, ok := t.(*ast.StarExpr); ok {
		t = s.X
	}
	return name, es(t)
}

func params(fd *ast.FuncDecl) []string {
	var out []string
	for _, f := range fd.Type.Params.List {
		for _, n := range f.Names {
			out = append(out, n.Name)
		}
	}
	return out
}

func rootIdent(e ast.Expr) string {
	for {
		switch x := e.(type) {
		case *ast.Ident:
			return x.Name
		case *ast.SelectorExpr:
			e = x.X
		case *ast.CallExpr:
			e = x.Fun
		case *ast.IndexExpr:
			e = x.X
		case *ast.SliceExpr:
			e = x.X
		case *ast.ParenExpr:
			e = x.X
		case *ast.StarExpr:
			e = x.X
		default:
			return ""
		}
	}
}

// ---------- FindPathConf calls ----------

type findCall struct {
	pos        token.Pos
	resVar     string
	name       string
	publish    bool
	noSkip     bool
	errReturns bool
}

// findsIn lists the FindPathConf calls of a function body (statement level: `res, err := X.FindPathConf(lit)`
// followed by `if err != nil { …; return … }`).
func findsIn(body *ast.BlockStmt) []findCall {
	var out []findCall
	var walk func(l []ast.Stmt)
	walk = func(l []ast.Stmt) {
		for i, s := range l {
			switch x := s.(type) {
			case *ast.AssignStmt:
				if len(x.Rhs) != 1 || len(x.Lhs) != 2 {
					continue
				}
				c, ok := x.Rhs[0].(*ast.CallExpr)
				if !ok {
					continue
				}
				sel, ok := c.Fun.(*ast.SelectorExpr)
				if !ok || sel.Sel.Name != "FindPathConf" || len(c.Args) != 1 {
					continue
				}
				rl := litOf(c.Args[0], "defs.PathFindPathConfReq")
				if rl == nil {
					continue
				}
				al := litOf(kv(rl, "AccessRequest"), "defs.PathAccessRequest")
				if al == nil {
					continue
				}
				f := findCall{pos: x.Pos(), resVar: es(x.Lhs[0]), name: es(kv(al, "Name")),
					publish: es(kv(al, "Publish")) == "true", noSkip: kv(al, "SkipAuth") == nil}
				errVar := es(x.Lhs[1])
				if i+1 < len(l) {
					if is, ok := l[i+1].(*ast.IfStmt); ok && is.Init == nil && es(is.Cond) == errVar+" != nil" && len(is.Body.List) > 0 {
						if _, ok := is.Body.List[len(is.Body.List)-1].(*ast.ReturnStmt); ok {
							f.errReturns = true
						}
					}
				}
				out = append(out, f)
			case *ast.BlockStmt:
				walk(x.List)
			case *ast.IfStmt:
				walk(x.Body.List)
				if b, ok := x.Else.(*ast.BlockStmt); ok {
					walk(b.List)
				}
			case *ast.SwitchStmt:
				for _, cc := range x.Body.List {
					walk(cc.(*ast.CaseClause).Body)
				}
			case *ast.ForStmt:
				walk(x.Body.List)
			}
		}
	}
	walk(body.List)
	return out
}

// ---------- sites ----------

type site struct {
	file, fn       string
	line           int
	how            string // literal | assign | other
	target         string
	publish        bool
	cmpPresent     bool
	tie            string
	findNoSkip     bool
	findPublish    bool
	findErrReturns bool
	findSameName   bool
	cmpIsFindConf  bool
	noClientData   bool
	nameFromServer bool
	ctors          []string
	secretGuard    bool
	notes          []string
}

type visitor struct {
	stack []ast.Node
	fn    func(n ast.Node, stack []ast.Node)
}

func (v *visitor) Visit(n ast.Node) ast.Visitor {
	if n == nil {
		v.stack = v.stack[:len(v.stack)-1]
		return nil
	}
	v.fn(n, v.stack)
	v.stack = append(v.stack, n)
	return v
}

func enclosingFunc(stack []ast.Node) *ast.FuncDecl {
	for i := len(stack) - 1; i >= 0; i-- {
		if fd, ok := stack[i].(*ast.FuncDecl); ok {
			return fd
		}
	}
	return nil
}

func (p *pkg) funcs() []*ast.FuncDecl {
	var out []*ast.FuncDecl
	var names []string
	for n := range p.files {
		names = append(names, n)
	}
	sort.Strings(names)
	for _, n := range names {
		for _, d := range p.files[n].Decls {
			if fd, ok := d.(*ast.FuncDecl); ok && fd.Body != nil {
				out = append(out, fd)
			}
		}
	}
	return out
}

// tieSameFunc: the last FindPathConf before pos in fd, checked against name / cmp expressions.
func tieSameFunc(s *site, fd *ast.FuncDecl, pos token.Pos, name, cmp string) bool {
	var f *findCall
	for _, c := range findsIn(fd.Body) {
		if c.pos < pos {
			cc := c
			f = &cc
		}
	}
	if f == nil {
		return false
	}
	s.findNoSkip, s.findPublish, s.findErrReturns = f.noSkip, f.publish, f.errReturns
	s.findSameName = name != "" && f.name == name
	s.cmpIsFindConf = cmp != "" && cmp == f.resVar+".Conf"
	return true
}

func subst(expr string, from, to string) string {
	if expr == from {
		return to
	}
	if strings.HasPrefix(expr, from+".") {
		return to + expr[len(from):]
	}
	return expr
}

// tieViaParams: Name/ConfToCompare come from parameters of fd; every caller must satisfy tieSameFunc.
func (p *pkg) tieViaParams(s *site, fd *ast.FuncDecl, name, cmp string) bool {
	ps := params(fd)
	isParam := func(id string) bool {
		for _, x := range ps {
			if x == id {
				return true
			}
		}
		return false
	}
	cmpRoot := strings.SplitN(cmp, ".", 2)[0]
	if cmp == "" || !isParam(cmpRoot) {
		return false
	}
	callers := 0
	all := true
	first := true
	for _, g := range p.funcs() {
		ast.Inspect(g.Body, func(n ast.Node) bool {
			c, ok := n.(*ast.CallExpr)
			if !ok {
				return true
			}
			sel, ok := c.Fun.(*ast.SelectorExpr)
			if !ok || sel.Sel.Name != fd.Name.Name || len(c.Args) != len(ps) {
				return true
			}
			callers++
			n2, c2 := name, cmp
			for i, pn := range ps {
				a := es(c.Args[i])
				n2, c2 = subst(n2, pn, a), subst(c2, pn, a)
			}
			var t site
			if !tieSameFunc(&t, g, c.Pos(), n2, c2) {
				all = false
				return true
			}
			if first {
				s.findNoSkip, s.findPublish, s.findErrReturns, s.findSameName, s.cmpIsFindConf = t.findNoSkip, t.findPublish, t.findErrReturns, t.findSameName, t.cmpIsFindConf
				first = false
			} else {
				s.findNoSkip = s.findNoSkip && t.findNoSkip
				s.findPublish = s.findPublish && t.findPublish
				s.findErrReturns = s.findErrReturns && t.findErrReturns
				s.findSameName = s.findSameName && t.findSameName
				s.cmpIsFindConf = s.cmpIsFindConf && t.cmpIsFindConf
			}
			return true
		})
	}
	return callers > 0 && all
}

// tieViaField: cmp is recv.F; the field name F only receives FindPathConf results or copies of an F field.
func (p *pkg) tieViaField(s *site, fd *ast.FuncDecl, cmp string) bool {
	rn, _ := recvName(fd)
	if rn == "" || !strings.HasPrefix(cmp, rn+".") || strings.Count(cmp, ".") != 1 {
		return false
	}
	field := cmp[len(rn)+1:]
	sources, ok, first := 0, true, true
	note := func(t site) {
		sources++
		if first {
			s.findNoSkip, s.findPublish, s.findErrReturns = t.findNoSkip, t.findPublish, t.findErrReturns
			first = false
		} else {
			s.findNoSkip = s.findNoSkip && t.findNoSkip
			s.findPublish = s.findPublish && t.findPublish
			s.findErrReturns = s.findErrReturns && t.findErrReturns
		}
	}
	for _, g := range p.funcs() {
		ast.Inspect(g.Body, func(n ast.Node) bool {
			switch x := n.(type) {
			case *ast.AssignStmt:
				for i, l := range x.Lhs {
					sel, isSel := l.(*ast.SelectorExpr)
					if !isSel || sel.Sel.Name != field || i >= len(x.Rhs) {
						continue
					}
					rhs := es(x.Rhs[i])
					var t site
					if strings.HasSuffix(rhs, ".Conf") && tieSameFunc(&t, g, x.Pos(), "", rhs) && t.cmpIsFindConf {
						note(t)
					} else {
						ok = false
						s.notes = append(s.notes, fmt.Sprintf("field %s assigned from %s in %s", field, rhs, g.Name.Name))
					}
				}
			case *ast.KeyValueExpr:
				if id, isID := x.Key.(*ast.Ident); isID && id.Name == field {
					v := es(x.Value)
					if !strings.HasSuffix(v, "."+field) {
						ok = false
						s.notes = append(s.notes, fmt.Sprintf("field %s initialised from %s in %s", field, v, g.Name.Name))
					}
				}
			}
			return true
		})
	}
	s.cmpIsFindConf = ok && sources > 0
	return ok && sources > 0
}

// ctorsOf lists the functions that construct type typ with a composite literal.
func (p *pkg) ctorsOf(typ string) []string {
	var out []string
	for _, g := range p.funcs() {
		found := false
		ast.Inspect(g.Body, func(n ast.Node) bool {
			if cl, ok := n.(*ast.CompositeLit); ok && es(cl.Type) == typ {
				found = true
			}
			return true
		})
		if found {
			out = append(out, g.Name.Name)
		}
	}
	return out
}

// secretGuard: see the file comment.
func (p *pkg) secretGuard(fd *ast.FuncDecl, stack []ast.Node) bool {
	rn, _ := recvName(fd)
	// innermost enclosing if whose condition is recv.G
	flag := ""
	for i := len(stack) - 1; i >= 0; i-- {
		if is, ok := stack[i].(*ast.IfStmt); ok {
			c := es(is.Cond)
			if rn != "" && strings.HasPrefix(c, rn+".") && strings.Count(c, ".") == 1 {
				flag = c[len(rn)+1:]
			}
			break
		}
	}
	if flag == "" {
		return false
	}
	inits, ok := 0, true
	for _, g := range p.funcs() {
		// local definitions  g := (S != "" && ctx.Request.Header.Get("Authorization") == "Bearer "+S)
		secretVars := map[string]bool{}
		ast.Inspect(g.Body, func(n ast.Node) bool {
			as, isAs := n.(*ast.AssignStmt)
			if !isAs || as.Tok != token.DEFINE || len(as.Lhs) != 1 || len(as.Rhs) != 1 {
				return true
			}
			e := as.Rhs[0]
			if pe, isP := e.(*ast.ParenExpr); isP {
				e = pe.X
			}
			be, isB := e.(*ast.BinaryExpr)
			if !isB || be.Op != token.LAND {
				return true
			}
			l, lok := be.X.(*ast.BinaryExpr)
			r, rok := be.Y.(*ast.BinaryExpr)
			if !lok || !rok || l.Op != token.NEQ || es(l.Y) != `""` || r.Op != token.EQL {
				return true
			}
			secret := es(l.X)
			if strings.HasSuffix(es(r.X), `.Request.Header.Get("Authorization")`) && es(r.Y) == `"Bearer " + `+secret {
				secretVars[es(as.Lhs[0])] = true
			}
			return true
		})
		v := &visitor{}
		v.fn = func(n ast.Node, st []ast.Node) {
			switch x := n.(type) {
			case *ast.AssignStmt:
				for _, l := range x.Lhs {
					if sel, isSel := l.(*ast.SelectorExpr); isSel && sel.Sel.Name == flag {
						ok = false
					}
				}
			case *ast.KeyValueExpr:
				id, isID := x.Key.(*ast.Ident)
				if !isID || id.Name != flag {
					return
				}
				inits++
				if es(x.Value) != "true" {
					ok = false
					return
				}
				guarded := false
				for i := len(st) - 1; i >= 0; i-- {
					if is, isIf := st[i].(*ast.IfStmt); isIf && secretVars[es(is.Cond)] {
						// must be in the then-branch
						if i+1 < len(st) && st[i+1] == ast.Node(is.Body) {
							guarded = true
						}
					}
				}
				if !guarded {
					ok = false
				}
			}
		}
		ast.Walk(v, g.Body)
	}
	return ok && inits > 0
}

func (p *pkg) analyse(fname string, s *site, fd *ast.FuncDecl, stack []ast.Node, al *ast.CompositeLit, reqLit *ast.CompositeLit, callSel string, pos token.Pos) {
	switch callSel {
	case "AddPublisher":
		s.target = ".addPublisher"
	case "AddReader":
		s.target = ".addReader"
	case "Describe":
		s.target = ".describe"
	default:
		s.target = ".unknown"
	}
	name := ""
	if al != nil {
		name = es(kv(al, "Name"))
		s.publish = es(kv(al, "Publish")) == "true"
		s.noClientData = kv(al, "Credentials") == nil && kv(al, "IP") == nil && kv(al, "CustomVerifyFunc") == nil
		rn, rt := recvName(fd)
		root := rootIdent(kv(al, "Name"))
		s.nameFromServer = (rn != "" && root == rn) || strings.Contains(name, ".Conf.")
		if rt != "" {
			s.ctors = p.ctorsOf(rt)
		}
	}
	cmp := ""
	if reqLit != nil {
		if c := kv(reqLit, "ConfToCompare"); c != nil && es(c) != "nil" {
			cmp = es(c)
			s.cmpPresent = true
		}
	}
	s.tie = ".none"
	switch {
	case tieSameFunc(s, fd, pos, name, cmp):
		s.tie = ".sameFunc"
	case p.tieViaParams(s, fd, name, cmp):
		s.tie = ".viaParams"
	case p.tieViaField(s, fd, cmp):
		s.tie = ".viaField"
	}
}

func (p *pkg) sites(repo string) (out []site, other int) {
	var names []string
	for n := range p.files {
		names = append(names, n)
	}
	sort.Strings(names)
	for _, fname := range names {
		file := p.files[fname]
		rel := filepath.ToSlash(filepath.Join(p.dir, fname))
		v := &visitor{}
		v.fn = func(n ast.Node, stack []ast.Node) {
			switch x := n.(type) {
			case *ast.KeyValueExpr:
				id, ok := x.Key.(*ast.Ident)
				if !ok || id.Name != "SkipAuth" {
					return
				}
				fd := enclosingFunc(stack)
				s := site{file: rel, line: p.fset.Position(x.Pos()).Line, how: "literal"}
				if fd == nil || es(x.Value) != "true" {
					s.how, s.target, s.tie = "other", ".unknown", ".none"
					s.notes = append(s.notes, "SkipAuth set to "+es(x.Value))
					if fd != nil {
						s.fn = fd.Name.Name
					}
					out = append(out, s)
					return
				}
				s.fn = fd.Name.Name
				// stack: … CallExpr, [UnaryExpr], CompositeLit(req), KeyValueExpr(AccessRequest), CompositeLit(access)
				var al, reqLit *ast.CompositeLit
				callSel := ""
				for i := len(stack) - 1; i >= 0; i-- {
					switch y := stack[i].(type) {
					case *ast.CompositeLit:
						if al == nil && es(y.Type) == "defs.PathAccessRequest" {
							al = y
						} else if reqLit == nil && strings.HasPrefix(es(y.Type), "defs.Path") && strings.HasSuffix(es(y.Type), "Req") {
							reqLit = y
						}
					case *ast.CallExpr:
						if callSel == "" && reqLit != nil {
							if sel, ok := y.Fun.(*ast.SelectorExpr); ok {
								callSel = sel.Sel.Name
							}
						}
					}
				}
				p.analyse(fname, &s, fd, stack, al, reqLit, callSel, x.Pos())
				out = append(out, s)
			case *ast.AssignStmt:
				for i, l := range x.Lhs {
					sel, ok := l.(*ast.SelectorExpr)
					if !ok || sel.Sel.Name != "SkipAuth" {
						continue
					}
					fd := enclosingFunc(stack)
					s := site{file: rel, line: p.fset.Position(x.Pos()).Line, how: "assign", target: ".unknown", tie: ".none"}
					if fd == nil || i >= len(x.Rhs) || es(x.Rhs[i]) != "true" {
						s.how = "other"
						out = append(out, s)
						continue
					}
					s.fn = fd.Name.Name
					// the variable: find its PathAccessRequest literal and the call that receives it
					vname := es(sel.X)
					var al, reqLit *ast.CompositeLit
					callSel := ""
					ast.Inspect(fd.Body, func(m ast.Node) bool {
						switch y := m.(type) {
						case *ast.AssignStmt:
							if len(y.Lhs) == 1 && len(y.Rhs) == 1 && es(y.Lhs[0]) == vname {
								if c := litOf(y.Rhs[0], "defs.PathAccessRequest"); c != nil {
									al = c
								}
							}
						case *ast.CallExpr:
							if sl, ok := y.Fun.(*ast.SelectorExpr); ok && len(y.Args) == 1 {
								if c, ok := y.Args[0].(*ast.CompositeLit); ok && strings.HasPrefix(es(c.Type), "defs.Path") {
									if es(kv(c, "AccessRequest")) == vname {
										reqLit, callSel = c, sl.Sel.Name
									}
								}
							}
						}
						return true
					})
					p.analyse(fname, &s, fd, stack, al, reqLit, callSel, x.Pos())
					s.secretGuard = p.secretGuard(fd, stack)
					// under the guard the literal's client data is not what authorises the request
					out = append(out, s)
				}
			case *ast.SelectorExpr:
				// reads such as req.AccessRequest.SkipAuth are fine; they are not sites
			case *ast.Ident:
				if x.Name == "SkipAuth" {
					// occurrences not covered above: neither a key, an assignment target nor a selector read
					parent := stack[len(stack)-1]
					switch pp := parent.(type) {
					case *ast.KeyValueExpr:
						if pp.Key == ast.Expr(x) {
							return
						}
					case *ast.SelectorExpr:
						return
					case *ast.Field:
						return
					}
					other++
				}
			}
		}
		ast.Walk(v, file)
	}
	return out, other
}

type call struct {
	file, fn, target string
	line             int
	publish          bool
	resolved         bool
}

var callTargets = map[string]string{"AddPublisher": ".addPublisher", "AddReader": ".addReader", "Describe": ".describe", "FindPathConf": ".find"}

// calls lists every X.AddPublisher/AddReader/Describe/FindPathConf(defs.Path…Req{…}) of the package and the
// number of calls that forward a request built elsewhere (argument is not a literal).
func (p *pkg) calls() (out []call, forwarded []string) {
	var names []string
	for n := range p.files {
		names = append(names, n)
	}
	sort.Strings(names)
	for _, fname := range names {
		rel := filepath.ToSlash(filepath.Join(p.dir, fname))
		for _, d := range p.files[fname].Decls {
			fd, ok := d.(*ast.FuncDecl)
			if !ok || fd.Body == nil {
				continue
			}
			ast.Inspect(fd.Body, func(n ast.Node) bool {
				c, ok := n.(*ast.CallExpr)
				if !ok || len(c.Args) != 1 {
					return true
				}
				sel, ok := c.Fun.(*ast.SelectorExpr)
				if !ok || callTargets[sel.Sel.Name] == "" {
					return true
				}
				want := "defs.Path" + sel.Sel.Name + "Req"
				rl := litOf(c.Args[0], want)
				if rl == nil {
					// a forwarder: the argument is a parameter of that request type
					if id, ok := c.Args[0].(*ast.Ident); ok {
						for _, f := range fd.Type.Params.List {
							for _, pn := range f.Names {
								if pn.Name == id.Name && es(f.Type) == want {
									forwarded = append(forwarded, rel+":"+fd.Name.Name)
								}
							}
						}
					}
					return true
				}
				cl := call{file: rel, fn: fd.Name.Name, target: callTargets[sel.Sel.Name], line: p.fset.Position(c.Pos()).Line}
				av := kv(rl, "AccessRequest")
				al := litOf(av, "defs.PathAccessRequest")
				if al == nil {
					if id, ok := av.(*ast.Ident); ok {
						ast.Inspect(fd.Body, func(m ast.Node) bool {
							if y, ok := m.(*ast.AssignStmt); ok && len(y.Lhs) == 1 && len(y.Rhs) == 1 && es(y.Lhs[0]) == id.Name {
								if l := litOf(y.Rhs[0], "defs.PathAccessRequest"); l != nil {
									al = l
								}
							}
							return true
						})
					}
				}
				if al != nil {
					cl.resolved = true
					cl.publish = es(kv(al, "Publish")) == "true"
					// a later `v.Publish = …` would invalidate the literal's value
					ast.Inspect(fd.Body, func(m ast.Node) bool {
						if y, ok := m.(*ast.AssignStmt); ok {
							for _, l := range y.Lhs {
								if s, ok := l.(*ast.SelectorExpr); ok && s.Sel.Name == "Publish" {
									cl.resolved = false
								}
							}
						}
						return true
					})
				}
				out = append(out, cl)
				return true
			})
		}
	}
	return out, forwarded
}

func asc(s string) string {
	var parts []string
	for _, c := range s {
		parts = append(parts, fmt.Sprintf("'%c'", c))
	}
	return "asc [" + strings.Join(parts, ",") + "]"
}

func main() {
	repo := flag.String("repo", "/repo", "repository root")
	out := flag.String("out", "", "lean source root")
	flag.Parse()

	var all []site
	var allCalls []call
	var allFwd []string
	other := 0
	root := filepath.Join(*repo, "internal")
	var dirs []string
	filepath.WalkDir(root, func(path string, d os.DirEntry, err error) error { //nolint:errcheck
		if err == nil && d.IsDir() {
			dirs = append(dirs, path)
		}
		return nil
	})
	sort.Strings(dirs)
	for _, d := range dirs {
		ents, _ := os.ReadDir(d)
		rel, _ := filepath.Rel(*repo, d)
		p := &pkg{dir: rel, fset: token.NewFileSet(), files: map[string]*ast.File{}}
		for _, e := range ents {
			n := e.Name()
			if e.IsDir() || !strings.HasSuffix(n, ".go") || strings.HasSuffix(n, "_test.go") {
				continue
			}
			src, err := os.ReadFile(filepath.Join(d, n))
			if err != nil || !strings.Contains(string(src), "SkipAuth") && !strings.Contains(string(src), "FindPathConf") &&
				!strings.Contains(string(src), "defs.PathAddReaderReq") && !strings.Contains(string(src), "defs.PathAddPublisherReq") &&
				!strings.Contains(string(src), "defs.PathDescribeReq") {
				if err == nil {
					// still needed for callers / constructors: parse lazily only when the package has a site
					p.files[n] = nil
				}
				continue
			}
			f, err := parser.ParseFile(p.fset, filepath.Join(d, n), src, 0)
			if err != nil {
				fmt.Fprintln(os.Stderr, "parse:", err)
				os.Exit(1)
			}
			p.files[n] = f
		}
		has := false
		for _, f := range p.files {
			if f != nil {
				has = true
			}
		}
		if !has {
			continue
		}
		for n, f := range p.files {
			if f == nil {
				ff, err := parser.ParseFile(p.fset, filepath.Join(d, n), nil, 0)
				if err != nil {
					fmt.Fprintln(os.Stderr, "parse:", err)
					os.Exit(1)
				}
				p.files[n] = ff
			}
		}
		ss, o := p.sites(*repo)
		all = append(all, ss...)
		other += o
		cs, fw := p.calls()
		allCalls = append(allCalls, cs...)
		allFwd = append(allFwd, fw...)
	}
	sort.SliceStable(all, func(i, j int) bool {
		if all[i].file != all[j].file {
			return all[i].file < all[j].file
		}
		return all[i].line < all[j].line
	})

	var sb strings.Builder
	sb.WriteString("/- GENERATED by tools/xlate/c03 from internal/** — do not edit. -/\n")
	sb.WriteString("import MtxVerif.Model.C03\n\nnamespace MtxVerif.Gen.C03\nopen MtxVerif MtxVerif.C03\n\n")
	sb.WriteString("def sites : List SiteF := [\n")
	for i, s := range all {
		for _, n := range s.notes {
			sb.WriteString("  -- NOTE " + n + "\n")
		}
		var cs []string
		for _, c := range s.ctors {
			cs = append(cs, asc(c))
		}
		sep := ","
		if i == len(all)-1 {
			sep = ""
		}
		fmt.Fprintf(&sb, "  -- %s:%d (%s, %s)\n", s.file, s.line, s.fn, s.how)
		fmt.Fprintf(&sb, "  { file := %s,\n    fn := %s,\n    target := %s, publish := %v, cmpPresent := %v, tie := %s,\n"+
			"    findNoSkip := %v, findPublish := %v, findErrReturns := %v, findSameName := %v, cmpIsFindConf := %v,\n"+
			"    noClientData := %v, nameFromServer := %v, ctors := [%s], secretGuard := %v }%s\n",
			asc(s.file), asc(s.fn), s.target, s.publish, s.cmpPresent, s.tie,
			s.findNoSkip, s.findPublish, s.findErrReturns, s.findSameName, s.cmpIsFindConf,
			s.noClientData, s.nameFromServer, strings.Join(cs, ", "), s.secretGuard, sep)
	}
	sb.WriteString("]\n\n")
	fmt.Fprintf(&sb, "/-- occurrences of the identifier `SkipAuth` that are neither a site above, the field declaration, nor a read -/\ndef otherSkipAuthUses : Nat := %d\n", other)
	sb.WriteString("\n/-- every call of a pathManager access method that builds its request in place -/\ndef calls : List CallF := [\n")
	for i, c := range allCalls {
		sep := ","
		if i == len(allCalls)-1 {
			sep = ""
		}
		fmt.Fprintf(&sb, "  -- %s:%d %s\n  { file := %s,\n    fn := %s, target := %s, publish := %v, resolved := %v }%s\n",
			c.file, c.line, c.fn, asc(c.file), asc(c.fn), c.target, c.publish, c.resolved, sep)
	}
	sb.WriteString("]\n\n")
	sort.Strings(allFwd)
	fmt.Fprintf(&sb, "/-- calls that forward a request received as a parameter: %s -/\ndef forwardedCalls : Nat := %d\n", strings.Join(allFwd, ", "), len(allFwd))
	sb.WriteString("\nend MtxVerif.Gen.C03\n")

	dst := filepath.Join(*out, "MtxVerif/Gen/C03.lean")
	if err := os.MkdirAll(filepath.Dir(dst), 0o755); err != nil {
		fmt.Fprintln(os.Stderr, err)
		os.Exit(1)
	}
	if err := os.WriteFile(dst, []byte(sb.String()), 0o644); err != nil {
		fmt.Fprintln(os.Stderr, err)
		os.Exit(1)
	}
	fmt.Printf("c03: %d SkipAuth sites, %d other uses -> %s\n", len(all), other, dst)
}
