module verif/xlate/c07

go 1.23
