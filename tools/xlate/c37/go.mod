module verif/xlate/c37

go 1.23
