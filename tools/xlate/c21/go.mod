module verif/xlate/c21

go 1.23
