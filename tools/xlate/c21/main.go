// Fact extractor for C21: reads internal/externalcmd/cmd_os.go of the given tree and (re)writes
// lean/MtxVerif/Gen/C21.lean.  Standard library only.
//
// Facts:
//
//	waitReturnsExitCode : Bool   does the closure around cmd.Wait() return ee.ExitCode() (true) or
//	                             evaluate it and return 0 (false)?
//	expandAfterSplit    : Bool   expandEnv is applied to the ELEMENTS of shellquote.Split's result
//	                             (and never to the command string before the split).
//
// A fact whose pattern is not found is NOT emitted: the Lean build then fails (tie broken).
package main

import (
	"flag"
	"fmt"
	"go/ast"
	"go/parser"
	"go/token"
	"os"
	"path/filepath"
	"strings"
)

func isSel(e ast.Expr, x, sel string) bool {
	s, ok := e.(*ast.SelectorExpr)
	if !ok || s.Sel.Name != sel {
		return false
	}
	if x == "" {
		return true
	}
	id, ok := s.X.(*ast.Ident)
	return ok && id.Name == x
}

func containsCall(n ast.Node, x, sel string) bool {
	found := false
	ast.Inspect(n, func(m ast.Node) bool {
		if c, ok := m.(*ast.CallExpr); ok && isSel(c.Fun, x, sel) {
			found = true
		}
		return !found
	})
	return found
}

func isCallTo(e ast.Expr, name string) bool {
	c, ok := e.(*ast.CallExpr)
	if !ok {
		return false
	}
	id, ok := c.Fun.(*ast.Ident)
	return ok && id.Name == name
}

func main() {
	repo := flag.String("repo", "/repo", "repository root")
	out := flag.String("out", "", "lean source root")
	flag.Parse()

	src := filepath.Join(*repo, "internal/externalcmd/cmd_os.go")
	fset := token.NewFileSet()
	file, err := parser.ParseFile(fset, src, nil, 0)
	if err != nil {
		fmt.Fprintln(os.Stderr, "parse:", err)
		os.Exit(1)
	}

	var fn *ast.FuncDecl
	for _, d := range file.Decls {
		if f, ok := d.(*ast.FuncDecl); ok && f.Name.Name == "runOSSpecific" && f.Body != nil {
			fn = f
		}
	}

	var lines []string
	notes := []string{}

	if fn != nil {
		// ---- fact 1: the Wait closure ----
		var waitLit *ast.FuncLit // innermost function literal containing cmd.Wait()
		ast.Inspect(fn.Body, func(n ast.Node) bool {
			if fl, ok := n.(*ast.FuncLit); ok && containsCall(fl.Body, "", "Wait") {
				waitLit = fl
			}
			return true
		})
		if waitLit != nil {
			returned, discarded, other := 0, 0, 0
			var walk func(n ast.Node, inReturn bool)
			walk = func(n ast.Node, inReturn bool) {
				ast.Inspect(n, func(m ast.Node) bool {
					switch s := m.(type) {
					case *ast.ReturnStmt:
						if !inReturn {
							for _, r := range s.Results {
								walk(r, true)
							}
							return false
						}
					case *ast.ExprStmt:
						if c, ok := s.X.(*ast.CallExpr); ok && isSel(c.Fun, "", "ExitCode") {
							discarded++
							return false
						}
					case *ast.CallExpr:
						if isSel(s.Fun, "", "ExitCode") {
							if inReturn {
								returned++
							} else {
								other++
							}
						}
					}
					return true
				})
			}
			walk(waitLit.Body, false)
			switch {
			case returned > 0 && discarded == 0 && other == 0:
				lines = append(lines, "/-- the closure around `cmd.Wait()` returns `ee.ExitCode()` -/",
					"def waitReturnsExitCode : Bool := true\ndef waitReturnsExitCode? : Option Bool := some true")
			case returned == 0 && discarded > 0 && other == 0:
				lines = append(lines, "/-- the closure around `cmd.Wait()` evaluates `ee.ExitCode()` as a statement and returns 0 -/",
					"def waitReturnsExitCode : Bool := false\ndef waitReturnsExitCode? : Option Bool := some false")
			default:
				notes = append(notes, fmt.Sprintf("waitReturnsExitCode: unrecognised shape (returned=%d discarded=%d other=%d)", returned, discarded, other))
			}
		} else {
			notes = append(notes, "waitReturnsExitCode: no function literal calling Wait()")
		}
		if len(lines) == 0 {
			// the driver (which only reads the `…?` form) keeps building so that the search for a
			// failing input can run; the theorems need the plain form: tie broken.
			lines = append(lines, "-- waitReturnsExitCode not recognised", "def waitReturnsExitCode? : Option Bool := none")
		}

		// ---- fact 2: expandEnv on the elements of Split's result ----
		var splitPos token.Pos
		var parts string
		ast.Inspect(fn.Body, func(n ast.Node) bool {
			if a, ok := n.(*ast.AssignStmt); ok && len(a.Rhs) == 1 && len(a.Lhs) >= 1 {
				if c, ok := a.Rhs[0].(*ast.CallExpr); ok && isSel(c.Fun, "shellquote", "Split") {
					if id, ok := a.Lhs[0].(*ast.Ident); ok && parts == "" {
						parts, splitPos = id.Name, a.Pos()
					}
				}
			}
			return true
		})
		elementwise, early := false, false
		if parts != "" {
			ast.Inspect(fn.Body, func(n ast.Node) bool {
				switch s := n.(type) {
				case *ast.RangeStmt:
					if id, ok := s.X.(*ast.Ident); ok && id.Name == parts && s.Pos() > splitPos {
						for _, st := range s.Body.List {
							a, ok := st.(*ast.AssignStmt)
							if !ok || len(a.Lhs) != 1 || len(a.Rhs) != 1 {
								continue
							}
							ix, ok := a.Lhs[0].(*ast.IndexExpr)
							if !ok {
								continue
							}
							if x, ok := ix.X.(*ast.Ident); ok && x.Name == parts && isCallTo(a.Rhs[0], "expandEnv") {
								elementwise = true
							}
						}
					}
				case *ast.CallExpr:
					if id, ok := s.Fun.(*ast.Ident); ok && id.Name == "expandEnv" && s.Pos() < splitPos {
						early = true
					}
				}
				return true
			})
		}
		if elementwise && !early {
			lines = append(lines, "/-- `expandEnv` is applied to each element of `shellquote.Split`'s result, never before the split -/",
				"def expandAfterSplit : Bool := true")
		} else {
			notes = append(notes, fmt.Sprintf("expandAfterSplit: pattern not found (split var %q elementwise=%v early=%v)", parts, elementwise, early))
		}
	} else {
		notes = append(notes, "runOSSpecific not found in cmd_os.go")
		lines = append(lines, "-- waitReturnsExitCode not recognised", "def waitReturnsExitCode? : Option Bool := none")
	}

	var sb strings.Builder
	sb.WriteString("/- GENERATED by tools/xlate/c21 from internal/externalcmd/cmd_os.go — do not edit. -/\n")
	sb.WriteString("namespace MtxVerif.Gen.C21\n\n")
	for _, l := range lines {
		sb.WriteString(l + "\n")
	}
	for _, n := range notes {
		sb.WriteString("-- MISSING " + n + "\n")
		fmt.Fprintln(os.Stderr, "missing fact:", n)
	}
	sb.WriteString("\nend MtxVerif.Gen.C21\n")
	dst := filepath.Join(*out, "MtxVerif/Gen/C21.lean")
	if err := os.MkdirAll(filepath.Dir(dst), 0o755); err != nil {
		fmt.Fprintln(os.Stderr, err)
		os.Exit(1)
	}
	if err := os.WriteFile(dst, []byte(sb.String()), 0o644); err != nil {
		fmt.Fprintln(os.Stderr, err)
		os.Exit(1)
	}
	fmt.Printf("wrote %s (%d missing facts)\n", dst, len(notes))
}
