//go:build verif

// Correspondence harness for the PathSM properties (C16, C18, C19, C20).
//
// It drives the REAL `path` (internal/core/path.go): real `initialize()`/`run()` loop, real
// stream.Stream / SubStream / stream.Reader, real hooks + externalcmd (command strings that fail in
// exec.LookPath, so no process is spawned), real staticsources.Handler (source "rpiCamera", whose
// instance fails at once on this platform; the harness plays the instance through the public
// Handler.SetReady / SetNotReady).  Only the parent (pathManager callbacks), the publishers and the
// readers are stubs.  Everything runs inside ONE testing/synctest bubble: fake clock, and
// synctest.Wait() gives quiescence between ops, so each op line is one atomic loop step.
package core

import (
	"context"
	"fmt"
	"regexp"
	"runtime"
	"sort"
	"strconv"
	"strings"
	"sync"
	"testing"
	"testing/synctest"
	"time"

	"github.com/bluenviron/gortsplib/v5/pkg/description"
	"github.com/bluenviron/gortsplib/v5/pkg/format"

	"github.com/bluenviron/mediamtx/internal/conf"
	"github.com/bluenviron/mediamtx/internal/defs"
	"github.com/bluenviron/mediamtx/internal/externalcmd"
	"github.com/bluenviron/mediamtx/internal/hooks"
	"github.com/bluenviron/mediamtx/internal/logger"
	"github.com/bluenviron/mediamtx/internal/staticsources"
	"github.com/bluenviron/mediamtx/internal/stream"
	"github.com/bluenviron/mediamtx/internal/unit"
	"github.com/bluenviron/mediamtx/internal/verifutil"
)

const vNoCmd = "verif_no_such_command_zz"

var vRegexp = regexp.MustCompile("^p$")

type vStreamInfo struct {
	id     int
	closed bool // the path ran setNotAvailable while this stream was current
}

type vWorld struct {
	mu       sync.Mutex
	trace    []string
	replies  []string
	pa       *path
	pool     *externalcmd.Pool
	wg       sync.WaitGroup
	aa       bool
	auto     bool
	static   bool
	startD   time.Duration
	closeD   time.Duration
	streams  map[*stream.Stream]*vStreamInfo
	order    []*stream.Stream
	subs     []*stream.SubStream
	subDescs []*description.Session
	rds      map[int]*vRd
	running  bool // static handler running (from its own log lines)
	srcUp    bool
	closed   bool
	timerSig chan struct{}
	got      map[uint32][]int // write tag -> readers that saw it
	nwrite   uint32
	sync     int // requests in flight that the loop answers within the same arm
	regMu    sync.Mutex
	stuck    bool
	// controlled static source instance (shim tools/harness/c19src): Run() invocations alive
	runAlive int
	runMax   int
	runFail  chan struct{} // fail channel of the most recently started Run (a zombie keeps its own)
	runLast  bool          // the most recently started Run is still alive
	runQuit  chan struct{} // closed at teardown: zombies end without reporting
	swapped  bool
	expConf  *conf.Path // configuration the handler was last given while running (or at creation)
	staleRun bool       // a Run was started with another configuration than that
	race     bool       // armed: when the handler is being stopped, let the instance report ready / not-ready
	raced    string
	drainD   []chan defs.PathDescribeRes  // answer channels of all describe requests (drained for duplicates)
	drainR   []chan defs.PathAddReaderRes // ... and of all add-reader requests
}

func (w *vWorld) syncAdd(d int) {
	w.mu.Lock()
	w.sync += d
	w.mu.Unlock()
}

func (w *vWorld) tok(s string) {
	w.mu.Lock()
	w.trace = append(w.trace, s)
	w.mu.Unlock()
}

func (w *vWorld) rep(s string) {
	w.mu.Lock()
	w.replies = append(w.replies, s)
	w.mu.Unlock()
}

// ---- pathParent stub (what pathManager would see) ----

func (w *vWorld) Log(_ logger.Level, f string, a ...any) {
	m := fmt.Sprintf(f, a...)
	if w.race && strings.Contains(m, "[RPI Camera source] stopped: ") {
		// we are in the loop goroutine inside Handler.Stop(), before it cancels the handler context: let the
		// instance report ready / not-ready now and give the handler routine time to start delivering it
		w.race = false
		if h, ok := w.pa.source.(*staticsources.Handler); ok {
			if w.srcUp {
				w.raced = "notready"
				go h.SetNotReady(defs.PathSourceStaticSetNotReadyReq{})
			} else {
				w.raced = "ready"
				go func() {
					res := h.SetReady(defs.PathSourceStaticSetReadyReq{Desc: vGoodDesc(), ReplaceNTP: true})
					if res.Err != nil {
						w.rep("src=" + vErrTok(res.Err))
					} else {
						w.rep("src=delivered")
					}
				}()
			}
			time.Sleep(time.Millisecond)
		}
	}
	switch {
	case strings.HasSuffix(m, "runOnAvailable command started"):
		w.tok("h+avail")
	case strings.HasSuffix(m, "runOnUnavailable command launched"):
		w.tok("h-avail")
	case strings.HasSuffix(m, "runOnOnline command started"):
		w.tok("h+online")
	case strings.HasSuffix(m, "runOnOffline command launched"):
		w.tok("h-online")
	case strings.HasSuffix(m, "runOnDemand command started"):
		w.tok("h+demand")
	case strings.HasSuffix(m, "runOnUnDemand command launched"):
		w.tok("h-demand")
	case strings.HasSuffix(m, "[RPI Camera source] started") || strings.HasSuffix(m, "[RPI Camera source] started on demand"):
		w.mu.Lock()
		w.running = true
		w.mu.Unlock()
		w.tok("src+")
	case strings.Contains(m, "[RPI Camera source] stopped: "):
		w.mu.Lock()
		w.running = false
		w.srcUp = false
		w.mu.Unlock()
		w.tok("src-")
	}
	if strings.HasSuffix(m, "stopped: timed out") || strings.HasSuffix(m, "stopped: not needed by anyone") {
		select {
		case w.timerSig <- struct{}{}:
		default:
		}
	}
}

func (w *vWorld) setPathReady(pa *path) {
	w.mu.Lock()
	if _, ok := w.streams[pa.stream]; !ok {
		w.streams[pa.stream] = &vStreamInfo{id: len(w.order)}
		w.order = append(w.order, pa.stream)
	}
	w.mu.Unlock()
	w.tok("ready")
}

func (w *vWorld) setPathNotReady(pa *path) {
	w.mu.Lock()
	if si, ok := w.streams[pa.stream]; ok {
		si.closed = true
	}
	w.mu.Unlock()
	w.tok("notready")
}

func (w *vWorld) closePathIfIdle(pa *path) {
	w.tok("closeIfIdle")
	if w.auto && pa.pendingRequests.Load() == 0 {
		// what pathManager.doClosePath does (minus the wait, which would block the loop itself)
		pa.close()
	}
}

func (w *vWorld) removePath(*path) { w.tok("rmpath") }

func (w *vWorld) AddReader(defs.PathAddReaderReq) (*defs.PathAddReaderRes, error) {
	return nil, fmt.Errorf("not available in harness")
}

// ---- publisher / reader stubs ----

type vPub struct {
	w  *vWorld
	id int
}

func (p *vPub) Log(logger.Level, string, ...any) {}
func (p *vPub) Close()                           { p.w.tok("pub!" + strconv.Itoa(p.id)) }
func (p *vPub) APISourceDescribe() *defs.APIPathSource {
	return &defs.APIPathSource{Type: "rtspSession", ID: strconv.Itoa(p.id)}
}

type vRd struct {
	w   *vWorld
	id  int
	sr  *stream.Reader
	reg *stream.Stream
}

func (r *vRd) Log(logger.Level, string, ...any) {}
func (r *vRd) Close()                           { r.w.tok("rd!" + strconv.Itoa(r.id)) }
func (r *vRd) APIReaderDescribe() *defs.APIPathReader {
	return &defs.APIPathReader{Type: "rtspSession", ID: strconv.Itoa(r.id)}
}

func (w *vWorld) reader(id int) *vRd {
	r, ok := w.rds[id]
	if !ok {
		r = &vRd{w: w, id: id}
		w.rds[id] = r
	}
	return r
}

// the reader leaves the stream it is registered on (what a real reader does when it terminates)
func (w *vWorld) detach(r *vRd) {
	w.regMu.Lock()
	defer w.regMu.Unlock()
	w.detachL(r)
}

func (w *vWorld) detachL(r *vRd) {
	if r.reg != nil {
		r.reg.RemoveReader(r.sr)
		r.reg, r.sr = nil, nil
	}
}

// the reader registers on the stream it was handed (a reader is on at most one stream at a time)
func (w *vWorld) attach(r *vRd, s *stream.Stream) {
	w.regMu.Lock()
	defer w.regMu.Unlock()
	if r.reg == s {
		return
	}
	w.detachL(r)
	sr := &stream.Reader{Parent: r}
	med := s.OrigDesc.Medias[0]
	id := r.id
	sr.OnData(med, med.Formats[0], func(u *unit.Unit) error {
		if p, ok := u.Payload.(unit.PayloadOpus); ok && len(p) == 1 && len(p[0]) == 5 && p[0][0] == 0xEE {
			tag := uint32(p[0][1])<<24 | uint32(p[0][2])<<16 | uint32(p[0][3])<<8 | uint32(p[0][4])
			w.mu.Lock()
			w.got[tag] = append(w.got[tag], id)
			w.mu.Unlock()
		}
		return nil
	})
	s.AddReader(sr)
	r.sr, r.reg = sr, s
}

func vGoodDesc() *description.Session {
	return &description.Session{Medias: []*description.Media{{
		Type:    description.MediaTypeAudio,
		Formats: []format.Format{&format.Opus{PayloadTyp: 96, ChannelCount: 2}},
	}}}
}

// a description whose SubStream.Initialize() fails: H264 with an unsupported packetization mode,
// published as RTP packets (RTP decoder construction fails; on an alwaysAvailable Opus stream the
// media types do not match)
func vBadDesc() *description.Session {
	return &description.Session{Medias: []*description.Media{{
		Type:    description.MediaTypeVideo,
		Formats: []format.Format{&format.H264{PayloadTyp: 96, PacketizationMode: 2}},
	}}}
}

// oracle for the `subOK` column: ask the library itself, on a throw-away stream.
var vOracleCache = map[string]bool{}

func vSubInitOK(good, aa bool) bool {
	key := fmt.Sprint(good, aa)
	if v, ok := vOracleCache[key]; ok {
		return v
	}
	desc := vBadDesc()
	if good {
		desc = vGoodDesc()
	}
	st := &stream.Stream{
		AlwaysAvailable: aa, WriteQueueSize: 8, RTPMaxPayloadSize: 1400, ReplaceNTP: true,
		Parent: vNullLog{},
	}
	if aa {
		st.AlwaysAvailableTracks = []conf.AlwaysAvailableTrack{{Codec: conf.CodecOpus}}
	} else {
		st.OrigDesc = desc
	}
	if err := st.Initialize(); err != nil {
		panic(err)
	}
	ss := &stream.SubStream{Stream: st, UseRTPPackets: !good}
	if aa {
		ss.InDesc = desc
	}
	err := ss.Initialize()
	st.Close()
	vOracleCache[key] = err == nil
	return err == nil
}

type vNullLog struct{}

func (vNullLog) Log(logger.Level, string, ...any) {}

// ---- world lifecycle ----

var vW *vWorld

func vTeardown() {
	w := vW
	if w == nil {
		return
	}
	vW = nil
	w.pa.close()
	w.pa.wait()
	synctest.Wait()
	close(w.runQuit)
	synctest.Wait()
	for _, ch := range w.drainD {
		close(ch)
	}
	for _, ch := range w.drainR {
		close(ch)
	}
	for _, r := range w.rds {
		w.detach(r)
	}
	// streams the path dropped without closing them
	for _, s := range w.order {
		if !w.streams[s].closed {
			s.Close()
		}
	}
	w.pool.Close()
	synctest.Wait()
}

func vB(s string) bool { return s == "1" }

func vReset(f []string) string {
	vTeardown()
	w := &vWorld{
		streams: map[*stream.Stream]*vStreamInfo{}, rds: map[int]*vRd{},
		timerSig: make(chan struct{}, 16), got: map[uint32][]int{},
	}
	c := &conf.Path{
		Name:             "p",
		RunOnAvailable:   vNoCmd,
		RunOnUnavailable: vNoCmd,
		RunOnOnline:      vNoCmd,
		RunOnOffline:     vNoCmd,
	}
	switch f[1] {
	case "pub":
		c.Source = "publisher"
	case "static":
		c.Source = "rpiCamera"
		w.static = true
	case "redirect":
		c.Source = "redirect"
		c.SourceRedirect = "rtsp://other/x"
	}
	c.SourceOnDemand = vB(f[2])
	if vB(f[3]) {
		c.RunOnDemand = vNoCmd
		c.RunOnUnDemand = vNoCmd
		c.RunOnDemandRestart = true // (the command fails in LookPath and is retried every 5 s of fake time)
	}
	c.OverridePublisher = vB(f[4])
	if vB(f[5]) {
		c.AlwaysAvailable = true
		c.AlwaysAvailableTracks = []conf.AlwaysAvailableTrack{{Codec: conf.CodecOpus}}
		w.aa = true
	}
	c.MaxReaders = verifutil.Atoi(f[6])
	if vB(f[7]) {
		c.Regexp = vRegexp
	}
	if vB(f[8]) {
		fb := "rtsp://fallback/x"
		c.Fallback = &fb
	}
	w.auto = vB(f[9])
	w.startD = time.Duration(verifutil.Atoi(f[10])) * time.Millisecond
	w.closeD = time.Duration(verifutil.Atoi(f[11])) * time.Millisecond
	c.SourceOnDemandStartTimeout = conf.Duration(w.startD)
	c.SourceOnDemandCloseAfter = conf.Duration(w.closeD)
	c.RunOnDemandStartTimeout = conf.Duration(w.startD)
	c.RunOnDemandCloseAfter = conf.Duration(w.closeD)

	w.pool = &externalcmd.Pool{}
	w.pool.Initialize()
	w.pa = &path{
		parentCtx: context.Background(), conf: c, name: "p", wg: &w.wg, externalCmdPool: w.pool, parent: w,
		writeQueueSize: 8, rtpMaxPayloadSize: 1400, rtspAddress: ":8554",
		readTimeout: conf.Duration(10 * time.Second), writeTimeout: conf.Duration(10 * time.Second),
	}
	vW = w
	w.runQuit = make(chan struct{})
	w.pa.initialize()
	out := w.settle()
	if h, ok := w.pa.source.(*staticsources.Handler); ok {
		if set, ok2 := verifutil.Funcs["c19_set_instance"].(func(any, func(context.Context, any, any) error) bool); ok2 {
			w.swapped = set(h, w.sourceRun)
			w.expConf = w.pa.SafeConf()
		}
	}
	return out
}

// Run() of the controlled static source instance: lives until its context is cancelled (Stop / retry),
// or until the harness makes it fail (`srcfail`).  At teardown a Run that nobody cancelled (a zombie)
// ends the goroutine without reporting, so that the bubble can be left.
func (w *vWorld) sourceRun(ctx context.Context, c any, reload any) error {
	fail := make(chan struct{}, 1)
	rl, _ := reload.(chan *conf.Path)
	w.mu.Lock()
	if cp, ok := c.(*conf.Path); ok && w.expConf != nil && cp != w.expConf {
		w.staleRun = true
	}
	w.runAlive++
	if w.runAlive > w.runMax {
		w.runMax = w.runAlive
	}
	w.runFail, w.runLast = fail, true
	w.mu.Unlock()
	done := func() {
		w.mu.Lock()
		w.runAlive--
		if w.runFail == fail {
			w.runLast = false
		}
		w.mu.Unlock()
	}
	for {
		select {
		case <-ctx.Done():
			done()
			return fmt.Errorf("terminated")
		case <-fail:
			done()
			return fmt.Errorf("verif: source failed")
		case <-rl: // hot reload forwarded to the running instance
		case <-w.runQuit:
			runtime.Goexit()
		}
	}
}

// wait for quiescence, then render what the loop did and which answers arrived
func (w *vWorld) settle() string {
	synctest.Wait()
	// alwaysAvailable: SubStream.Initialize waits (in the loop goroutine) for the last sample of the
	// offline sub-stream, i.e. for fake time to pass; let it pass until the arm has answered
	for i := 0; i < 400 && !w.stuck; i++ {
		w.mu.Lock()
		n := w.sync
		w.mu.Unlock()
		if n == 0 {
			break
		}
		time.Sleep(5 * time.Millisecond)
		synctest.Wait()
		if i == 399 {
			w.stuck = true // the loop does not answer any more; do not wait again in this history
		}
	}
	w.mu.Lock()
	tr, re := w.trace, w.replies
	w.trace, w.replies = nil, nil
	w.mu.Unlock()
	// map iteration order in setNotAvailable: sort maximal runs of rd!N numerically
	for i := 0; i < len(tr); {
		j := i
		for j < len(tr) && strings.HasPrefix(tr[j], "rd!") {
			j++
		}
		if j > i+1 {
			sort.Slice(tr[i:j], func(a, b int) bool {
				return verifutil.Atoi(tr[i+a][3:]) < verifutil.Atoi(tr[i+b][3:])
			})
		}
		if j == i {
			j++
		}
		i = j
	}
	for _, t := range tr {
		if t == "rmpath" {
			w.closed = true
		}
	}
	sort.Strings(re)
	out := append(tr, re...)
	if len(out) == 0 {
		return "-"
	}
	return strings.Join(out, " ")
}

func (w *vWorld) streamTok(s *stream.Stream) string {
	if s == nil {
		return "nil"
	}
	w.mu.Lock()
	defer w.mu.Unlock()
	si, ok := w.streams[s]
	if !ok {
		return "s?"
	}
	return "s" + strconv.Itoa(si.id)
}

func vErrTok(err error) string {
	m := err.Error()
	switch {
	case m == "terminated":
		return "term"
	case strings.Contains(m, "has timed out"):
		return "timeout"
	case strings.Contains(m, "no stream is available"):
		return "nostream"
	case strings.Contains(m, "maximum reader count reached"):
		return "max"
	case strings.Contains(m, "since 'source' is not 'publisher'"):
		return "notpub"
	case strings.Contains(m, "someone is already publishing"):
		return "busy"
	}
	return "suberr"
}

// hooks.OnRead / hooks.OnConnect called the way every server does: once, then the closure once.
type vHookLog struct{ toks []string }

func (l *vHookLog) Log(_ logger.Level, f string, a ...any) {
	m := fmt.Sprintf(f, a...)
	switch {
	case strings.HasSuffix(m, "runOnRead command started"):
		l.toks = append(l.toks, "h+read")
	case strings.HasSuffix(m, "runOnUnread command launched"):
		l.toks = append(l.toks, "h-read")
	case strings.HasSuffix(m, "runOnConnect command started"):
		l.toks = append(l.toks, "h+connect")
	case strings.HasSuffix(m, "runOnDisconnect command launched"):
		l.toks = append(l.toks, "h-connect")
	}
}

func vHookObj(kind string) string {
	l := &vHookLog{}
	pool := &externalcmd.Pool{}
	pool.Initialize()
	switch kind {
	case "read":
		stop := hooks.OnRead(hooks.OnReadParams{
			Logger: l, ExternalCmdPool: pool,
			Conf:           &conf.Path{RunOnRead: vNoCmd, RunOnUnread: vNoCmd},
			ExternalCmdEnv: externalcmd.Environment{"MTX_PATH": "p"},
			Reader:         defs.APIPathReader{Type: "rtspSession", ID: "1"},
		})
		stop()
	case "connect":
		stop := hooks.OnConnect(hooks.OnConnectParams{
			Logger: l, ExternalCmdPool: pool, RunOnConnect: vNoCmd, RunOnDisconnect: vNoCmd,
			RTSPAddress: ":8554",
			Desc:        defs.APIPathReader{Type: "rtspConn", ID: "1"},
		})
		stop()
	}
	pool.Close()
	synctest.Wait()
	return strings.Join(l.toks, " ")
}

func vExec(op string) string {
	f := strings.Fields(op)
	if f[0] == "reset" {
		return vReset(f)
	}
	if f[0] == "hookobj" {
		return vHookObj(f[1])
	}
	if f[0] == "rtsp" || f[0] == "rtspconn" || f[0] == "hls" {
		// the real RTSP / HLS session handlers, through optional shims (tools/harness/c20rtsp, c20hls)
		out := "no-shim"
		switch f[0] {
		case "rtsp":
			if fn, ok := verifutil.Funcs["c20_rtsp_session"].(func([]string) string); ok {
				out = fn(strings.Split(f[1], ","))
			}
		case "rtspconn":
			if fn, ok := verifutil.Funcs["c20_rtsp_conn"].(func(bool) string); ok {
				out = fn(vB(f[1]))
			}
		case "hls":
			if fn, ok := verifutil.Funcs["c20_hls_script"].(func(string) string); ok {
				out = fn(f[1])
			}
		}
		synctest.Wait()
		return out
	}
	w := vW
	if w == nil {
		return "no-world"
	}
	pa := w.pa
	switch f[0] {
	case "desc":
		rid := f[1]
		pa.pendingRequests.Add(1)
		chD := make(chan defs.PathDescribeRes)
		w.drainD = append(w.drainD, chD)
		go func() {
			defer func() {
				// a second answer to the same request would block the loop for ever: take it and report it
				for range chD {
					w.rep("q" + rid + "=dup")
				}
			}()
			res, err := pa.describe(defs.PathDescribeReq{
				AccessRequest: defs.PathAccessRequest{Name: "p", SkipAuth: true},
				Res:           chD,
			})
			switch {
			case err != nil:
				w.rep("q" + rid + "=" + vErrTok(err))
			case res.Redirect == "rtsp://fallback/x":
				w.rep("q" + rid + "=fallback")
			case res.Redirect != "":
				w.rep("q" + rid + "=redirect")
			default:
				w.rep("q" + rid + "=" + w.streamTok(res.Stream))
			}
		}()
		return w.settle()

	case "addrd":
		rid := f[1]
		r := w.reader(verifutil.Atoi(f[2]))
		pa.pendingRequests.Add(1)
		chR := make(chan defs.PathAddReaderRes)
		w.drainR = append(w.drainR, chR)
		go func() {
			defer func() {
				for range chR {
					w.rep("q" + rid + "=dup")
				}
			}()
			res, err := pa.addReader(defs.PathAddReaderReq{
				Author:        r,
				AccessRequest: defs.PathAccessRequest{Name: "p", SkipAuth: true},
				Res:           chR,
			})
			if err != nil {
				w.rep("q" + rid + "=" + vErrTok(err))
				return
			}
			if res.Stream != nil {
				w.attach(r, res.Stream)
			}
			w.rep("q" + rid + "=" + w.streamTok(res.Stream))
		}()
		return w.settle()

	case "rmrd":
		r := w.reader(verifutil.Atoi(f[1]))
		w.syncAdd(1)
		go func() { pa.RemoveReader(defs.PathRemoveReaderReq{Author: r}); w.syncAdd(-1) }()
		return w.settle()

	case "detach":
		w.detach(w.reader(verifutil.Atoi(f[1])))
		return w.settle()

	case "addpub":
		p := &vPub{w: w, id: verifutil.Atoi(f[1])}
		good := vB(f[2])
		desc := vBadDesc()
		if good {
			desc = vGoodDesc()
		}
		pa.pendingRequests.Add(1)
		w.syncAdd(1)
		go func() {
			defer w.syncAdd(-1)
			res, err := pa.addPublisher(defs.PathAddPublisherReq{
				Author: p, Desc: desc, UseRTPPackets: !good, ReplaceNTP: true,
				AccessRequest: defs.PathAccessRequest{Name: "p", SkipAuth: true, Publish: true},
				Res:           make(chan defs.PathAddPublisherRes),
			})
			if err != nil {
				w.rep("pub=" + vErrTok(err))
				return
			}
			w.mu.Lock()
			k := len(w.subs)
			w.subs = append(w.subs, res.SubStream)
			w.subDescs = append(w.subDescs, desc)
			w.mu.Unlock()
			w.rep("pub=ok" + strconv.Itoa(k))
		}()
		return w.settle()

	case "rmpub":
		p := &vPub{w: w, id: verifutil.Atoi(f[1])}
		// defs.Publisher identity is the pointer: find the attached one with this id
		if cur, ok := pa.source.(*vPub); ok && cur.id == p.id {
			p = cur
		}
		w.syncAdd(1)
		go func() { pa.RemovePublisher(defs.PathRemovePublisherReq{Author: p}); w.syncAdd(-1) }()
		return w.settle()

	case "srcready", "srcnotready":
		w.mu.Lock()
		running, up := w.running, w.srcUp
		w.mu.Unlock()
		h, ok := pa.source.(*staticsources.Handler)
		if !ok || !running || w.closed || (f[0] == "srcready") == up {
			return "ignored"
		}
		if f[0] == "srcnotready" {
			w.mu.Lock()
			w.srcUp = false
			w.mu.Unlock()
			w.syncAdd(1)
			go func() { h.SetNotReady(defs.PathSourceStaticSetNotReadyReq{}); w.syncAdd(-1) }()
			return w.settle()
		}
		good := vB(f[1])
		desc := vBadDesc()
		if good {
			desc = vGoodDesc()
		}
		w.syncAdd(1)
		go func() {
			defer w.syncAdd(-1)
			res := h.SetReady(defs.PathSourceStaticSetReadyReq{Desc: desc, UseRTPPackets: !good, ReplaceNTP: true})
			if res.Err != nil {
				w.rep("src=" + vErrTok(res.Err))
				return
			}
			w.mu.Lock()
			k := len(w.subs)
			w.subs = append(w.subs, res.SubStream)
			w.subDescs = append(w.subDescs, desc)
			w.srcUp = true
			w.mu.Unlock()
			w.rep("src=ok" + strconv.Itoa(k))
		}()
		return w.settle()

	case "srcfail":
		// the running instance fails (the handler then retries after its 5 s pause); invisible to the loop
		w.mu.Lock()
		if w.swapped && w.runLast && len(w.runFail) == 0 {
			w.runFail <- struct{}{}
		}
		w.mu.Unlock()
		return w.settle()

	case "runs":
		// how many Run() of the static source are alive now / at most at the same time since the last query
		out := w.settle()
		w.mu.Lock()
		a, m := w.runAlive, w.runMax
		w.runMax = w.runAlive
		w.mu.Unlock()
		if !w.swapped {
			return "runs=na"
		}
		w.mu.Lock()
		cf := "ok"
		if w.staleRun {
			cf = "stale"
		}
		w.staleRun = false
		w.mu.Unlock()
		r := fmt.Sprintf("runs=%d max=%d conf=%s", a, m, cf)
		if out != "-" {
			r = out + " " + r
		}
		return r

	case "reload":
		nc := pa.SafeConf().Clone()
		if vB(f[1]) {
			nc.Regexp = vRegexp
		} else {
			nc.Regexp = nil
		}
		// what pathManager would refuse (conf.Path.validate): keep the configuration valid
		if nc.Regexp != nil && (nc.AlwaysAvailable || (nc.HasStaticSource() && !nc.SourceOnDemand)) {
			return "ignored"
		}
		if w.closed {
			return "ignored"
		}
		w.mu.Lock()
		if w.running {
			w.expConf = nc
		}
		w.mu.Unlock()
		w.syncAdd(1)
		go func() { pa.reloadConf(nc); w.syncAdd(-1) }()
		return w.settle()

	case "close":
		if w.closed {
			return "ignored"
		}
		pa.close()
		return w.settle()

	case "tick", "srcrace":
		if f[0] == "srcrace" {
			w.race, w.raced = true, ""
		}
		for len(w.timerSig) > 0 {
			<-w.timerSig
		}
		start := time.Now()
		max := w.startD
		if w.closeD > max {
			max = w.closeD
		}
		tm := time.NewTimer(max + time.Second)
		fired := false
		select {
		case <-w.timerSig:
			fired = true
		case <-tm.C:
		}
		tm.Stop()
		el := time.Since(start)
		out := w.settle()
		suffix := ""
		if f[0] == "srcrace" {
			w.race = false
			if w.raced != "" {
				el -= time.Millisecond // the pause of the injection
			} else {
				w.raced = "none"
			}
			// does the loop still answer?  (real select arm chAPIPathsGet)
			alive := "dead"
			if w.closed {
				alive = "ok"
			} else {
				okc := make(chan struct{})
				go func() {
					_, _ = pa.APIPathsGet(pathAPIPathsGetReq{})
					close(okc)
				}()
				for i := 0; i < 400; i++ {
					synctest.Wait()
					select {
					case <-okc:
						alive = "ok"
					default:
					}
					if alive == "ok" {
						break
					}
					time.Sleep(5 * time.Millisecond)
				}
				if alive == "dead" {
					w.stuck = true
				}
			}
			suffix = " race=" + w.raced + " loop=" + alive
		}
		if !fired {
			if out == "-" {
				return "none" + suffix
			}
			return "none " + out + suffix
		}
		return "after=" + strconv.FormatInt(el.Milliseconds(), 10) + " " + out + suffix

	case "sleep":
		time.Sleep(time.Duration(verifutil.Atoi(f[1])) * time.Millisecond)
		return w.settle()

	case "write":
		k := verifutil.Atoi(f[1])
		w.mu.Lock()
		var ss *stream.SubStream
		var desc *description.Session
		if k < len(w.subs) {
			ss, desc = w.subs[k], w.subDescs[k]
		}
		w.nwrite++
		tag := w.nwrite
		w.mu.Unlock()
		if ss == nil {
			return "dl=[]"
		}
		med := desc.Medias[0]
		ss.WriteUnit(med, med.Formats[0], &unit.Unit{
			PTS:     int64(tag) * 960,
			Payload: unit.PayloadOpus{{0xEE, byte(tag >> 24), byte(tag >> 16), byte(tag >> 8), byte(tag)}},
		})
		rest := w.settle()
		w.mu.Lock()
		ids := append([]int(nil), w.got[tag]...)
		delete(w.got, tag)
		w.mu.Unlock()
		sort.Ints(ids)
		ss2 := make([]string, len(ids))
		for i, v := range ids {
			ss2[i] = strconv.Itoa(v)
		}
		out := "dl=[" + strings.Join(ss2, ",") + "]"
		if rest != "-" {
			out = rest + " " + out
		}
		return out
	}
	return "bad-op"
}

// ---------------------------------------------------------------------------------------------
// generators

type vGenCfg struct {
	kind               string
	sod, rod, ovr, aa  bool
	max                int
	rx, fb, auto       bool
	startMs, closeMs   int
	wReader, wPub, wSt int // weights
	wDesc, wTimer      int
	wWrite, wClose     int
	badSub             int // percent of sub-stream inits that fail
}

func vb(b bool) string {
	if b {
		return "1"
	}
	return "0"
}

func (c *vGenCfg) resetLine() string {
	return fmt.Sprintf("reset %s %s %s %s %s %d %s %s %s %d %d", c.kind, vb(c.sod), vb(c.rod), vb(c.ovr), vb(c.aa),
		c.max, vb(c.rx), vb(c.fb), vb(c.auto), c.startMs, c.closeMs)
}

// a valid configuration (conf.Path.validate constraints), biased by `prop`
func vGenConf(r *verifutil.Rand, prop string) *vGenCfg {
	c := &vGenCfg{}
	switch r.Intn(10) {
	case 0:
		c.kind = "redirect"
	case 1, 2, 3:
		c.kind = "static"
	default:
		c.kind = "pub"
	}
	if prop == "C16" && r.Chance(3, 4) {
		c.kind = "pub"
	}
	if prop == "C19" && r.Chance(1, 2) && c.kind == "redirect" {
		c.kind = "static"
	}
	c.ovr = r.Chance(2, 3)
	c.max = []int{0, 1, 2, 5}[r.Intn(4)]
	if prop == "C18" && r.Chance(1, 2) {
		c.max = 1 + r.Intn(3)
	}
	c.fb = r.Chance(1, 6)
	if prop == "C19" {
		c.fb = r.Chance(1, 3)
	}
	c.auto = r.Chance(1, 2)
	c.aa = r.Chance(1, 4)
	if prop == "C19" {
		c.aa = r.Chance(1, 10)
	}
	if c.aa {
		// no regexp, no on-demand
	} else {
		c.rx = r.Chance(1, 2)
		switch c.kind {
		case "static":
			c.sod = c.rx || r.Chance(2, 3)
		case "redirect":
			c.sod = r.Chance(1, 4)
		case "pub":
			c.rod = r.Chance(1, 2)
			if prop == "C19" || prop == "C20" {
				c.rod = r.Chance(3, 4)
			}
		}
	}
	ds := []int{1000, 5000, 7000, 10000, 30000}
	c.startMs = ds[r.Intn(len(ds))]
	c.closeMs = ds[r.Intn(len(ds))]
	c.badSub = []int{0, 0, 5, 15}[r.Intn(4)]
	return c
}

// C18: readers on an always-available path whose publisher is absent (never came / has left), then
// the path is destroyed
func vGenOfflineAA(r *verifutil.Rand) []string {
	c := &vGenCfg{kind: "pub", aa: true, ovr: r.Bool(), max: []int{0, 0, 2, 5}[r.Intn(4)], startMs: 1000, closeMs: 1000}
	if r.Chance(1, 4) {
		c.kind = "static"
	}
	ops := []string{c.resetLine()}
	rid := 0
	if r.Chance(1, 2) {
		if c.kind == "static" {
			ops = append(ops, "srcready 1", "srcnotready")
		} else {
			ops = append(ops, "addpub 0 1", "rmpub 0")
		}
	}
	for k := 1 + r.Intn(4); k > 0; k-- {
		rid++
		ops = append(ops, fmt.Sprintf("addrd %d %d", rid, r.Intn(4)))
	}
	if r.Chance(1, 3) {
		ops = append(ops, fmt.Sprintf("rmrd %d", r.Intn(4)))
	}
	return append(ops, "close", "write 0")
}

// C19: on-demand static source whose first Run fails and whose retry succeeds; then stop (close
// delay, timeout or path close) and a later demand: never more than one Run alive, none after a stop
func vGenSourceRetry(r *verifutil.Rand) []string {
	c := &vGenCfg{kind: "static", sod: true, rx: r.Bool(), max: 0, startMs: 30000, closeMs: []int{1000, 7000}[r.Intn(2)]}
	ops := []string{c.resetLine(), "runs"}
	rid := 0
	cycles := 1 + r.Intn(3)
	for k := 0; k < cycles; k++ {
		rid++
		ops = append(ops, fmt.Sprintf("addrd %d %d", rid, k), "runs")
		fails := r.Intn(3)
		for f := 0; f < fails; f++ {
			if r.Bool() {
				ops = append(ops, "reload "+vb(r.Bool())) // hot reload while the source runs: the retry must use it
			}
			ops = append(ops, "srcfail", "runs", fmt.Sprintf("sleep %d", 5000+r.Intn(200)), "runs")
		}
		tick := "tick"
		if r.Chance(2, 3) {
			tick = "srcrace" // the instance reports ready / not-ready while the handler is being stopped
		}
		switch r.Intn(4) {
		case 0: // never becomes ready: start timeout
			ops = append(ops, tick, "runs")
		case 1: // path closed while running
			ops = append(ops, "srcready 1", "runs", "close", "runs")
			return ops
		default:
			ops = append(ops, "srcready 1", "runs", fmt.Sprintf("rmrd %d", k), tick, "runs")
		}
	}
	if r.Bool() {
		ops = append(ops, "close", "runs")
	}
	return ops
}

// C16: overridePublisher off on a runOnDemand path: a second publisher in every on-demand state in
// which one is active (no demand yet / closing / ready), and after the first one left
func vGenSecondPublisher(r *verifutil.Rand) []string {
	c := &vGenCfg{kind: "pub", rod: r.Chance(3, 4), ovr: false, rx: r.Bool(), startMs: 10000, closeMs: 7000}
	ops := []string{c.resetLine()}
	rid := 0
	if r.Bool() { // demand first
		rid++
		ops = append(ops, fmt.Sprintf("desc %d", rid))
	}
	ops = append(ops, "addpub 0 1", "addpub 1 1") // initial or closing
	rid++
	ops = append(ops, fmt.Sprintf("addrd %d 5", rid), "addpub 2 1", "write 0") // ready
	ops = append(ops, "rmrd 5", "addpub 1 "+vb(r.Bool()))                        // closing again
	if r.Bool() {
		ops = append(ops, "tick", "addpub 2 1") // command stopped, publisher still there
	}
	ops = append(ops, "rmpub 0", "addpub 3 1", "addpub 0 1", "close")
	return ops
}

func vGenHistory(r *verifutil.Rand, prop string, thorough bool) []string {
	if prop == "C16" && r.Chance(1, 8) {
		return vGenSecondPublisher(r)
	}
	if prop == "C18" && r.Chance(1, 10) {
		return vGenOfflineAA(r)
	}
	if prop == "C19" && r.Chance(1, 8) {
		return vGenSourceRetry(r)
	}
	c := vGenConf(r, prop)
	ops := []string{c.resetLine()}
	n := 6 + r.Intn(30)
	if thorough {
		n = 6 + r.Intn(120)
	}
	rid := 0
	nsub := 0
	slept := 0
	minD := c.startMs
	if c.closeMs < minD {
		minD = c.closeMs
	}
	nrd := 2 + r.Intn(5)
	npub := 1 + r.Intn(3)
	sub := func() string {
		if r.Intn(100) < c.badSub {
			return "0"
		}
		return "1"
	}
	for i := 0; i < n; i++ {
		x := r.Intn(100)
		switch {
		case x < 22:
			rid++
			ops = append(ops, fmt.Sprintf("addrd %d %d", rid, r.Intn(nrd)))
		case x < 32:
			ops = append(ops, fmt.Sprintf("rmrd %d", r.Intn(nrd)))
			if r.Chance(2, 3) {
				ops = append(ops, fmt.Sprintf("detach %d", r.Intn(nrd)))
			}
		case x < 40:
			rid++
			ops = append(ops, fmt.Sprintf("desc %d", rid))
		case x < 56:
			if c.kind == "static" {
				if r.Chance(3, 5) {
					ops = append(ops, "srcready "+sub())
				} else {
					ops = append(ops, "srcnotready")
				}
			} else {
				ops = append(ops, fmt.Sprintf("addpub %d %s", r.Intn(npub), sub()))
			}
			nsub++
		case x < 64:
			if c.kind == "static" {
				ops = append(ops, "srcnotready")
			} else {
				ops = append(ops, fmt.Sprintf("rmpub %d", r.Intn(npub)))
			}
		case x < 74:
			if c.aa {
				ops = append(ops, fmt.Sprintf("write %d", r.Intn(nsub+1)))
			} else {
				ops = append(ops, "tick")
				slept = 0
			}
		case x < 80:
			if !c.aa && slept+1 < minD {
				d := 1 + r.Intn(minD-slept-1)
				slept += d
				ops = append(ops, fmt.Sprintf("sleep %d", d))
			}
		case x < 92:
			ops = append(ops, fmt.Sprintf("write %d", r.Intn(nsub+1)))
		case x < 94:
			if prop == "C20" && r.Chance(2, 3) {
				switch r.Intn(6) {
				case 0:
					ops = append(ops, "hookobj "+r.Pick("read", "connect"))
				case 1:
					ops = append(ops, "rtspconn "+vb(r.Bool()))
				case 2, 3:
					var evs []string
					for k := 1 + r.Intn(7); k > 0; k-- {
						switch r.Intn(8) {
						case 0, 1, 2:
							evs = append(evs, fmt.Sprintf("open%d", r.Intn(5)))
						case 3, 4:
							evs = append(evs, fmt.Sprintf("cdn%d", 5+r.Intn(3)))
						case 5:
							evs = append(evs, r.Pick("down", "up", "down,up"))
						case 6:
							evs = append(evs, fmt.Sprintf("kick%d", r.Intn(8)))
						default:
							evs = append(evs, "up")
						}
					}
					ops = append(ops, "hls "+strings.Join(append(evs, "end"), ","))
				default:
					evs := []string{"setup"}
					for k := r.Intn(7); k > 0; k-- {
						evs = append(evs, r.Pick("play", "pause", "play", "pause", "close", "setup"))
					}
					if r.Chance(2, 3) {
						evs = append(evs, "close")
					}
					ops = append(ops, "rtsp "+strings.Join(evs, ","))
				}
			} else {
				ops = append(ops, "reload "+vb(r.Bool()))
			}
		case x < 96:
			ops = append(ops, fmt.Sprintf("detach %d", r.Intn(nrd)))
		case x < 98:
			if r.Chance(1, 3) {
				ops = append(ops, "close")
			}
		default:
			// a closed reader that lingers on its old stream, then a write from every known sub-stream
			for k := 0; k <= nsub && k < 4; k++ {
				ops = append(ops, fmt.Sprintf("write %d", k))
			}
		}
	}
	if r.Chance(2, 3) {
		ops = append(ops, "close")
		if r.Chance(1, 2) {
			rid++
			ops = append(ops, fmt.Sprintf("desc %d", rid), fmt.Sprintf("write %d", r.Intn(nsub+1)))
		}
	}
	return ops
}

func vClass(op, impl string) string {
	w := op
	if i := strings.IndexByte(op, ' '); i >= 0 {
		w = op[:i]
	}
	switch w {
	case "reset":
		f := strings.Fields(op)
		return "reset/" + f[1] + "/aa" + f[5] + "/od" + f[2] + f[3]
	case "addrd", "desc":
		a := impl
		if i := strings.LastIndexByte(impl, '='); i >= 0 {
			a = impl[i+1:]
		}
		if strings.HasPrefix(a, "s") && a != "suberr" {
			a = "stream"
		}
		if !strings.Contains(impl, "=") {
			a = "held"
		}
		return w + "/" + a
	case "addpub":
		switch {
		case strings.Contains(impl, "pub!"):
			return "addpub/replace"
		case strings.Contains(impl, "pub=ok"):
			return "addpub/ok"
		}
		return "addpub/" + impl[strings.LastIndexByte(impl, '=')+1:]
	case "tick":
		switch {
		case strings.HasPrefix(impl, "none"):
			return "tick/none"
		case strings.Contains(impl, "=timeout"):
			return "tick/ready-timeout-with-holds"
		case strings.Contains(impl, "notready"):
			return "tick/close-teardown"
		}
		return "tick/fired"
	case "write":
		if strings.HasSuffix(impl, "dl=[]") {
			return "write/none"
		}
		return "write/delivered"
	case "close":
		if strings.Contains(impl, "rd!") {
			return "close/with-readers"
		}
		return "close/" + strings.SplitN(impl, " ", 2)[0]
	}
	if impl == "ignored" {
		return w + "/ignored"
	}
	if strings.Contains(impl, "rmpath") {
		return w + "/auto-closed"
	}
	if strings.Contains(impl, "rd!") {
		return w + "/teardown"
	}
	return w
}

func vMain(t *testing.T, id string, quick, thorough int) {
	synctest.Test(t, func(t *testing.T) {
		defer vTeardown()
		verifutil.Main(t, &verifutil.Harness{
			ID: id, Exec: vExec, Quick: quick, Thorough: thorough, Class: vClass,
			Gen: func(r *verifutil.Rand, i int, th bool) []string {
				// make sure the oracle column is what the library says
				for _, g := range []bool{true, false} {
					for _, aa := range []bool{true, false} {
						if vSubInitOK(g, aa) != g {
							panic("harness oracle: SubStream.Initialize does not behave as the op column says")
						}
					}
				}
				return vGenHistory(r, id, th)
			},
			NonTrivial: func(op, impl string) bool { return !strings.HasPrefix(op, "reset") && impl != "-" },
		})
	})
}

func TestVerifC18(t *testing.T) { vMain(t, "C18", 700, 30000) }
func TestVerifC16(t *testing.T) { vMain(t, "C16", 700, 30000) }
func TestVerifC19(t *testing.T) { vMain(t, "C19", 700, 30000) }
func TestVerifC20(t *testing.T) { vMain(t, "C20", 700, 30000) }
