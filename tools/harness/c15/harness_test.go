//go:build verif

package core

// C15 correspondence harness (injected into package core by overlay; identifiers prefixed verifC15).
//
// Drives the REAL pathManager (initialize / run / doReloadConf / createPath / doClosePath) and the REAL
// path goroutines (initialize / run / doReloadConf / add+remove publisher / add+remove reader) with a
// stub parent, stub publishers and stub readers, inside ONE testing/synctest bubble: synctest.Wait()
// gives quiescence between ops.  Configuration sets are made by the real loader (conf.Load of a
// generated document, hence the real Validate), a fresh one per reload as in Core.
//
// ops (names hex)
//   reset <nU> <u>… <confset>      universe of path names of this history; initial configuration set
//   reload <confset>               pathManager.ReloadPathConfs, then quiescence
//   reload2 <mode> <confsetA> <confsetB>
//                                  two reloads with no quiescence in between.  mode 0: back to back;
//                                  mode 1: the loops of the paths that have a publisher are held busy (inside
//                                  the publisher stub's APISourceDescribe) while both reloads are processed;
//                                  mode 2: as 1 with GOMAXPROCS(1).
//   pub <name> | unpub <name> | read <name> <id> | unread <id>
//   hotfields                      (corpus) the harness's list of hot-reloadable conf.Path fields
//   <confset> = <k> {<name> <regex> <hot> <cold> [<groups of this conf's expression on u1> … <… on u_nU>]}…
//        <regex> = Path.Regexp != nil as left by Validate; <hot>/<cold> index the value tuples of the
//        hot-reloadable / other fields; groups (regex confs only) are ORACLE columns computed by calling
//        regexp directly: "N" = no match, "M<k> g0 … gk-1".
// answer: <status> followed by the live paths sorted by name, one token each:
//        name/confName(pathManager side)/conf label of path.SafeConf() = name:hot:cold/capture groups
//        (matches[1:], '.'-joined, "_" = none)/K|N (same path object as in the previous answer, or new)/
//        P|- (has a source)/reader ids ('.'-joined, "_" = none)

import (
	"encoding/json"
	"fmt"
	"os"
	"path/filepath"
	"reflect"
	"regexp"
	"runtime"
	"sort"
	"strconv"
	"strings"
	"sync"
	"testing"
	"testing/synctest"

	"github.com/bluenviron/gortsplib/v5/pkg/description"
	"github.com/bluenviron/gortsplib/v5/pkg/format"

	"github.com/bluenviron/mediamtx/internal/conf"
	"github.com/bluenviron/mediamtx/internal/defs"
	"github.com/bluenviron/mediamtx/internal/externalcmd"
	"github.com/bluenviron/mediamtx/internal/logger"
	"github.com/bluenviron/mediamtx/internal/verifutil"
)

// value tuples of the hot-reloadable fields (the property: forwarding, recording, some camera controls)
var verifC15Hot = []map[string]any{
	{},
	{"recordDeleteAfter": "2h"},
	{"recordSegmentDuration": "30m", "recordPartDuration": "2s"},
	{"rpiCameraBrightness": 0.5},
	{"rpiCameraTextOverlay": "verif", "rpiCameraTextOverlayEnable": true},
	{"rpiCameraAWBGains": []float64{1.5, 2.5}},
	{"recordPath": "./verifrec/%path/%Y-%m-%d_%H-%M-%S-%f", "recordMaxPartSize": "10M"},
	{"rpiCameraFPS": 15.0, "rpiCameraBitrate": 1000000, "recordFormat": "mpegts"},
}

// value tuples of fields that are not hot-reloadable
var verifC15Cold = []map[string]any{
	{},
	{"maxReaders": 50},
	{"overridePublisher": false},
	{"useAbsoluteTimestamp": true},
	{"rpiCameraWidth": 1280},
	{"srtReadPassphrase": "verif0123456789"},
	{"rtspDemuxMpegts": true, "maxReaders": 60},
}

// the fields the property calls hot-reloadable (struct field names of conf.Path)
var verifC15HotFields = map[string]bool{
	"Forward": true,
	"Record":  true, "RecordPath": true, "RecordFormat": true, "RecordPartDuration": true, "RecordMaxPartSize": true,
	"RecordSegmentDuration": true, "RecordDeleteAfter": true,
	"RPICameraBrightness": true, "RPICameraContrast": true, "RPICameraSaturation": true, "RPICameraSharpness": true,
	"RPICameraExposure": true, "RPICameraFlickerPeriod": true, "RPICameraAWB": true, "RPICameraAWBGains": true,
	"RPICameraDenoise": true, "RPICameraShutter": true, "RPICameraMetering": true, "RPICameraGain": true,
	"RPICameraEV": true, "RPICameraFPS": true, "RPICameraTextOverlayEnable": true, "RPICameraTextOverlay": true,
	"RPICameraIDRPeriod": true, "RPICameraBitrate": true,
}

type verifC15ConfSpec struct {
	name      string
	hot, cold int
}

type verifC15Pub struct {
	mu     sync.Mutex
	name   string
	pa     *path
	closed bool
	gate   chan struct{}
}

func (p *verifC15Pub) Log(logger.Level, string, ...any) {}
func (p *verifC15Pub) Close() {
	p.mu.Lock()
	p.closed = true
	p.mu.Unlock()
}

func (p *verifC15Pub) APISourceDescribe() *defs.APIPathSource {
	p.mu.Lock()
	g := p.gate
	p.mu.Unlock()
	if g != nil {
		<-g
	}
	return &defs.APIPathSource{Type: "rtspSession", ID: "verif"}
}

type verifC15Rd struct {
	mu     sync.Mutex
	id     int
	pa     *path
	closed bool
}

func (r *verifC15Rd) Log(logger.Level, string, ...any) {}
func (r *verifC15Rd) Close() {
	r.mu.Lock()
	r.closed = true
	r.pa = nil
	r.mu.Unlock()
}

func (r *verifC15Rd) APIReaderDescribe() *defs.APIPathReader {
	return &defs.APIPathReader{Type: "rtspSession", ID: strconv.Itoa(r.id)}
}

type verifC15Parent struct{}

func (verifC15Parent) Log(logger.Level, string, ...any) {}

type verifC15World struct {
	pm       *pathManager
	pool     *externalcmd.Pool
	labels   map[*conf.Path]string
	prev     map[string]*path
	pubs     map[string]*verifC15Pub
	rds      map[int]*verifC15Rd
	universe []string
	dir      string
}

var verifC15W *verifC15World

func verifC15Teardown() {
	w := verifC15W
	if w == nil {
		return
	}
	verifC15W = nil
	w.pm.close()
	synctest.Wait()
	w.pool.Close()
	synctest.Wait()
}

var verifC15Dir string

// verifC15Load makes a configuration set with the real loader.
func verifC15Load(w *verifC15World, specs []verifC15ConfSpec) (map[string]*conf.Path, error) {
	paths := map[string]any{}
	for _, s := range specs {
		m := map[string]any{}
		for k, v := range verifC15Hot[s.hot] {
			m[k] = v
		}
		for k, v := range verifC15Cold[s.cold] {
			m[k] = v
		}
		paths[s.name] = m
	}
	doc, err := json.Marshal(map[string]any{"paths": paths})
	if err != nil {
		return nil, err
	}
	fp := filepath.Join(verifC15Dir, "conf.yml")
	if err = os.WriteFile(fp, doc, 0o600); err != nil {
		return nil, err
	}
	c, _, err := conf.Load(fp, nil, nil)
	if err != nil {
		return nil, err
	}
	for _, s := range specs {
		p := c.Paths[s.name]
		if p == nil {
			return nil, fmt.Errorf("verif: path %q missing after Load", s.name)
		}
		if w != nil {
			w.labels[p] = verifutil.HexS(s.name) + ":" + strconv.Itoa(s.hot) + ":" + strconv.Itoa(s.cold)
		}
	}
	return c.Paths, nil
}

// verifC15SelfCheck: the value tuples are what they claim to be — two hot tuples differ only in fields the
// property calls hot-reloadable, two cold tuples differ in at least one other field, tuples are pairwise
// distinct.  (Looks at the loaded conf.Path values only, not at pathConfCanBeUpdated.)
func verifC15SelfCheck() {
	diff := func(a, b *conf.Path) (hot, cold int) {
		va, vb := reflect.ValueOf(*a), reflect.ValueOf(*b)
		for i := 0; i < va.NumField(); i++ {
			n := va.Type().Field(i).Name
			if n == "Name" || n == "Regexp" {
				continue
			}
			if !reflect.DeepEqual(va.Field(i).Interface(), vb.Field(i).Interface()) {
				if verifC15HotFields[n] {
					hot++
				} else {
					cold++
				}
			}
		}
		return
	}
	var specs []verifC15ConfSpec
	for h := range verifC15Hot {
		for c := range verifC15Cold {
			specs = append(specs, verifC15ConfSpec{name: fmt.Sprintf("p%d_%d", h, c), hot: h, cold: c})
		}
	}
	ps, err := verifC15Load(nil, specs)
	if err != nil {
		panic("verif C15 self check: " + err.Error())
	}
	at := func(h, c int) *conf.Path { return ps[fmt.Sprintf("p%d_%d", h, c)] }
	for h1 := range verifC15Hot {
		for h2 := range verifC15Hot {
			for c1 := range verifC15Cold {
				for c2 := range verifC15Cold {
					dh, dc := diff(at(h1, c1), at(h2, c2))
					if (h1 != h2) != (dh > 0) || (c1 != c2) != (dc > 0) {
						panic(fmt.Sprintf("verif C15 self check: tuples (%d,%d) vs (%d,%d): %d hot / %d other fields differ",
							h1, c1, h2, c2, dh, dc))
					}
				}
			}
		}
	}
}

func verifC15Expr(name string) (string, bool) {
	switch {
	case name == "all" || name == "all_others":
		return "^.*$", true
	case name != "" && name[0] == '~':
		return name[1:], true
	}
	return "", false
}

func verifC15Groups(m []string) string {
	if m == nil {
		return "N"
	}
	var sb strings.Builder
	fmt.Fprintf(&sb, "M%d", len(m))
	for _, g := range m {
		sb.WriteByte(' ')
		sb.WriteString(verifutil.HexS(g))
	}
	return sb.String()
}

// verifC15ConfSet renders a conf set for an op line (regex flag from the name; checked against Validate in Exec).
func verifC15ConfSet(specs []verifC15ConfSpec, universe []string) string {
	var sb strings.Builder
	fmt.Fprintf(&sb, "%d", len(specs))
	for _, s := range specs {
		expr, rx := verifC15Expr(s.name)
		r := 0
		if rx {
			r = 1
		}
		fmt.Fprintf(&sb, " %s %d %d %d", verifutil.HexS(s.name), r, s.hot, s.cold)
		if rx {
			re := regexp.MustCompile(expr)
			for _, u := range universe {
				sb.WriteByte(' ')
				sb.WriteString(verifC15Groups(re.FindStringSubmatch(u)))
			}
		}
	}
	return sb.String()
}

// verifC15ParseConfSet reads a conf set from op fields; returns the remaining fields.
func verifC15ParseConfSet(f []string, nU int) ([]verifC15ConfSpec, []string) {
	k := verifutil.Atoi(f[0])
	f = f[1:]
	specs := make([]verifC15ConfSpec, 0, k)
	for i := 0; i < k; i++ {
		s := verifC15ConfSpec{name: verifutil.UnHexS(f[0]), hot: verifutil.Atoi(f[2]), cold: verifutil.Atoi(f[3])}
		rx := f[1] == "1"
		f = f[4:]
		if rx {
			for j := 0; j < nU; j++ {
				if f[0] == "N" {
					f = f[1:]
				} else {
					f = f[1+verifutil.Atoi(f[0][1:]):]
				}
			}
		}
		specs = append(specs, s)
	}
	return specs, f
}

func verifC15Desc() *description.Session {
	return &description.Session{Medias: []*description.Media{{
		Type:    description.MediaTypeAudio,
		Formats: []format.Format{&format.Opus{PayloadTyp: 96, ChannelCount: 2}},
	}}}
}

func verifC15LivePaths(w *verifC15World) map[string]*path {
	req := pathAPIPathsListReq{res: make(chan pathAPIPathsListRes)}
	w.pm.chAPIPathsList <- req
	res := <-req.res
	return res.paths
}

func verifC15Dump(w *verifC15World) string {
	synctest.Wait()
	live := verifC15LivePaths(w)
	names := make([]string, 0, len(live))
	for n := range live {
		names = append(names, n)
	}
	sort.Strings(names)
	var sb strings.Builder
	for _, n := range names {
		pa := live[n]
		item, err := pa.APIPathsGet(pathAPIPathsGetReq{})
		if err != nil {
			fmt.Fprintf(&sb, " %s/terminated", verifutil.HexS(n))
			continue
		}
		label, ok := w.labels[pa.SafeConf()]
		if !ok {
			label = "?"
		}
		if item.ConfName != pa.SafeConf().Name {
			label += "!"
		}
		groups := "_"
		if len(pa.matches) > 1 {
			gs := make([]string, 0, len(pa.matches)-1)
			for _, g := range pa.matches[1:] {
				gs = append(gs, verifutil.HexS(g))
			}
			groups = strings.Join(gs, ".")
		}
		kn := "N"
		if w.prev[n] == pa {
			kn = "K"
		}
		src := "-"
		if item.Source != nil {
			src = "P"
		}
		rds := "_"
		if len(item.Readers) > 0 {
			ids := make([]int, 0, len(item.Readers))
			for _, r := range item.Readers {
				id, _ := strconv.Atoi(r.ID)
				ids = append(ids, id)
			}
			sort.Ints(ids)
			ss := make([]string, len(ids))
			for i, id := range ids {
				ss[i] = strconv.Itoa(id)
			}
			rds = strings.Join(ss, ".")
		}
		if n != pa.name || n != item.Name {
			kn += "!"
		}
		fmt.Fprintf(&sb, " %s/%s/%s/%s/%s/%s/%s", verifutil.HexS(n), verifutil.HexS(pa.confName), label, groups, kn, src, rds)
	}
	w.prev = live
	return sb.String()
}

func verifC15CheckRegexFlags(specs []verifC15ConfSpec, ps map[string]*conf.Path) bool {
	for _, s := range specs {
		_, rx := verifC15Expr(s.name)
		if (ps[s.name].Regexp != nil) != rx || ps[s.name].Name != s.name {
			return false
		}
	}
	return true
}

func verifC15Exec(op string) string {
	f := strings.Fields(op)
	if f[0] == "hotfields" { // the harness's reading of "hot-reloadable", compared with the fact extracted from the source
		var names []string
		for n := range verifC15HotFields {
			names = append(names, n)
		}
		sort.Strings(names)
		return strings.Join(names, ",")
	}
	if f[0] == "reset" {
		verifC15Teardown()
		w := &verifC15World{
			labels: map[*conf.Path]string{}, prev: map[string]*path{}, pubs: map[string]*verifC15Pub{},
			rds: map[int]*verifC15Rd{},
		}
		nU := verifutil.Atoi(f[1])
		for i := 0; i < nU; i++ {
			w.universe = append(w.universe, verifutil.UnHexS(f[2+i]))
		}
		specs, _ := verifC15ParseConfSet(f[2+nU:], nU)
		var sb strings.Builder
		fmt.Fprintf(&sb, "reset %d", nU)
		for _, u := range w.universe {
			sb.WriteByte(' ')
			sb.WriteString(verifutil.HexS(u))
		}
		if sb.String()+" "+verifC15ConfSet(specs, w.universe) != op {
			return "stale-oracle"
		}
		ps, err := verifC15Load(w, specs)
		if err != nil {
			return "load-error " + strings.ReplaceAll(err.Error(), " ", "_")
		}
		if !verifC15CheckRegexFlags(specs, ps) {
			return "regex-flag-mismatch"
		}
		w.pool = &externalcmd.Pool{}
		w.pool.Initialize()
		w.pm = &pathManager{
			logLevel:          conf.LogLevel(logger.Info),
			rtspAddress:       ":8554",
			readTimeout:       conf.Duration(10e9),
			writeTimeout:      conf.Duration(10e9),
			writeQueueSize:    512,
			udpMaxPayloadSize: 1472,
			rtpMaxPayloadSize: 1450,
			pathConfs:         ps,
			externalCmdPool:   w.pool,
			parent:            verifC15Parent{},
		}
		w.pm.initialize()
		verifC15W = w
		return "ok" + verifC15Dump(w)
	}
	w := verifC15W
	if w == nil {
		return "no-world"
	}
	nU := len(w.universe)
	switch f[0] {
	case "reload":
		specs, _ := verifC15ParseConfSet(f[1:], nU)
		if "reload "+verifC15ConfSet(specs, w.universe) != op {
			return "stale-oracle"
		}
		ps, err := verifC15Load(w, specs)
		if err != nil {
			return "load-error " + strings.ReplaceAll(err.Error(), " ", "_")
		}
		if !verifC15CheckRegexFlags(specs, ps) {
			return "regex-flag-mismatch"
		}
		w.pm.ReloadPathConfs(ps)
		return "ok" + verifC15Dump(w)

	case "reload2":
		mode := verifutil.Atoi(f[1])
		specsA, rest := verifC15ParseConfSet(f[2:], nU)
		specsB, _ := verifC15ParseConfSet(rest, nU)
		if "reload2 "+f[1]+" "+verifC15ConfSet(specsA, w.universe)+" "+verifC15ConfSet(specsB, w.universe) != op {
			return "stale-oracle"
		}
		psA, err := verifC15Load(w, specsA)
		if err != nil {
			return "load-error " + strings.ReplaceAll(err.Error(), " ", "_")
		}
		psB, err := verifC15Load(w, specsB)
		if err != nil {
			return "load-error " + strings.ReplaceAll(err.Error(), " ", "_")
		}
		if !verifC15CheckRegexFlags(specsA, psA) || !verifC15CheckRegexFlags(specsB, psB) {
			return "regex-flag-mismatch"
		}
		synctest.Wait()
		var gate chan struct{}
		var held []*verifC15Pub
		if mode >= 1 {
			gate = make(chan struct{})
			for _, p := range w.pubs {
				p.mu.Lock()
				if !p.closed {
					p.gate = gate
					held = append(held, p)
				}
				p.mu.Unlock()
			}
			for _, p := range held {
				go p.pa.APIPathsGet(pathAPIPathsGetReq{}) //nolint:errcheck
			}
			synctest.Wait() // the held paths are now inside APISourceDescribe
		}
		old := 0
		if mode == 2 {
			old = runtime.GOMAXPROCS(1)
		}
		done := make(chan struct{})
		go func() {
			w.pm.ReloadPathConfs(psA)
			w.pm.ReloadPathConfs(psB)
			close(done)
		}()
		synctest.Wait()
		if gate != nil {
			for _, p := range held {
				p.mu.Lock()
				p.gate = nil
				p.mu.Unlock()
			}
			close(gate)
		}
		<-done
		synctest.Wait()
		if mode == 2 {
			runtime.GOMAXPROCS(old)
		}
		return "ok" + verifC15Dump(w)

	case "pub":
		name := verifutil.UnHexS(f[1])
		if p := w.pubs[name]; p != nil {
			p.mu.Lock()
			closed := p.closed
			p.mu.Unlock()
			if !closed {
				return "already" + verifC15Dump(w)
			}
		}
		p := &verifC15Pub{name: name}
		res, err := w.pm.AddPublisher(defs.PathAddPublisherReq{
			Author: p, Desc: verifC15Desc(), ReplaceNTP: true,
			AccessRequest: defs.PathAccessRequest{Name: name, Publish: true, SkipAuth: true},
		})
		if err != nil {
			return "err" + verifC15Dump(w)
		}
		p.pa = res.Path.(*path)
		w.pubs[name] = p
		return "ok" + verifC15Dump(w)

	case "unpub":
		name := verifutil.UnHexS(f[1])
		p := w.pubs[name]
		if p == nil {
			return "none" + verifC15Dump(w)
		}
		delete(w.pubs, name)
		p.mu.Lock()
		closed := p.closed
		p.mu.Unlock()
		if closed {
			return "none" + verifC15Dump(w)
		}
		p.pa.RemovePublisher(defs.PathRemovePublisherReq{Author: p})
		return "ok" + verifC15Dump(w)

	case "read":
		name := verifutil.UnHexS(f[1])
		id := verifutil.Atoi(f[2])
		r := w.rds[id]
		if r == nil {
			r = &verifC15Rd{id: id}
			w.rds[id] = r
		}
		r.mu.Lock()
		busy := r.pa != nil
		r.mu.Unlock()
		if busy {
			return "busy" + verifC15Dump(w)
		}
		res, err := w.pm.AddReader(defs.PathAddReaderReq{
			Author:        r,
			AccessRequest: defs.PathAccessRequest{Name: name, SkipAuth: true},
		})
		if err != nil {
			if _, ok := err.(*defs.PathNoStreamAvailableError); ok {
				return "nostream" + verifC15Dump(w)
			}
			return "err" + verifC15Dump(w)
		}
		r.mu.Lock()
		r.pa = res.Path.(*path)
		r.closed = false
		r.mu.Unlock()
		return "ok" + verifC15Dump(w)

	case "unread":
		id := verifutil.Atoi(f[1])
		r := w.rds[id]
		if r == nil {
			return "none" + verifC15Dump(w)
		}
		r.mu.Lock()
		pa := r.pa
		r.pa = nil
		r.mu.Unlock()
		if pa == nil {
			return "none" + verifC15Dump(w)
		}
		pa.RemoveReader(defs.PathRemoveReaderReq{Author: r})
		return "ok" + verifC15Dump(w)
	}
	return "bad-op"
}

// ---- generator ----

var verifC15Statics = []string{"cam1", "cam2", "live/a", "x"}

var verifC15Regexes = []string{
	"~^cam(\\d)$", "~^(c)am1$", "~^cam1$", "~^(cam)(\\d)$", "~^live/(.*)$", "~^(.*)/(.*)$", "~^c", "~^(.+)$", "~^(x|y)$",
}

var verifC15Extra = []string{"cam3", "live/b", "y", "zz", "cam1/sub"}

type verifC15Gen struct {
	r        *verifutil.Rand
	universe []string
	cur      []verifC15ConfSpec
}

func (g *verifC15Gen) pickName() string { return g.universe[g.r.Intn(len(g.universe))] }

// a fresh conf set: 0..3 static + 0..3 regex + maybe all_others
func (g *verifC15Gen) freshSet() []verifC15ConfSpec {
	r := g.r
	seen := map[string]bool{}
	var out []verifC15ConfSpec
	add := func(n string) {
		if !seen[n] {
			seen[n] = true
			h, c := 0, 0
			if r.Chance(1, 2) {
				h = r.Intn(len(verifC15Hot))
			}
			if r.Chance(1, 3) {
				c = r.Intn(len(verifC15Cold))
			}
			out = append(out, verifC15ConfSpec{name: n, hot: h, cold: c})
		}
	}
	for k := r.Intn(4); k > 0; k-- {
		add(verifC15Statics[r.Intn(len(verifC15Statics))])
	}
	for k := r.Intn(4); k > 0; k-- {
		add(verifC15Regexes[r.Intn(len(verifC15Regexes))])
	}
	if r.Chance(1, 3) {
		add(r.Pick("all_others", "all", "~^.*$"))
	}
	return out
}

// an edit of the current set: change hot / cold values, rename a regex, drop or add a conf
func (g *verifC15Gen) editSet() []verifC15ConfSpec {
	r := g.r
	out := append([]verifC15ConfSpec(nil), g.cur...)
	has := func(n string) bool {
		for _, s := range out {
			if s.name == n {
				return true
			}
		}
		return false
	}
	hasAlias := has("all") || has("all_others") || has("~^.*$")
	for k := 1 + r.Intn(2); k > 0; k-- {
		switch x := r.Intn(12); {
		case x < 4 && len(out) > 0: // hot change
			out[r.Intn(len(out))].hot = r.Intn(len(verifC15Hot))
		case x < 6 && len(out) > 0: // cold change
			out[r.Intn(len(out))].cold = r.Intn(len(verifC15Cold))
		case x < 8 && len(out) > 0: // rename (same values): migration between confs
			i := r.Intn(len(out))
			var n string
			if r.Chance(1, 3) {
				n = verifC15Statics[r.Intn(len(verifC15Statics))]
			} else {
				n = verifC15Regexes[r.Intn(len(verifC15Regexes))]
			}
			if !has(n) {
				out[i].name = n
			}
		case x < 10 && len(out) > 0: // drop
			i := r.Intn(len(out))
			out = append(out[:i], out[i+1:]...)
			hasAlias = has("all") || has("all_others") || has("~^.*$")
		default: // add
			var n string
			switch r.Intn(5) {
			case 0:
				n = r.Pick("all_others", "all", "~^.*$")
				if hasAlias {
					n = ""
				}
				hasAlias = true
			case 1, 2:
				n = verifC15Statics[r.Intn(len(verifC15Statics))]
			default:
				n = verifC15Regexes[r.Intn(len(verifC15Regexes))]
			}
			if n != "" && !has(n) {
				s := verifC15ConfSpec{name: n}
				if len(out) > 0 && r.Chance(2, 3) { // copy the values of an existing conf (hot migration needs equal values)
					t := out[r.Intn(len(out))]
					s.hot, s.cold = t.hot, t.cold
				}
				out = append(out, s)
			}
		}
	}
	return out
}

// resolvable says whether a name resolves in the generator's current conf set (regexp called directly).
func (g *verifC15Gen) resolvable(n string) bool {
	for _, s := range g.cur {
		if s.name == n {
			return true
		}
	}
	for _, s := range g.cur { // all universe names are valid path names
		if expr, ok := verifC15Expr(s.name); ok && regexp.MustCompile(expr).MatchString(n) {
			return true
		}
	}
	return false
}

func (g *verifC15Gen) pickResolvable() string {
	for try := 0; try < 6; try++ {
		n := g.pickName()
		if g.resolvable(n) {
			return n
		}
	}
	return g.pickName()
}

func verifC15GenHistory(r *verifutil.Rand, thorough bool) []string {
	g := &verifC15Gen{r: r}
	g.universe = append(g.universe, verifC15Statics...)
	for _, e := range verifC15Extra {
		if r.Chance(1, 2) {
			g.universe = append(g.universe, e)
		}
	}
	g.cur = g.freshSet()
	for len(g.cur) == 0 && r.Chance(3, 4) {
		g.cur = g.freshSet()
	}
	var sb strings.Builder
	fmt.Fprintf(&sb, "reset %d", len(g.universe))
	for _, u := range g.universe {
		sb.WriteByte(' ')
		sb.WriteString(verifutil.HexS(u))
	}
	ops := []string{sb.String() + " " + verifC15ConfSet(g.cur, g.universe)}
	// the generator's guess of which names have a publisher / which readers are attached (only a bias)
	pubs := []string{}
	rds := []int{}
	pub := func() {
		n := g.pickResolvable()
		if r.Chance(1, 8) {
			n = g.pickName()
		}
		pubs = append(pubs, n)
		ops = append(ops, "pub "+verifutil.HexS(n))
	}
	read := func() {
		n := g.pickName()
		if len(pubs) > 0 && r.Chance(4, 5) {
			n = pubs[r.Intn(len(pubs))]
		}
		id := 1 + r.Intn(5)
		rds = append(rds, id)
		ops = append(ops, fmt.Sprintf("read %s %d", verifutil.HexS(n), id))
	}
	// most histories start with some clients, so that reloads meet live regex paths
	for k := r.Intn(4); k > 0; k-- {
		pub()
		if r.Chance(1, 2) {
			read()
		}
	}
	n := 4 + r.Intn(10)
	if thorough {
		n += r.Intn(20)
	}
	for i := 0; i < n; i++ {
		switch x := r.Intn(20); {
		case x < 7:
			g.cur = g.editSet()
			ops = append(ops, "reload "+verifC15ConfSet(g.cur, g.universe))
		case x < 8:
			g.cur = g.freshSet()
			ops = append(ops, "reload "+verifC15ConfSet(g.cur, g.universe))
		case x < 10:
			a := g.editSet()
			g.cur = a
			b := g.editSet()
			g.cur = b
			ops = append(ops, fmt.Sprintf("reload2 %d %s %s", r.Intn(3), verifC15ConfSet(a, g.universe), verifC15ConfSet(b, g.universe)))
		case x < 13:
			pub()
		case x < 14:
			if len(pubs) > 0 && r.Chance(3, 4) {
				k := r.Intn(len(pubs))
				ops = append(ops, "unpub "+verifutil.HexS(pubs[k]))
				pubs = append(pubs[:k], pubs[k+1:]...)
			} else {
				ops = append(ops, "unpub "+verifutil.HexS(g.pickName()))
			}
		case x < 18:
			read()
		default:
			if len(rds) > 0 && r.Chance(3, 4) {
				k := r.Intn(len(rds))
				ops = append(ops, fmt.Sprintf("unread %d", rds[k]))
				rds = append(rds[:k], rds[k+1:]...)
			} else {
				ops = append(ops, fmt.Sprintf("unread %d", 1+r.Intn(5)))
			}
		}
	}
	return ops
}

// verifC15Class buckets an (op, answer) pair: op kind, status, and what happened to the live paths.
func verifC15Class(op, impl string) string {
	w := strings.SplitN(op, " ", 2)[0]
	f := strings.Fields(impl)
	if len(f) == 0 {
		return w + "/empty"
	}
	if w == "hotfields" {
		return w
	}
	if w == "reload2" {
		w += "-m" + strings.SplitN(op, " ", 3)[1]
	}
	if !strings.HasPrefix(w, "reload") {
		return w + "/" + f[0]
	}
	kept, fresh, clients := 0, 0, 0
	for _, t := range f[1:] {
		q := strings.Split(t, "/")
		if len(q) != 7 {
			continue
		}
		if q[4] == "K" {
			kept++
			if q[5] == "P" {
				clients++
			}
		} else {
			fresh++
		}
	}
	c := w + "/" + f[0]
	switch {
	case kept > 0 && fresh > 0:
		c += "/kept+new"
	case kept > 0:
		c += "/kept"
	case fresh > 0:
		c += "/new"
	default:
		c += "/nopaths"
	}
	if clients > 0 {
		c += "+clients"
	}
	return c
}

func TestVerifC15(t *testing.T) {
	dir, err := os.MkdirTemp("", "verifc15")
	if err != nil {
		t.Fatal(err)
	}
	defer os.RemoveAll(dir)
	verifC15Dir = dir
	verifC15SelfCheck()
	synctest.Test(t, func(t *testing.T) {
		defer verifC15Teardown()
		verifutil.Main(t, &verifutil.Harness{
			ID: "C15", Exec: verifC15Exec, Quick: 250, Thorough: 5000, Class: verifC15Class,
			Gen: func(r *verifutil.Rand, i int, th bool) []string { return verifC15GenHistory(r, th) },
			NonTrivial: func(op, impl string) bool { return !strings.HasPrefix(op, "reset") },
		})
	})
}
