//go:build verif

package auth

import (
	"crypto/sha256"
	"encoding/base64"
	"encoding/json"
	"fmt"
	"net"
	"regexp"
	"strings"
	"testing"

	"github.com/matthewhartstonge/argon2"

	"github.com/bluenviron/mediamtx/internal/conf"
	"github.com/bluenviron/mediamtx/internal/verifutil"
)

// ---------- op-line encoding ----------

type verifC01User = conf.AuthInternalUser

func verifC01EncNet(n conf.IPNetwork) string {
	return verifutil.Hex(n.IP) + ":" + verifutil.Hex(n.Mask)
}

func verifC01EncUsers(us []verifC01User) string {
	if len(us) == 0 {
		return "_"
	}
	var parts []string
	for _, u := range us {
		ips := "_"
		if len(u.IPs) != 0 {
			var l []string
			for _, n := range u.IPs {
				l = append(l, verifC01EncNet(n))
			}
			ips = strings.Join(l, "+")
		}
		perms := "_"
		if len(u.Permissions) != 0 {
			var l []string
			for _, p := range u.Permissions {
				l = append(l, verifutil.HexS(string(p.Action))+":"+verifutil.HexS(p.Path))
			}
			perms = strings.Join(l, "+")
		}
		parts = append(parts, verifutil.HexS(string(u.User))+","+verifutil.HexS(string(u.Pass))+","+ips+","+perms)
	}
	return strings.Join(parts, "/")
}

func verifC01DecNet(s string) conf.IPNetwork {
	a := strings.Split(s, ":")
	return conf.IPNetwork{IP: net.IP(verifutil.UnHex(a[0])), Mask: net.IPMask(verifutil.UnHex(a[1]))}
}

func verifC01DecUsers(s string) []verifC01User {
	if s == "_" {
		return nil
	}
	var us []verifC01User
	for _, p := range strings.Split(s, "/") {
		f := strings.Split(p, ",")
		u := verifC01User{User: conf.Credential(verifutil.UnHexS(f[0])), Pass: conf.Credential(verifutil.UnHexS(f[1]))}
		if f[2] != "_" {
			for _, n := range strings.Split(f[2], "+") {
				u.IPs = append(u.IPs, verifC01DecNet(n))
			}
		}
		if f[3] != "_" {
			for _, pp := range strings.Split(f[3], "+") {
				a := strings.Split(pp, ":")
				u.Permissions = append(u.Permissions, conf.AuthInternalUserPermission{
					Action: conf.AuthAction(verifutil.UnHexS(a[0])), Path: verifutil.UnHexS(a[1]),
				})
			}
		}
		us = append(us, u)
	}
	return us
}

func verifC01DecExcl(s string) []conf.AuthInternalUserPermission {
	if s == "_" {
		return nil
	}
	var ps []conf.AuthInternalUserPermission
	for _, pp := range strings.Split(s, "+") {
		a := strings.Split(pp, ":")
		ps = append(ps, conf.AuthInternalUserPermission{Action: conf.AuthAction(verifutil.UnHexS(a[0])), Path: verifutil.UnHexS(a[1])})
	}
	return ps
}

// "reset <users> <HTTPExclude> <JWTExclude>": exclude lists belong to the http / jwt methods; half of the histories
// set them (often covering every action) to make sure the internal method never consults them.
func verifC01ResetOp(r *verifutil.Rand, us []verifC01User) string {
	if r.Bool() {
		return "reset " + verifC01EncUsers(us)
	}
	mk := func() string {
		if r.Chance(1, 4) {
			return "_"
		}
		var l []string
		for _, a := range verifC01Actions {
			if r.Chance(2, 3) {
				l = append(l, verifutil.HexS(a)+":"+verifutil.HexS(r.Pick("", "", "", "cam1", "~.*", "live")))
			}
		}
		if len(l) == 0 {
			return "_"
		}
		return strings.Join(l, "+")
	}
	return "reset " + verifC01EncUsers(us) + " " + mk() + " " + mk()
}

func verifC01DecCV(s string) func(string, string) bool {
	if s == "n" {
		return nil
	}
	parts := strings.Split(s, "/")
	def := parts[0] == "t1"
	type ent struct {
		u, p string
		b    bool
	}
	var tab []ent
	for _, e := range parts[1:] {
		f := strings.Split(e, ".")
		tab = append(tab, ent{verifutil.UnHexS(f[0]), verifutil.UnHexS(f[1]), f[2] == "1"})
	}
	return func(u, p string) bool {
		for _, e := range tab {
			if e.u == u && e.p == p {
				return e.b
			}
		}
		return def
	}
}

// ---------- running one op against the real code ----------

var verifC01M *Manager

func verifC01Exec(op string) string {
	f := strings.Fields(op)
	switch f[0] {
	case "reset":
		us := verifC01DecUsers(f[1])
		verifC01M = &Manager{Method: conf.AuthMethodInternal, InternalUsers: us}
		if len(f) >= 4 { // settings of the *other* methods: must be ignored by the internal method
			verifC01M.HTTPExclude = verifC01DecExcl(f[2])
			verifC01M.JWTExclude = verifC01DecExcl(f[3])
			verifC01M.HTTPAddress = "http://127.0.0.1:1/never"
			verifC01M.JWTJWKS = "http://127.0.0.1:1/never"
		}
		return fmt.Sprintf("ok %d", len(verifC01M.InternalUsers))
	case "reload":
		us := verifC01DecUsers(f[1])
		verifC01M.ReloadInternalUsers(us)
		return fmt.Sprintf("ok %d", len(verifC01M.InternalUsers))
	case "auth":
		var ip net.IP
		if b := verifutil.UnHex(f[6]); len(b) != 0 {
			ip = net.IP(b)
		}
		req := &Request{
			Action:   conf.AuthAction(verifutil.UnHexS(f[1])),
			Path:     verifutil.UnHexS(f[2]),
			Protocol: ProtocolRTSP,
			Credentials: &Credentials{
				User:  verifutil.UnHexS(f[3]),
				Pass:  verifutil.UnHexS(f[4]),
				Token: verifutil.UnHexS(f[5]),
			},
			IP:                   ip,
			CustomVerifyFunc:     verifC01DecCV(f[8]),
			EnableAskCredentials: f[7] == "1",
		}
		user, err := verifC01M.Authenticate(req)
		if err == nil {
			return "ok " + verifutil.HexS(user)
		}
		if err.AskCredentials {
			return "err 1"
		}
		return "err 0"
	case "contains":
		n := verifC01DecNet(f[1])
		if n.Contains(net.IP(verifutil.UnHex(f[2]))) {
			return "1"
		}
		return "0"
	case "ipnet":
		js, _ := json.Marshal(verifutil.UnHexS(f[1]))
		var n conf.IPNetwork
		if err := n.UnmarshalJSON(js); err != nil {
			return "err"
		}
		return "ok " + verifC01EncNet(n)
	}
	return "bad-op"
}

// ---------- oracles (library results computed directly) ----------

func verifC01Sha(s string) string {
	h := sha256.Sum256([]byte(s))
	return base64.StdEncoding.EncodeToString(h[:])
}

func verifC01Argon(pwd string, salt byte) string {
	cfg := argon2.Config{HashLength: 16, SaltLength: 8, TimeCost: 1, MemoryCost: 8, Parallelism: 1,
		Mode: argon2.ModeArgon2id, Version: argon2.Version13}
	raw, err := cfg.Hash([]byte(pwd), []byte{salt, 1, 2, 3, 4, 5, 6, 7})
	if err != nil {
		panic(err)
	}
	return string(raw.Encode())
}

// FNV-1a, 32 bit, over the encoded user list
func verifC01Digest(s string) uint32 {
	h := uint32(2166136261)
	for i := 0; i < len(s); i++ {
		h ^= uint32(s[i])
		h *= 16777619
	}
	return h
}

func verifC01AuthOp(r *verifutil.Rand, us []verifC01User, action, path, user, pass, token string, ip []byte, ask bool, cv string) string {
	// regexp oracle: every `~` pattern configured, against this request's path
	var re []string
	seen := map[string]bool{}
	var a2 []string
	seenA := map[string]bool{}
	for _, u := range us {
		for _, p := range u.Permissions {
			if strings.HasPrefix(p.Path, "~") {
				pat := p.Path[1:]
				if seen[pat] {
					continue
				}
				seen[pat] = true
				res := "e"
				if rx, err := regexp.Compile(pat); err == nil {
					res = "0"
					if rx.MatchString(path) {
						res = "1"
					}
				}
				re = append(re, verifutil.HexS(pat)+":"+res)
			}
		}
		for _, dg := range [][2]string{{string(u.User), user}, {string(u.Pass), pass}} {
			d, g := dg[0], dg[1]
			if strings.HasPrefix(d, "argon2:") {
				enc := d[len("argon2:"):]
				k := enc + "\x00" + g
				if seenA[k] {
					continue
				}
				seenA[k] = true
				ok, err := argon2.VerifyEncoded([]byte(g), []byte(enc))
				res := "0"
				if ok && err == nil {
					res = "1"
				}
				a2 = append(a2, verifutil.HexS(enc)+":"+verifutil.HexS(g)+":"+res)
			}
		}
	}
	reS, a2S := "_", "_"
	if len(re) != 0 {
		reS = strings.Join(re, "+")
	}
	if len(a2) != 0 {
		a2S = strings.Join(a2, "+")
	}
	askS := "0"
	if ask {
		askS = "1"
	}
	// last column: which user list the oracle columns were computed for (a shrunk replay may have dropped
	// the reload in front of this line; the driver then makes no prediction for it)
	return fmt.Sprintf("auth %s %s %s %s %s %s %s %s %s %s %s %s %d",
		verifutil.HexS(action), verifutil.HexS(path), verifutil.HexS(user), verifutil.HexS(pass), verifutil.HexS(token),
		verifutil.Hex(ip), askS, cv, verifutil.HexS(verifC01Sha(user)), verifutil.HexS(verifC01Sha(pass)), reS, a2S,
		verifC01Digest(verifC01EncUsers(us)))
}

// ---------- generators ----------

var (
	verifC01Actions = []string{"publish", "read", "playback", "api", "metrics", "pprof"}
	verifC01Names   = []string{"alice", "bob", "carol", "any", "pw1", "pw2", "s3cret!"}
	verifC01Paths   = []string{"cam1", "cam2", "cam12", "dir/cam1", "live", "~cam", "~^a", "x", "xcam1y", "~^cam1$"}
	verifC01CfgPath = []string{"", "", "cam1", "cam2", "dir/cam1", "live", "~^cam[0-9]$", "~cam", "~^dir/", "~(", "~", "~^a",
		"~~", "~^cam1$", "~^(cam1|live)$", "~[", "~.*", "~^$"}
	verifC01NetText = []string{"10.0.0.0/8", "10.1.2.0/24", "192.168.1.77", "192.168.1.64/26", "0.0.0.0/0", "127.0.0.1",
		"::/0", "2001:db8::/32", "2001:db8:0:1::/64", "::1", "fe80::/10", "::ffff:10.0.0.0/104", "::ffff:1.2.3.4",
		"::ffff:1.2.3.0/120", "::ffff:0:0/96", "172.16.0.0/12", "255.255.255.255/32", "2001:db8::1/128", "10.0.0.1/31"}
	verifC01ArgonCache = map[string]string{}
	// configured credential -> the plain value it was derived from (generator bookkeeping only)
	verifC01Plain = map[string]string{}
)

func verifC01ArgonOf(pwd string, salt byte) string {
	k := fmt.Sprintf("%s\x00%d", pwd, salt)
	if v, ok := verifC01ArgonCache[k]; ok {
		return v
	}
	v := verifC01Argon(pwd, salt)
	verifC01ArgonCache[k] = v
	return v
}

// a configured credential that (mostly) corresponds to the plain value `plain`
func verifC01Cred(r *verifutil.Rand, plain string) string {
	c := verifC01Cred2(r, plain)
	verifC01Plain[c] = plain
	return c
}

func verifC01Cred2(r *verifutil.Rand, plain string) string {
	switch r.Intn(14) {
	case 0, 1, 2, 3, 4:
		return plain
	case 5, 6:
		return "sha256:" + verifC01Sha(plain)
	case 7, 8:
		if plain == "" {
			return plain
		}
		return "argon2:" + verifC01ArgonOf(plain, byte(r.Intn(2)))
	case 9:
		return ""
	case 10:
		s := verifC01Sha(plain)
		return r.Pick("sha256:", "sha256:"+s[:len(s)-1], "sha256:"+s+"=", "sha256:"+strings.ToLower(s), "sha256"+s, "Sha256:"+s,
			"sha256: "+s)
	case 11:
		e := ""
		if plain != "" {
			e = verifC01ArgonOf(plain, 0)
		}
		return r.Pick("argon2:", "argon2:bad", "argon2:$argon2id$v=19$", "argon2:"+e+"x", "argon2"+e, "Argon2:"+e,
			"argon2:"+strings.TrimSuffix(e, e[len(e)/2:]))
	case 12:
		return r.Pick("any", "any ", "Any", "anyone")
	default:
		return string(r.Bytes(r.Intn(4)))
	}
}

func verifC01Net(r *verifutil.Rand) (conf.IPNetwork, bool) {
	if r.Chance(1, 16) { // hostile raw struct
		lens := []int{0, 1, 4, 4, 16, 16, 5, 12}
		n := conf.IPNetwork{IP: net.IP(r.Bytes(lens[r.Intn(len(lens))])), Mask: net.IPMask(r.Bytes(lens[r.Intn(len(lens))]))}
		if r.Bool() && len(n.IP) == 16 {
			copy(n.IP, []byte{0, 0, 0, 0, 0, 0, 0, 0, 0, 0, 0xff, 0xff})
		}
		return n, true
	}
	var text string
	switch r.Intn(4) {
	case 0: // random v4 /n
		text = fmt.Sprintf("%d.%d.%d.%d/%d", r.Intn(256), r.Intn(256), r.Intn(256), r.Intn(256), r.Intn(33))
	case 1: // random v6 /n
		b := r.Bytes(16)
		text = fmt.Sprintf("%s/%d", net.IP(b).String(), r.Intn(129))
	default:
		text = verifC01NetText[r.Intn(len(verifC01NetText))]
	}
	js, _ := json.Marshal(text)
	var n conf.IPNetwork
	if err := n.UnmarshalJSON(js); err != nil {
		return n, false
	}
	return n, true
}

func verifC01Users(r *verifutil.Rand) []verifC01User {
	n := r.Intn(5)
	if r.Chance(1, 10) {
		n = 5 + r.Intn(3)
	}
	var us []verifC01User
	for i := 0; i < n; i++ {
		var u verifC01User
		if r.Chance(1, 4) {
			u.User = "any"
			if r.Chance(1, 5) {
				u.Pass = conf.Credential(verifC01Cred(r, "pw1"))
			}
		} else {
			u.User = conf.Credential(verifC01Cred(r, verifC01Names[r.Intn(3)]))
			u.Pass = conf.Credential(verifC01Cred(r, verifC01Names[4+r.Intn(3)]))
		}
		if !r.Chance(2, 5) {
			for k := 1 + r.Intn(3); k > 0; k-- {
				if nw, ok := verifC01Net(r); ok {
					u.IPs = append(u.IPs, nw)
				}
			}
		}
		np := 1 + r.Intn(3)
		if r.Chance(1, 8) {
			np = 0
		}
		for k := np; k > 0; k-- {
			a := verifC01Actions[r.Intn(6)]
			if r.Chance(1, 25) {
				a = r.Pick("", "Publish", "read ", "all")
			}
			u.Permissions = append(u.Permissions, conf.AuthInternalUserPermission{
				Action: conf.AuthAction(a), Path: verifC01CfgPath[r.Intn(len(verifC01CfgPath))],
			})
		}
		us = append(us, u)
	}
	return us
}

// a client address aimed at the boundary of one of the configured networks
func verifC01ClientIP(r *verifutil.Rand, us []verifC01User, aim *verifC01User) []byte {
	var nets []conf.IPNetwork
	if aim != nil && len(aim.IPs) != 0 && !r.Chance(1, 4) {
		nets = aim.IPs
	} else {
		for _, u := range us {
			nets = append(nets, u.IPs...)
		}
	}
	switch {
	case len(nets) != 0 && !r.Chance(1, 5):
		n := nets[r.Intn(len(nets))]
		ip := append([]byte{}, n.IP...)
		ones := 0
		for _, m := range n.Mask {
			for b := 7; b >= 0 && m&(1<<uint(b)) != 0; b-- {
				ones++
			}
			if m != 0xff {
				break
			}
		}
		// random host bits
		hb := r.Bytes(len(ip))
		for i := range ip {
			if i < len(n.Mask) {
				ip[i] = ip[i]&n.Mask[i] | hb[i]&^n.Mask[i]
			}
		}
		// flip a bit just inside / just outside the prefix
		if len(ip) > 0 && r.Chance(2, 5) {
			k := ones - 1 + r.Intn(2)
			if r.Chance(1, 4) {
				k = r.Intn(len(ip) * 8)
			}
			if k >= 0 && k < len(ip)*8 {
				ip[k/8] ^= 0x80 >> uint(k%8)
			}
		}
		if len(ip) == 4 && r.Chance(1, 3) { // same address as v4-mapped v6
			ip = append([]byte{0, 0, 0, 0, 0, 0, 0, 0, 0, 0, 0xff, 0xff}, ip...)
		}
		if len(ip) == 4 && r.Chance(1, 20) { // v4-compatible (not mapped) — must not be collapsed
			ip = append([]byte{0, 0, 0, 0, 0, 0, 0, 0, 0, 0, 0, 0}, ip...)
		}
		return ip
	case r.Chance(1, 8):
		return nil
	case r.Chance(1, 8):
		return r.Bytes([]int{1, 3, 5, 12, 15, 17}[r.Intn(6)])
	case r.Bool():
		return r.Bytes(4)
	default:
		return r.Bytes(16)
	}
}

// the request proper (without oracle columns): can be re-presented against another user list
type verifC01Q struct {
	action, path, user, pass, token, cv string
	ip                                  []byte
	ask                                 bool
}

func (q *verifC01Q) op(r *verifutil.Rand, us []verifC01User) string {
	return verifC01AuthOp(r, us, q.action, q.path, q.user, q.pass, q.token, q.ip, q.ask, q.cv)
}

func verifC01Request(r *verifutil.Rand, us []verifC01User) string {
	return verifC01RequestQ(r, us).op(r, us)
}

func verifC01RequestQ(r *verifutil.Rand, us []verifC01User) *verifC01Q {
	action := verifC01Actions[r.Intn(6)]
	path := verifC01Paths[r.Intn(len(verifC01Paths))]
	user := verifC01Names[r.Intn(len(verifC01Names))]
	pass := verifC01Names[r.Intn(len(verifC01Names))]
	// aim at a configured entry most of the time
	var aim *verifC01User
	if len(us) != 0 && !r.Chance(1, 6) {
		u := us[r.Intn(len(us))]
		aim = &u
		if len(u.Permissions) != 0 && !r.Chance(1, 5) {
			p := u.Permissions[r.Intn(len(u.Permissions))]
			action = string(p.Action)
			if p.Path != "" && r.Chance(2, 3) {
				path = p.Path // literal equality; for `~…` entries this is the literal-vs-regex corner
				if strings.HasPrefix(p.Path, "~") && r.Chance(3, 4) {
					path = r.Pick("cam1", "cam7", "cam12", "dir/cam1", "live", "a", "", "xcam1")
				}
			}
		}
		// the plain values the generator hashes from
		user = verifC01Names[r.Intn(3)]
		pass = verifC01Names[4+r.Intn(3)]
		if pl, ok := verifC01Plain[string(u.User)]; ok && !r.Chance(1, 5) {
			user = pl
		}
		if pl, ok := verifC01Plain[string(u.Pass)]; ok && !r.Chance(1, 5) {
			pass = pl
		}
		if r.Chance(1, 8) { // supplying the stored (possibly hashed) form itself
			user = string(u.User)
		}
		if r.Chance(1, 8) {
			pass = string(u.Pass)
		}
	}
	if r.Chance(1, 10) {
		user = ""
	}
	if r.Chance(1, 10) {
		pass = ""
	}
	if r.Chance(1, 10) {
		user, pass = "", ""
	}
	if r.Chance(1, 30) {
		path = ""
	}
	if r.Chance(1, 40) {
		action = r.Pick("", "Publish", "all")
	}
	token := ""
	if r.Chance(1, 6) {
		token = "tok"
	}
	cv := "n"
	if r.Chance(1, 5) {
		cv = "t" + r.Pick("0", "0", "1")
		for _, u := range us {
			if r.Chance(2, 3) {
				cv += "/" + verifutil.HexS(string(u.User)) + "." + verifutil.HexS(string(u.Pass)) + "." + r.Pick("0", "1")
			}
		}
	}
	return &verifC01Q{action: action, path: path, user: user, pass: pass, token: token, cv: cv,
		ip: verifC01ClientIP(r, us, aim), ask: r.Chance(2, 3)}
}

// a well-formed entry for the plain credentials (pu, pp), stored plain / sha256 / argon2
func verifC01CleanCred(r *verifutil.Rand, plain string, kind int) string {
	switch kind {
	case 0:
		return plain
	case 1:
		return "sha256:" + verifC01Sha(plain)
	default:
		return "argon2:" + verifC01ArgonOf(plain, byte(r.Intn(2)))
	}
}

func verifC01CleanUser(r *verifutil.Rand, pu, pp string, action, path string) verifC01User {
	u := verifC01User{
		User: conf.Credential(verifC01CleanCred(r, pu, r.Intn(3))),
		Pass: conf.Credential(verifC01CleanCred(r, pp, r.Intn(3))),
	}
	verifC01Plain[string(u.User)] = pu
	verifC01Plain[string(u.Pass)] = pp
	if r.Chance(1, 3) {
		js, _ := json.Marshal(r.Pick("10.0.0.0/8", "::ffff:10.0.0.0/104", "10.1.0.0/16"))
		var n conf.IPNetwork
		if n.UnmarshalJSON(js) == nil {
			u.IPs = conf.IPNetworks{n}
		}
	}
	u.Permissions = []conf.AuthInternalUserPermission{{Action: conf.AuthAction(action), Path: r.Pick("", path)}}
	if r.Chance(1, 3) {
		u.Permissions = append(u.Permissions, conf.AuthInternalUserPermission{
			Action: conf.AuthAction(verifC01Actions[r.Intn(6)]), Path: verifC01CfgPath[r.Intn(len(verifC01CfgPath))]})
	}
	return u
}

// Histories aimed at state that must NOT survive: the very same request is presented before and
// after a reload that changes exactly one entry at the same index (and repeated without reload).
func verifC01Sticky(r *verifutil.Rand, thorough bool) []string {
	action := verifC01Actions[r.Intn(6)]
	path := r.Pick("cam1", "cam2", "dir/cam1", "live")
	pu, pp := verifC01Names[r.Intn(3)], verifC01Names[4+r.Intn(3)]
	n := 1 + r.Intn(3)
	t := r.Intn(n)
	var us []verifC01User
	for i := 0; i < n; i++ {
		if i == t {
			us = append(us, verifC01CleanUser(r, pu, pp, action, path))
		} else {
			o := verifC01Users(r)
			if len(o) == 0 || string(o[0].User) == "any" {
				o = []verifC01User{verifC01CleanUser(r, "carol", "s3cret!", verifC01Actions[r.Intn(6)], "cam2")}
			}
			us = append(us, o[0])
		}
	}
	q := &verifC01Q{action: action, path: path, user: pu, pass: pp, cv: "n", ask: r.Bool()}
	q.ip = [][]byte{{10, 1, 2, 3}, {10, 1, 255, 1}, {0, 0, 0, 0, 0, 0, 0, 0, 0, 0, 0xff, 0xff, 10, 1, 0, 9}}[r.Intn(3)]
	orig := us
	ops := []string{verifC01ResetOp(r, us), q.op(r, us)}
	if r.Bool() {
		ops = append(ops, q.op(r, us)) // same request again, no reload
	}
	rounds := 2 + r.Intn(3)
	if thorough {
		rounds = 2 + r.Intn(6)
	}
	other := func(cur string, pool []string) string {
		for {
			c := pool[r.Intn(len(pool))]
			if c != cur {
				return c
			}
		}
	}
	curU, curP := pu, pp
	for k := 0; k < rounds; k++ {
		us = append([]verifC01User{}, us...)
		e := us[t]
		var q2 *verifC01Q // a request with the new credentials, where they changed
		switch r.Intn(8) {
		case 0, 1: // password changed (any storage kind)
			curP = other(curP, verifC01Names[4:7])
			e.Pass = conf.Credential(verifC01CleanCred(r, curP, r.Intn(3)))
			verifC01Plain[string(e.Pass)] = curP
		case 2: // user name swapped
			curU = other(curU, verifC01Names[0:3])
			e.User = conf.Credential(verifC01CleanCred(r, curU, r.Intn(3)))
			verifC01Plain[string(e.User)] = curU
		case 3: // permissions changed: no longer grants / grants something else
			a2 := other(action, verifC01Actions)
			e.Permissions = []conf.AuthInternalUserPermission{{Action: conf.AuthAction(a2), Path: r.Pick("", "cam2", "other")}}
			if r.Bool() {
				e.Permissions[0].Action = conf.AuthAction(action)
				e.Permissions[0].Path = other(path, []string{"cam1", "cam2", "dir/cam1", "live", "zzz"})
			}
		case 4: // entry replaced by a different principal at the same index
			curU, curP = other(curU, verifC01Names[0:3]), other(curP, verifC01Names[4:7])
			e = verifC01CleanUser(r, curU, curP, r.Pick(action, other(action, verifC01Actions)), path)
		case 5: // same credentials re-encoded (plain <-> sha256 <-> argon2): must keep working
			e.User = conf.Credential(verifC01CleanCred(r, curU, r.Intn(3)))
			e.Pass = conf.Credential(verifC01CleanCred(r, curP, r.Intn(3)))
		case 6: // back to the original list
			us = append([]verifC01User{}, orig...)
			e = us[t]
			curU, curP = pu, pp
		default: // entry removed: the following entries shift down to its index
			us = append(us[:t:t], us[t+1:]...)
			if len(us) == 0 || t >= len(us) {
				us = append(us, verifC01CleanUser(r, other(curU, verifC01Names[0:3]), other(curP, verifC01Names[4:7]), action, path))
				t = len(us) - 1
			}
			e = us[t]
		}
		us[t] = e
		ops = append(ops, "reload "+verifC01EncUsers(us))
		ops = append(ops, q.op(r, us)) // the OLD request, unchanged
		if curU != q.user || curP != q.pass {
			q2 = &verifC01Q{action: q.action, path: q.path, user: curU, pass: curP, cv: "n", ask: q.ask, ip: q.ip}
			if r.Chance(2, 3) {
				ops = append(ops, q2.op(r, us))
			}
		}
		if r.Chance(1, 3) {
			ops = append(ops, q.op(r, us))
		}
		if r.Chance(1, 4) { // from now on the "old" request is the one with the current credentials
			if q2 != nil {
				q = q2
			}
		}
	}
	return ops
}

func verifC01IPNetOp(r *verifutil.Rand) string {
	var text string
	switch r.Intn(6) {
	case 0:
		text = fmt.Sprintf("%d.%d.%d.%d/%d", r.Intn(256), r.Intn(256), r.Intn(256), r.Intn(256), r.Intn(36))
	case 1:
		text = fmt.Sprintf("%s/%d", net.IP(r.Bytes(16)).String(), r.Intn(132))
	case 2:
		text = fmt.Sprintf("::ffff:%d.%d.%d.%d/%d", r.Intn(256), r.Intn(256), r.Intn(256), r.Intn(256), 90+r.Intn(40))
	case 3:
		text = r.Pick("", "1.2.3", "1.2.3.4/", "/8", "1.2.3.4/-1", "::1%eth0", "::1%eth0/64", "01.2.3.4", "1.2.3.4/08",
			"256.1.1.1", "::ffff:1.2.3.4/32", ":::/0", "1.2.3.4/33", "localhost")
	default:
		text = verifC01NetText[r.Intn(len(verifC01NetText))]
	}
	cidr, ipS := "e", "e"
	if _, n, err := net.ParseCIDR(text); err == nil {
		cidr = verifutil.Hex(n.IP) + ":" + verifutil.Hex(n.Mask)
	}
	if ip := net.ParseIP(text); ip != nil {
		ipS = verifutil.Hex(ip)
	}
	return fmt.Sprintf("ipnet %s %s %s", verifutil.HexS(text), cidr, ipS)
}

// exact (non-`~`) permission paths: legal path names with `.`, `-`, `_`, `/`, and configurable-but-illegal ones
// holding regexp metacharacters. A literal path must be compared byte for byte, never interpreted.
var verifC01MetaPaths = []string{
	"site1/cam.1", "cam.1", "a.b.c", "dir.x/cam-1", "cam_1", "site-1/cam_2", "a/b/c.d", "v1.2.3", ".hidden", "x.",
	"cam+1", "cam(1)", "cam[12]", "cam*", "cam?", "a|b", "^cam1", "cam1$", "cam\\d", "c.m+(x)[y]*z?", "a{2}", "(?i)cam",
	"cam1|vault", ".*", ".+", "[a-z]+", "cam.1$", "^", "$", "\\", "(", "[", "*",
}

// single-position edits of a permitted path, aimed at its metacharacters
func verifC01EditPath(r *verifutil.Rand, p string) string {
	if p == "" {
		return r.Pick("x", "/", ".")
	}
	var metas []int
	for i := 0; i < len(p); i++ {
		if strings.IndexByte(".-_/+()[]*?|^$\\{}", p[i]) >= 0 {
			metas = append(metas, i)
		}
	}
	i := r.Intn(len(p))
	if len(metas) != 0 && !r.Chance(1, 5) {
		i = metas[r.Intn(len(metas))]
	}
	switch r.Intn(6) {
	case 0, 1: // replace by another byte
		c := "1x_/.-a0Z"[r.Intn(9)]
		if c == p[i] {
			c = 'q'
		}
		return p[:i] + string(c) + p[i+1:]
	case 2: // delete it
		return p[:i] + p[i+1:]
	case 3: // duplicate the preceding byte (what `x+`, `x*`, `x{2}` would accept)
		if i == 0 {
			return string(p[0]) + p
		}
		return p[:i] + string(p[i-1]) + p[i+1:]
	case 4: // insert a byte / extend (unanchored or prefix matching would accept)
		return p[:i] + r.Pick("x", "/", "1") + p[i:]
	default:
		return r.Pick(p+"x", "x"+p, p+"/sub", strings.ToUpper(p), "vault")
	}
}

// Histories about path-bound permissions: exact paths with metacharacters, all three path-bound actions in
// equal proportion, each probed with the exact path and with single-position edits; non-path actions mixed in.
func verifC01PathHist(r *verifutil.Rand, i int, thorough bool) []string {
	bound := []string{"publish", "read", "playback"}
	free := []string{"api", "metrics", "pprof"}
	nu := 1 + r.Intn(2)
	var us []verifC01User
	type target struct{ action, path string }
	var targets []target
	for k := 0; k < nu; k++ {
		pu, pp := verifC01Names[r.Intn(3)], verifC01Names[4+r.Intn(3)]
		u := verifC01User{User: "any"}
		if k > 0 || r.Bool() {
			u.User = conf.Credential(verifC01CleanCred(r, pu, r.Intn(2)))
			u.Pass = conf.Credential(verifC01CleanCred(r, pp, r.Intn(2)))
			verifC01Plain[string(u.User)] = pu
			verifC01Plain[string(u.Pass)] = pp
		}
		np := 1 + r.Intn(3)
		for j := 0; j < np; j++ {
			a := bound[(i+k+j)%3]
			var path string
			switch r.Intn(8) {
			case 0:
				path = verifC01CfgPath[r.Intn(len(verifC01CfgPath))] // incl. `~regex` and empty
			case 1:
				path = r.Pick("lobby", "vault", "cam1")
			default:
				path = verifC01MetaPaths[r.Intn(len(verifC01MetaPaths))]
			}
			u.Permissions = append(u.Permissions, conf.AuthInternalUserPermission{Action: conf.AuthAction(a), Path: path})
			targets = append(targets, target{a, path})
		}
		if r.Chance(1, 3) {
			u.Permissions = append(u.Permissions, conf.AuthInternalUserPermission{
				Action: conf.AuthAction(free[r.Intn(3)]), Path: r.Pick("", "ignored", "cam.1")})
		}
		us = append(us, u)
	}
	ops := []string{verifC01ResetOp(r, us)}
	n := 6 + r.Intn(5)
	if thorough {
		n = 6 + r.Intn(12)
	}
	for k := 0; k < n; k++ {
		t := targets[r.Intn(len(targets))]
		u := us[r.Intn(len(us))]
		q := &verifC01Q{action: t.action, path: t.path, cv: "n", ask: r.Bool(), ip: []byte{10, 0, 0, 1}}
		if pl, ok := verifC01Plain[string(u.User)]; ok && string(u.User) != "any" {
			q.user, q.pass = pl, verifC01Plain[string(u.Pass)]
		} else if r.Bool() {
			q.user, q.pass = "alice", "pw1"
		}
		switch r.Intn(10) {
		case 0, 1, 2: // exact path: must match
		case 3, 4, 5, 6, 7: // single-position edit: must not match a literal (may match a `~regex`)
			base := t.path
			if strings.HasPrefix(base, "~") {
				base = r.Pick("cam1", "dir/cam1", "live")
			}
			q.path = verifC01EditPath(r, base)
		case 8: // same path, another path-bound or free action
			q.action = append(bound, free...)[r.Intn(6)]
		default:
			q.action = free[r.Intn(3)]
			q.path = r.Pick("", t.path, "whatever")
		}
		ops = append(ops, q.op(r, us))
	}
	return ops
}

func verifC01Gen(r *verifutil.Rand, i int, thorough bool) []string {
	if i%6 == 2 || i%6 == 5 {
		return verifC01PathHist(r, i/3, thorough)
	}
	if i%10 == 9 {
		ops := []string{"reset _"}
		for k := 0; k < 4; k++ {
			ops = append(ops, verifC01IPNetOp(r))
		}
		for k := 0; k < 4; k++ {
			if n, ok := verifC01Net(r); ok {
				us := []verifC01User{{IPs: conf.IPNetworks{n}}}
				ops = append(ops, fmt.Sprintf("contains %s %s", verifC01EncNet(n), verifutil.Hex(verifC01ClientIP(r, us, nil))))
			}
		}
		return ops
	}
	if i%3 == 1 {
		return verifC01Sticky(r, thorough)
	}
	us := verifC01Users(r)
	ops := []string{verifC01ResetOp(r, us)}
	n := 3 + r.Intn(6)
	if thorough {
		n = 3 + r.Intn(12)
	}
	var qs []*verifC01Q
	for k := 0; k < n; k++ {
		if r.Chance(1, 8) {
			switch r.Intn(3) {
			case 0: // reorder users
				if len(us) > 1 {
					a, b := r.Intn(len(us)), r.Intn(len(us))
					us = append([]verifC01User{}, us...)
					us[a], us[b] = us[b], us[a]
				}
			case 1: // drop one
				if len(us) > 0 {
					a := r.Intn(len(us))
					us = append(append([]verifC01User{}, us[:a]...), us[a+1:]...)
				}
			default:
				us = verifC01Users(r)
			}
			ops = append(ops, "reload "+verifC01EncUsers(us))
		}
		if len(qs) != 0 && r.Chance(1, 4) { // an earlier request again, against the current list
			ops = append(ops, qs[r.Intn(len(qs))].op(r, us))
			continue
		}
		q := verifC01RequestQ(r, us)
		qs = append(qs, q)
		ops = append(ops, q.op(r, us))
	}
	return ops
}

func verifC01Class(op, impl string) string {
	f := strings.Fields(op)
	switch f[0] {
	case "auth":
		c := "auth/" + impl
		if strings.HasPrefix(impl, "ok") {
			c = "auth/ok"
		}
		if f[8] != "n" {
			c += "+customverify"
		}
		if len(verifutil.UnHex(f[6])) == 16 {
			c += "+ip16"
		}
		return c
	case "ipnet":
		return "ipnet/" + strings.Fields(impl)[0]
	}
	return f[0] + "/" + strings.Fields(impl+" -")[0]
}

func TestVerifC01(t *testing.T) {
	verifutil.Main(t, &verifutil.Harness{
		ID: "C01", Exec: verifC01Exec, Gen: verifC01Gen, Quick: 2000, Thorough: 60000,
		Class:      verifC01Class,
		NonTrivial: func(op, impl string) bool { return !strings.HasPrefix(op, "re") },
	})
}
