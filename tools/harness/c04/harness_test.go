//go:build verif

// C04 correspondence harness.  Lives in package api only because the test binary has to be built from an
// existing package that can import api, metrics, pprof and playback; it uses exported constructors/fields and
// reads the unexported `httpServer` handler chain by reflection.
package api //nolint:revive

import (
	"bytes"
	"context"
	crand "crypto/rand"
	"crypto/sha256"
	"encoding/base64"
	"fmt"
	"io"
	"net"
	"net/http"
	"net/http/httptest"
	"net/url"
	"os"
	"path/filepath"
	"reflect"
	"regexp"
	"sort"
	"strings"
	"sync/atomic"
	"testing"
	"time"
	"unsafe"

	"github.com/bluenviron/mediacommon/v2/pkg/codecs/mpeg4audio"
	"github.com/bluenviron/mediacommon/v2/pkg/formats/fmp4"
	"github.com/bluenviron/mediacommon/v2/pkg/formats/fmp4/seekablebuffer"
	mcodecs "github.com/bluenviron/mediacommon/v2/pkg/formats/mp4/codecs"
	"github.com/gin-gonic/gin"
	"github.com/google/uuid"
	"github.com/matthewhartstonge/argon2"

	"github.com/bluenviron/mediamtx/internal/auth"
	"github.com/bluenviron/mediamtx/internal/conf"
	"github.com/bluenviron/mediamtx/internal/defs"
	"github.com/bluenviron/mediamtx/internal/logger"
	"github.com/bluenviron/mediamtx/internal/metrics"
	"github.com/bluenviron/mediamtx/internal/playback"
	"github.com/bluenviron/mediamtx/internal/pprof"
	"github.com/bluenviron/mediamtx/internal/protocols/httpp"
	"github.com/bluenviron/mediamtx/internal/test"
	"github.com/bluenviron/mediamtx/internal/verifutil"
)

const (
	verifC04Canary  = "CNRY7f3a"
	verifC04AuthErr = `{"status":"error","error":"authentication error"}`
	verifC04Rec     = "recs1" // path with a recording; request inputs never contain the canary (redirects echo them)
	verifC04SegName = "2008-11-07_11-22-00-500000.mp4"
	verifC04SegTime = "2008-11-07T11:22:00.5Z"
)

var (
	verifC04ID  = uuid.MustParse("11111111-2222-3333-4444-555555555555")
	verifC04W   *verifC04World
	verifC04Mut atomic.Int64
)

// ---------- stubs holding canary data; every mutation bumps verifC04Mut ----------

type verifC04Log struct{}

func (verifC04Log) Log(logger.Level, string, ...any) {}

type verifC04Parent struct {
	verifC04Log
	cnf *conf.Conf
}

func (p *verifC04Parent) APIConfigSnapshot() *conf.Conf { return p.cnf }
func (p *verifC04Parent) APIConfigGlobalPatch(conf.OptionalGlobal) error {
	verifC04Mut.Add(1)
	return nil
}

func (p *verifC04Parent) APIConfigPathDefaultsPatch(conf.OptionalPath) error {
	verifC04Mut.Add(1)
	return nil
}

func (p *verifC04Parent) APIConfigPathsAdd(string, conf.OptionalPath) error {
	verifC04Mut.Add(1)
	return nil
}

func (p *verifC04Parent) APIConfigPathsPatch(string, conf.OptionalPath) error {
	verifC04Mut.Add(1)
	return nil
}

func (p *verifC04Parent) APIConfigPathsReplace(string, conf.OptionalPath) error {
	verifC04Mut.Add(1)
	return nil
}

func (p *verifC04Parent) APIConfigPathsDelete(string) error {
	verifC04Mut.Add(1)
	return nil
}

// auth manager wrapper: the real manager decides; RefreshJWTJWKS is a state change.
type verifC04Auth struct{ m *auth.Manager }

func (a *verifC04Auth) Authenticate(req *auth.Request) (string, *auth.Error) {
	return a.m.Authenticate(req)
}

func (a *verifC04Auth) RefreshJWTJWKS() {
	verifC04Mut.Add(1)
	a.m.RefreshJWTJWKS()
}

type verifC04PM struct{}

func (verifC04PM) APIPathsList() (*defs.APIPathList, error) {
	return &defs.APIPathList{Items: []defs.APIPath{{Name: "cam1", ConfName: verifC04Canary, Ready: true,
		Source: &defs.APIPathSource{Type: defs.APIPathSourceTypeRTSPSession, ID: verifC04Canary}}}}, nil
}

func (verifC04PM) APIPathsGet(string) (*defs.APIPath, error) {
	return &defs.APIPath{Name: "cam1", ConfName: verifC04Canary}, nil
}

func (verifC04PM) APIForwardDestList(string) (*defs.APIForwardDestList, error) {
	return &defs.APIForwardDestList{Items: []defs.APIForwardDest{{ID: verifC04ID, LastError: verifC04Canary}}}, nil
}

func (verifC04PM) APIForwardDestGet(string, uuid.UUID) (*defs.APIForwardDest, error) {
	return &defs.APIForwardDest{ID: verifC04ID, LastError: verifC04Canary}, nil
}

type verifC04RTSP struct{}

func (verifC04RTSP) APIConnsList() (*defs.APIRTSPConnsList, error) {
	return &defs.APIRTSPConnsList{Items: []defs.APIRTSPConn{{ID: verifC04ID, RemoteAddr: verifC04Canary}}}, nil
}

func (verifC04RTSP) APIConnsGet(uuid.UUID) (*defs.APIRTSPConn, error) {
	return &defs.APIRTSPConn{ID: verifC04ID, RemoteAddr: verifC04Canary}, nil
}

func (verifC04RTSP) APISessionsList() (*defs.APIRTSPSessionList, error) {
	return &defs.APIRTSPSessionList{Items: []defs.APIRTSPSession{{ID: verifC04ID, RemoteAddr: verifC04Canary}}}, nil
}

func (verifC04RTSP) APISessionsGet(uuid.UUID) (*defs.APIRTSPSession, error) {
	return &defs.APIRTSPSession{ID: verifC04ID, RemoteAddr: verifC04Canary}, nil
}

func (verifC04RTSP) APISessionsKick(uuid.UUID) error {
	verifC04Mut.Add(1)
	return nil
}

type verifC04RTMP struct{}

func (verifC04RTMP) APIConnsList() (*defs.APIRTMPConnList, error) {
	return &defs.APIRTMPConnList{Items: []defs.APIRTMPConn{{ID: verifC04ID, RemoteAddr: verifC04Canary}}}, nil
}

func (verifC04RTMP) APIConnsGet(uuid.UUID) (*defs.APIRTMPConn, error) {
	return &defs.APIRTMPConn{ID: verifC04ID, RemoteAddr: verifC04Canary}, nil
}

func (verifC04RTMP) APIConnsKick(uuid.UUID) error {
	verifC04Mut.Add(1)
	return nil
}

type verifC04HLS struct{}

func (verifC04HLS) APISessionsList() (*defs.APIHLSSessionList, error) {
	return &defs.APIHLSSessionList{Items: []defs.APIHLSSession{{ID: verifC04ID, RemoteAddr: verifC04Canary}}}, nil
}

func (verifC04HLS) APISessionsGet(uuid.UUID) (*defs.APIHLSSession, error) {
	return &defs.APIHLSSession{ID: verifC04ID, RemoteAddr: verifC04Canary}, nil
}

func (verifC04HLS) APISessionsKick(uuid.UUID) error {
	verifC04Mut.Add(1)
	return nil
}

func (verifC04HLS) APIMuxersList() (*defs.APIHLSMuxerList, error) {
	return &defs.APIHLSMuxerList{Items: []defs.APIHLSMuxer{{Path: verifC04Canary}}}, nil
}

func (verifC04HLS) APIMuxersGet(string) (*defs.APIHLSMuxer, error) {
	return &defs.APIHLSMuxer{Path: verifC04Canary}, nil
}

type verifC04WebRTC struct{}

func (verifC04WebRTC) APISessionsList() (*defs.APIWebRTCSessionList, error) {
	return &defs.APIWebRTCSessionList{Items: []defs.APIWebRTCSession{{ID: verifC04ID, RemoteAddr: verifC04Canary}}}, nil
}

func (verifC04WebRTC) APISessionsGet(uuid.UUID) (*defs.APIWebRTCSession, error) {
	return &defs.APIWebRTCSession{ID: verifC04ID, RemoteAddr: verifC04Canary}, nil
}

func (verifC04WebRTC) APISessionsKick(uuid.UUID) error {
	verifC04Mut.Add(1)
	return nil
}

type verifC04SRT struct{}

func (verifC04SRT) APIConnsList() (*defs.APISRTConnList, error) {
	return &defs.APISRTConnList{Items: []defs.APISRTConn{{ID: verifC04ID, RemoteAddr: verifC04Canary}}}, nil
}

func (verifC04SRT) APIConnsGet(uuid.UUID) (*defs.APISRTConn, error) {
	return &defs.APISRTConn{ID: verifC04ID, RemoteAddr: verifC04Canary}, nil
}

func (verifC04SRT) APIConnsKick(uuid.UUID) error {
	verifC04Mut.Add(1)
	return nil
}

type verifC04MoQ struct{}

func (verifC04MoQ) APISessionsList() (*defs.APIMoQSessionList, error) {
	return &defs.APIMoQSessionList{Items: []defs.APIMoQSession{{ID: verifC04ID, RemoteAddr: verifC04Canary}}}, nil
}

func (verifC04MoQ) APISessionsGet(uuid.UUID) (*defs.APIMoQSession, error) {
	return &defs.APIMoQSession{ID: verifC04ID, RemoteAddr: verifC04Canary}, nil
}

func (verifC04MoQ) APISessionsKick(uuid.UUID) error {
	verifC04Mut.Add(1)
	return nil
}

// ---------- world ----------

type verifC04Server struct {
	handler http.Handler // the httpp.Server chain below the connection tracker
	engine  *gin.Engine
	action  conf.AuthAction
}

type verifC04World struct {
	dir     string
	mgr     *auth.Manager
	am      *verifC04Auth     // what the servers hold; `reset` puts a fresh Manager behind it, `reload` reloads in place
	ref     []verifC04RefUser // the harness' own reading of the permission table in force
	setup   verifC04Setup     // method and exclusion lists in force
	hook    *httptest.Server  // external authenticator that refuses everybody (authMethod http)
	servers map[string]*verifC04Server
	// kept alive
	api *API
	met *metrics.Metrics
	pp  *pprof.PPROF
	pb  *playback.Server
}

type verifC04Zero struct{}

func (verifC04Zero) Read(p []byte) (int, error) {
	clear(p)
	return len(p), nil
}

// verifC04Field reads an unexported struct field.
func verifC04Field(obj any, name string) reflect.Value {
	v := reflect.ValueOf(obj).Elem().FieldByName(name)
	if !v.IsValid() {
		panic("verifC04: field " + name + " not found in " + reflect.TypeOf(obj).String())
	}
	return reflect.NewAt(v.Type(), unsafe.Pointer(v.UnsafeAddr())).Elem()
}

func verifC04Wire(owner any, action conf.AuthAction) *verifC04Server {
	hs := verifC04Field(owner, "httpServer").Interface().(*httpp.Server)
	tr := verifC04Field(hs, "tracker").Interface()
	h := verifC04Field(tr, "h").Interface().(http.Handler)
	return &verifC04Server{handler: h, engine: hs.Handler.(*gin.Engine), action: action}
}

func verifC04WriteSegment(fpath string) {
	init := fmp4.Init{Tracks: []*fmp4.InitTrack{
		{ID: 1, TimeScale: 90000, Codec: &mcodecs.H264{SPS: test.FormatH264.SPS, PPS: test.FormatH264.PPS}},
		{ID: 2, TimeScale: 48000, Codec: &mcodecs.MPEG4Audio{Config: mpeg4audio.AudioSpecificConfig{
			Type: mpeg4audio.ObjectTypeAACLC, SampleRate: 48000, ChannelCount: 2, ChannelConfig: 2, //nolint:staticcheck
		}}},
	}}
	var b1 seekablebuffer.Buffer
	if err := init.Marshal(&b1); err != nil {
		panic(err)
	}
	parts := fmp4.Parts{{Tracks: []*fmp4.PartTrack{
		{ID: 1, BaseTime: 0, Samples: []*fmp4.Sample{
			{Duration: 30 * 90000, Payload: []byte{1, 2}},
			{Duration: 1 * 90000, Payload: []byte{3, 4}},
		}},
		{ID: 2, BaseTime: 0, Samples: []*fmp4.Sample{{Duration: 30 * 48000, Payload: []byte{1, 2}}}},
	}}}
	var b2 seekablebuffer.Buffer
	if err := parts.Marshal(&b2); err != nil {
		panic(err)
	}
	if err := os.WriteFile(fpath, append(b1.Bytes(), b2.Bytes()...), 0o644); err != nil {
		panic(err)
	}
}

func (w *verifC04World) segPath() string {
	return filepath.Join(w.dir, "rec", verifC04Rec, verifC04SegName)
}

func (w *verifC04World) ensureSegment() {
	if _, err := os.Stat(w.segPath()); err != nil {
		os.MkdirAll(filepath.Dir(w.segPath()), 0o755) //nolint:errcheck
		verifC04WriteSegment(w.segPath())
	}
}

func verifC04NewWorld() *verifC04World {
	gin.SetMode(gin.ReleaseMode)
	dir, err := os.MkdirTemp("", "verifc04")
	if err != nil {
		panic(err)
	}
	w := &verifC04World{dir: dir, servers: map[string]*verifC04Server{}}
	w.ensureSegment()

	// The refusal path sleeps minPause + rand.Int(rand.Reader, maxPause-minPause) = 0–4 s
	// (auth.LogAndDelayError).  crypto/rand.Reader is a package variable: with an all-zero source the
	// drawn pause is 0 ns, so the real code path runs unchanged and costs nothing.
	crand.Reader = verifC04Zero{}

	recPath := filepath.Join(dir, "rec", "%path", "%Y-%m-%d_%H-%M-%S-%f")
	yml := "api: yes\n" +
		"authInternalUsers:\n- user: " + verifC04Canary + "adm\n  pass: " + verifC04Canary + "pw\n  permissions:\n  - action: api\n" +
		"pathDefaults:\n  runOnReady: echo " + verifC04Canary + "\n" +
		"paths:\n" +
		"  cam1:\n    source: rtsp://" + verifC04Canary + ".host/stream\n" +
		"  " + verifC04Rec + ":\n    recordPath: " + recPath + "\n" +
		"  public/a:\n    recordPath: " + recPath + "\n"
	cf := filepath.Join(dir, "mediamtx.yml")
	if err = os.WriteFile(cf, []byte(yml), 0o644); err != nil {
		panic(err)
	}
	cnf, _, err := conf.Load(cf, nil, nil)
	if err != nil {
		panic(err)
	}

	w.mgr = &auth.Manager{Method: conf.AuthMethodInternal, ReadTimeout: time.Second}
	w.hook = httptest.NewServer(http.HandlerFunc(func(rw http.ResponseWriter, _ *http.Request) { rw.WriteHeader(http.StatusUnauthorized) }))
	am := &verifC04Auth{m: w.mgr}
	w.am = am
	to := conf.Duration(10 * time.Second)
	sock := func(n string) string { return "unix://" + filepath.Join(dir, n+".sock") }

	w.api = &API{
		Version: verifC04Canary, Address: sock("api"), ReadTimeout: to, WriteTimeout: to, AllowOrigins: []string{"*"},
		AuthManager: am, PathManager: &verifC04PM{},
		RTSPServer: &verifC04RTSP{}, RTSPSServer: &verifC04RTSP{}, RTMPServer: &verifC04RTMP{}, RTMPSServer: &verifC04RTMP{},
		HLSServer: &verifC04HLS{}, WebRTCServer: &verifC04WebRTC{}, SRTServer: &verifC04SRT{}, MoQServer: &verifC04MoQ{},
		Parent: &verifC04Parent{cnf: cnf},
	}
	if err = w.api.Initialize(); err != nil {
		panic(err)
	}
	w.servers["api"] = verifC04Wire(w.api, conf.AuthActionAPI)

	w.met = &metrics.Metrics{
		Address: sock("metrics"), ReadTimeout: to, WriteTimeout: to, AllowOrigins: []string{"*"},
		AuthManager: am, Parent: verifC04Log{},
	}
	if err = w.met.Initialize(); err != nil {
		panic(err)
	}
	w.met.SetPathManager(&verifC04PM{})
	w.met.SetRTSPServer(&verifC04RTSP{})
	w.met.SetRTMPServer(&verifC04RTMP{})
	w.met.SetHLSServer(&verifC04HLS{})
	w.met.SetWebRTCServer(&verifC04WebRTC{})
	w.met.SetSRTServer(&verifC04SRT{})
	w.servers["metrics"] = verifC04Wire(w.met, conf.AuthActionMetrics)

	w.pp = &pprof.PPROF{
		Address: sock("pprof"), ReadTimeout: to, WriteTimeout: to, AllowOrigins: []string{"*"},
		AuthManager: am, Parent: verifC04Log{},
	}
	if err = w.pp.Initialize(); err != nil {
		panic(err)
	}
	w.servers["pprof"] = verifC04Wire(w.pp, conf.AuthActionPprof)

	w.pb = &playback.Server{
		Address: sock("playback"), ReadTimeout: to, WriteTimeout: to, AllowOrigins: []string{"*"},
		PathConfs: cnf.Paths, AuthManager: am, Parent: verifC04Log{},
	}
	if err = w.pb.Initialize(); err != nil {
		panic(err)
	}
	w.servers["playback"] = verifC04Wire(w.pb, conf.AuthActionPlayback)
	return w
}

func (w *verifC04World) close() {
	w.api.Close()
	w.met.Close()
	w.pp.Close()
	w.pb.Close()
	os.RemoveAll(w.dir)
}

// ---------- permission tables ----------

// reset U<userhex>,<passhex>,<ips|->,<action[@pathhex];…> …
func verifC04ParseUsers(fs []string) []conf.AuthInternalUser {
	var out []conf.AuthInternalUser
	for _, f := range fs {
		if f[0] != 'U' {
			continue
		}
		p := strings.Split(f[1:], ",")
		u := conf.AuthInternalUser{User: conf.Credential(verifutil.UnHexS(p[0])), Pass: conf.Credential(verifutil.UnHexS(p[1]))}
		if p[2] != "-" {
			for _, c := range strings.Split(p[2], "+") {
				var n conf.IPNetwork
				if err := n.UnmarshalJSON([]byte(`"` + c + `"`)); err != nil {
					panic(err)
				}
				u.IPs = append(u.IPs, n)
			}
		}
		if p[3] != "-" {
			for _, a := range strings.Split(p[3], ";") {
				act, pth, _ := strings.Cut(a, "@")
				perm := conf.AuthInternalUserPermission{Action: conf.AuthAction(act)}
				if pth != "" {
					perm.Path = verifutil.UnHexS(pth)
				}
				u.Permissions = append(u.Permissions, perm)
			}
		}
		out = append(out, u)
	}
	return out
}

// ---------- one request ----------

type verifC04Req struct {
	srv, method, tmpl, path, query string
	acrm                           bool
	place, user, pass              string
	remote                         string
	xff                            bool
	body                           string
}

func (q *verifC04Req) creds() *auth.Credentials {
	switch q.place {
	case "basic", "bearerup":
		return &auth.Credentials{User: q.user, Pass: q.pass}
	case "token":
		return &auth.Credentials{Token: q.pass}
	}
	return &auth.Credentials{}
}

func (q *verifC04Req) queryPath() string {
	v, _ := url.ParseQuery(q.query)
	if len(v["path"]) > 0 {
		return v["path"][0]
	}
	return ""
}

// ---------- reference meaning of a permission table ----------
//
// "Admitted for action A (on path P)" is decided by the harness' OWN reading of the generated table, not by
// internal/auth: the servers under test call the real auth.Manager, and a defect there (e.g. a playback
// permission whose path is ignored) must show up as a difference.  Fragment: internal users, plain or sha256
// credentials, CIDR/IP lists, permission path empty / exact / ~regexp for publish, read and playback.

type verifC04RefUser struct {
	user, pass string
	clear      string // argon2 entries: the password the hash was made from (5th field of the U token)
	nets       []*net.IPNet
	perms      [][2]string // action, path
}

// verifC04Setup: the non-user tokens of a reset op: M<internal|http> (default internal), X<perms> = authHTTPExclude,
// Y<perms> = authJWTExclude (perms: action[@pathhex];…).  Core copies both lists into the manager whatever the method.
type verifC04Setup struct {
	method   string
	httpEx   [][2]string
	jwtEx    [][2]string
	confHTTP []conf.AuthInternalUserPermission
	confJWT  []conf.AuthInternalUserPermission
}

func verifC04ParseSetup(fs []string) verifC04Setup {
	st := verifC04Setup{method: "internal"}
	perms := func(t string) (ref [][2]string, cf []conf.AuthInternalUserPermission) {
		for _, a := range strings.Split(t, ";") {
			if a == "" {
				continue
			}
			act, pth, _ := strings.Cut(a, "@")
			if pth != "" {
				pth = verifutil.UnHexS(pth)
			}
			ref = append(ref, [2]string{act, pth})
			cf = append(cf, conf.AuthInternalUserPermission{Action: conf.AuthAction(act), Path: pth})
		}
		return
	}
	for _, f := range fs {
		switch f[0] {
		case 'M':
			st.method = f[1:]
		case 'X':
			st.httpEx, st.confHTTP = perms(f[1:])
		case 'Y':
			st.jwtEx, st.confJWT = perms(f[1:])
		}
	}
	return st
}

func verifC04RefPerm(perms [][2]string, action, path string) bool {
	for _, p := range perms {
		if p[0] != action {
			continue
		}
		bound := action == "publish" || action == "read" || action == "playback"
		switch {
		case !bound || p[1] == "":
			return true
		case strings.HasPrefix(p[1], "~"):
			if m, err := regexp.MatchString(p[1][1:], path); err == nil && m {
				return true
			}
		case p[1] == path:
			return true
		}
	}
	return false
}

func verifC04RefParse(fs []string) []verifC04RefUser {
	var out []verifC04RefUser
	for _, f := range fs {
		if f[0] != 'U' {
			continue
		}
		p := strings.Split(f[1:], ",")
		u := verifC04RefUser{user: verifutil.UnHexS(p[0]), pass: verifutil.UnHexS(p[1])}
		if len(p) > 4 {
			u.clear = verifutil.UnHexS(p[4])
		}
		if p[2] != "-" {
			for _, c := range strings.Split(p[2], "+") {
				if !strings.Contains(c, "/") {
					if strings.Contains(c, ":") {
						c += "/128"
					} else {
						c += "/32"
					}
				}
				_, n, err := net.ParseCIDR(c)
				if err != nil {
					panic(err)
				}
				u.nets = append(u.nets, n)
			}
		}
		if p[3] != "-" {
			for _, a := range strings.Split(p[3], ";") {
				act, pth, _ := strings.Cut(a, "@")
				if pth != "" {
					pth = verifutil.UnHexS(pth)
				}
				u.perms = append(u.perms, [2]string{act, pth})
			}
		}
		out = append(out, u)
	}
	return out
}

func verifC04RefCred(stored, clear, guess string) bool {
	if strings.HasPrefix(stored, "argon2:") {
		return guess == clear
	}
	if strings.HasPrefix(stored, "sha256:") {
		return stored[len("sha256:"):] == verifC04Sha(guess)
	}
	return stored == "" || stored == guess
}

func verifC04RefAdmit(users []verifC04RefUser, action, path, user, pass string, ip net.IP) bool {
	for _, u := range users {
		if len(u.nets) != 0 {
			in := false
			for _, n := range u.nets {
				in = in || n.Contains(ip)
			}
			if !in {
				continue
			}
		}
		perm := false
		for _, p := range u.perms {
			if p[0] != action {
				continue
			}
			bound := action == "publish" || action == "read" || action == "playback"
			switch {
			case !bound || p[1] == "":
				perm = true
			case strings.HasPrefix(p[1], "~"):
				if m, err := regexp.MatchString(p[1][1:], path); err == nil && m {
					perm = true
				}
			default:
				perm = perm || p[1] == path
			}
		}
		if !perm {
			continue
		}
		if u.user == "any" || (verifC04RefCred(u.user, "", user) && verifC04RefCred(u.pass, u.clear, pass)) {
			return true
		}
	}
	return false
}

// oracle: is the client admitted for the action the property names (playback: on the requested path)?
func (w *verifC04World) oracle(q *verifC04Req) (valid bool, res string) {
	s := w.servers[q.srv]
	host, _, _ := net.SplitHostPort(q.remote)
	c := q.creds()
	valid = true
	path := ""
	if q.srv == "playback" {
		path = q.queryPath()
		valid = conf.IsValidPathName(path) == nil
	}
	if w.setup.method == "http" {
		// external authenticator refuses everybody: admitted iff the action is excluded from it.  The internal user
		// table is irrelevant here, authJWTExclude too.
		switch {
		case verifC04RefPerm(w.setup.httpEx, string(s.action), path):
			res = "ok"
		case c.User == "" && c.Pass == "" && c.Token == "":
			res = "ask"
		default:
			res = "deny"
		}
		return
	}
	// authMethod internal: the exclusion lists (left over from another method) mean nothing
	switch {
	case verifC04RefAdmit(w.ref, string(s.action), path, c.User, c.Pass, net.ParseIP(host)):
		res = "ok"
	case c.User == "" && c.Pass == "": // EnableAskCredentials and nothing offered (a bearer token is not looked at)
		res = "ask"
	default:
		res = "deny"
	}
	return
}

func (q *verifC04Req) line(valid bool, res string) string {
	t := q.tmpl
	if t == "" {
		t = "-"
	}
	return fmt.Sprintf("req %s %s %s %s %s %s %s %s %s %s %s %s %s %s", q.srv, q.method, t,
		verifutil.HexS(q.path), verifutil.HexS(q.query), verifC04B(q.acrm), q.place, verifutil.HexS(q.user), verifutil.HexS(q.pass),
		q.remote, verifC04B(q.xff), verifutil.HexS(q.body), verifC04B(valid), res)
}

func verifC04B(b bool) string {
	if b {
		return "1"
	}
	return "0"
}

func verifC04ParseReq(f []string) (*verifC04Req, bool, string) {
	q := &verifC04Req{srv: f[1], method: f[2], tmpl: f[3], path: verifutil.UnHexS(f[4]), query: verifutil.UnHexS(f[5]),
		acrm: f[6] == "1", place: f[7], user: verifutil.UnHexS(f[8]), pass: verifutil.UnHexS(f[9]), remote: f[10],
		xff: f[11] == "1", body: verifutil.UnHexS(f[12])}
	if q.tmpl == "-" {
		q.tmpl = ""
	}
	return q, f[13] == "1", f[14]
}

func (w *verifC04World) serve(q *verifC04Req) string {
	s := w.servers[q.srv]
	u := "http://mtx.test" + q.path
	if q.query != "" {
		u += "?" + q.query
	}
	var body io.Reader
	if q.body != "" {
		body = strings.NewReader(q.body)
	}
	hr := httptest.NewRequest(q.method, u, body)
	hr.RemoteAddr = q.remote
	if q.remote == "-" {
		hr.RemoteAddr = ""
	}
	switch q.place {
	case "basic":
		hr.SetBasicAuth(q.user, q.pass)
	case "bearerup":
		hr.Header.Set("Authorization", "Bearer "+q.user+":"+q.pass)
	case "token":
		hr.Header.Set("Authorization", "Bearer "+q.pass)
	case "query":
		// credentials in the query string are not a placement the HTTP servers accept
	}
	if q.acrm {
		hr.Header.Set("Access-Control-Request-Method", "GET")
		hr.Header.Set("Origin", "http://evil.example")
	}
	if q.xff {
		hr.Header.Set("X-Forwarded-For", "10.1.2.3")
		hr.Header.Set("X-Real-IP", "10.1.2.3")
	}
	if q.body != "" {
		hr.Header.Set("Content-Type", "application/json")
	}
	if q.srv == "pprof" {
		// pprof's profile/trace sleep on the request context: a cancelled one makes them return at once
		ctx, cancel := context.WithCancel(hr.Context())
		cancel()
		hr = hr.WithContext(ctx)
	}

	w.ensureSegment()
	before := verifC04Mut.Load()
	rec := httptest.NewRecorder()
	s.handler.ServeHTTP(rec, hr)
	changed := verifC04Mut.Load() != before
	if _, err := os.Stat(w.segPath()); err != nil {
		changed = true
	}

	b := rec.Body.Bytes()
	class := "other"
	switch {
	case len(b) == 0:
		class = "empty"
	case string(b) == verifC04AuthErr:
		class = "autherr"
	}
	return fmt.Sprintf("%d %s canary=%s changed=%s www=%s", rec.Code, class,
		verifC04B(bytes.Contains(b, []byte(verifC04Canary)) || verifC04HeaderHas(rec.Header(), verifC04Canary)),
		verifC04B(changed), verifC04B(rec.Header().Get("WWW-Authenticate") != ""))
}

func verifC04HeaderHas(h http.Header, s string) bool {
	for _, vs := range h {
		for _, v := range vs {
			if strings.Contains(v, s) {
				return true
			}
		}
	}
	return false
}

func verifC04Exec(op string) string {
	f := strings.Fields(op)
	w := verifC04W
	switch f[0] {
	case "reset": // a freshly started authentication manager
		st := verifC04ParseSetup(f[1:])
		w.mgr = &auth.Manager{Method: conf.AuthMethodInternal, InternalUsers: verifC04ParseUsers(f[1:]), ReadTimeout: time.Second,
			HTTPExclude: st.confHTTP, JWTExclude: st.confJWT}
		if st.method == "http" {
			w.mgr.Method, w.mgr.HTTPAddress = conf.AuthMethodHTTP, w.hook.URL
		}
		w.am.m = w.mgr
		w.ref, w.setup = verifC04RefParse(f[1:]), st
		return "ok"
	case "coreexclude": // run-time tightening of authHTTPExclude, through a real Core (core_test.go)
		fn, ok := verifutil.Funcs["c04.coreExclude"].(func(string) string)
		if !ok {
			return "unavailable"
		}
		return fn(f[1])
	case "reload": // configuration hot reload: same manager, new user table
		w.mgr.ReloadInternalUsers(verifC04ParseUsers(f[1:]))
		w.ref = verifC04RefParse(f[1:])
		return "ok"
	case "routes":
		var l []string
		for _, r := range w.routeTable() {
			if r.srv == f[1] {
				l = append(l, r.method+" "+r.path)
			}
		}
		return strings.Join(l, ",")
	case "req":
		q, valid, res := verifC04ParseReq(f)
		v2, r2 := w.oracle(q)
		if v2 != valid || r2 != res {
			return fmt.Sprintf("oracle-mismatch valid=%v auth=%s", v2, r2)
		}
		return w.serve(q)
	}
	return "bad-op"
}

// ---------- generator ----------

type verifC04User struct {
	user, pass, ips, perms string // pass in clear; stored may be hashed
	stored                 string
}

func verifC04PermSet(r *verifutil.Rand, i int) []verifC04User {
	h := func(s string) string { return verifutil.HexS(s) }
	switch i {
	case 0: // nobody
		return nil
	case 1: // open configuration: anybody may do everything administrative
		return []verifC04User{{user: "any", perms: "api;metrics;pprof;playback"}}
	case 2: // one administrator
		return []verifC04User{{user: "admin", pass: "adminpw", perms: "api;metrics;pprof;playback"}}
	case 3: // one user per action, playback restricted by path; a media-only user
		return []verifC04User{
			{user: "apiu", pass: "p1", perms: "api"}, {user: "metu", pass: "p2", perms: "metrics"},
			{user: "ppu", pass: "p3", perms: "pprof"}, {user: "pbu", pass: "p4", perms: "playback@" + h("cam1")},
			{user: "pbre", pass: "p5", perms: "playback@" + h("~^recs.*$")},
			{user: "media", pass: "p6", perms: "read;publish"},
			// playback on an exact path and on a regexp only; everything else (e.g. the recorded path) is refused
			{user: "viewer", pass: "p7", perms: "playback@" + h("cam1") + ";playback@" + h("~^public/")},
			{user: "pball", pass: "p8", perms: "playback"},
			// only path-restricted media permissions: no administrative access at all
			{user: "mediaonly", pass: "p9", perms: "publish@" + h("cam1") + ";read@" + h("~^cam") + ";playback@" + h("cam1")},
		}
	case 4: // administrator restricted by IP; anonymous users may only read
		return []verifC04User{
			{user: "admin", pass: "adminpw", ips: "10.0.0.0/8", perms: "api;metrics;pprof;playback"},
			{user: "any", perms: "read"},
		}
	case 5: // hashed credentials
		return []verifC04User{{user: "hashed", pass: "s3cret", stored: "sha256:" + verifC04Sha("s3cret"), perms: "api;playback;metrics"}}
	case 6: // anonymous api only
		return []verifC04User{{user: "any", perms: "api"}, {user: "m", pass: "mp", perms: "metrics;pprof"}}
	case 8: // the stock configuration: administrative actions for anybody, but from the local machine only
		return []verifC04User{
			{user: "any", ips: "127.0.0.1+::1", perms: "api;metrics;pprof"},
			{user: "any", perms: "publish;read;playback"},
		}
	case 7: // anonymous playback of one path; named users restricted by path and by IP
		return []verifC04User{
			{user: "any", perms: "playback@" + h("public/a")},
			{user: "viewer", pass: "vp", perms: "playback@" + h(verifC04Rec)},
			{user: "lan", pass: "lp", ips: "10.0.0.0/8", perms: "playback@" + h("~^(cam1|recs)")},
			{user: "mediaonly", pass: "p9", perms: "publish;read@" + h("cam1")},
		}
	}
	// random table
	acts := []string{"api", "metrics", "pprof", "playback", "read", "publish"}
	n := 1 + r.Intn(4)
	var out []verifC04User
	for k := 0; k < n; k++ {
		u := verifC04User{user: fmt.Sprintf("u%d", k), pass: fmt.Sprintf("pw%d", r.Intn(100))}
		if r.Chance(1, 6) {
			u.user, u.pass = "any", ""
		}
		if r.Chance(1, 4) {
			u.ips = r.Pick("10.0.0.0/8", "192.168.9.9", "127.0.0.1+10.1.2.3")
		}
		var ps []string
		for _, a := range acts {
			if r.Chance(1, 3) {
				if a == "playback" && r.Bool() {
					a += "@" + h(r.Pick("cam1", verifC04Rec, "~^cam", "other"))
				}
				ps = append(ps, a)
			}
		}
		if len(ps) == 0 {
			ps = []string{r.Pick(acts...)}
		}
		u.perms = strings.Join(ps, ";")
		out = append(out, u)
	}
	return out
}

func verifC04Sha(s string) string {
	h := sha256.Sum256([]byte(s))
	return base64.StdEncoding.EncodeToString(h[:])
}

type verifC04RouteT struct{ srv, method, path string }

func (w *verifC04World) routeTable() []verifC04RouteT {
	var out []verifC04RouteT
	for _, sn := range []string{"api", "metrics", "pprof", "playback"} {
		rs := w.servers[sn].engine.Routes()
		sort.Slice(rs, func(i, j int) bool {
			if rs[i].Path != rs[j].Path {
				return rs[i].Path < rs[j].Path
			}
			return rs[i].Method < rs[j].Method
		})
		for _, r := range rs {
			out = append(out, verifC04RouteT{sn, r.Method, r.Path})
		}
	}
	return out
}

func verifC04Instantiate(r *verifutil.Rand, tmpl string) string {
	segs := strings.Split(tmpl, "/")
	for i, s := range segs {
		switch {
		case strings.HasPrefix(s, ":"):
			segs[i] = verifC04ID.String()
			if r.Chance(1, 8) {
				segs[i] = "99999999-2222-3333-4444-555555555555"
			}
		case strings.HasPrefix(s, "*"):
			segs[i] = r.Pick("cam1", verifC04Rec, "cam1", "a/b")
		}
	}
	return strings.Join(segs, "/")
}

var verifC04PlaybackPaths = []string{"cam1", verifC04Rec, "public/a", "other", "..%2Fx", "", "%2Fabs", "a%20b"}

func verifC04Query(r *verifutil.Rand, rt verifC04RouteT, p string) string {
	switch {
	case rt.srv == "playback":
		q := "path=" + p
		if p == "" && r.Bool() {
			q = ""
		}
		if rt.path == "/get" {
			q += "&start=" + url.QueryEscape(verifC04SegTime) + "&duration=5"
		}
		return strings.TrimPrefix(q, "&")
	case rt.path == "/v3/recordings/deletesegment":
		return "path=" + verifC04Rec + "&start=" + url.QueryEscape(verifC04SegTime)
	case strings.HasPrefix(rt.path, "/v3/paths/forward"):
		return "path=cam1&id=" + verifC04ID.String()
	case rt.srv == "metrics":
		return r.Pick("", "type=paths", "path=cam1")
	case strings.HasSuffix(rt.path, "/list") && r.Chance(1, 4):
		return "itemsPerPage=10&page=0"
	}
	if r.Chance(1, 10) {
		return "user=admin&pass=adminpw&jwt=abc"
	}
	return ""
}

// verifC04Argon2 makes an argon2id hash with tiny cost parameters (they are part of the encoded string, so the
// real verifier accepts it; the default 64 MiB would make every request of the run cost ~50 ms).
func verifC04Argon2(pw string) string {
	cfg := argon2.Config{HashLength: 32, SaltLength: 16, TimeCost: 1, MemoryCost: 8, Parallelism: 1,
		Mode: argon2.ModeArgon2id, Version: argon2.Version13}
	enc, err := cfg.HashEncoded([]byte(pw))
	if err != nil {
		panic(err)
	}
	return "argon2:" + string(enc)
}

// verifC04GenRotation: histories in which ONE manager sees the same user with different passwords: right then
// wrong password, then a hot reload that changes / revokes the password, then the old and the new password
// again.  One request per server and step.
func verifC04GenRotation(r *verifutil.Rand, kind string) []string {
	w := verifC04W
	stored := func(pw string) string {
		switch kind {
		case "argon2":
			return verifC04Argon2(pw)
		case "sha256":
			return "sha256:" + verifC04Sha(pw)
		}
		return pw
	}
	table := func(op, pw, perms string) string {
		t := fmt.Sprintf("%s U%s,%s,-,%s,%s", op, verifutil.HexS("rot"), verifutil.HexS(stored(pw)), perms, verifutil.HexS(pw))
		t += fmt.Sprintf(" U%s,%s,-,%s", verifutil.HexS("other"), verifutil.HexS("op"), "api")
		w.ref = verifC04RefParse(strings.Fields(t)[1:])
		w.setup = verifC04ParseSetup(strings.Fields(t)[1:])
		return t
	}
	targets := []verifC04Req{
		{srv: "api", method: "GET", tmpl: "/v3/paths/list", path: "/v3/paths/list"},
		{srv: "metrics", method: "GET", tmpl: "/metrics", path: "/metrics"},
		{srv: "pprof", method: "GET", tmpl: "/debug/pprof/cmdline", path: "/debug/pprof/cmdline"},
		{srv: "playback", method: "GET", tmpl: "/list", path: "/list", query: "path=" + verifC04Rec},
	}
	var ops []string
	try := func(pw string) {
		for _, t := range targets {
			if r.Chance(1, 3) {
				continue
			}
			q := t
			q.place, q.user, q.pass, q.remote = r.Pick("basic", "bearerup"), "rot", pw, "10.1.2.3:5555"
			valid, res := w.oracle(&q)
			ops = append(ops, q.line(valid, res))
		}
	}
	all := "api;metrics;pprof;playback"
	ops = append(ops, table("reset", "pw1", all))
	try("pw1")
	try("pw2")
	try("pw1")
	ops = append(ops, table("reload", "pw2", all)) // password changed at runtime
	try("pw1")
	try("pw2")
	if r.Bool() {
		ops = append(ops, table("reload", "pw2", "read")) // administrative permissions revoked
		try("pw2")
	}
	ops = append(ops, table("reload", "pw1", all))
	try("pw2")
	try("pw1")
	return ops
}

func verifC04Gen(r *verifutil.Rand, i int, thorough bool) []string {
	w := verifC04W
	users := verifC04PermSet(r, i)
	reset := "reset"
	for _, u := range users {
		st := u.stored
		if st == "" {
			st = u.pass
		}
		ips := u.ips
		if ips == "" {
			ips = "-"
		}
		reset += fmt.Sprintf(" U%s,%s,%s,%s", verifutil.HexS(u.user), verifutil.HexS(st), ips, u.perms)
	}
	// authMethod x (authHTTPExclude, authJWTExclude), varied independently: lists left over from another method must
	// mean nothing under `internal`; under `http` (refuse-all webhook) exactly the excluded actions are open
	exs := []string{"", "api", "metrics;pprof", "api;metrics;pprof;playback", "playback@" + verifutil.HexS("cam1"), "publish;read"}
	if x := exs[(i+1)%len(exs)]; x != "" {
		reset += " X" + x
	}
	if y := exs[(i/2+3)%len(exs)]; y != "" {
		reset += " Y" + y
	}
	if i%4 == 2 {
		reset += " Mhttp"
	}
	w.setup = verifC04ParseSetup(strings.Fields(reset)[1:])
	var ops []string
	if i == 0 {
		for _, sn := range []string{"api", "metrics", "pprof", "playback"} {
			ops = append(ops, "reset", "coreexclude "+sn)
		}
	}
	// first: password rotation histories (one manager, same user, changing passwords, across hot reloads)
	for _, kind := range []string{"argon2", "sha256", "plain"} {
		ops = append(ops, verifC04GenRotation(r, kind)...)
	}
	ops = append(ops, reset)
	w.ref = verifC04RefParse(strings.Fields(reset)[1:])
	w.setup = verifC04ParseSetup(strings.Fields(reset)[1:])
	for _, sn := range []string{"api", "metrics", "pprof", "playback"} {
		ops = append(ops, "routes "+sn)
	}

	// identities to try: every configured user with the right and a wrong password, and a stranger
	type ident struct{ place, user, pass string }
	ids := []ident{{"none", "", ""}, {"basic", "ghost", "boo"}, {"token", "", "abc.def.ghi"}, {"query", "", ""}}
	for _, u := range users {
		if u.user == "any" {
			continue
		}
		ids = append(ids, ident{"basic", u.user, u.pass}, ident{"basic", u.user, u.pass + "x"}, ident{"bearerup", u.user, u.pass})
		if thorough || r.Chance(1, 3) {
			ids = append(ids, ident{"basic", u.user, ""}, ident{"bearerup", u.user, "wrong"}, ident{"token", "", u.pass})
		}
	}
	allMethods := []string{"GET", "POST", "PATCH", "DELETE", "PUT", "HEAD", "OPTIONS"}

	// every request is its own two-op history (reset + req): the replay of a failure is minimal without shrinking
	emit := func(q *verifC04Req) {
		valid, res := w.oracle(q)
		ops = append(ops, reset, q.line(valid, res))
	}
	type routeQ struct {
		rt verifC04RouteT
		pp string
	}
	var rqs []routeQ
	for _, rt := range w.routeTable() {
		if rt.srv == "playback" { // every identity asks for every path: granted, not granted, unknown, malformed
			for _, pp := range verifC04PlaybackPaths {
				rqs = append(rqs, routeQ{rt, pp})
			}
		} else {
			rqs = append(rqs, routeQ{rt, ""})
		}
	}
	for _, rq := range rqs {
		rt := rq.rt
		for _, id := range ids {
			q := &verifC04Req{srv: rt.srv, method: rt.method, tmpl: rt.path, path: verifC04Instantiate(r, rt.path),
				query: verifC04Query(r, rt, rq.pp), place: id.place, user: id.user, pass: id.pass,
				remote: r.Pick("10.1.2.3:5555", "192.168.9.9:4444", "10.1.2.3:5555"), xff: r.Chance(1, 4)}
			// peers whose transport address has no parsable IP (zoned IPv6 link-local, unix socket, nothing) must
			// not be taken for anybody; loopback peers are the ones the stock configuration admits
			if i == 8 || r.Chance(1, 8) {
				q.remote = r.Pick("127.0.0.1:5555", "[::1]:5555", "[fe80::1%eth0]:5555", "[fe80::1%25eth0]:5555", "-", "@", "garbage", "fe80::1%eth0", "10.1.2.3:5555")
				q.xff = q.xff && r.Bool()
			}
			if id.place == "query" {
				q.query = strings.TrimPrefix(q.query+"&user=admin&pass=adminpw", "&")
			}
			if rt.method == "POST" || rt.method == "PATCH" {
				q.body = "{}"
			}
			emit(q)

			// the same request as a CORS preflight, with other methods, and with the path perturbed
			if r.Chance(1, 3) {
				p := *q
				p.method, p.acrm, p.body, p.tmpl = "OPTIONS", true, "", ""
				emit(&p)
			}
			nm := 1
			if thorough {
				nm = 3
			}
			for k := 0; k < nm; k++ {
				m := allMethods[r.Intn(len(allMethods))]
				if m == rt.method {
					continue
				}
				p := *q
				p.method, p.tmpl = m, ""
				for _, o := range w.routeTable() {
					if o.srv == rt.srv && o.path == rt.path && o.method == m {
						p.tmpl = o.path
					}
				}
				if m == "OPTIONS" {
					p.acrm = r.Bool()
				}
				if m == "GET" || m == "HEAD" || m == "OPTIONS" {
					p.body = ""
				}
				emit(&p)
			}
			if r.Chance(1, 4) {
				p := *q
				p.tmpl = ""
				switch r.Intn(5) {
				case 0:
					p.path = strings.TrimSuffix(p.path, "/") + "/"
					if p.path == q.path {
						p.path = strings.TrimSuffix(p.path, "/")
					}
					if p.path == "" {
						p.path = "/"
					}
				case 1:
					p.path = "/v3/nope"
				case 2:
					p.path = "/"
				case 3:
					p.path = strings.ToUpper(p.path)
				case 4:
					p.path = "/" + p.path
				}
				if p.path != q.path {
					emit(&p)
				}
			}
		}
	}
	return ops
}

func TestVerifC04(t *testing.T) {
	if os.Getenv("VERIF_OUT") == "" {
		t.Skip("VERIF_OUT not set")
	}
	verifC04W = verifC04NewWorld()
	defer verifC04W.close()
	verifutil.Main(t, &verifutil.Harness{
		ID: "C04", Exec: verifC04Exec, Gen: verifC04Gen, Quick: 11, Thorough: 60,
		Class: func(op, impl string) string {
			f := strings.Fields(op)
			if f[0] != "req" {
				return f[0]
			}
			a := strings.Fields(impl)
			st := "?"
			if len(a) > 0 {
				st = a[0]
			}
			k := "routed"
			if f[3] == "-" {
				k = "unrouted"
			}
			if f[6] == "1" && f[2] == "OPTIONS" {
				k = "preflight"
			}
			return fmt.Sprintf("%s/%s/%s/%s", f[1], k, f[len(f)-1], st)
		},
		NonTrivial: func(op, impl string) bool { return strings.HasPrefix(op, "req") },
	})
}
