//go:build verif

// C04, run-time exclusion lists: the only piece of C04 that needs the whole Core.  External test package (api_test)
// so that it may import internal/core; it offers one function through the verifutil registry, the in-package
// harness calls it for the `coreexclude` op.
package api_test

import (
	"bytes"
	"fmt"
	"net"
	"net/http"
	"net/http/httptest"
	"os"
	"path/filepath"
	"time"

	"github.com/bluenviron/mediamtx/internal/core"
	"github.com/bluenviron/mediamtx/internal/verifutil"
)

func init() { verifutil.Register("c04.coreExclude", verifC04CoreExclude) }

func verifC04CoreFree() string {
	l, err := net.Listen("tcp", "127.0.0.1:0")
	if err != nil {
		panic(err)
	}
	defer l.Close()
	return l.Addr().String()
}

// verifC04CoreExclude starts a real Core with `authMethod: http` (a webhook that refuses everybody) and the four
// administrative actions in authHTTPExclude, asks <srv> once (served: excluded), removes the exclusions through
// PATCH /v3/config/global/patch (hot reload, no restart), and asks again until the answer is 401 (or 3 s passed).
// Answer: "before=<status> after=<status>".
func verifC04CoreExclude(srv string) string {
	// the free ports are found by listen-and-close: another process (a check running beside this one) can take one
	// before Core binds it, so a Core that does not start is retried with fresh ports
	res := ""
	for try := 0; try < 6; try++ {
		res = verifC04CoreExcludeOnce(srv)
		if res != "err core did not start" {
			return res
		}
		time.Sleep(time.Duration(50*(try+1)) * time.Millisecond)
	}
	return res
}

func verifC04CoreExcludeOnce(srv string) string {
	hook := httptest.NewServer(http.HandlerFunc(func(w http.ResponseWriter, _ *http.Request) { w.WriteHeader(http.StatusUnauthorized) }))
	defer hook.Close()
	dir, err := os.MkdirTemp("", "verifc04core")
	if err != nil {
		return "err " + err.Error()
	}
	defer os.RemoveAll(dir)
	addr := map[string]string{"api": verifC04CoreFree(), "metrics": verifC04CoreFree(), "pprof": verifC04CoreFree(), "playback": verifC04CoreFree()}
	yml := "logLevel: error\nauthMethod: http\nauthHTTPAddress: " + hook.URL + "/auth\n" +
		"authHTTPExclude:\n- action: api\n- action: metrics\n- action: pprof\n- action: playback\n" +
		"api: yes\napiAddress: " + addr["api"] + "\nmetrics: yes\nmetricsAddress: " + addr["metrics"] + "\n" +
		"pprof: yes\npprofAddress: " + addr["pprof"] + "\nplayback: yes\nplaybackAddress: " + addr["playback"] + "\n" +
		"rtsp: no\nrtmp: no\nhls: no\nwebrtc: no\nsrt: no\nmoq: no\npaths:\n  all_others:\n"
	cf := filepath.Join(dir, "mediamtx.yml")
	if err = os.WriteFile(cf, []byte(yml), 0o644); err != nil {
		return "err " + err.Error()
	}
	c, ok := core.New([]string{cf})
	if !ok {
		return "err core did not start"
	}
	defer c.Close()

	target := map[string]string{
		"api": "/v3/paths/list", "metrics": "/metrics", "pprof": "/debug/pprof/cmdline", "playback": "/list?path=cam1",
	}[srv]
	hc := &http.Client{Timeout: 2 * time.Second}
	get := func() int {
		res, err2 := hc.Get("http://" + addr[srv] + target)
		if err2 != nil {
			return 0 // the listener is being re-created
		}
		res.Body.Close()
		return res.StatusCode
	}
	before := 0
	for end := time.Now().Add(2 * time.Second); time.Now().Before(end) && before == 0; {
		before = get()
	}
	req, _ := http.NewRequest(http.MethodPatch, "http://"+addr["api"]+"/v3/config/global/patch",
		bytes.NewReader([]byte(`{"authHTTPExclude":[{"action":"publish"}]}`)))
	req.Header.Set("Content-Type", "application/json")
	res, err := hc.Do(req)
	if err != nil {
		return "err patch: " + err.Error()
	}
	res.Body.Close()
	if res.StatusCode != http.StatusOK {
		return fmt.Sprintf("err patch status %d", res.StatusCode)
	}
	// Wait for the reload to complete before touching <srv> again: the API server is closed first and re-created
	// last, so "the API answers 401" means every resource is in place again.  (Probing the metrics server DURING the
	// reload crashes the process on the unchanged code: pathManager is nil for a moment and onMetrics calls it
	// unguarded — a finding of its own, see notes/C04.md — and is not what this op is about.)
	getAPI := func() int {
		res2, err2 := hc.Get("http://" + addr["api"] + "/v3/paths/list")
		if err2 != nil {
			return 0
		}
		res2.Body.Close()
		return res2.StatusCode
	}
	for end := time.Now().Add(3 * time.Second); time.Now().Before(end) && getAPI() != http.StatusUnauthorized; {
		time.Sleep(5 * time.Millisecond)
	}
	after := 0
	for k := 0; k < 50 && after == 0; k++ {
		if after = get(); after == 0 {
			time.Sleep(10 * time.Millisecond)
		}
	}
	return fmt.Sprintf("before=%d after=%d", before, after)
}
