//go:build verif

package recordcleaner

import (
	"fmt"
	"os"
	"path/filepath"
	"regexp"
	"sort"
	"strings"
	"sync/atomic"
	"testing"
	"time"

	"github.com/bluenviron/mediamtx/internal/conf"
	"github.com/bluenviron/mediamtx/internal/logger"
	"github.com/bluenviron/mediamtx/internal/recordstore"
	"github.com/bluenviron/mediamtx/internal/verifutil"
)

const verifC30Root = "/tmp/vc30t"

type verifC30Log struct{}

func (verifC30Log) Log(logger.Level, string, ...any) {}

func verifC30Regexp(key string) *regexp.Regexp {
	if key == "all" || key == "all_others" {
		return regexp.MustCompile("^.*$")
	}
	return regexp.MustCompile(key[1:])
}

// confs column: "<keyHex>:<R|S>:<fmtHex>:<deleteAfterUs>,…"
func verifC30Confs(col string) map[string]*conf.Path {
	out := map[string]*conf.Path{}
	for _, e := range strings.Split(col, ",") {
		p := strings.Split(e, ":")
		key := verifutil.UnHexS(p[0])
		pc := &conf.Path{
			Name: key, RecordPath: verifutil.UnHexS(p[2]), RecordFormat: conf.RecordFormatFMP4,
			RecordDeleteAfter: conf.Duration(time.Duration(verifutil.AtoI64(p[3])) * time.Microsecond),
		}
		// as in a loaded configuration: recordSegmentDuration is never 0 (default 1h) and not above recordDeleteAfter
		pc.RecordSegmentDuration = conf.Duration(time.Hour)
		if pc.RecordDeleteAfter != 0 && pc.RecordDeleteAfter < pc.RecordSegmentDuration {
			pc.RecordSegmentDuration = pc.RecordDeleteAfter
		}
		if p[1] == "R" {
			pc.Regexp = verifC30Regexp(key)
		}
		out[key] = pc
	}
	return out
}

func verifC30Gone(files []string) string {
	var gone []string
	for _, rel := range files {
		if _, err := os.Lstat(filepath.Join(verifC30Root, rel)); err != nil {
			gone = append(gone, verifutil.HexS(rel))
		}
	}
	if len(gone) == 0 {
		return "-"
	}
	sort.Strings(gone)
	return strings.Join(gone, ",")
}

func verifC30Exec(op string) string {
	f := strings.Fields(op)
	switch f[0] {
	case "reset":
		return "ok" // case delimiter only
	case "reload":
		// reload <nowUs> <d0> <d1,d2,…|->: recordDeleteAfter (µs) of path cam1 in the initial configuration and in each
		// configuration delivered through ReloadPathConfs while the first pass is still running; which configuration
		// does the next pass use?  (cam2 always has a short retention: it keeps the clean interval short)
		os.RemoveAll(verifC30Root)
		if err := os.MkdirAll(verifC30Root, 0o755); err != nil {
			panic(err)
		}
		defer os.RemoveAll(verifC30Root)
		wd, _ := os.Getwd()
		if err := os.Chdir(verifC30Root); err != nil {
			panic(err)
		}
		defer os.Chdir(wd) //nolint:errcheck
		now := time.UnixMicro(verifutil.AtoI64(f[1]))
		old := fmt.Sprint(now.Unix() - 3600)
		for _, p := range []string{"cam1", "cam2"} {
			os.MkdirAll(filepath.Join(verifC30Root, "recordings", p), 0o755) //nolint:errcheck
			if err := os.WriteFile(filepath.Join(verifC30Root, "recordings", p, old+".mp4"), []byte("x"), 0o644); err != nil {
				panic(err)
			}
		}
		mk := func(d1 int64) map[string]*conf.Path {
			m := map[string]*conf.Path{}
			for k, d := range map[string]int64{"cam1": d1, "cam2": 40000} {
				m[k] = &conf.Path{Name: k, RecordPath: "recordings/%path/%s", RecordFormat: conf.RecordFormatFMP4,
					RecordDeleteAfter: conf.Duration(time.Duration(d) * time.Microsecond), RecordSegmentDuration: conf.Duration(time.Duration(d) * time.Microsecond)}
			}
			return m
		}
		savedLocal, savedNow := time.Local, timeNow
		time.Local = time.UTC
		var calls atomic.Int32
		gate := make(chan struct{})
		timeNow = func() time.Time {
			if calls.Add(1) == 1 {
				<-gate // the first pass stays "in progress" until released
			}
			return now
		}
		c := &Cleaner{PathConfs: mk(verifutil.AtoI64(f[2])), Parent: verifC30Log{}}
		c.Initialize()
		waitFor := func(cond func() bool) bool {
			for i := 0; i < 3000; i++ {
				if cond() {
					return true
				}
				time.Sleep(time.Millisecond)
			}
			return false
		}
		res := "timeout"
		if waitFor(func() bool { return calls.Load() >= 1 }) {
			done := make(chan struct{})
			go func() {
				if f[3] != "-" {
					for _, d := range strings.Split(f[3], ",") {
						c.ReloadPathConfs(mk(verifutil.AtoI64(d)))
					}
				}
				close(done)
			}()
			time.Sleep(5 * time.Millisecond)
			close(gate)
			<-done
			n0 := calls.Load()
			// a pass that started after the last delivery has finished once two more passes have started
			if waitFor(func() bool { return calls.Load() >= n0+2 }) {
				res = "kept"
				if _, err := os.Lstat(filepath.Join(verifC30Root, "recordings", "cam1", old+".mp4")); err != nil {
					res = "deleted"
				}
			}
		} else {
			close(gate)
		}
		c.Close()
		time.Local, timeNow = savedLocal, savedNow
		return "cam1=" + res
	case "run":
		// run <cwdHex> <nowUs> <confs> <filesHex,…> | <rx table> | <cal table>
		cwd := verifutil.UnHexS(f[1])
		if cwd != verifC30Root {
			panic("run only works in " + verifC30Root)
		}
		os.RemoveAll(cwd)
		if err := os.MkdirAll(cwd, 0o755); err != nil {
			panic(err)
		}
		defer os.RemoveAll(cwd)
		wd, _ := os.Getwd()
		if err := os.Chdir(cwd); err != nil {
			panic(err)
		}
		defer os.Chdir(wd) //nolint:errcheck
		var files []string
		if f[4] != "-" {
			for _, h := range strings.Split(f[4], ",") {
				rel := verifutil.UnHexS(h)
				full := filepath.Join(cwd, rel)
				if !strings.HasPrefix(full, cwd+"/") {
					panic("run: refusing to create a file outside the sandbox: " + rel)
				}
				os.MkdirAll(filepath.Dir(full), 0o755) //nolint:errcheck
				if err := os.WriteFile(full, []byte("x"), 0o644); err != nil {
					panic(err)
				}
				files = append(files, rel)
			}
		}
		savedLocal, savedNow := time.Local, timeNow
		time.Local = time.UTC
		now := time.UnixMicro(verifutil.AtoI64(f[2]))
		timeNow = func() time.Time { return now }
		defer func() { time.Local = savedLocal; timeNow = savedNow }()

		c := &Cleaner{PathConfs: verifC30Confs(f[3]), Parent: verifC30Log{}}
		c.doRun()
		g1 := verifC30Gone(files)
		var left []string
		for _, rel := range files {
			if _, err := os.Lstat(filepath.Join(cwd, rel)); err == nil {
				left = append(left, rel)
			}
		}
		c.doRun()
		g2 := verifC30Gone(left)
		return g1 + " " + g2
	}
	return "bad-op"
}

// ---- Gen ----------------------------------------------------------------------------------------

type verifC30Conf struct {
	key    string
	re     bool
	format string
	delUs  int64
}

var verifC30Formats = []string{
	"recordings/%path/%s", "recordings/%path/%Y-%m-%d_%H-%M-%S-%f", "rec2/%path_%s", "/tmp/vc30t/abs/%path/%s",
	"./recordings/%path/%s", "recordings/%path/%path_%s", "%path/%s", "recordings/%path/%s-%f", "rec.d/x(1)/%path/%Y%m%d-%H%M%S",
	// file names whose lexical order is not the chronological one (day first, time first)
	"recordings/%path/%d-%m-%Y_%H-%M-%S-%f", "recordings/%path/%H-%M-%S_%Y-%m-%d", "recordings/%path/%S%M%H%d%m%Y",
}

var verifC30Keys = []struct {
	key string
	re  bool
}{
	{"cam1", false}, {"live/a", false}, {"cam2", false}, {"all_others", true}, {"~^live/(.+)$", true},
	{"~^cam[0-9]+$", true}, {"~^.*$", true}, {"all", true}, {"~^[a-z]+$", true}, {"other", false}, {"cams//front", false},
}

var verifC30Names = []string{"cam1", "cam2", "cam10", "live/a", "live/b", "live/a/b", "other", "x", "x_1699990000.mp4", "a/b", "cam1.bak", "zz/1699990000.mp4/y", "cams//front", "a///b"}

// does configuration validation accept a record path with two %path? (if a fix forbids it, such
// formats are not generated: they can no longer be configured)
var verifC30MultiPath = -1

func verifC30MultiPathOK() bool {
	if verifC30MultiPath < 0 {
		verifC30MultiPath = 0
		dir, err := os.MkdirTemp("", "vc30conf")
		if err == nil {
			defer os.RemoveAll(dir)
			fp := filepath.Join(dir, "mediamtx.yml")
			os.WriteFile(fp, []byte("pathDefaults:\n  recordPath: ./recordings/%path/%path_%s\npaths:\n  all_others:\n"), 0o644) //nolint:errcheck
			if _, _, err = conf.Load(fp, nil, verifC30Log{}); err == nil {
				verifC30MultiPath = 1
			}
		}
	}
	return verifC30MultiPath == 1
}

func verifC30Abs(p string) string {
	if filepath.IsAbs(p) {
		return filepath.Clean(p)
	}
	return filepath.Join(verifC30Root, p)
}

func verifC30Rel(full string) (string, bool) {
	if !strings.HasPrefix(full, verifC30Root+"/") {
		return "", false
	}
	return strings.TrimPrefix(full, verifC30Root+"/"), true
}

func verifC30AddTime(tb map[string]struct{}, t time.Time) {
	us := t.Nanosecond() / 1000
	add := func(y, mo, d, h, mi, s, u int) {
		v := time.Date(y, time.Month(mo), d, h, mi, s, u*1000, time.UTC).UnixMicro()
		tb[fmt.Sprintf("%d.%d.%d.%d.%d.%d.%d.L=%d", y, mo, d, h, mi, s, u, v)] = struct{}{}
	}
	for _, u := range []int{us, 0} {
		add(t.Year(), int(t.Month()), t.Day(), t.Hour(), t.Minute(), t.Second(), u)
		add(0, 1, 1, 0, 0, 0, u)
	}
}

func verifC30Join(m map[string]struct{}) string {
	if len(m) == 0 {
		return "-"
	}
	ks := make([]string, 0, len(m))
	for k := range m {
		ks = append(ks, k)
	}
	sort.Strings(ks)
	return strings.Join(ks, ";")
}

func verifC30Gen(r *verifutil.Rand, i int, thorough bool) []string {
	time.Local = time.UTC
	// configuration
	nconf := 1 + r.Intn(3)
	var confs []verifC30Conf
	seen := map[string]bool{}
	pickFormat := func() string {
		for {
			f := verifC30Formats[r.Intn(len(verifC30Formats))]
			if strings.Count(f, "%path") == 1 || verifC30MultiPathOK() {
				return f
			}
		}
	}
	shared := pickFormat()
	for len(confs) < nconf {
		k := verifC30Keys[r.Intn(len(verifC30Keys))]
		if seen[k.key] || (k.key == "all" && seen["all_others"]) || (k.key == "all_others" && seen["all"]) {
			continue
		}
		seen[k.key] = true
		format := shared
		if r.Chance(1, 3) {
			format = pickFormat()
		}
		del := []int64{0, 10e6, 3600e6, 86400e6, 1}[r.Intn(5)]
		confs = append(confs, verifC30Conf{k.key, k.re, format, del})
	}
	nowUs := int64(1700000000)*1e6 + int64(r.Intn(1000000))
	if r.Chance(1, 4) {
		nowUs = int64(1700000000) * 1e6
	}

	cal := map[string]struct{}{}
	fileSet := map[string]bool{}
	addFile := func(full string) {
		if rel, ok := verifC30Rel(filepath.Clean(full)); ok && rel != "" {
			// a path cannot be both a file and a directory
			for ex := range fileSet {
				if strings.HasPrefix(ex, rel+"/") || strings.HasPrefix(rel, ex+"/") {
					return
				}
			}
			fileSet[rel] = true
		}
	}
	// segments written by the recorder for some (conf, name, instant)
	nseg := 2 + r.Intn(6)
	var lastSeg string
	for k := 0; k < nseg; k++ {
		c := confs[r.Intn(len(confs))]
		name := verifC30Names[r.Intn(len(verifC30Names))]
		if !c.re && r.Chance(3, 4) {
			name = c.key
		}
		del := c.delUs
		if del == 0 || r.Chance(1, 5) {
			del = []int64{10e6, 3600e6, 86400e6}[r.Intn(3)]
		}
		var us int64
		switch r.Intn(8) {
		case 7: // age between recordDeleteAfter and recordDeleteAfter + recordSegmentDuration
			sd := int64(3600e6)
			if del < sd {
				sd = del
			}
			us = nowUs - del - 1 - int64(r.U64()%uint64(sd))
		case 0:
			us = nowUs - del // exactly on the boundary
		case 1:
			us = nowUs - del + 1
		case 2:
			us = nowUs - del - 1
		case 3:
			us = nowUs + int64(r.Intn(1000))*1e6 // future
		case 4:
			us = nowUs - del - int64(1+r.Intn(100000))*1e6 // long expired
		case 5:
			us = (nowUs-del)/1e6*1e6 + []int64{0, 999999, -1, 1000000}[r.Intn(4)]
		default:
			us = nowUs - int64(r.Intn(200000))*1e6
		}
		t := time.UnixMicro(us).In(time.UTC)
		verifC30AddTime(cal, t)
		p := recordstore.Path{Start: t}.Encode(strings.ReplaceAll(c.format, "%path", name)) + ".mp4"
		lastSeg = verifC30Abs(p)
		addFile(lastSeg)
		// look-alikes and foreign neighbours
		switch r.Intn(9) {
		case 0:
			addFile(lastSeg + r.Pick(".bak", ".tmp", "~", ".part", ".1"))
		case 1:
			addFile(strings.TrimSuffix(lastSeg, ".mp4") + r.Pick(".ts", ".mp4x", ".MP4", ""))
		case 2:
			addFile(filepath.Join(verifC30Root, "old", strings.TrimPrefix(lastSeg, "/")))
		case 3:
			addFile(filepath.Join(filepath.Dir(lastSeg), r.Pick("notes.txt", "readme", "index.m3u8", ".hidden")))
		case 4:
			addFile(lastSeg + "/inner.txt") // a directory that looks like a segment (replaces the file)
		case 5: // digit edit (only meaningful for %s formats: no calendar needed)
			if strings.Contains(c.format, "%s") && !strings.Contains(c.format, "%Y") {
				b := []byte(lastSeg)
				for tries := 0; tries < 30; tries++ {
					j := len(verifC30Root) + r.Intn(len(b)-len(verifC30Root))
					if b[j] >= '0' && b[j] <= '9' {
						b[j] = byte('0' + r.Intn(10))
						break
					}
				}
				addFile(string(b))
			}
		case 6:
			addFile(filepath.Join(filepath.Dir(filepath.Dir(lastSeg)), filepath.Base(lastSeg)))
		}
	}
	// one directory holding fresh and expired segments of the same path, days/weeks apart: whatever order the
	// directory is walked in, every expired one must go and every fresh one must stay
	if r.Chance(2, 3) {
		c := confs[r.Intn(len(confs))]
		name := verifC30Names[r.Intn(len(verifC30Names))]
		if !c.re {
			name = c.key
		}
		del := c.delUs
		if del == 0 {
			del = 3600e6
		}
		for k := 2 + r.Intn(4); k > 0; k-- {
			us := nowUs - del
			if r.Bool() {
				us += int64(1+r.Intn(40*86400)) * 1e6 // fresh (possibly in the future)
				if us > nowUs+86400e6 {
					us = nowUs - del + int64(1+r.Intn(int(del/1e6)+1))*1e6
				}
			} else {
				us -= int64(1+r.Intn(40*86400)) * 1e6 // expired, up to 40 days
			}
			t := time.UnixMicro(us).In(time.UTC)
			verifC30AddTime(cal, t)
			addFile(verifC30Abs(recordstore.Path{Start: t}.Encode(strings.ReplaceAll(c.format, "%path", name)) + ".mp4"))
		}
	}
	addFile(filepath.Join(verifC30Root, "canary.mp4"))
	addFile(filepath.Join(verifC30Root, "1600000000.mp4"))
	addFile(filepath.Join(verifC30Root, "recordings2/cam1/1600000000.mp4"))

	files := make([]string, 0, len(fileSet))
	for k := range fileSet {
		files = append(files, k)
	}
	sort.Strings(files)

	// regexp oracle: pool of candidate names = known names, keys, everything the real Decode reports for
	// some file under some conf's format, and boundary-delimited pieces of the relative file paths
	pool := map[string]struct{}{}
	for _, n := range verifC30Names {
		pool[n] = struct{}{}
	}
	for _, c := range confs {
		pool[c.key] = struct{}{}
		af := verifC30Abs(c.format + ".mp4")
		for _, rel := range files {
			var p recordstore.Path
			if p.Decode(af, filepath.Join(verifC30Root, rel)) {
				pool[p.Path] = struct{}{}
			}
			cut := []int{0}
			for j := 0; j < len(rel); j++ {
				if rel[j] == '/' || rel[j] == '_' {
					cut = append(cut, j, j+1)
				}
			}
			cut = append(cut, len(rel))
			for _, a := range cut {
				for _, b := range cut {
					if a < b && b-a < 40 {
						pool[rel[a:b]] = struct{}{}
					}
				}
			}
		}
	}
	rx := map[string]struct{}{}
	for _, c := range confs {
		if !c.re {
			continue
		}
		re := verifC30Regexp(c.key)
		for s := range pool {
			hit := "0"
			if re.FindStringSubmatch(s) != nil {
				hit = "1"
			}
			rx[verifutil.HexS(c.key)+"~"+verifutil.HexS(s)+"="+hit] = struct{}{}
		}
	}

	var cc []string
	for _, c := range confs {
		kind := "S"
		if c.re {
			kind = "R"
		}
		cc = append(cc, fmt.Sprintf("%s:%s:%s:%d", verifutil.HexS(c.key), kind, verifutil.HexS(c.format), c.delUs))
	}
	fh := make([]string, len(files))
	for k, s := range files {
		fh[k] = verifutil.HexS(s)
	}
	if i%8 == 3 {
		short := []int64{40000, 30000}
		pick := func() int64 {
			if r.Bool() {
				return 0
			}
			return short[r.Intn(2)]
		}
		var ds []string
		for k := r.Intn(4); k > 0; k-- {
			ds = append(ds, fmt.Sprint(pick()))
		}
		dcol := "-"
		if len(ds) > 0 {
			dcol = strings.Join(ds, ",")
		}
		d0 := int64(0)
		if r.Chance(1, 5) {
			d0 = 40000
		}
		return []string{"reset", fmt.Sprintf("reload %d %d %s", nowUs, d0, dcol)}
	}
	return []string{"reset", fmt.Sprintf("run %s %d %s %s | %s | %s", verifutil.HexS(verifC30Root), nowUs, strings.Join(cc, ","),
		strings.Join(fh, ","), verifC30Join(rx), verifC30Join(cal))}
}

func TestVerifC30(t *testing.T) {
	saved := time.Local
	defer func() { time.Local = saved }()
	verifutil.Main(t, &verifutil.Harness{
		ID: "C30", Exec: verifC30Exec, Gen: verifC30Gen, Quick: 450, Thorough: 12000,
		Class: func(op, impl string) string {
			if strings.HasPrefix(op, "reset") {
				return "reset"
			}
			if strings.HasPrefix(op, "reload") {
				return "reload/" + impl
			}
			a := strings.Fields(impl)
			if len(a) != 2 {
				return "run/?"
			}
			n := 0
			if a[0] != "-" {
				n = strings.Count(a[0], ",") + 1
			}
			switch {
			case n == 0:
				return "run/deleted-0"
			case n <= 2:
				return "run/deleted-1-2"
			default:
				return "run/deleted-3+"
			}
		},
		NonTrivial: func(op, impl string) bool { return !strings.HasPrefix(op, "reset") },
	})
}
