//go:build verif

package rtmp

import (
	"fmt"
	"net"
	"net/url"
	"time"

	"github.com/bluenviron/gortmplib"

	"github.com/bluenviron/mediamtx/internal/defs"
	"github.com/bluenviron/mediamtx/internal/test"
)

type verifC35NetConn struct{}

func (verifC35NetConn) Read([]byte) (int, error)         { return 0, fmt.Errorf("verif") }
func (verifC35NetConn) Write(b []byte) (int, error)      { return len(b), nil }
func (verifC35NetConn) Close() error                     { return nil }
func (verifC35NetConn) LocalAddr() net.Addr              { return &net.TCPAddr{IP: net.IPv4(127, 0, 0, 1), Port: 1935} }
func (verifC35NetConn) RemoteAddr() net.Addr             { return &net.TCPAddr{IP: net.IPv4(127, 0, 0, 1), Port: 9} }
func (verifC35NetConn) SetDeadline(time.Time) error      { return nil }
func (verifC35NetConn) SetReadDeadline(time.Time) error  { return nil }
func (verifC35NetConn) SetWriteDeadline(time.Time) error { return nil }

type verifC35PM struct{ req *defs.PathAccessRequest }

func (p *verifC35PM) FindPathConf(req defs.PathFindPathConfReq) (*defs.PathFindPathConfRes, error) {
	p.req = &req.AccessRequest
	return nil, fmt.Errorf("verif")
}

func (p *verifC35PM) AddPublisher(defs.PathAddPublisherReq) (*defs.PathAddPublisherRes, error) {
	return nil, fmt.Errorf("verif")
}

func (p *verifC35PM) AddReader(req defs.PathAddReaderReq) (*defs.PathAddReaderRes, error) {
	p.req = &req.AccessRequest
	return nil, fmt.Errorf("verif")
}

// VerifC35Conn runs the real conn.runRead / runPublish on an accepted RTMP connection whose URL has
// the given path and raw query; returns the access request handed to the path manager.
func VerifC35Conn(publish bool, path, rawQuery string) *defs.PathAccessRequest {
	pm := &verifC35PM{}
	c := &conn{
		nconn:       verifC35NetConn{},
		pathManager: pm,
		parent:      &Server{Parent: test.NilLogger},
		rconn:       &gortmplib.ServerConn{URL: &url.URL{Path: path, RawQuery: rawQuery}, Publish: publish},
	}
	if publish {
		c.runPublish() //nolint:errcheck
	} else {
		c.runRead() //nolint:errcheck
	}
	return pm.req
}
