//go:build verif

package webrtc

import (
	"bytes"
	"context"
	"fmt"
	"net/http"
	"net/http/httptest"
	"net/url"
	"strings"

	"github.com/gin-gonic/gin"

	"github.com/bluenviron/mediamtx/internal/defs"
	"github.com/bluenviron/mediamtx/internal/test"
)

type verifC35PM struct{ calls []string }

func (p *verifC35PM) SetWebRTCServer(*Server) {}

func (p *verifC35PM) FindPathConf(req defs.PathFindPathConfReq) (*defs.PathFindPathConfRes, error) {
	pub := "0"
	if req.AccessRequest.Publish {
		pub = "1"
	}
	p.calls = append(p.calls, pub+" "+req.AccessRequest.Name)
	return nil, fmt.Errorf("verif")
}

func (p *verifC35PM) AddPublisher(defs.PathAddPublisherReq) (*defs.PathAddPublisherRes, error) {
	return nil, fmt.Errorf("verif")
}

func (p *verifC35PM) AddReader(defs.PathAddReaderReq) (*defs.PathAddReaderRes, error) {
	return nil, fmt.Errorf("verif")
}

// VerifC35Regexps returns the submatches of the two WHIP/WHEP regular expressions (oracle columns).
func VerifC35Regexps(path string) (noID []string, withID []string) {
	return reWHIPWHEPNoID.FindStringSubmatch(path), reWHIPWHEPWithID.FindStringSubmatch(path)
}

// VerifC35Route drives the real onRequest with recording fakes: "auth P N", "post", "405", "none",
// "secret400", "patch", "delete", "js-pub", "js-read", "redirect L".
func VerifC35Route(method, path, rawQuery string) (kind string, arg string) {
	gin.SetMode(gin.ReleaseMode)
	pm := &verifC35PM{}
	ctx, cancel := context.WithCancel(context.Background())
	cancel() // every request to the server goroutine answers "terminated"
	srv := &Server{Parent: test.NilLogger, ctx: ctx}
	s := &httpServer{pathManager: pm, parent: srv}
	rec := httptest.NewRecorder()
	gctx, _ := gin.CreateTestContext(rec)
	gctx.Request = &http.Request{
		Method: method, URL: &url.URL{Path: path, RawQuery: rawQuery},
		Header: http.Header{}, RemoteAddr: "127.0.0.1:5000", Body: http.NoBody,
	}
	s.onRequest(gctx)

	body := rec.Body.String()
	code := gctx.Writer.Status()
	switch {
	case len(pm.calls) > 0:
		return "auth", pm.calls[0]
	case code == http.StatusMethodNotAllowed:
		return "405", ""
	case code == http.StatusBadRequest && strings.Contains(body, "invalid secret"):
		return "secret400", ""
	case code == http.StatusBadRequest && strings.Contains(body, "invalid Content-Type") && method == http.MethodPost:
		return "post", ""
	case code == http.StatusBadRequest && strings.Contains(body, "invalid Content-Type") && method == http.MethodPatch:
		return "patch", ""
	case code == http.StatusInternalServerError && strings.Contains(body, "terminated") && method == http.MethodDelete:
		return "delete", ""
	case code == http.StatusFound:
		return "redirect", rec.Header().Get("Location")
	case rec.Body.Len() > 0 && bytes.Equal(rec.Body.Bytes(), publisherJS):
		return "js-pub", ""
	case rec.Body.Len() > 0 && bytes.Equal(rec.Body.Bytes(), readerJS):
		return "js-read", ""
	case code == http.StatusOK && rec.Body.Len() == 0:
		return "none", ""
	}
	return "other", fmt.Sprintf("%d %s", code, body)
}
