//go:build verif

package conf

// VerifC35RePathName is the oracle for the path-name regular expression.
func VerifC35RePathName(name string) bool { return rePathName.MatchString(name) }
