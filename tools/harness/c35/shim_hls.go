//go:build verif

package hls

import (
	"context"
	"fmt"
	"net/http"
	"net/http/httptest"
	"net/url"
	"strings"

	"github.com/gin-gonic/gin"

	"github.com/bluenviron/mediamtx/internal/defs"
	"github.com/bluenviron/mediamtx/internal/test"
)

type verifC35PM struct{ calls []string }

func (p *verifC35PM) SetHLSServer(*Server) []defs.Path { return nil }

func (p *verifC35PM) FindPathConf(req defs.PathFindPathConfReq) (*defs.PathFindPathConfRes, error) {
	p.calls = append(p.calls, "index "+req.AccessRequest.Name)
	return nil, fmt.Errorf("verif")
}

func (p *verifC35PM) AddReader(req defs.PathAddReaderReq) (*defs.PathAddReaderRes, error) {
	p.calls = append(p.calls, "mv "+req.AccessRequest.Name)
	return nil, fmt.Errorf("verif")
}

// VerifC35Route drives the real onRequest with recording fakes and reports which handler it chose
// and with which path name: "none", "js", "index N", "mv N", "mux N", "redirect L".
func VerifC35Route(method, path, rawQuery string) (kind string, arg string) {
	gin.SetMode(gin.ReleaseMode)
	pm := &verifC35PM{}
	ctx, cancel := context.WithCancel(context.Background())
	defer cancel()
	srv := &Server{Parent: test.NilLogger, ctx: ctx, chGetMuxer: make(chan serverGetMuxerReq)}
	muxPath := make(chan string, 4)
	go func() {
		for {
			select {
			case req := <-srv.chGetMuxer:
				muxPath <- req.path
				req.res <- serverGetMuxerRes{err: fmt.Errorf("verif")}
			case <-ctx.Done():
				return
			}
		}
	}()
	s := &httpServer{pathManager: pm, parent: srv}
	rec := httptest.NewRecorder()
	gctx, _ := gin.CreateTestContext(rec)
	gctx.Request = &http.Request{
		Method: method, URL: &url.URL{Path: path, RawQuery: rawQuery},
		Header: http.Header{}, RemoteAddr: "127.0.0.1:5000",
	}
	s.onRequest(gctx)

	select {
	case p := <-muxPath:
		return "mux", p
	default:
	}
	if len(pm.calls) > 0 {
		f := strings.SplitN(pm.calls[0], " ", 2)
		return f[0], f[1]
	}
	if loc := rec.Header().Get("Location"); loc != "" && gctx.Writer.Status() == http.StatusFound {
		return "redirect", loc
	}
	if rec.Header().Get("Content-Type") == "application/javascript" {
		return "js", ""
	}
	return "none", ""
}
