//go:build verif

package rtsp

import (
	"fmt"
	"runtime"
	"strings"

	"github.com/bluenviron/gortsplib/v5"
	"github.com/bluenviron/gortsplib/v5/pkg/base"
)

// VerifC35Guard calls the real onDescribe / onAnnounce / onSetup with the path gortsplib would hand
// over, on a connection / session whose other fields are zero.  "400" = rejected by the path guard;
// "accepted" = the handler went past the guard and the strip (it then dereferences the nil
// connection of this harness, or reaches the path manager); any other panic (index / slice out of
// range) is reported as such.
func VerifC35Guard(handler string, path string) (res string) {
	defer func() {
		if r := recover(); r != nil {
			msg := fmt.Sprint(r)
			if re, ok := r.(runtime.Error); ok && strings.Contains(re.Error(), "nil pointer dereference") {
				res = "accepted"
				return
			}
			res = "panic " + msg
		}
	}()
	req := &base.Request{Header: base.Header{}}
	var rsp *base.Response
	switch handler {
	case "describe":
		c := &conn{}
		rsp, _, _ = c.onDescribe(&gortsplib.ServerHandlerOnDescribeCtx{Request: req, Path: path})
	case "announce":
		s := &session{}
		rsp, _ = s.onAnnounce(&conn{}, &gortsplib.ServerHandlerOnAnnounceCtx{Request: req, Path: path})
	case "setup":
		s := &session{}
		rsp, _, _ = s.onSetup(&conn{}, &gortsplib.ServerHandlerOnSetupCtx{
			Request: req, Path: path, Transport: &gortsplib.SessionTransport{},
		})
	}
	if rsp != nil && rsp.StatusCode == base.StatusBadRequest {
		return "400"
	}
	return "accepted"
}
