//go:build verif

package webrtc

import (
	"github.com/pion/rtp"
)

// VerifC35StripTWCC parses raw as an RTP packet with pion/rtp (oracle) and runs the REAL
// InboundTrack.stripTWCCExtension on it, as the track reader goroutine does for every inbound packet.
// Returns: parsed ok, then (extension flag, profile, extension ids, GetExtension(id) != nil) before,
// and (extension flag, profile, ids) after.
func VerifC35StripTWCC(twccID uint8, raw []byte) (ok bool, ext bool, profile uint16, ids []uint8, nonNil bool,
	ext2 bool, profile2 uint16, ids2 []uint8,
) {
	pkt := &rtp.Packet{}
	if err := pkt.Unmarshal(raw); err != nil {
		return false, false, 0, nil, false, false, 0, nil
	}
	ext, profile, ids = pkt.Extension, pkt.ExtensionProfile, pkt.GetExtensionIDs()
	nonNil = pkt.GetExtension(twccID) != nil
	t := &InboundTrack{twccExtID: twccID}
	t.stripTWCCExtension(pkt)
	return true, ext, profile, ids, nonNil, pkt.Extension, pkt.ExtensionProfile, pkt.GetExtensionIDs()
}
