//go:build verif

package srt

import (
	"fmt"
	"net"

	srt "github.com/datarhei/gosrt"

	"github.com/bluenviron/mediamtx/internal/defs"
	"github.com/bluenviron/mediamtx/internal/test"
)

type verifC35Req struct {
	id       string
	rejected bool
}

func (r *verifC35Req) RemoteAddr() net.Addr                   { return &net.UDPAddr{IP: net.IPv4(127, 0, 0, 1), Port: 9} }
func (r *verifC35Req) Version() uint32                        { return 5 }
func (r *verifC35Req) StreamId() string                       { return r.id }
func (r *verifC35Req) SocketId() uint32                       { return 1 }
func (r *verifC35Req) PeerSocketId() uint32                   { return 2 }
func (r *verifC35Req) IsEncrypted() bool                      { return false }
func (r *verifC35Req) SetPassphrase(string) error             { return nil }
func (r *verifC35Req) SetRejectionReason(srt.RejectionReason) {}
func (r *verifC35Req) Accept() (srt.Conn, error)              { return nil, fmt.Errorf("verif") }
func (r *verifC35Req) Reject(srt.RejectionReason)             { r.rejected = true }

type verifC35PM struct{ req *defs.PathAccessRequest }

func (p *verifC35PM) FindPathConf(req defs.PathFindPathConfReq) (*defs.PathFindPathConfRes, error) {
	p.req = &req.AccessRequest
	return nil, fmt.Errorf("verif")
}

func (p *verifC35PM) AddPublisher(defs.PathAddPublisherReq) (*defs.PathAddPublisherRes, error) {
	return nil, fmt.Errorf("verif")
}

func (p *verifC35PM) AddReader(req defs.PathAddReaderReq) (*defs.PathAddReaderRes, error) {
	p.req = &req.AccessRequest
	return nil, fmt.Errorf("verif")
}

// VerifC35Conn runs the real conn.runInner on a connection request carrying the given stream id and
// returns the access request handed to the path manager (nil = rejected before reaching it).
func VerifC35Conn(raw string) *defs.PathAccessRequest {
	pm := &verifC35PM{}
	c := &conn{
		connReq:     &verifC35Req{id: raw},
		pathManager: pm,
		parent:      &Server{Parent: test.NilLogger},
	}
	c.runInner() //nolint:errcheck
	return pm.req
}

// VerifC35StreamID runs the unexported stream-id parser.
func VerifC35StreamID(raw string) (ok bool, publish bool, path, query, user, pass string) {
	var s streamID
	err := s.unmarshal(raw)
	if err != nil {
		return false, false, "", "", "", ""
	}
	return true, s.mode == streamIDModePublish, s.path, s.query, s.user, s.pass
}
