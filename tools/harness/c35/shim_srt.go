//go:build verif

package srt

// VerifC35StreamID runs the unexported stream-id parser.
func VerifC35StreamID(raw string) (ok bool, publish bool, path, query, user, pass string) {
	var s streamID
	err := s.unmarshal(raw)
	if err != nil {
		return false, false, "", "", "", ""
	}
	return true, s.mode == streamIDModePublish, s.path, s.query, s.user, s.pass
}
