//go:build verif

package api

import (
	"bytes"
	"errors"
	"fmt"
	"io"
	"net/http"
	"net/url"
	"path"
	"strconv"
	"strings"
	"testing"
	"time"

	"github.com/gin-gonic/gin"
	"github.com/google/uuid"

	"github.com/bluenviron/mediamtx/internal/conf"
	"github.com/bluenviron/mediamtx/internal/defs"
	"github.com/bluenviron/mediamtx/internal/playback"
	"github.com/bluenviron/mediamtx/internal/protocols/httpp"
	"github.com/bluenviron/mediamtx/internal/protocols/moq/controlmessage"
	"github.com/bluenviron/mediamtx/internal/protocols/moq/subgroup"
	"github.com/bluenviron/mediamtx/internal/protocols/moq/varint"
	"github.com/bluenviron/mediamtx/internal/servers/hls"
	"github.com/bluenviron/mediamtx/internal/servers/rtmp"
	"github.com/bluenviron/mediamtx/internal/servers/rtsp"
	"github.com/bluenviron/mediamtx/internal/servers/srt"
	"github.com/bluenviron/mediamtx/internal/servers/webrtc"
	"github.com/bluenviron/mediamtx/internal/verifutil"
)

func c35b01(b bool) string {
	if b {
		return "1"
	}
	return "0"
}

func c35groups(m []string) string {
	if m == nil {
		return "n"
	}
	parts := make([]string, len(m)-1)
	for i, g := range m[1:] {
		parts[i] = verifutil.HexS(g)
	}
	return strings.Join(parts, ",")
}

// oracle columns for an HTTP path: path.Dir / path.Base of path[1:], path.Clean of the path
func c35hlsOracles(p string) string {
	pa := ""
	if len(p) >= 1 {
		pa = p[1:]
	}
	return verifutil.HexS(path.Dir(pa)) + " " + verifutil.HexS(path.Base(pa)) + " " + verifutil.HexS(path.Clean(p))
}

func c35rtcOracles(p string) string {
	m1, m2 := webrtc.VerifC35Regexps(p)
	u := "0"
	if m2 != nil {
		if _, err := uuid.Parse(m2[3]); err == nil {
			u = "1"
		}
	}
	return c35groups(m1) + " " + c35groups(m2) + " " + u + " " + verifutil.HexS(path.Clean(p))
}

func c35moqErr(err error) string {
	if errors.Is(err, io.EOF) || errors.Is(err, io.ErrUnexpectedEOF) {
		return "short"
	}
	m := err.Error()
	switch {
	case strings.Contains(m, "not enough bytes"), strings.Contains(m, "invalid track name length"):
		return "short"
	case strings.Contains(m, "too many namespace fields"):
		return "toomany"
	case strings.Contains(m, "properties too large"), strings.Contains(m, "payload too large"):
		return "toolarge"
	case strings.Contains(m, "unsupported parameter type"), strings.Contains(m, "unsupported token alias type"),
		strings.Contains(m, "unknown message type"), strings.Contains(m, "unexpected status"):
		return "unsupported"
	case strings.Contains(m, "unexpected empty object"):
		return "emptyobj"
	case strings.Contains(m, "unexpected second object"):
		return "secondobj"
	}
	return "other:" + strings.ReplaceAll(m, " ", "_")
}

func c35vi(v uint64) []byte { return varint.Varint(v).Marshal() }

// lengths / counts a hostile peer would announce
func c35len(r *verifutil.Rand, actual int) uint64 {
	switch r.Intn(10) {
	case 0:
		return uint64(1)<<63 + uint64(r.Intn(1<<20)) // 9-byte varint, top bit set: int(l) < 0
	case 1:
		return ^uint64(0) - uint64(r.Intn(3))
	case 2:
		return uint64(1)<<62 + uint64(r.Intn(100))
	case 3:
		return uint64(actual + 1 + r.Intn(3))
	case 4:
		return uint64(1) << uint(r.Intn(64))
	case 5:
		if actual > 0 {
			return uint64(actual - 1)
		}
	}
	return uint64(actual)
}

func c35moqOptions(r *verifutil.Rand) []byte {
	var b []byte
	for n := r.Intn(4); n >= 0; n-- {
		delta := uint64(r.Intn(6))
		if r.Intn(10) == 0 {
			delta = c35len(r, 3)
		}
		b = append(b, c35vi(delta)...)
		val := r.Bytes(r.Intn(6))
		if r.Intn(3) == 0 {
			b = append(b, c35vi(c35len(r, 0))...) // as a plain varint value (even option)
		} else {
			b = append(b, c35vi(c35len(r, len(val)))...)
			b = append(b, val...)
		}
	}
	return b
}

func c35moqMsg(r *verifutil.Rand) []byte {
	var payload []byte
	var t uint64
	switch r.Intn(8) {
	case 0, 1, 2: // SETUP (uni stream) / CLIENT_SETUP (control stream): option list
		t = []uint64{0x2F00, 0x20, 0x21}[r.Intn(3)]
		payload = c35moqOptions(r)
	case 3, 4: // SUBSCRIBE / PUBLISH: request id, namespace, track name, [alias], parameters, [properties]
		t = []uint64{0x03, 0x1d}[r.Intn(2)]
		payload = c35vi(uint64(r.Intn(300)))
		nparts := r.Intn(3)
		payload = append(payload, c35vi(c35len(r, nparts))...)
		for i := 0; i < nparts; i++ {
			part := r.Bytes(r.Intn(5))
			payload = append(payload, c35vi(c35len(r, len(part)))...)
			payload = append(payload, part...)
		}
		tn := r.Bytes(r.Intn(4))
		payload = append(payload, c35vi(c35len(r, len(tn)))...)
		payload = append(payload, tn...)
		if t == 0x1d {
			payload = append(payload, c35vi(uint64(r.Intn(5)))...)
		}
		np := r.Intn(3)
		payload = append(payload, c35vi(c35len(r, np))...)
		for i := 0; i < np; i++ {
			tok := r.Bytes(r.Intn(5))
			inner := append(append(c35vi(3), c35vi(uint64(r.Intn(3)))...), tok...)
			d := uint64(0)
			if i == 0 {
				d = 3
			}
			payload = append(payload, c35vi(d)...)
			payload = append(payload, c35vi(c35len(r, len(inner)))...)
			payload = append(payload, inner...)
		}
		if t == 0x1d && r.Bool() {
			payload = append(payload, c35vi(uint64(2*r.Intn(6)+1))...)
			payload = append(payload, c35vi(c35len(r, 2))...)
			payload = append(payload, 1, 2)
		}
	case 5: // the acknowledgements a client may also send
		t = []uint64{0x04, 0x05, 0x1e, 0x07}[r.Intn(4)]
		payload = append(c35vi(c35len(r, 1)), c35vi(c35len(r, 0))...)
		payload = append(payload, c35vi(c35len(r, 2))...)
		payload = append(payload, r.Bytes(r.Intn(4))...)
	case 6:
		t = c35len(r, 0x20)
		payload = r.Bytes(r.Intn(10))
	default:
		return r.Bytes(r.Intn(24))
	}
	n := len(payload)
	if r.Intn(8) == 0 {
		n = r.Intn(70000)
	}
	b := append(c35vi(t), byte(n>>8), byte(n))
	return append(b, payload...)
}

func c35moqSG(r *verifutil.Rand) []byte {
	hp := r.Bool()
	b := []byte{0x30}
	if hp {
		b[0] |= 1
	}
	if r.Intn(6) == 0 {
		b[0] = byte(r.Intn(256))
		hp = b[0]&1 != 0
	}
	b = append(b, c35vi(uint64(r.Intn(9)))...)
	b = append(b, c35vi(c35len(r, 5))...)
	for i := 0; i < 2; i++ {
		b = append(b, c35vi(uint64(r.Intn(3)))...)
		if hp {
			props := append(c35vi(6), c35vi(uint64(r.Intn(1000)))...)
			b = append(b, c35vi(c35len(r, len(props)))...)
			b = append(b, props...)
		}
		pl := r.Bytes(r.Intn(5))
		if i == 1 && r.Intn(3) != 0 {
			pl = nil
		}
		b = append(b, c35vi(c35len(r, len(pl)))...)
		if len(pl) == 0 {
			b = append(b, byte(3+r.Intn(2)))
		}
		b = append(b, pl...)
	}
	if r.Intn(4) == 0 {
		b = b[:r.Intn(len(b)+1)]
	}
	return b
}

func c35req(r *defs.PathAccessRequest) string {
	if r == nil {
		return "reject"
	}
	u, p := "", ""
	if r.Credentials != nil {
		u, p = r.Credentials.User, r.Credentials.Pass
	}
	return fmt.Sprintf("req %s %s %s %s %s", c35b01(r.Publish), verifutil.HexS(r.Name), verifutil.HexS(r.Query),
		verifutil.HexS(u), verifutil.HexS(p))
}

func c35timeOk(s string) bool {
	_, err := time.Parse(time.RFC3339, s)
	return err == nil
}

func c35durOk(s string) bool {
	if _, err := strconv.ParseFloat(s, 64); err == nil {
		return true
	}
	_, err := time.ParseDuration(s)
	return err == nil
}

func c35nameErr(err error) string {
	if err == nil {
		return "ok"
	}
	m := err.Error()
	switch {
	case strings.Contains(m, "cannot be empty"):
		return "bad empty"
	case strings.Contains(m, "begin with a slash"):
		return "bad leading"
	case strings.Contains(m, "end with a slash"):
		return "bad trailing"
	case strings.Contains(m, "can contain only"):
		return "bad chars"
	case strings.Contains(m, "dot path segments"):
		return "bad dots"
	}
	return "bad other"
}

func verifC35Exec(op string) string {
	f := strings.Fields(op)
	switch f[0] {
	case "reset":
		return "ok"
	case "srt":
		ok, pub, pa, q, u, pw := srt.VerifC35StreamID(verifutil.UnHexS(f[1]))
		if !ok {
			return "err"
		}
		return fmt.Sprintf("ok %s %s %s %s %s", c35b01(pub), verifutil.HexS(pa), verifutil.HexS(q), verifutil.HexS(u), verifutil.HexS(pw))
	case "cred":
		n := verifutil.Atoi(f[1])
		h := http.Header{}
		for i := 0; i < n; i++ {
			h["Authorization"] = append(h["Authorization"], verifutil.UnHexS(f[2+i]))
		}
		req := &http.Request{Header: h}
		bu, bp, _ := req.BasicAuth()
		if verifutil.HexS(bu) != f[2+n] || verifutil.HexS(bp) != f[3+n] {
			return "bad-oracle"
		}
		c := httpp.Credentials(req)
		return fmt.Sprintf("ok %s %s %s", verifutil.HexS(c.User), verifutil.HexS(c.Pass), verifutil.HexS(c.Token))
	case "filter":
		if httpp.VerifC35Filter(verifutil.UnHexS(f[1])) {
			return "pass"
		}
		return "reject"
	case "hls":
		p := verifutil.UnHexS(f[2])
		if c35hlsOracles(p) != strings.Join(f[4:7], " ") {
			return "bad-oracle"
		}
		// the handler chain of httpp.Server: the filter runs first
		if !httpp.VerifC35Filter(p) {
			return "reject"
		}
		kind, arg := hls.VerifC35Route(f[1], p, verifutil.UnHexS(f[3]))
		if arg == "" && (kind == "none" || kind == "js") {
			return kind
		}
		return kind + " " + verifutil.HexS(arg)
	case "hlsraw": // the router WITHOUT the filter (what would happen if the filter were removed)
		kind, arg := hls.VerifC35Route(f[1], verifutil.UnHexS(f[2]), "")
		return kind + " " + verifutil.HexS(arg)
	case "rtc":
		p := verifutil.UnHexS(f[2])
		if c35rtcOracles(p) != strings.Join(f[4:8], " ") {
			return "bad-oracle"
		}
		if !httpp.VerifC35Filter(p) {
			return "reject"
		}
		kind, arg := webrtc.VerifC35Route(f[1], p, verifutil.UnHexS(f[3]))
		switch kind {
		case "auth":
			return "auth " + arg[:1] + " " + verifutil.HexS(arg[2:])
		case "redirect":
			return "redirect " + verifutil.HexS(arg)
		case "other":
			return "other " + verifutil.HexS(arg)
		}
		return kind
	case "rtsp":
		return rtsp.VerifC35Guard(f[1], verifutil.UnHexS(f[2]))
	case "srtconn":
		return c35req(srt.VerifC35Conn(verifutil.UnHexS(f[1])))
	case "rtmp":
		p, q := verifutil.UnHexS(f[2]), verifutil.UnHexS(f[3])
		vals := (&url.URL{RawQuery: q}).Query()
		if verifutil.HexS(vals.Get("user")) != f[4] || verifutil.HexS(vals.Get("pass")) != f[5] {
			return "bad-oracle"
		}
		return c35req(rtmp.VerifC35Conn(f[1] == "1", p, q))
	case "vname":
		name := verifutil.UnHexS(f[1])
		if c35b01(conf.VerifC35RePathName(name)) != f[2] {
			return "bad-oracle"
		}
		return c35nameErr(conf.IsValidPathName(name))
	case "pbget":
		pa, st, du, fo := verifutil.UnHexS(f[3]), verifutil.UnHexS(f[4]), verifutil.UnHexS(f[5]), verifutil.UnHexS(f[6])
		if c35b01(conf.VerifC35RePathName(pa)) != f[7] || c35b01(c35timeOk(st)) != f[8] || c35b01(c35durOk(du)) != f[9] {
			return "bad-oracle"
		}
		q := url.Values{"path": {pa}, "start": {st}, "duration": {du}, "format": {fo}}.Encode()
		return playback.VerifC35Request(false, q, f[1] == "1", f[2] == "1")
	case "pblist":
		pa, st, en := verifutil.UnHexS(f[3]), verifutil.UnHexS(f[4]), verifutil.UnHexS(f[5])
		if c35b01(conf.VerifC35RePathName(pa)) != f[6] || c35b01(c35timeOk(st)) != f[7] || c35b01(c35timeOk(en)) != f[8] {
			return "bad-oracle"
		}
		q := url.Values{"path": {pa}, "start": {st}, "end": {en}}.Encode()
		return playback.VerifC35Request(true, q, f[1] == "1", f[2] == "1")
	case "ctype":
		return verifutil.HexS(httpp.ParseContentType(verifutil.UnHexS(f[1])))
	case "moq":
		b := verifutil.UnHex(f[2])
		rd := bytes.NewReader(b)
		var err error
		if f[1] == "msg" {
			_, err = controlmessage.Read(rd)
		} else {
			var sg subgroup.SubGroup
			err = sg.Read(rd)
		}
		if err != nil {
			return "err " + c35moqErr(err)
		}
		return fmt.Sprintf("ok %d", len(b)-rd.Len())
	case "pname":
		ctx := &gin.Context{Params: gin.Params{{Key: "name", Value: verifutil.UnHexS(f[1])}}}
		name, ok := paramName(ctx)
		if !ok {
			return "no"
		}
		return "ok " + verifutil.HexS(name)
	case "pg":
		n := verifutil.Atoi(f[1])
		items := make([]int, n)
		for i := range items {
			items[i] = i
		}
		pc, err := paginate(&items, verifutil.UnHexS(f[2]), verifutil.UnHexS(f[3]))
		if err != nil {
			return "err"
		}
		first := 0
		if len(items) > 0 {
			first = items[0]
		}
		return fmt.Sprintf("ok %d %d %d", pc, first, len(items))
	}
	return "bad-op"
}

// ---------- generator ----------

var c35words = []string{"", "a", "live", "cam1", "my/stream", "read", "publish", "request", "u", "p", "x y", "é", "\x00", "%2f", "..", ".", "index.m3u8", "seg1.mp4", "part0.mp", "a.ts", "hls.min.js", "hls.min.js.map", "favicon.ico", "whip", "whep", "publisher.js", "reader.js", "#feedbackplay", "Bearer ", "Basic "}

func c35word(r *verifutil.Rand) string {
	if r.Intn(6) == 0 {
		return string(r.Bytes(r.Intn(5)))
	}
	return c35words[r.Intn(len(c35words))]
}

func c35srt(r *verifutil.Rand) string {
	switch r.Intn(7) {
	case 0, 1: // legacy syntax, 0..7 parts
		n := r.Intn(8)
		if r.Intn(3) != 0 {
			n = 2 + r.Intn(4)
		}
		parts := make([]string, n)
		for i := range parts {
			parts[i] = c35word(r)
		}
		if n > 0 && r.Intn(5) != 0 {
			parts[0] = r.Pick("read", "publish", "read", "publish", "Read", "readx")
		}
		s := strings.Join(parts, ":")
		if r.Intn(4) == 0 {
			s += "#feedbackplay"
		}
		return s
	case 2, 3, 4: // standard syntax
		n := r.Intn(6)
		kvs := make([]string, n)
		for i := range kvs {
			k := r.Pick("u", "r", "h", "s", "t", "m", "x", "", "rr")
			v := c35word(r)
			if k == "m" && r.Intn(5) != 0 {
				v = r.Pick("request", "publish", "request", "publish", "bidirectional")
			}
			switch r.Intn(16) {
			case 0:
				kvs[i] = k // no '='
			case 1:
				kvs[i] = k + "=" + v + "=" + c35word(r)
			default:
				kvs[i] = k + "=" + v
			}
		}
		return r.Pick("#!::", "#!::", "#!::", "#!:", "#!:::", "#!::,") + strings.Join(kvs, ",")
	case 5: // prefixes of the magic
		return "#!::"[:r.Intn(5)] + c35word(r)
	default:
		return string(r.Bytes(r.Intn(12)))
	}
}

func c35cred(r *verifutil.Rand) string {
	n := r.Intn(4)
	vals := make([]string, n)
	for i := range vals {
		switch r.Intn(8) {
		case 0:
			vals[i] = "Bearer " + c35word(r) + ":" + c35word(r)
		case 1:
			vals[i] = "Bearer " + c35word(r)
		case 2:
			vals[i] = "Bearer " + c35word(r) + ":" + c35word(r) + ":" + c35word(r)
		case 3:
			vals[i] = "Bearer"[:r.Intn(7)]
		case 4:
			vals[i] = "Basic dXNlcjpwYXNz"
		case 5:
			vals[i] = "Basic " + c35word(r)
		case 6:
			vals[i] = "bearer x:y"
		default:
			vals[i] = c35word(r)
		}
	}
	h := http.Header{}
	h["Authorization"] = vals
	bu, bp, _ := (&http.Request{Header: h}).BasicAuth()
	s := fmt.Sprintf("cred %d", n)
	for _, v := range vals {
		s += " " + verifutil.HexS(v)
	}
	return s + " " + verifutil.HexS(bu) + " " + verifutil.HexS(bp)
}

func c35seg(r *verifutil.Rand) string {
	if r.Intn(5) == 0 {
		return c35word(r)
	}
	return r.Pick("a", "live", "cam1", "my", "stream", "x.y", "%2f", "é", "..", ".")
}

func c35path(r *verifutil.Rand) string {
	switch r.Intn(24) {
	case 0:
		return ""
	case 1:
		return "/"
	case 2:
		return c35word(r) // no leading slash
	case 3:
		return "//" + c35word(r)
	case 4:
		return string(r.Bytes(r.Intn(6)))
	}
	n := 1 + r.Intn(3)
	s := ""
	for i := 0; i < n; i++ {
		s += "/" + c35seg(r)
	}
	switch r.Intn(8) {
	case 0, 1:
		s += "/"
	case 2, 3:
		s += r.Pick("/index.m3u8", "/index.m3u8", "/stream.m3u8", "/seg.mp4", "/part.mp", "/x.ts", "/hls.min.js", "/hls.min.js.map", ".m3u8", ".mp", ".ts", "/favicon.ico")
	case 4, 5, 6:
		s += r.Pick("/whip", "/whep", "/whip", "/whep", "/whip/", "/whep/"+uuid.New().String(), "/whip/"+uuid.New().String(),
			"/whip/notauuid", "/whep/a/b", "/publish", "/publish", "/publisher.js", "/reader.js", "/whipx", "/favicon.ico")
	}
	return s
}

func c35method(r *verifutil.Rand) string {
	if r.Intn(3) == 0 {
		return "GET"
	}
	return r.Pick("GET", "HEAD", "PUT", "POST", "OPTIONS", "PATCH", "DELETE", "TRACE")
}

func c35query(r *verifutil.Rand) string {
	return r.Pick("cookieCheck=1", "cookieCheck=1", "cookieCheck=1&a=b")
}

func c35name(r *verifutil.Rand) string {
	switch r.Intn(10) {
	case 0:
		return ""
	case 1:
		return "/" + c35seg(r)
	case 2:
		return c35seg(r) + "/"
	case 3:
		return c35word(r)
	case 4:
		return r.Pick(".", "..", "a/./b", "a/../b", "../a", "a/..", "a..b", ".a", "a/.b", "...")
	}
	n := 1 + r.Intn(3)
	parts := make([]string, n)
	for i := range parts {
		parts[i] = r.Pick("a", "live", "cam_1", "my-stream", "x.y", "A9", "..", ".", "é", "a b", "")
		if r.Intn(3) != 0 {
			parts[i] = r.Pick("a", "live", "cam_1", "my-stream", "x.y", "A9")
		}
	}
	return strings.Join(parts, "/")
}

func c35time(r *verifutil.Rand) string {
	return r.Pick("2024-01-02T03:04:05Z", "2024-01-02T03:04:05+02:00", "2024-01-02T03:04:05.123Z", "", "now", "2024-13-02T03:04:05Z",
		"2024-01-02 03:04:05", "1700000000", "2024-01-02T03:04:05", "9999-12-31T23:59:59Z", "0000-01-01T00:00:00Z")
}

func c35dur(r *verifutil.Rand) string {
	return r.Pick("10", "0.5", "1e3", "-5", "NaN", "Inf", "1e400", "10s", "1h2m", "", "abc", "5x", "9223372036854775807", "1e30", "0x10", "1_0")
}

func c35extra(r *verifutil.Rand) string {
	switch r.Intn(8) {
	case 7:
		p := c35path(r)
		if r.Intn(4) == 0 {
			p = r.Pick("", "/", "a", "//", "\x00", "/a/b?c", "*")
		}
		return "rtsp " + r.Pick("describe", "announce", "setup") + " " + verifutil.HexS(p)
	case 0:
		return "srtconn " + verifutil.HexS(c35srt(r))
	case 1:
		p := r.Pick("", "/", "//", "///a", "a") + c35name(r)
		if r.Intn(8) == 0 {
			p = r.Pick("", "/", "//")
		}
		q := r.Pick("", "user=u&pass=p", "user=a%20b", "pass=x&user=", "user=u;pass=p", "%zz", "user=%ff", "a=b&user=x&user=y")
		vals := (&url.URL{RawQuery: q}).Query()
		return fmt.Sprintf("rtmp %d %s %s %s %s", r.Intn(2), verifutil.HexS(p), verifutil.HexS(q),
			verifutil.HexS(vals.Get("user")), verifutil.HexS(vals.Get("pass")))
	case 2:
		n := c35name(r)
		return fmt.Sprintf("vname %s %s", verifutil.HexS(n), c35b01(conf.VerifC35RePathName(n)))
	case 3, 4:
		pa, st, du := c35name(r), c35time(r), c35dur(r)
		if r.Intn(3) != 0 {
			pa = r.Pick("a", "live/cam_1", "x.y")
		}
		fo := r.Pick("", "fmp4", "mp4", "mp4", "ts", "FMP4", "\x00")
		auth := 1
		if r.Intn(6) == 0 {
			auth = 0
		}
		return fmt.Sprintf("pbget %d %d %s %s %s %s %s %s %s", auth, r.Intn(2), verifutil.HexS(pa), verifutil.HexS(st), verifutil.HexS(du),
			verifutil.HexS(fo), c35b01(conf.VerifC35RePathName(pa)), c35b01(c35timeOk(st)), c35b01(c35durOk(du)))
	case 5:
		pa, st, en := c35name(r), c35time(r), c35time(r)
		if r.Intn(3) != 0 {
			pa = r.Pick("a", "live/cam_1", "x.y")
		}
		auth := 1
		if r.Intn(6) == 0 {
			auth = 0
		}
		conf01 := 1
		if r.Intn(4) == 0 {
			conf01 = 0
		}
		return fmt.Sprintf("pblist %d %d %s %s %s %s %s %s", auth, conf01, verifutil.HexS(pa), verifutil.HexS(st), verifutil.HexS(en),
			c35b01(conf.VerifC35RePathName(pa)), c35b01(c35timeOk(st)), c35b01(c35timeOk(en)))
	default:
		v := r.Pick("application/sdp", " application/sdp ; charset=utf-8", "application/trickle-ice-sdpfrag", ";", "", ";;", "\t a\r\n;b",
			"text/plain;", " ", "a;b;c")
		if r.Intn(3) == 0 {
			b := r.Bytes(r.Intn(8))
			for i := range b {
				b[i] &= 0x7f
			}
			v = string(b)
		}
		return "ctype " + verifutil.HexS(v)
	}
}

func verifC35Gen(r *verifutil.Rand, i int, thorough bool) []string {
	var op string
	switch r.Intn(13) {
	case 10, 11, 12:
		op = c35extra(r)
	case 8:
		op = "moq msg " + verifutil.Hex(c35moqMsg(r))
	case 9:
		if r.Intn(3) == 0 {
			op = "moq sg " + verifutil.Hex(c35moqSG(r))
		} else {
			op = "moq msg " + verifutil.Hex(c35moqMsg(r))
		}
	case 0, 1:
		op = "srt " + verifutil.HexS(c35srt(r))
	case 2:
		op = c35cred(r)
	case 3, 4:
		p := c35path(r)
		m := "GET"
		if r.Intn(8) == 0 {
			m = c35method(r)
		}
		op = fmt.Sprintf("hls %s %s %s %s", m, verifutil.HexS(p), verifutil.HexS(c35query(r)), c35hlsOracles(p))
	case 5, 6:
		p := c35path(r)
		m := "GET"
		switch {
		case r.Intn(8) == 0:
			m = c35method(r)
		case strings.HasSuffix(p, "/whip") || strings.HasSuffix(p, "/whep"):
			m = r.Pick("OPTIONS", "POST", "OPTIONS", "POST", "GET", "HEAD", "PUT", "PATCH")
		case strings.Contains(p, "/whip/") || strings.Contains(p, "/whep/"):
			m = r.Pick("PATCH", "DELETE", "PATCH", "DELETE", "GET", "POST")
		}
		op = fmt.Sprintf("rtc %s %s %s %s", m, verifutil.HexS(p), verifutil.HexS(r.Pick("", "a=b")), c35rtcOracles(p))
	default:
		switch r.Intn(3) {
		case 0:
			op = "pname " + verifutil.HexS(c35path(r))
		case 1:
			op = "filter " + verifutil.HexS(c35path(r))
		default:
			num := func() string {
				return r.Pick("", "0", "1", "7", "100", "2147483647", "2147483648", "-1", "x", "00", "1e3", fmt.Sprint(r.Intn(50)))
			}
			op = fmt.Sprintf("pg %d %s %s", r.Intn(60), verifutil.HexS(num()), verifutil.HexS(num()))
		}
	}
	return []string{"reset", op}
}

func verifC35Class(op, impl string) string {
	f := strings.Fields(op)
	if f[0] == "ctype" {
		return "ctype=ok"
	}
	a := impl
	if i := strings.IndexByte(impl, ' '); i >= 0 {
		a = impl[:i]
	}
	return f[0] + "=" + a
}

func TestVerifC35(t *testing.T) {
	_ = url.URL{}
	verifutil.Main(t, &verifutil.Harness{
		ID: "C35", Exec: verifC35Exec, Gen: verifC35Gen, Quick: 5000, Thorough: 150000,
		Class:      verifC35Class,
		NonTrivial: func(op, impl string) bool { return op != "reset" },
	})
}
