//go:build verif

package api

import (
	"bufio"
	"bytes"
	"errors"
	"fmt"
	"io"
	"net"
	"os"
	"os/exec"
	"path/filepath"
	"net/http"
	"net/url"
	"path"
	"strconv"
	"strings"
	"testing"
	"time"

	"github.com/gin-gonic/gin"
	"github.com/google/uuid"
	"github.com/pion/rtp"

	"github.com/bluenviron/mediamtx/internal/auth"
	"github.com/bluenviron/mediamtx/internal/conf"
	"github.com/bluenviron/mediamtx/internal/defs"
	"github.com/bluenviron/mediamtx/internal/logger"
	"github.com/bluenviron/mediamtx/internal/metrics"
	"github.com/bluenviron/mediamtx/internal/playback"
	"github.com/bluenviron/mediamtx/internal/pprof"
	"github.com/bluenviron/mediamtx/internal/protocols/httpp"
	"github.com/bluenviron/mediamtx/internal/protocols/moq/controlmessage"
	"github.com/bluenviron/mediamtx/internal/protocols/moq/subgroup"
	"github.com/bluenviron/mediamtx/internal/protocols/moq/varint"
	pwebrtc "github.com/bluenviron/mediamtx/internal/protocols/webrtc"
	"github.com/bluenviron/mediamtx/internal/servers/hls"
	"github.com/bluenviron/mediamtx/internal/servers/moq"
	"github.com/bluenviron/mediamtx/internal/servers/rtmp"
	"github.com/bluenviron/mediamtx/internal/servers/rtsp"
	"github.com/bluenviron/mediamtx/internal/servers/srt"
	"github.com/bluenviron/mediamtx/internal/servers/webrtc"
	"github.com/bluenviron/mediamtx/internal/verifutil"
)

func c35b01(b bool) string {
	if b {
		return "1"
	}
	return "0"
}

func c35groups(m []string) string {
	if m == nil {
		return "n"
	}
	parts := make([]string, len(m)-1)
	for i, g := range m[1:] {
		parts[i] = verifutil.HexS(g)
	}
	return strings.Join(parts, ",")
}

// oracle columns for an HTTP path: path.Dir / path.Base of path[1:], path.Clean of the path
func c35hlsOracles(p string) string {
	pa := ""
	if len(p) >= 1 {
		pa = p[1:]
	}
	return verifutil.HexS(path.Dir(pa)) + " " + verifutil.HexS(path.Base(pa)) + " " + verifutil.HexS(path.Clean(p))
}

func c35rtcOracles(p string) string {
	m1, m2 := webrtc.VerifC35Regexps(p)
	u := "0"
	if m2 != nil {
		if _, err := uuid.Parse(m2[3]); err == nil {
			u = "1"
		}
	}
	return c35groups(m1) + " " + c35groups(m2) + " " + u + " " + verifutil.HexS(path.Clean(p))
}

func c35moqErr(err error) string {
	if errors.Is(err, io.EOF) || errors.Is(err, io.ErrUnexpectedEOF) {
		return "short"
	}
	m := err.Error()
	switch {
	case strings.Contains(m, "not enough bytes"), strings.Contains(m, "invalid track name length"):
		return "short"
	case strings.Contains(m, "too many namespace fields"):
		return "toomany"
	case strings.Contains(m, "properties too large"), strings.Contains(m, "payload too large"):
		return "toolarge"
	case strings.Contains(m, "unsupported parameter type"), strings.Contains(m, "unsupported token alias type"),
		strings.Contains(m, "unknown message type"), strings.Contains(m, "unexpected status"):
		return "unsupported"
	case strings.Contains(m, "unexpected empty object"):
		return "emptyobj"
	case strings.Contains(m, "unexpected second object"):
		return "secondobj"
	}
	return "other:" + strings.ReplaceAll(m, " ", "_")
}

func c35vi(v uint64) []byte { return varint.Varint(v).Marshal() }

// lengths / counts a hostile peer would announce
func c35len(r *verifutil.Rand, actual int) uint64 {
	switch r.Intn(10) {
	case 0:
		return uint64(1)<<63 + uint64(r.Intn(1<<20)) // 9-byte varint, top bit set: int(l) < 0
	case 1:
		return ^uint64(0) - uint64(r.Intn(3))
	case 2:
		return uint64(1)<<62 + uint64(r.Intn(100))
	case 3:
		return uint64(actual + 1 + r.Intn(3))
	case 4:
		return uint64(1) << uint(r.Intn(64))
	case 5:
		if actual > 0 {
			return uint64(actual - 1)
		}
	}
	return uint64(actual)
}

func c35moqOptions(r *verifutil.Rand) []byte {
	var b []byte
	for n := r.Intn(4); n >= 0; n-- {
		delta := uint64(r.Intn(6))
		if r.Intn(10) == 0 {
			delta = c35len(r, 3)
		}
		b = append(b, c35vi(delta)...)
		val := r.Bytes(r.Intn(6))
		if r.Intn(3) == 0 {
			b = append(b, c35vi(c35len(r, 0))...) // as a plain varint value (even option)
		} else {
			b = append(b, c35vi(c35len(r, len(val)))...)
			b = append(b, val...)
		}
	}
	return b
}

// c35moqParamMsg: a structurally VALID control message (SUBSCRIBE, SUBSCRIBE_OK, PUBLISH, PUBLISH_OK,
// REQUEST_OK) whose parameter block is hostile: AUTHORIZATION_TOKEN TLVs with declared lengths 0 / 1 /
// cutting the inner varints / exact / too long, inner varints of every size, followed by a further
// parameter, track properties or trailing bytes.
func c35moqParamMsg(r *verifutil.Rand) []byte {
	t := []uint64{0x03, 0x03, 0x1d, 0x1d, 0x04, 0x1e, 0x07}[r.Intn(7)]
	var payload []byte
	if t == 0x03 || t == 0x1d {
		payload = c35vi(uint64(r.Intn(300)))
		nparts := r.Intn(3)
		payload = append(payload, c35vi(uint64(nparts))...)
		for i := 0; i < nparts; i++ {
			part := r.Bytes(r.Intn(5))
			payload = append(payload, c35vi(uint64(len(part)))...)
			payload = append(payload, part...)
		}
		tn := []byte(r.Pick("catalog", "0", "1", ""))
		payload = append(payload, c35vi(uint64(len(tn)))...)
		payload = append(payload, tn...)
		if t == 0x1d {
			payload = append(payload, c35vi(uint64(r.Intn(5)))...)
		}
	}
	if t == 0x04 {
		payload = c35vi(uint64(r.Intn(300)))
	}
	np := 1 + r.Intn(2)
	count := uint64(np)
	if r.Intn(8) == 0 {
		count = c35len(r, np)
	}
	payload = append(payload, c35vi(count)...)
	for i := 0; i < np; i++ {
		alias := uint64(3)
		if r.Intn(10) == 0 {
			alias = uint64(r.Intn(6))
		}
		tt := []uint64{0, 1, 5, 127, 128, 300, 1 << 20, 1 << 40, 1 << 63}[r.Intn(9)]
		tok := r.Bytes(r.Intn(6))
		if r.Intn(3) == 0 {
			tok = []byte("Bearer x")[:r.Intn(9)]
		}
		inner := append(append(c35vi(alias), c35vi(tt)...), tok...)
		var le uint64
		switch r.Intn(8) {
		case 0:
			le = 0
		case 1:
			le = 1
		case 2:
			le = 2
		case 3:
			le = uint64(r.Intn(len(inner) + 1)) // cuts somewhere inside alias / token type / value
		case 4:
			le = uint64(len(inner) + 1 + r.Intn(3))
		case 5:
			le = c35len(r, len(inner))
		default:
			le = uint64(len(inner))
		}
		d := uint64(0)
		if i == 0 {
			d = 3
		}
		if r.Intn(12) == 0 {
			d = uint64(r.Intn(5))
		}
		payload = append(payload, c35vi(d)...)
		payload = append(payload, c35vi(le)...)
		payload = append(payload, inner...)
	}
	switch r.Intn(4) {
	case 0: // track properties (timestamp)
		payload = append(payload, c35vi(6)...)
		payload = append(payload, c35vi(uint64(r.Intn(100000)))...)
	case 1: // trailing bytes that look like alias type 3 + a varint
		payload = append(payload, 3, byte(r.Intn(128)), byte(r.Intn(256)))
	case 2:
		payload = append(payload, r.Bytes(r.Intn(5))...)
	}
	b := append(c35vi(t), byte(len(payload)>>8), byte(len(payload)))
	return append(b, payload...)
}

func c35moqMsg(r *verifutil.Rand) []byte {
	if r.Intn(3) == 0 {
		return c35moqParamMsg(r)
	}
	var payload []byte
	var t uint64
	switch r.Intn(8) {
	case 0, 1, 2: // SETUP (uni stream) / CLIENT_SETUP (control stream): option list
		t = []uint64{0x2F00, 0x20, 0x21}[r.Intn(3)]
		payload = c35moqOptions(r)
	case 3, 4: // SUBSCRIBE / PUBLISH: request id, namespace, track name, [alias], parameters, [properties]
		t = []uint64{0x03, 0x1d}[r.Intn(2)]
		payload = c35vi(uint64(r.Intn(300)))
		nparts := r.Intn(3)
		payload = append(payload, c35vi(c35len(r, nparts))...)
		for i := 0; i < nparts; i++ {
			part := r.Bytes(r.Intn(5))
			payload = append(payload, c35vi(c35len(r, len(part)))...)
			payload = append(payload, part...)
		}
		tn := r.Bytes(r.Intn(4))
		payload = append(payload, c35vi(c35len(r, len(tn)))...)
		payload = append(payload, tn...)
		if t == 0x1d {
			payload = append(payload, c35vi(uint64(r.Intn(5)))...)
		}
		np := r.Intn(3)
		payload = append(payload, c35vi(c35len(r, np))...)
		for i := 0; i < np; i++ {
			tok := r.Bytes(r.Intn(5))
			inner := append(append(c35vi(3), c35vi(uint64(r.Intn(3)))...), tok...)
			d := uint64(0)
			if i == 0 {
				d = 3
			}
			payload = append(payload, c35vi(d)...)
			payload = append(payload, c35vi(c35len(r, len(inner)))...)
			payload = append(payload, inner...)
		}
		if t == 0x1d && r.Bool() {
			payload = append(payload, c35vi(uint64(2*r.Intn(6)+1))...)
			payload = append(payload, c35vi(c35len(r, 2))...)
			payload = append(payload, 1, 2)
		}
	case 5: // the acknowledgements a client may also send
		t = []uint64{0x04, 0x05, 0x1e, 0x07}[r.Intn(4)]
		payload = append(c35vi(c35len(r, 1)), c35vi(c35len(r, 0))...)
		payload = append(payload, c35vi(c35len(r, 2))...)
		payload = append(payload, r.Bytes(r.Intn(4))...)
	case 6:
		t = c35len(r, 0x20)
		payload = r.Bytes(r.Intn(10))
	default:
		return r.Bytes(r.Intn(24))
	}
	n := len(payload)
	if r.Intn(8) == 0 {
		n = r.Intn(70000)
	}
	b := append(c35vi(t), byte(n>>8), byte(n))
	return append(b, payload...)
}

func c35moqSG(r *verifutil.Rand) []byte {
	hp := r.Bool()
	b := []byte{0x30}
	if hp {
		b[0] |= 1
	}
	if r.Intn(6) == 0 {
		b[0] = byte(r.Intn(256))
		hp = b[0]&1 != 0
	}
	b = append(b, c35vi(uint64(r.Intn(9)))...)
	b = append(b, c35vi(c35len(r, 5))...)
	for i := 0; i < 2; i++ {
		b = append(b, c35vi(uint64(r.Intn(3)))...)
		if hp {
			props := append(c35vi(6), c35vi(uint64(r.Intn(1000)))...)
			b = append(b, c35vi(c35len(r, len(props)))...)
			b = append(b, props...)
		}
		pl := r.Bytes(r.Intn(5))
		if i == 1 && r.Intn(3) != 0 {
			pl = nil
		}
		b = append(b, c35vi(c35len(r, len(pl)))...)
		if len(pl) == 0 {
			b = append(b, byte(3+r.Intn(2)))
		}
		b = append(b, pl...)
	}
	if r.Intn(4) == 0 {
		b = b[:r.Intn(len(b)+1)]
	}
	return b
}

func c35req(r *defs.PathAccessRequest) string {
	if r == nil {
		return "reject"
	}
	u, p := "", ""
	if r.Credentials != nil {
		u, p = r.Credentials.User, r.Credentials.Pass
	}
	return fmt.Sprintf("req %s %s %s %s %s", c35b01(r.Publish), verifutil.HexS(r.Name), verifutil.HexS(r.Query),
		verifutil.HexS(u), verifutil.HexS(p))
}

func c35timeOk(s string) bool {
	_, err := time.Parse(time.RFC3339, s)
	return err == nil
}

func c35durOk(s string) bool {
	if _, err := strconv.ParseFloat(s, 64); err == nil {
		return true
	}
	_, err := time.ParseDuration(s)
	return err == nil
}

func c35nameErr(err error) string {
	if err == nil {
		return "ok"
	}
	m := err.Error()
	switch {
	case strings.Contains(m, "cannot be empty"):
		return "bad empty"
	case strings.Contains(m, "begin with a slash"):
		return "bad leading"
	case strings.Contains(m, "end with a slash"):
		return "bad trailing"
	case strings.Contains(m, "can contain only"):
		return "bad chars"
	case strings.Contains(m, "dot path segments"):
		return "bad dots"
	}
	return "bad other"
}

func c35ids(ids []uint8) string {
	if len(ids) == 0 {
		return "_"
	}
	p := make([]string, len(ids))
	for i, v := range ids {
		p[i] = strconv.Itoa(int(v))
	}
	return strings.Join(p, ",")
}

// pion/rtp as oracle: parse, extension flag / profile / ids, GetExtension(id) != nil (id 0 = TWCC not negotiated)
func c35rtpOracles(id uint8, raw []byte) string {
	ok, ext, prof, ids, nonNil, _, _, _ := pwebrtc.VerifC35StripTWCC(0, raw)
	if !ok {
		return "0 0 0 _ 0"
	}
	if id != 0 {
		nonNil = false
		pkt := &rtp.Packet{}
		if pkt.Unmarshal(raw) == nil {
			nonNil = pkt.GetExtension(id) != nil
		}
	}
	return fmt.Sprintf("1 %s %d %s %s", c35b01(ext), prof, c35ids(ids), c35b01(nonNil))
}

// RTP packets as a hostile publisher may send them: extension block absent / only TWCC / others without
// TWCC / both, one-byte and two-byte profiles, unknown profiles, malformed lengths, CSRC counts, padding.
func c35rtpPacket(r *verifutil.Rand, twcc uint8) []byte {
	pkt := &rtp.Packet{Header: rtp.Header{
		Version: 2, PayloadType: uint8(96 + r.Intn(4)), SequenceNumber: uint16(r.Intn(65536)),
		Timestamp: uint32(r.U64()), SSRC: uint32(r.U64()), Marker: r.Bool(),
	}, Payload: r.Bytes(r.Intn(12))}
	for n := r.Intn(4); n > 0; n-- {
		pkt.CSRC = append(pkt.CSRC, uint32(r.U64()))
	}
	twoByte := r.Intn(3) == 0
	if r.Intn(5) != 0 {
		pkt.Extension = true
		pkt.ExtensionProfile = 0xBEDE
		if twoByte {
			pkt.ExtensionProfile = 0x1000
		}
		var ids []uint8
		switch r.Intn(5) {
		case 0: // only TWCC
			ids = []uint8{twcc}
		case 1: // others, no TWCC (sdes:mid, rid, abs-send-time …)
			ids = []uint8{1 + uint8(r.Intn(14))}
			if r.Bool() {
				ids = append(ids, 1+uint8(r.Intn(14)))
			}
		case 2: // both
			ids = []uint8{1 + uint8(r.Intn(14)), twcc}
		case 3: // TWCC twice
			ids = []uint8{twcc, twcc}
		}
		for _, id := range ids {
			if id == 0 || id > 14 {
				continue
			}
			n := 1 + r.Intn(4)
			if twoByte && r.Intn(4) == 0 {
				n = 0
			}
			pkt.SetExtension(id, r.Bytes(n)) //nolint:errcheck
		}
	}
	raw, err := pkt.Marshal()
	if err != nil || len(raw) == 0 {
		raw = r.Bytes(12 + r.Intn(20))
	}
	switch r.Intn(8) {
	case 0: // flip bits in the first 20 bytes (version, X, CC, extension length …)
		raw[r.Intn(min(len(raw), 20))] ^= byte(1 << uint(r.Intn(8)))
	case 1: // truncate
		raw = raw[:r.Intn(len(raw)+1)]
	case 2: // padding bit with a hostile pad count
		raw[0] |= 0x20
		raw = append(raw, byte(r.Intn(256)))
	case 3: // unknown extension profile
		if pkt.Extension && len(raw) > 12+4*len(pkt.CSRC)+1 {
			raw[12+4*len(pkt.CSRC)] = byte(r.Intn(256))
		}
	}
	return raw
}

// ---------- real HTTP front ends on loopback listeners ----------

type c35auth struct{ allow bool }

func (a c35auth) Authenticate(*auth.Request) (string, *auth.Error) {
	if a.allow {
		return "", nil
	}
	return "", &auth.Error{AskCredentials: true}
}
func (c35auth) RefreshJWTJWKS() {}

type c35apiParent struct{}

func (c35apiParent) Log(logger.Level, string, ...any)                      {}
func (c35apiParent) APIConfigSnapshot() *conf.Conf                         { return &conf.Conf{} }
func (c35apiParent) APIConfigGlobalPatch(conf.OptionalGlobal) error        { return fmt.Errorf("verif") }
func (c35apiParent) APIConfigPathDefaultsPatch(conf.OptionalPath) error    { return fmt.Errorf("verif") }
func (c35apiParent) APIConfigPathsAdd(string, conf.OptionalPath) error     { return fmt.Errorf("verif") }
func (c35apiParent) APIConfigPathsPatch(string, conf.OptionalPath) error   { return fmt.Errorf("verif") }
func (c35apiParent) APIConfigPathsReplace(string, conf.OptionalPath) error { return fmt.Errorf("verif") }
func (c35apiParent) APIConfigPathsDelete(string) error                     { return fmt.Errorf("verif") }

var c35frontEnds = []string{"bare", "hls", "webrtc", "api", "playback", "metrics", "pprof"}

var c35listening = map[string]string{}

var c35listenTries = map[string]int{}

func c35freeAddr() string {
	ln, err := net.Listen("tcp", "127.0.0.1:0")
	if err != nil {
		panic(err)
	}
	defer ln.Close()
	return ln.Addr().String()
}

// c35listen starts (once) the real front end and returns its address.
func c35listen(fe string) string {
	if a, ok := c35listening[fe]; ok {
		return a
	}
	addr := c35freeAddr()
	to := conf.Duration(2 * time.Second)
	var err error
	switch fe {
	case "bare": // httpp.Server around a trivial handler: the chain every front end shares
		srv := &httpp.Server{
			Address: addr, ReadTimeout: 2 * time.Second, WriteTimeout: 2 * time.Second,
			Handler: http.HandlerFunc(func(w http.ResponseWriter, r *http.Request) {
				io.Copy(io.Discard, r.Body) //nolint:errcheck
				w.WriteHeader(http.StatusOK)
			}),
			Parent: c35apiParent{},
		}
		err = srv.Initialize()
	case "hls":
		err = hls.VerifC35Listen(addr)
	case "webrtc":
		err = webrtc.VerifC35Listen(addr)
	case "api":
		err = (&API{Address: addr, ReadTimeout: to, WriteTimeout: to, AuthManager: c35auth{}, Parent: c35apiParent{}}).Initialize()
	case "playback":
		err = (&playback.Server{Address: addr, ReadTimeout: to, WriteTimeout: to, AuthManager: c35auth{allow: true}, Parent: c35apiParent{}}).Initialize()
	case "metrics":
		err = (&metrics.Metrics{Address: addr, ReadTimeout: to, WriteTimeout: to, AuthManager: c35auth{}, Parent: c35apiParent{}}).Initialize()
	case "pprof":
		err = (&pprof.PPROF{Address: addr, ReadTimeout: to, WriteTimeout: to, AuthManager: c35auth{}, Parent: c35apiParent{}}).Initialize()
	default:
		panic("verif: unknown front end " + fe)
	}
	if err != nil {
		// the address was found by listen-and-close; a check running beside this one may have taken it meanwhile
		c35listenTries[fe]++
		if c35listenTries[fe] < 6 {
			time.Sleep(50 * time.Millisecond)
			return c35listen(fe)
		}
		panic("verif: cannot start " + fe + ": " + err.Error())
	}
	c35listening[fe] = addr
	return addr
}

// c35http sends raw bytes to the front end over a real TCP connection, half-closes, and returns the
// status code of the first response ("none" = connection closed without a response).
func c35http(fe string, raw []byte) string {
	addr := c35listen(fe)
	c, err := net.DialTimeout("tcp", addr, 2*time.Second)
	if err != nil {
		return "dial-failed" // the listener is gone: the process is about to die or died
	}
	defer c.Close()
	c.SetDeadline(time.Now().Add(4 * time.Second)) //nolint:errcheck
	c.Write(raw)                                   //nolint:errcheck
	if tc, ok := c.(*net.TCPConn); ok {
		tc.CloseWrite() //nolint:errcheck
	}
	line, _ := bufio.NewReader(c).ReadString('\n')
	f := strings.Fields(line)
	if len(f) >= 2 && strings.HasPrefix(f[0], "HTTP/") {
		io.Copy(io.Discard, c) //nolint:errcheck
		return f[1]
	}
	return "none"
}

// history of the current case (since the last reset), written to a side file before every op so that
// the parent process can name the crash history if this process dies (os.Exit in handlerExitOnPanic,
// or an unrecovered panic in a session goroutine).
var (
	c35cur  *os.File
	c35hist []string
)

func c35mark(op string) {
	if c35cur == nil {
		return
	}
	if op == "reset" {
		c35hist = c35hist[:0]
	}
	c35hist = append(c35hist, op)
	c35cur.Truncate(0)                                              //nolint:errcheck
	c35cur.WriteAt([]byte(strings.Join(c35hist, "\n")+"\n"), 0) //nolint:errcheck
}

func verifC35Exec(op string) string {
	f := strings.Fields(op)
	c35mark(op)
	switch f[0] {
	case "reset":
		moq.VerifC35Close()
		return "ok"
	case "twcc": // twcc <twcc ext id> <raw RTP> <oracles: parsed ext profile ids nonNil>
		id := uint8(verifutil.Atoi(f[1]))
		raw := verifutil.UnHex(f[2])
		// the oracle columns are recomputed on a copy first (so that a panic in the real function is
		// not mistaken for a stale oracle)
		if c35rtpOracles(id, raw) != strings.Join(f[3:8], " ") {
			return "bad-oracle"
		}
		ok, _, _, _, _, ext2, prof2, ids2 := pwebrtc.VerifC35StripTWCC(id, raw)
		if !ok {
			return "bad"
		}
		return fmt.Sprintf("ok %s %d %s", c35b01(ext2), prof2, c35ids(ids2))
	case "http":
		return c35http(f[1], verifutil.UnHex(f[2]))
	case "dump": // dump <declared length> <body: hex | z<len>>
		var body []byte
		if strings.HasPrefix(f[2], "z") {
			body = bytes.Repeat([]byte{'a'}, verifutil.Atoi(f[2][1:]))
		} else {
			body = verifutil.UnHex(f[2])
		}
		out := httpp.VerifC35Dump(verifutil.AtoI64(f[1]), body)
		if len(out) > 64 {
			return fmt.Sprintf("len %d tail %s", len(out), verifutil.Hex(out[len(out)-20:]))
		}
		return "body " + verifutil.Hex(out)
	case "mq":
		switch f[1] {
		case "open":
			moq.VerifC35Open(f[2], f[3] == "quic")
		case "bidi":
			moq.VerifC35Stream(verifutil.Atoi(f[2]), false)
		case "uni":
			moq.VerifC35Stream(verifutil.Atoi(f[2]), true)
		case "w":
			moq.VerifC35Write(verifutil.Atoi(f[2]), verifutil.UnHex(f[3]), false)
		case "fin":
			moq.VerifC35Write(verifutil.Atoi(f[2]), nil, true)
		case "state":
			return moq.VerifC35State()
		}
		return "ok"
	case "srt":
		ok, pub, pa, q, u, pw := srt.VerifC35StreamID(verifutil.UnHexS(f[1]))
		if !ok {
			return "err"
		}
		return fmt.Sprintf("ok %s %s %s %s %s", c35b01(pub), verifutil.HexS(pa), verifutil.HexS(q), verifutil.HexS(u), verifutil.HexS(pw))
	case "cred":
		n := verifutil.Atoi(f[1])
		h := http.Header{}
		for i := 0; i < n; i++ {
			h["Authorization"] = append(h["Authorization"], verifutil.UnHexS(f[2+i]))
		}
		req := &http.Request{Header: h}
		bu, bp, _ := req.BasicAuth()
		if verifutil.HexS(bu) != f[2+n] || verifutil.HexS(bp) != f[3+n] {
			return "bad-oracle"
		}
		c := httpp.Credentials(req)
		return fmt.Sprintf("ok %s %s %s", verifutil.HexS(c.User), verifutil.HexS(c.Pass), verifutil.HexS(c.Token))
	case "filter":
		if httpp.VerifC35Filter(verifutil.UnHexS(f[1])) {
			return "pass"
		}
		return "reject"
	case "hls":
		p := verifutil.UnHexS(f[2])
		if c35hlsOracles(p) != strings.Join(f[4:7], " ") {
			return "bad-oracle"
		}
		// the handler chain of httpp.Server: the filter runs first
		if !httpp.VerifC35Filter(p) {
			return "reject"
		}
		kind, arg := hls.VerifC35Route(f[1], p, verifutil.UnHexS(f[3]))
		if arg == "" && (kind == "none" || kind == "js") {
			return kind
		}
		return kind + " " + verifutil.HexS(arg)
	case "hlsraw": // the router WITHOUT the filter (what would happen if the filter were removed)
		kind, arg := hls.VerifC35Route(f[1], verifutil.UnHexS(f[2]), "")
		return kind + " " + verifutil.HexS(arg)
	case "rtc":
		p := verifutil.UnHexS(f[2])
		if c35rtcOracles(p) != strings.Join(f[4:8], " ") {
			return "bad-oracle"
		}
		if !httpp.VerifC35Filter(p) {
			return "reject"
		}
		kind, arg := webrtc.VerifC35Route(f[1], p, verifutil.UnHexS(f[3]))
		switch kind {
		case "auth":
			return "auth " + arg[:1] + " " + verifutil.HexS(arg[2:])
		case "redirect":
			return "redirect " + verifutil.HexS(arg)
		case "other":
			return "other " + verifutil.HexS(arg)
		}
		return kind
	case "rtsp":
		return rtsp.VerifC35Guard(f[1], verifutil.UnHexS(f[2]))
	case "srtconn":
		return c35req(srt.VerifC35Conn(verifutil.UnHexS(f[1])))
	case "rtmp":
		p, q := verifutil.UnHexS(f[2]), verifutil.UnHexS(f[3])
		vals := (&url.URL{RawQuery: q}).Query()
		if verifutil.HexS(vals.Get("user")) != f[4] || verifutil.HexS(vals.Get("pass")) != f[5] {
			return "bad-oracle"
		}
		return c35req(rtmp.VerifC35Conn(f[1] == "1", p, q))
	case "vname":
		name := verifutil.UnHexS(f[1])
		if c35b01(conf.VerifC35RePathName(name)) != f[2] {
			return "bad-oracle"
		}
		return c35nameErr(conf.IsValidPathName(name))
	case "pbget":
		pa, st, du, fo := verifutil.UnHexS(f[3]), verifutil.UnHexS(f[4]), verifutil.UnHexS(f[5]), verifutil.UnHexS(f[6])
		if c35b01(conf.VerifC35RePathName(pa)) != f[7] || c35b01(c35timeOk(st)) != f[8] || c35b01(c35durOk(du)) != f[9] {
			return "bad-oracle"
		}
		q := url.Values{"path": {pa}, "start": {st}, "duration": {du}, "format": {fo}}.Encode()
		return playback.VerifC35Request(false, q, f[1] == "1", f[2] == "1")
	case "pblist":
		pa, st, en := verifutil.UnHexS(f[3]), verifutil.UnHexS(f[4]), verifutil.UnHexS(f[5])
		if c35b01(conf.VerifC35RePathName(pa)) != f[6] || c35b01(c35timeOk(st)) != f[7] || c35b01(c35timeOk(en)) != f[8] {
			return "bad-oracle"
		}
		q := url.Values{"path": {pa}, "start": {st}, "end": {en}}.Encode()
		return playback.VerifC35Request(true, q, f[1] == "1", f[2] == "1")
	case "ctype":
		return verifutil.HexS(httpp.ParseContentType(verifutil.UnHexS(f[1])))
	case "moq":
		b := verifutil.UnHex(f[2])
		rd := bytes.NewReader(b)
		var err error
		if f[1] == "msg" {
			_, err = controlmessage.Read(rd)
		} else {
			var sg subgroup.SubGroup
			err = sg.Read(rd)
		}
		if err != nil {
			return "err " + c35moqErr(err)
		}
		return fmt.Sprintf("ok %d", len(b)-rd.Len())
	case "pname":
		ctx := &gin.Context{Params: gin.Params{{Key: "name", Value: verifutil.UnHexS(f[1])}}}
		name, ok := paramName(ctx)
		if !ok {
			return "no"
		}
		return "ok " + verifutil.HexS(name)
	case "pg":
		n := verifutil.Atoi(f[1])
		items := make([]int, n)
		for i := range items {
			items[i] = i
		}
		pc, err := paginate(&items, verifutil.UnHexS(f[2]), verifutil.UnHexS(f[3]))
		if err != nil {
			return "err"
		}
		first := 0
		if len(items) > 0 {
			first = items[0]
		}
		return fmt.Sprintf("ok %d %d %d", pc, first, len(items))
	}
	return "bad-op"
}

// ---------- generator ----------

var c35words = []string{"", "a", "live", "cam1", "my/stream", "read", "publish", "request", "u", "p", "x y", "é", "\x00", "%2f", "..", ".", "index.m3u8", "seg1.mp4", "part0.mp", "a.ts", "hls.min.js", "hls.min.js.map", "favicon.ico", "whip", "whep", "publisher.js", "reader.js", "#feedbackplay", "Bearer ", "Basic "}

func c35word(r *verifutil.Rand) string {
	if r.Intn(6) == 0 {
		return string(r.Bytes(r.Intn(5)))
	}
	return c35words[r.Intn(len(c35words))]
}

func c35srt(r *verifutil.Rand) string {
	switch r.Intn(7) {
	case 0, 1: // legacy syntax, 0..7 parts
		n := r.Intn(8)
		if r.Intn(3) != 0 {
			n = 2 + r.Intn(4)
		}
		parts := make([]string, n)
		for i := range parts {
			parts[i] = c35word(r)
		}
		if n > 0 && r.Intn(5) != 0 {
			parts[0] = r.Pick("read", "publish", "read", "publish", "Read", "readx")
		}
		s := strings.Join(parts, ":")
		if r.Intn(4) == 0 {
			s += "#feedbackplay"
		}
		return s
	case 2, 3, 4: // standard syntax
		n := r.Intn(6)
		kvs := make([]string, n)
		for i := range kvs {
			k := r.Pick("u", "r", "h", "s", "t", "m", "x", "", "rr")
			v := c35word(r)
			if k == "m" && r.Intn(5) != 0 {
				v = r.Pick("request", "publish", "request", "publish", "bidirectional")
			}
			switch r.Intn(16) {
			case 0:
				kvs[i] = k // no '='
			case 1:
				kvs[i] = k + "=" + v + "=" + c35word(r)
			default:
				kvs[i] = k + "=" + v
			}
		}
		return r.Pick("#!::", "#!::", "#!::", "#!:", "#!:::", "#!::,") + strings.Join(kvs, ",")
	case 5: // prefixes of the magic
		return "#!::"[:r.Intn(5)] + c35word(r)
	default:
		return string(r.Bytes(r.Intn(12)))
	}
}

func c35cred(r *verifutil.Rand) string {
	n := r.Intn(4)
	vals := make([]string, n)
	for i := range vals {
		switch r.Intn(8) {
		case 0:
			vals[i] = "Bearer " + c35word(r) + ":" + c35word(r)
		case 1:
			vals[i] = "Bearer " + c35word(r)
		case 2:
			vals[i] = "Bearer " + c35word(r) + ":" + c35word(r) + ":" + c35word(r)
		case 3:
			vals[i] = "Bearer"[:r.Intn(7)]
		case 4:
			vals[i] = "Basic dXNlcjpwYXNz"
		case 5:
			vals[i] = "Basic " + c35word(r)
		case 6:
			vals[i] = "bearer x:y"
		default:
			vals[i] = c35word(r)
		}
	}
	h := http.Header{}
	h["Authorization"] = vals
	bu, bp, _ := (&http.Request{Header: h}).BasicAuth()
	s := fmt.Sprintf("cred %d", n)
	for _, v := range vals {
		s += " " + verifutil.HexS(v)
	}
	return s + " " + verifutil.HexS(bu) + " " + verifutil.HexS(bp)
}

func c35seg(r *verifutil.Rand) string {
	if r.Intn(5) == 0 {
		return c35word(r)
	}
	return r.Pick("a", "live", "cam1", "my", "stream", "x.y", "%2f", "é", "..", ".")
}

func c35path(r *verifutil.Rand) string {
	switch r.Intn(24) {
	case 0:
		return ""
	case 1:
		return "/"
	case 2:
		return c35word(r) // no leading slash
	case 3:
		return "//" + c35word(r)
	case 4:
		return string(r.Bytes(r.Intn(6)))
	}
	n := 1 + r.Intn(3)
	s := ""
	for i := 0; i < n; i++ {
		s += "/" + c35seg(r)
	}
	switch r.Intn(8) {
	case 0, 1:
		s += "/"
	case 2, 3:
		s += r.Pick("/index.m3u8", "/index.m3u8", "/stream.m3u8", "/seg.mp4", "/part.mp", "/x.ts", "/hls.min.js", "/hls.min.js.map", ".m3u8", ".mp", ".ts", "/favicon.ico")
	case 4, 5, 6:
		s += r.Pick("/whip", "/whep", "/whip", "/whep", "/whip/", "/whep/"+uuid.New().String(), "/whip/"+uuid.New().String(),
			"/whip/notauuid", "/whep/a/b", "/publish", "/publish", "/publisher.js", "/reader.js", "/whipx", "/favicon.ico")
	}
	return s
}

func c35method(r *verifutil.Rand) string {
	if r.Intn(3) == 0 {
		return "GET"
	}
	return r.Pick("GET", "HEAD", "PUT", "POST", "OPTIONS", "PATCH", "DELETE", "TRACE")
}

func c35query(r *verifutil.Rand) string {
	return r.Pick("cookieCheck=1", "cookieCheck=1", "cookieCheck=1&a=b")
}

func c35name(r *verifutil.Rand) string {
	switch r.Intn(10) {
	case 0:
		return ""
	case 1:
		return "/" + c35seg(r)
	case 2:
		return c35seg(r) + "/"
	case 3:
		return c35word(r)
	case 4:
		return r.Pick(".", "..", "a/./b", "a/../b", "../a", "a/..", "a..b", ".a", "a/.b", "...")
	}
	n := 1 + r.Intn(3)
	parts := make([]string, n)
	for i := range parts {
		parts[i] = r.Pick("a", "live", "cam_1", "my-stream", "x.y", "A9", "..", ".", "é", "a b", "")
		if r.Intn(3) != 0 {
			parts[i] = r.Pick("a", "live", "cam_1", "my-stream", "x.y", "A9")
		}
	}
	return strings.Join(parts, "/")
}

func c35time(r *verifutil.Rand) string {
	return r.Pick("2024-01-02T03:04:05Z", "2024-01-02T03:04:05+02:00", "2024-01-02T03:04:05.123Z", "", "now", "2024-13-02T03:04:05Z",
		"2024-01-02 03:04:05", "1700000000", "2024-01-02T03:04:05", "9999-12-31T23:59:59Z", "0000-01-01T00:00:00Z")
}

func c35dur(r *verifutil.Rand) string {
	return r.Pick("10", "0.5", "1e3", "-5", "NaN", "Inf", "1e400", "10s", "1h2m", "", "abc", "5x", "9223372036854775807", "1e30", "0x10", "1_0")
}

func c35extra(r *verifutil.Rand) string {
	switch r.Intn(10) {
	case 8, 9:
		twcc := uint8(1 + r.Intn(14))
		raw := c35rtpPacket(r, twcc)
		if r.Intn(6) == 0 {
			twcc = 0 // transport-wide CC not negotiated
		}
		return fmt.Sprintf("twcc %d %s %s", twcc, verifutil.Hex(raw), c35rtpOracles(twcc, raw))
	case 7:
		p := c35path(r)
		if r.Intn(4) == 0 {
			p = r.Pick("", "/", "a", "//", "\x00", "/a/b?c", "*")
		}
		return "rtsp " + r.Pick("describe", "announce", "setup") + " " + verifutil.HexS(p)
	case 0:
		return "srtconn " + verifutil.HexS(c35srt(r))
	case 1:
		p := r.Pick("", "/", "//", "///a", "a") + c35name(r)
		if r.Intn(8) == 0 {
			p = r.Pick("", "/", "//")
		}
		q := r.Pick("", "user=u&pass=p", "user=a%20b", "pass=x&user=", "user=u;pass=p", "%zz", "user=%ff", "a=b&user=x&user=y")
		vals := (&url.URL{RawQuery: q}).Query()
		return fmt.Sprintf("rtmp %d %s %s %s %s", r.Intn(2), verifutil.HexS(p), verifutil.HexS(q),
			verifutil.HexS(vals.Get("user")), verifutil.HexS(vals.Get("pass")))
	case 2:
		n := c35name(r)
		return fmt.Sprintf("vname %s %s", verifutil.HexS(n), c35b01(conf.VerifC35RePathName(n)))
	case 3, 4:
		pa, st, du := c35name(r), c35time(r), c35dur(r)
		if r.Intn(3) != 0 {
			pa = r.Pick("a", "live/cam_1", "x.y")
		}
		fo := r.Pick("", "fmp4", "mp4", "mp4", "ts", "FMP4", "\x00")
		auth := 1
		if r.Intn(6) == 0 {
			auth = 0
		}
		return fmt.Sprintf("pbget %d %d %s %s %s %s %s %s %s", auth, r.Intn(2), verifutil.HexS(pa), verifutil.HexS(st), verifutil.HexS(du),
			verifutil.HexS(fo), c35b01(conf.VerifC35RePathName(pa)), c35b01(c35timeOk(st)), c35b01(c35durOk(du)))
	case 5:
		pa, st, en := c35name(r), c35time(r), c35time(r)
		if r.Intn(3) != 0 {
			pa = r.Pick("a", "live/cam_1", "x.y")
		}
		auth := 1
		if r.Intn(6) == 0 {
			auth = 0
		}
		conf01 := 1
		if r.Intn(4) == 0 {
			conf01 = 0
		}
		return fmt.Sprintf("pblist %d %d %s %s %s %s %s %s", auth, conf01, verifutil.HexS(pa), verifutil.HexS(st), verifutil.HexS(en),
			c35b01(conf.VerifC35RePathName(pa)), c35b01(c35timeOk(st)), c35b01(c35timeOk(en)))
	default:
		v := r.Pick("application/sdp", " application/sdp ; charset=utf-8", "application/trickle-ice-sdpfrag", ";", "", ";;", "\t a\r\n;b",
			"text/plain;", " ", "a;b;c")
		if r.Intn(3) == 0 {
			b := r.Bytes(r.Intn(8))
			for i := range b {
				b[i] &= 0x7f
			}
			v = string(b)
		}
		return "ctype " + verifutil.HexS(v)
	}
}

// raw HTTP/1.x requests as a hostile client writes them
func c35rawHTTP(r *verifutil.Rand, fe string) []byte {
	target := c35path(r)
	switch fe {
	case "api":
		target = r.Pick("/v3/paths/list", "/v3/config/paths/get/a", "/v3/paths/get/", "/v3/config/global/patch", "/v3/info", "/v3/rtspconns/get/x", "/v3", "/")
	case "playback":
		target = r.Pick("/list?path=a", "/get?path=a&start=2024-01-02T03:04:05Z&duration=10", "/get?path=/&start=x", "/list", "/get?path=a%2f..&duration=1e400", "/")
	case "metrics":
		target = r.Pick("/metrics", "/metrics?type=paths", "/metrics?path=a", "/", "/x")
	case "pprof":
		target = r.Pick("/debug/pprof/", "/debug/pprof/heap?debug=1", "/debug/pprof/cmdline", "/", "/debug/pprof/profile?seconds=-1")
	case "webrtc":
		if r.Bool() {
			target = r.Pick("/a/whip", "/a/whep", "/a/whip/"+uuid.New().String(), "/a/publish", "/a/")
		}
	}
	switch r.Intn(12) {
	case 0:
		target = "http://127.0.0.1" + target // absolute-form
	case 1:
		target = "http://127.0.0.1" // absolute-form without a path
	case 2:
		target = "*"
	case 3:
		target = "127.0.0.1:80" // authority-form
	}
	method := r.Pick("GET", "GET", "POST", "POST", "OPTIONS", "PATCH", "DELETE", "HEAD", "PUT", "TRACE", "CONNECT", "FOO", "get", "PRI")
	version := r.Pick("HTTP/1.1", "HTTP/1.1", "HTTP/1.1", "HTTP/1.1", "HTTP/1.1", "HTTP/1.0", "HTTP/1.0", "HTTP/2.0", "HTTP/0.9")
	body := r.Bytes(r.Intn(40))
	if r.Intn(4) == 0 {
		body = []byte("v=0\r\no=- 0 0 IN IP4 0.0.0.0\r\ns=-\r\nt=0 0\r\n")
	}
	var b bytes.Buffer
	fmt.Fprintf(&b, "%s %s %s\r\n", method, target, version)
	if r.Intn(8) != 0 {
		b.WriteString("Host: 127.0.0.1\r\n")
	}
	if r.Intn(3) == 0 {
		b.WriteString("Content-Type: " + r.Pick("application/sdp", "application/trickle-ice-sdpfrag", "text/plain", ";") + "\r\n")
	}
	if r.Intn(4) == 0 {
		b.WriteString("Authorization: " + r.Pick("Bearer a:b", "Bearer x", "Basic dXNlcjpwYXNz", "Bearer") + "\r\n")
	}
	if r.Intn(6) == 0 {
		b.WriteString("Expect: 100-continue\r\n")
	}
	if r.Intn(5) == 0 {
		b.WriteString("Access-Control-Request-Method: POST\r\nOrigin: http://x\r\n")
	}
	chunked := func() {
		b.WriteString("\r\n")
		switch r.Intn(4) {
		case 0: // well-formed chunks
			fmt.Fprintf(&b, "%x\r\n%s\r\n0\r\n\r\n", len(body), body)
		case 1: // no terminating chunk
			fmt.Fprintf(&b, "%x\r\n%s\r\n", len(body), body)
		case 2: // chunk size larger than the data
			fmt.Fprintf(&b, "%x\r\n%s", len(body)+100, body)
		default: // garbage chunk header
			b.WriteString("zz\r\n")
			b.Write(body)
		}
	}
	switch r.Intn(10) {
	case 0, 1, 2: // undeclared length: chunked
		b.WriteString("Transfer-Encoding: chunked\r\n")
		chunked()
	case 3: // declared, exact
		fmt.Fprintf(&b, "Content-Length: %d\r\n\r\n", len(body))
		b.Write(body)
	case 4: // declared but short
		fmt.Fprintf(&b, "Content-Length: %d\r\n\r\n", len(body)+1+r.Intn(100000))
		b.Write(body)
	case 5: // huge / odd declared lengths
		b.WriteString("Content-Length: " + r.Pick("9223372036854775807", "18446744073709551616", "-1", "+5", "0x10", "1e3", "") + "\r\n\r\n")
		b.Write(body)
	case 6: // both
		fmt.Fprintf(&b, "Content-Length: %d\r\nTransfer-Encoding: chunked\r\n", len(body))
		chunked()
	case 7: // duplicated content-length
		fmt.Fprintf(&b, "Content-Length: %d\r\nContent-Length: %d\r\n\r\n", len(body), len(body)+r.Intn(2))
		b.Write(body)
	case 8: // body without any declaration (HTTP/1.0 style, until close)
		b.WriteString("\r\n")
		b.Write(body)
	default: // no body
		b.WriteString("\r\n")
	}
	out := b.Bytes()
	if r.Intn(15) == 0 {
		out = out[:r.Intn(len(out)+1)] // truncated request
	}
	return out
}

func c35httpOp(r *verifutil.Rand) string {
	fe := c35frontEnds[r.Intn(len(c35frontEnds))]
	return "http " + fe + " " + verifutil.Hex(c35rawHTTP(r, fe))
}

func c35moqSetupBytes(r *verifutil.Rand, version string, quic bool, bidi bool) []byte {
	opts := controlmessage.Setup{}
	if quic || r.Intn(6) == 0 {
		opts.Path = "/" + r.Pick("teststream", "a", "a?x=y", "")
	}
	switch {
	case r.Intn(8) == 0:
		return c35moqMsg(r)
	case version == "moqt-16" || r.Intn(6) == 0:
		if bidi || r.Bool() {
			return controlmessage.ClientSetup(opts).Marshal()
		}
		return controlmessage.ServerSetup(opts).Marshal()
	default:
		return opts.Marshal()
	}
}

// c35moqRequestHistory: the setup exchange completes, then 1-2 request streams carry structurally valid
// SUBSCRIBE / PUBLISH / *_OK messages with hostile parameter blocks (what a client can send before it is
// authenticated), in fragments, for every draft and both transports.
func c35moqRequestHistory(r *verifutil.Rand) []string {
	version := r.Pick("moqt-16", "moqt-17", "moqt-18", "moqt-19")
	quic := r.Intn(3) == 0
	tr := "wt"
	opts := controlmessage.Setup{}
	if quic {
		tr = "quic"
		opts.Path = "/teststream"
	}
	ops := []string{"reset", "mq open " + version + " " + tr}
	if version == "moqt-16" {
		ops = append(ops, "mq bidi 0", "mq w 0 "+verifutil.Hex(controlmessage.ClientSetup(opts).Marshal()))
	} else {
		ops = append(ops, "mq uni 0", "mq w 0 "+verifutil.Hex(opts.Marshal()))
	}
	for id := 1; id <= 1+r.Intn(2); id++ {
		ops = append(ops, fmt.Sprintf("mq bidi %d", id))
		data := c35moqParamMsg(r)
		if r.Bool() && len(data) > 4 {
			c := 1 + r.Intn(len(data)-1)
			ops = append(ops, fmt.Sprintf("mq w %d %s", id, verifutil.Hex(data[:c])), fmt.Sprintf("mq w %d %s", id, verifutil.Hex(data[c:])))
		} else {
			ops = append(ops, fmt.Sprintf("mq w %d %s", id, verifutil.Hex(data)))
		}
		if r.Intn(3) == 0 {
			ops = append(ops, fmt.Sprintf("mq fin %d", id))
		}
	}
	return append(ops, "mq state")
}

// c35moqHistory: one session, several client streams whose messages are cut into fragments and
// interleaved in random order (partial writes, completion in either order, early FIN).
func c35moqHistory(r *verifutil.Rand) []string {
	version := r.Pick("moqt-16", "moqt-16", "moqt-17", "moqt-18", "moqt-19")
	quic := r.Intn(3) == 0
	tr := "wt"
	if quic {
		tr = "quic"
	}
	ops := []string{"reset", "mq open " + version + " " + tr}
	n := 1 + r.Intn(3)
	type frag struct {
		id   int
		data []byte
		fin  bool
	}
	queues := make([][]frag, n)
	opened := make([]bool, n)
	kinds := make([]string, n)
	for id := 0; id < n; id++ {
		bidi := r.Intn(3) != 0
		kinds[id] = "uni"
		if bidi {
			kinds[id] = "bidi"
		}
		var data []byte
		switch r.Intn(5) {
		case 0, 1, 2:
			data = c35moqSetupBytes(r, version, quic, bidi)
		case 3:
			data = append(c35moqSetupBytes(r, version, quic, bidi), c35moqMsg(r)...)
		default:
			if bidi {
				data = c35moqMsg(r)
			} else {
				data = c35moqSG(r)
			}
		}
		if len(data) == 0 {
			data = []byte{0x20}
		}
		// cut into 1..3 fragments; the first is often the single first byte
		cuts := []int{}
		if len(data) > 1 && r.Intn(3) != 0 {
			cuts = append(cuts, 1)
		}
		if len(data) > 3 && r.Bool() {
			cuts = append(cuts, 2+r.Intn(len(data)-2))
		}
		prev := 0
		for _, c := range cuts {
			if c > prev {
				queues[id] = append(queues[id], frag{id, data[prev:c], false})
				prev = c
			}
		}
		queues[id] = append(queues[id], frag{id, data[prev:], false})
		if r.Intn(4) == 0 {
			queues[id] = append(queues[id], frag{id, nil, true})
		}
	}
	// streams are opened either all up front (so that the server accepts them before any byte) or lazily
	upfront := r.Bool()
	if upfront {
		for id := 0; id < n; id++ {
			ops = append(ops, fmt.Sprintf("mq %s %d", kinds[id], id))
			opened[id] = true
		}
	}
	for {
		var live []int
		for id := range queues {
			if len(queues[id]) > 0 {
				live = append(live, id)
			}
		}
		if len(live) == 0 {
			break
		}
		id := live[r.Intn(len(live))]
		if !opened[id] {
			ops = append(ops, fmt.Sprintf("mq %s %d", kinds[id], id))
			opened[id] = true
		}
		fr := queues[id][0]
		queues[id] = queues[id][1:]
		if fr.fin {
			ops = append(ops, fmt.Sprintf("mq fin %d", id))
		} else {
			ops = append(ops, fmt.Sprintf("mq w %d %s", id, verifutil.Hex(fr.data)))
		}
	}
	return append(ops, "mq state")
}

func verifC35Gen(r *verifutil.Rand, i int, thorough bool) []string {
	k := 24
	if thorough {
		k = 96 // the socket / session ops are slow: keep the thorough tier within its budget
	}
	switch r.Intn(k) {
	case 0:
		if r.Bool() {
			return c35moqRequestHistory(r)
		}
		return c35moqHistory(r)
	case 1, 2:
		if r.Intn(5) == 0 {
			cl := r.Pick("-1", "0", "5", "10240", "10241", "9223372036854775807", "-9223372036854775808", "1")
			body := r.Pick("-", "68656c6c6f", "z10239", "z10240", "z10241", "z10242", "z30000", "z1")
			return []string{"reset", "dump " + cl + " " + body}
		}
		return []string{"reset", c35httpOp(r)}
	}
	var op string
	switch r.Intn(13) {
	case 10, 11, 12:
		op = c35extra(r)
	case 8:
		op = "moq msg " + verifutil.Hex(c35moqMsg(r))
	case 9:
		if r.Intn(3) == 0 {
			op = "moq sg " + verifutil.Hex(c35moqSG(r))
		} else {
			op = "moq msg " + verifutil.Hex(c35moqMsg(r))
		}
	case 0, 1:
		op = "srt " + verifutil.HexS(c35srt(r))
	case 2:
		op = c35cred(r)
	case 3, 4:
		p := c35path(r)
		m := "GET"
		if r.Intn(8) == 0 {
			m = c35method(r)
		}
		op = fmt.Sprintf("hls %s %s %s %s", m, verifutil.HexS(p), verifutil.HexS(c35query(r)), c35hlsOracles(p))
	case 5, 6:
		p := c35path(r)
		m := "GET"
		switch {
		case r.Intn(8) == 0:
			m = c35method(r)
		case strings.HasSuffix(p, "/whip") || strings.HasSuffix(p, "/whep"):
			m = r.Pick("OPTIONS", "POST", "OPTIONS", "POST", "GET", "HEAD", "PUT", "PATCH")
		case strings.Contains(p, "/whip/") || strings.Contains(p, "/whep/"):
			m = r.Pick("PATCH", "DELETE", "PATCH", "DELETE", "GET", "POST")
		}
		op = fmt.Sprintf("rtc %s %s %s %s", m, verifutil.HexS(p), verifutil.HexS(r.Pick("", "a=b")), c35rtcOracles(p))
	default:
		switch r.Intn(3) {
		case 0:
			op = "pname " + verifutil.HexS(c35path(r))
		case 1:
			op = "filter " + verifutil.HexS(c35path(r))
		default:
			num := func() string {
				return r.Pick("", "0", "1", "7", "100", "2147483647", "2147483648", "-1", "x", "00", "1e3", fmt.Sprint(r.Intn(50)))
			}
			op = fmt.Sprintf("pg %d %s %s", r.Intn(60), verifutil.HexS(num()), verifutil.HexS(num()))
		}
	}
	return []string{"reset", op}
}

func verifC35Class(op, impl string) string {
	f := strings.Fields(op)
	if f[0] == "ctype" {
		return "ctype=ok"
	}
	a := impl
	if i := strings.IndexByte(impl, ' '); i >= 0 {
		a = impl[:i]
	}
	return f[0] + "=" + a
}

func TestVerifC35(t *testing.T) {
	_ = url.URL{}
	out := os.Getenv("VERIF_OUT")
	if out == "" {
		t.Skip("VERIF_OUT not set")
	}
	h := &verifutil.Harness{
		ID: "C35", Exec: verifC35Exec, Gen: verifC35Gen, Quick: 4000, Thorough: 120000,
		Class:      verifC35Class,
		NonTrivial: func(op, impl string) bool { return op != "reset" },
	}
	curPath := filepath.Join(out, "current-history")
	if os.Getenv("VERIF_C35_CHILD") == "1" {
		c35cur, _ = os.Create(curPath)
		verifutil.Main(t, h)
		return
	}
	// the property is about the process staying alive: the real harness runs in a child process; if it
	// dies (os.Exit(1) in handlerExitOnPanic, unrecovered panic in a connection / session goroutine) the
	// history of the current case becomes the failing input
	os.Remove(curPath) //nolint:errcheck
	cmd := exec.Command(os.Args[0], "-test.run", "^TestVerifC35$", "-test.count=1", "-test.timeout", "3000s")
	cmd.Env = append(os.Environ(), "VERIF_C35_CHILD=1")
	outb, err := cmd.CombinedOutput()
	if _, serr := os.Stat(filepath.Join(out, "stats.json")); err == nil && serr == nil {
		return
	}
	cur, rerr := os.ReadFile(curPath)
	if rerr != nil || len(cur) == 0 {
		t.Fatalf("harness child failed before any op: %v\n%s", err, outb)
	}
	reason := "process exited"
	for _, l := range strings.Split(string(outb), "\n") {
		if strings.HasPrefix(l, "fatal error:") || strings.HasPrefix(l, "panic:") {
			reason = strings.TrimSpace(l)
			break
		}
	}
	lines := strings.Split(strings.TrimRight(string(cur), "\n"), "\n")
	impl := make([]string, len(lines))
	for i := range impl {
		impl[i] = "ok"
	}
	impl[len(impl)-1] = "panic process died: " + reason
	os.WriteFile(filepath.Join(out, "ops.txt"), []byte(strings.Join(lines, "\n")+"\n"), 0o644)  //nolint:errcheck
	os.WriteFile(filepath.Join(out, "impl.out"), []byte(strings.Join(impl, "\n")+"\n"), 0o644) //nolint:errcheck
	os.WriteFile(filepath.Join(out, "stats.json"), []byte(`{"evaluations":1,"distinct_nontrivial":1,"cases":1,"panics":1,`+
		`"distribution":{"process-died":1},"samples":[]}`), 0o644) //nolint:errcheck
}
