//go:build verif

package api

import (
	"fmt"
	"net/http"
	"net/url"
	"path"
	"strings"
	"testing"

	"github.com/gin-gonic/gin"
	"github.com/google/uuid"

	"github.com/bluenviron/mediamtx/internal/protocols/httpp"
	"github.com/bluenviron/mediamtx/internal/servers/hls"
	"github.com/bluenviron/mediamtx/internal/servers/srt"
	"github.com/bluenviron/mediamtx/internal/servers/webrtc"
	"github.com/bluenviron/mediamtx/internal/verifutil"
)

func c35b01(b bool) string {
	if b {
		return "1"
	}
	return "0"
}

func c35groups(m []string) string {
	if m == nil {
		return "n"
	}
	parts := make([]string, len(m)-1)
	for i, g := range m[1:] {
		parts[i] = verifutil.HexS(g)
	}
	return strings.Join(parts, ",")
}

// oracle columns for an HTTP path: path.Dir / path.Base of path[1:], path.Clean of the path
func c35hlsOracles(p string) string {
	pa := ""
	if len(p) >= 1 {
		pa = p[1:]
	}
	return verifutil.HexS(path.Dir(pa)) + " " + verifutil.HexS(path.Base(pa)) + " " + verifutil.HexS(path.Clean(p))
}

func c35rtcOracles(p string) string {
	m1, m2 := webrtc.VerifC35Regexps(p)
	u := "0"
	if m2 != nil {
		if _, err := uuid.Parse(m2[3]); err == nil {
			u = "1"
		}
	}
	return c35groups(m1) + " " + c35groups(m2) + " " + u + " " + verifutil.HexS(path.Clean(p))
}

func verifC35Exec(op string) string {
	f := strings.Fields(op)
	switch f[0] {
	case "reset":
		return "ok"
	case "srt":
		ok, pub, pa, q, u, pw := srt.VerifC35StreamID(verifutil.UnHexS(f[1]))
		if !ok {
			return "err"
		}
		return fmt.Sprintf("ok %s %s %s %s %s", c35b01(pub), verifutil.HexS(pa), verifutil.HexS(q), verifutil.HexS(u), verifutil.HexS(pw))
	case "cred":
		n := verifutil.Atoi(f[1])
		h := http.Header{}
		for i := 0; i < n; i++ {
			h["Authorization"] = append(h["Authorization"], verifutil.UnHexS(f[2+i]))
		}
		req := &http.Request{Header: h}
		bu, bp, _ := req.BasicAuth()
		if verifutil.HexS(bu) != f[2+n] || verifutil.HexS(bp) != f[3+n] {
			return "bad-oracle"
		}
		c := httpp.Credentials(req)
		return fmt.Sprintf("ok %s %s %s", verifutil.HexS(c.User), verifutil.HexS(c.Pass), verifutil.HexS(c.Token))
	case "filter":
		if httpp.VerifC35Filter(verifutil.UnHexS(f[1])) {
			return "pass"
		}
		return "reject"
	case "hls":
		p := verifutil.UnHexS(f[2])
		if c35hlsOracles(p) != strings.Join(f[4:7], " ") {
			return "bad-oracle"
		}
		// the handler chain of httpp.Server: the filter runs first
		if !httpp.VerifC35Filter(p) {
			return "reject"
		}
		kind, arg := hls.VerifC35Route(f[1], p, verifutil.UnHexS(f[3]))
		if arg == "" && (kind == "none" || kind == "js") {
			return kind
		}
		return kind + " " + verifutil.HexS(arg)
	case "hlsraw": // the router WITHOUT the filter (what would happen if the filter were removed)
		kind, arg := hls.VerifC35Route(f[1], verifutil.UnHexS(f[2]), "")
		return kind + " " + verifutil.HexS(arg)
	case "rtc":
		p := verifutil.UnHexS(f[2])
		if c35rtcOracles(p) != strings.Join(f[4:8], " ") {
			return "bad-oracle"
		}
		if !httpp.VerifC35Filter(p) {
			return "reject"
		}
		kind, arg := webrtc.VerifC35Route(f[1], p, verifutil.UnHexS(f[3]))
		switch kind {
		case "auth":
			return "auth " + arg[:1] + " " + verifutil.HexS(arg[2:])
		case "redirect":
			return "redirect " + verifutil.HexS(arg)
		case "other":
			return "other " + verifutil.HexS(arg)
		}
		return kind
	case "pname":
		ctx := &gin.Context{Params: gin.Params{{Key: "name", Value: verifutil.UnHexS(f[1])}}}
		name, ok := paramName(ctx)
		if !ok {
			return "no"
		}
		return "ok " + verifutil.HexS(name)
	case "pg":
		n := verifutil.Atoi(f[1])
		items := make([]int, n)
		for i := range items {
			items[i] = i
		}
		pc, err := paginate(&items, verifutil.UnHexS(f[2]), verifutil.UnHexS(f[3]))
		if err != nil {
			return "err"
		}
		first := 0
		if len(items) > 0 {
			first = items[0]
		}
		return fmt.Sprintf("ok %d %d %d", pc, first, len(items))
	}
	return "bad-op"
}

// ---------- generator ----------

var c35words = []string{"", "a", "live", "cam1", "my/stream", "read", "publish", "request", "u", "p", "x y", "é", "\x00", "%2f", "..", ".", "index.m3u8", "seg1.mp4", "part0.mp", "a.ts", "hls.min.js", "hls.min.js.map", "favicon.ico", "whip", "whep", "publisher.js", "reader.js", "#feedbackplay", "Bearer ", "Basic "}

func c35word(r *verifutil.Rand) string {
	if r.Intn(6) == 0 {
		return string(r.Bytes(r.Intn(5)))
	}
	return c35words[r.Intn(len(c35words))]
}

func c35srt(r *verifutil.Rand) string {
	switch r.Intn(7) {
	case 0, 1: // legacy syntax, 0..7 parts
		n := r.Intn(8)
		if r.Intn(3) != 0 {
			n = 2 + r.Intn(4)
		}
		parts := make([]string, n)
		for i := range parts {
			parts[i] = c35word(r)
		}
		if n > 0 && r.Intn(5) != 0 {
			parts[0] = r.Pick("read", "publish", "read", "publish", "Read", "readx")
		}
		s := strings.Join(parts, ":")
		if r.Intn(4) == 0 {
			s += "#feedbackplay"
		}
		return s
	case 2, 3, 4: // standard syntax
		n := r.Intn(6)
		kvs := make([]string, n)
		for i := range kvs {
			k := r.Pick("u", "r", "h", "s", "t", "m", "x", "", "rr")
			v := c35word(r)
			if k == "m" && r.Intn(5) != 0 {
				v = r.Pick("request", "publish", "request", "publish", "bidirectional")
			}
			switch r.Intn(16) {
			case 0:
				kvs[i] = k // no '='
			case 1:
				kvs[i] = k + "=" + v + "=" + c35word(r)
			default:
				kvs[i] = k + "=" + v
			}
		}
		return r.Pick("#!::", "#!::", "#!::", "#!:", "#!:::", "#!::,") + strings.Join(kvs, ",")
	case 5: // prefixes of the magic
		return "#!::"[:r.Intn(5)] + c35word(r)
	default:
		return string(r.Bytes(r.Intn(12)))
	}
}

func c35cred(r *verifutil.Rand) string {
	n := r.Intn(4)
	vals := make([]string, n)
	for i := range vals {
		switch r.Intn(8) {
		case 0:
			vals[i] = "Bearer " + c35word(r) + ":" + c35word(r)
		case 1:
			vals[i] = "Bearer " + c35word(r)
		case 2:
			vals[i] = "Bearer " + c35word(r) + ":" + c35word(r) + ":" + c35word(r)
		case 3:
			vals[i] = "Bearer"[:r.Intn(7)]
		case 4:
			vals[i] = "Basic dXNlcjpwYXNz"
		case 5:
			vals[i] = "Basic " + c35word(r)
		case 6:
			vals[i] = "bearer x:y"
		default:
			vals[i] = c35word(r)
		}
	}
	h := http.Header{}
	h["Authorization"] = vals
	bu, bp, _ := (&http.Request{Header: h}).BasicAuth()
	s := fmt.Sprintf("cred %d", n)
	for _, v := range vals {
		s += " " + verifutil.HexS(v)
	}
	return s + " " + verifutil.HexS(bu) + " " + verifutil.HexS(bp)
}

func c35seg(r *verifutil.Rand) string {
	if r.Intn(5) == 0 {
		return c35word(r)
	}
	return r.Pick("a", "live", "cam1", "my", "stream", "x.y", "%2f", "é", "..", ".")
}

func c35path(r *verifutil.Rand) string {
	switch r.Intn(24) {
	case 0:
		return ""
	case 1:
		return "/"
	case 2:
		return c35word(r) // no leading slash
	case 3:
		return "//" + c35word(r)
	case 4:
		return string(r.Bytes(r.Intn(6)))
	}
	n := 1 + r.Intn(3)
	s := ""
	for i := 0; i < n; i++ {
		s += "/" + c35seg(r)
	}
	switch r.Intn(8) {
	case 0, 1:
		s += "/"
	case 2, 3:
		s += r.Pick("/index.m3u8", "/index.m3u8", "/stream.m3u8", "/seg.mp4", "/part.mp", "/x.ts", "/hls.min.js", "/hls.min.js.map", ".m3u8", ".mp", ".ts", "/favicon.ico")
	case 4, 5, 6:
		s += r.Pick("/whip", "/whep", "/whip", "/whep", "/whip/", "/whep/"+uuid.New().String(), "/whip/"+uuid.New().String(),
			"/whip/notauuid", "/whep/a/b", "/publish", "/publish", "/publisher.js", "/reader.js", "/whipx", "/favicon.ico")
	}
	return s
}

func c35method(r *verifutil.Rand) string {
	if r.Intn(3) == 0 {
		return "GET"
	}
	return r.Pick("GET", "HEAD", "PUT", "POST", "OPTIONS", "PATCH", "DELETE", "TRACE")
}

func c35query(r *verifutil.Rand) string {
	return r.Pick("cookieCheck=1", "cookieCheck=1", "cookieCheck=1&a=b")
}

func verifC35Gen(r *verifutil.Rand, i int, thorough bool) []string {
	var op string
	switch r.Intn(8) {
	case 0, 1:
		op = "srt " + verifutil.HexS(c35srt(r))
	case 2:
		op = c35cred(r)
	case 3, 4:
		p := c35path(r)
		m := "GET"
		if r.Intn(8) == 0 {
			m = c35method(r)
		}
		op = fmt.Sprintf("hls %s %s %s %s", m, verifutil.HexS(p), verifutil.HexS(c35query(r)), c35hlsOracles(p))
	case 5, 6:
		p := c35path(r)
		m := "GET"
		switch {
		case r.Intn(8) == 0:
			m = c35method(r)
		case strings.HasSuffix(p, "/whip") || strings.HasSuffix(p, "/whep"):
			m = r.Pick("OPTIONS", "POST", "OPTIONS", "POST", "GET", "HEAD", "PUT", "PATCH")
		case strings.Contains(p, "/whip/") || strings.Contains(p, "/whep/"):
			m = r.Pick("PATCH", "DELETE", "PATCH", "DELETE", "GET", "POST")
		}
		op = fmt.Sprintf("rtc %s %s %s %s", m, verifutil.HexS(p), verifutil.HexS(r.Pick("", "a=b")), c35rtcOracles(p))
	default:
		switch r.Intn(3) {
		case 0:
			op = "pname " + verifutil.HexS(c35path(r))
		case 1:
			op = "filter " + verifutil.HexS(c35path(r))
		default:
			num := func() string {
				return r.Pick("", "0", "1", "7", "100", "2147483647", "2147483648", "-1", "x", "00", "1e3", fmt.Sprint(r.Intn(50)))
			}
			op = fmt.Sprintf("pg %d %s %s", r.Intn(60), verifutil.HexS(num()), verifutil.HexS(num()))
		}
	}
	return []string{"reset", op}
}

func verifC35Class(op, impl string) string {
	f := strings.Fields(op)
	a := impl
	if i := strings.IndexByte(impl, ' '); i >= 0 {
		a = impl[:i]
	}
	return f[0] + "=" + a
}

func TestVerifC35(t *testing.T) {
	_ = url.URL{}
	verifutil.Main(t, &verifutil.Harness{
		ID: "C35", Exec: verifC35Exec, Gen: verifC35Gen, Quick: 5000, Thorough: 150000,
		Class:      verifC35Class,
		NonTrivial: func(op, impl string) bool { return op != "reset" },
	})
}
