//go:build verif

package playback

import (
	"net/http"
	"net/http/httptest"
	"net/url"
	"regexp"
	"strings"

	"github.com/gin-gonic/gin"

	"github.com/bluenviron/mediamtx/internal/auth"
	"github.com/bluenviron/mediamtx/internal/conf"
	"github.com/bluenviron/mediamtx/internal/test"
)

type verifC35Auth struct{ ok bool }

func (a *verifC35Auth) Authenticate(*auth.Request) (string, *auth.Error) {
	if a.ok {
		return "", nil
	}
	return "", &auth.Error{AskCredentials: true}
}

// VerifC35Request drives the real onGet / onList and classifies where the handler stopped:
// badpath, unauthorized, badstart, badend, badduration, badformat, noconf, proceed.
func VerifC35Request(list bool, rawQuery string, authOk bool, withConf bool) string {
	gin.SetMode(gin.ReleaseMode)
	s := &Server{AuthManager: &verifC35Auth{ok: authOk}, Parent: test.NilLogger}
	if withConf {
		s.PathConfs = map[string]*conf.Path{"all_others": {
			Name: "all_others", Regexp: regexp.MustCompile("^.*$"),
			RecordPath: "/nonexistent-verif/%path/%Y-%m-%d_%H-%M-%S-%f", RecordFormat: conf.RecordFormatFMP4,
		}}
	}
	rec := httptest.NewRecorder()
	gctx, _ := gin.CreateTestContext(rec)
	gctx.Request = &http.Request{
		Method: http.MethodGet, URL: &url.URL{Path: "/get", RawQuery: rawQuery},
		Header: http.Header{}, RemoteAddr: "127.0.0.1:5000",
	}
	if list {
		s.onList(gctx)
	} else {
		s.onGet(gctx)
	}
	body := rec.Body.String()
	code := gctx.Writer.Status()
	is := func(prefix string) bool { return strings.Contains(body, `"error":"`+prefix) }
	switch {
	case code == http.StatusBadRequest && is("invalid path name"):
		return "badpath"
	case code == http.StatusUnauthorized:
		return "unauthorized"
	case code == http.StatusBadRequest && is("invalid start"):
		return "badstart"
	case code == http.StatusBadRequest && is("invalid end"):
		return "badend"
	case code == http.StatusBadRequest && is("invalid duration"):
		return "badduration"
	case code == http.StatusBadRequest && is("invalid format"):
		return "badformat"
	case code == http.StatusBadRequest && is("path '"):
		return "noconf"
	}
	return "proceed"
}
