//go:build verif

package hls

import (
	"context"
	"time"

	"github.com/bluenviron/mediamtx/internal/conf"
	"github.com/bluenviron/mediamtx/internal/test"
)

// VerifC35Listen starts the REAL HLS HTTP front end (gin router inside httpp.Server) on addr.
func VerifC35Listen(addr string) error {
	ctx, cancel := context.WithCancel(context.Background())
	cancel()
	srv := &Server{Parent: test.NilLogger, ctx: ctx}
	s := &httpServer{
		address: addr, readTimeout: conf.Duration(2 * time.Second), writeTimeout: conf.Duration(2 * time.Second),
		pathManager: &verifC35PM{}, parent: srv,
	}
	return s.initialize()
}
