//go:build verif

package moq

import (
	"context"
	"fmt"
	"io"
	"net"
	"runtime"
	"sync"
	"time"

	"github.com/bluenviron/mediamtx/internal/defs"
	"github.com/bluenviron/mediamtx/internal/logger"
)

// in-memory QUIC/WebTransport connection: streams are byte queues filled fragment by fragment by the
// harness, so that several streams can be interleaved at message-fragment granularity.

type verifC35Stream struct {
	mu     sync.Mutex
	cond   *sync.Cond
	buf    []byte
	fin    bool
	wrote  int // bytes written by the server
	closed bool
}

func newVerifC35Stream() *verifC35Stream {
	s := &verifC35Stream{}
	s.cond = sync.NewCond(&s.mu)
	return s
}

func (s *verifC35Stream) Read(p []byte) (int, error) {
	s.mu.Lock()
	defer s.mu.Unlock()
	for len(s.buf) == 0 && !s.fin {
		s.cond.Wait()
	}
	if len(s.buf) == 0 {
		return 0, io.EOF
	}
	n := copy(p, s.buf)
	s.buf = s.buf[n:]
	return n, nil
}

func (s *verifC35Stream) Write(p []byte) (int, error) {
	s.mu.Lock()
	defer s.mu.Unlock()
	s.wrote += len(p)
	return len(p), nil
}

func (s *verifC35Stream) Close() error {
	s.mu.Lock()
	s.closed = true
	s.mu.Unlock()
	return nil
}

func (s *verifC35Stream) push(b []byte, fin bool) {
	s.mu.Lock()
	s.buf = append(s.buf, b...)
	if fin {
		s.fin = true
	}
	s.mu.Unlock()
	s.cond.Broadcast()
}

func (s *verifC35Stream) pending() int {
	s.mu.Lock()
	defer s.mu.Unlock()
	return len(s.buf)
}

type verifC35Conn struct {
	quic      bool
	bidi      chan *verifC35Stream
	uni       chan *verifC35Stream
	closed    chan struct{}
	closeOnce sync.Once
	mu        sync.Mutex
	streams   []*verifC35Stream
}

func (c *verifC35Conn) RemoteAddr() net.Addr { return &net.UDPAddr{IP: net.IPv4(127, 0, 0, 1), Port: 9} }

func (c *verifC35Conn) OpenUniStreamSync(context.Context) (io.WriteCloser, error) {
	return newVerifC35Stream(), nil
}

func (c *verifC35Conn) OpenStreamSync(context.Context) (io.ReadWriteCloser, error) {
	return nil, fmt.Errorf("not supported")
}

func (c *verifC35Conn) track(st *verifC35Stream) {
	c.mu.Lock()
	c.streams = append(c.streams, st)
	c.mu.Unlock()
}

func (c *verifC35Conn) AcceptUniStream(context.Context) (io.Reader, error) {
	select {
	case st := <-c.uni:
		return st, nil
	case <-c.closed:
		return nil, fmt.Errorf("closed")
	}
}

func (c *verifC35Conn) AcceptStream(context.Context) (io.ReadWriteCloser, error) {
	select {
	case st := <-c.bidi:
		return st, nil
	case <-c.closed:
		return nil, fmt.Errorf("closed")
	}
}

func (c *verifC35Conn) CloseWithError(uint64, string) error {
	c.closeOnce.Do(func() {
		close(c.closed)
		c.mu.Lock()
		for _, st := range c.streams {
			st.push(nil, true)
		}
		c.mu.Unlock()
	})
	return nil
}

func (c *verifC35Conn) Transport() defs.APIMoQSessionTransport {
	if c.quic {
		return defs.APIMoQSessionTransportQUIC
	}
	return defs.APIMoQSessionTransportWebTransport
}

type verifC35Parent struct{}

func (verifC35Parent) closeSession(*session)                {}
func (verifC35Parent) Log(logger.Level, string, ...any) {}

type verifC35PM struct{}

func (verifC35PM) FindPathConf(defs.PathFindPathConfReq) (*defs.PathFindPathConfRes, error) {
	return nil, fmt.Errorf("verif")
}

func (verifC35PM) AddReader(defs.PathAddReaderReq) (*defs.PathAddReaderRes, error) {
	return nil, fmt.Errorf("verif")
}

func (verifC35PM) AddPublisher(defs.PathAddPublisherReq) (*defs.PathAddPublisherRes, error) {
	return nil, fmt.Errorf("verif")
}

var verifC35 struct {
	conn    *verifC35Conn
	sx      *session
	wg      *sync.WaitGroup
	streams map[int]*verifC35Stream
}

// VerifC35Close tears the current session down (if any) and waits for its goroutines.
func VerifC35Close() {
	if verifC35.sx == nil {
		return
	}
	verifC35.sx.Close()
	select {
	case <-verifC35.sx.done:
	case <-time.After(2 * time.Second):
	}
	verifC35.sx = nil
	verifC35.conn = nil
}

// VerifC35Open starts a REAL session (as Server.newSession does after the QUIC / WebTransport
// handshake) on an in-memory connection.
func VerifC35Open(version string, quic bool) {
	VerifC35Close()
	c := &verifC35Conn{quic: quic, bidi: make(chan *verifC35Stream, 16), uni: make(chan *verifC35Stream, 16), closed: make(chan struct{})}
	wg := &sync.WaitGroup{}
	sx := &session{
		conn:        c,
		wg:          wg,
		transport:   c.Transport(),
		version:     defs.APIMoQVersion(version),
		pathManager: verifC35PM{},
		parent:      verifC35Parent{},
	}
	if !quic {
		sx.pathName = "teststream"
	}
	verifC35.conn, verifC35.sx, verifC35.wg = c, sx, wg
	verifC35.streams = map[int]*verifC35Stream{}
	sx.initialize()
	VerifC35Quiesce()
}

// VerifC35Stream lets the client open stream id (bidirectional or unidirectional).
func VerifC35Stream(id int, uni bool) {
	if verifC35.conn == nil {
		return
	}
	st := newVerifC35Stream()
	verifC35.streams[id] = st
	verifC35.conn.track(st)
	select {
	case <-verifC35.conn.closed:
	default:
		if uni {
			verifC35.conn.uni <- st
		} else {
			verifC35.conn.bidi <- st
		}
	}
	VerifC35Quiesce()
}

// VerifC35Write delivers one fragment on a stream (fin = the client closes its sending side).
func VerifC35Write(id int, b []byte, fin bool) {
	if st, ok := verifC35.streams[id]; ok {
		st.push(b, fin)
	}
	VerifC35Quiesce()
}

// VerifC35Quiesce waits until the server has consumed everything delivered so far and its
// goroutines had time to act on it, so that a crash is attributed to the op that caused it.
func VerifC35Quiesce() {
	deadline := time.Now().Add(300 * time.Millisecond)
	last, same := -1, 0
	for time.Now().Before(deadline) {
		pend := 0
		if verifC35.sx != nil {
			select {
			case <-verifC35.sx.done:
			default:
				for _, st := range verifC35.streams {
					pend += st.pending()
				}
				pend += len(verifC35.conn.bidi) + len(verifC35.conn.uni)
			}
		}
		if pend == 0 {
			break
		}
		// bytes nobody reads any more (the stream handler returned): stop waiting once nothing moves
		if pend == last {
			same++
			if same >= 8 {
				break
			}
		} else {
			last, same = pend, 0
		}
		time.Sleep(250 * time.Microsecond)
	}
	for i := 0; i < 20; i++ {
		runtime.Gosched()
	}
	time.Sleep(500 * time.Microsecond)
}

// VerifC35State reports whether the session is still running.
func VerifC35State() string {
	if verifC35.sx == nil {
		return "none"
	}
	select {
	case <-verifC35.sx.done:
		return "closed"
	default:
		return "open"
	}
}
