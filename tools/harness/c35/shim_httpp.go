//go:build verif

package httpp

import (
	"net/http"
	"net/http/httptest"
	"net/url"
)

// VerifC35Filter runs handlerFilterRequests on a request with the given URL path; true = passed on.
func VerifC35Filter(path string) bool {
	passed := false
	h := &handlerFilterRequests{h: http.HandlerFunc(func(http.ResponseWriter, *http.Request) { passed = true })}
	h.ServeHTTP(httptest.NewRecorder(), &http.Request{Method: http.MethodGet, URL: &url.URL{Path: path}})
	return passed
}
