//go:build verif

package httpp

import (
	"bytes"
	"io"
	"net/http"
	"net/http/httptest"
	"net/url"
)

// VerifC35Filter runs handlerFilterRequests on a request with the given URL path; true = passed on.
func VerifC35Filter(path string) bool {
	passed := false
	h := &handlerFilterRequests{h: http.HandlerFunc(func(http.ResponseWriter, *http.Request) { passed = true })}
	h.ServeHTTP(httptest.NewRecorder(), &http.Request{Method: http.MethodGet, URL: &url.URL{Path: path}})
	return passed
}

// VerifC35Dump runs the real dumpRequest on a request with the given declared length and body and
// returns the logged body part (what follows the header block).
func VerifC35Dump(contentLength int64, body []byte) []byte {
	req := &http.Request{
		Method: http.MethodPost, URL: &url.URL{Path: "/"}, ProtoMajor: 1, ProtoMinor: 1,
		Header: http.Header{}, ContentLength: contentLength, Body: io.NopCloser(bytes.NewReader(body)),
	}
	out := dumpRequest(req)
	if i := bytes.Index(out, []byte("\r\n\r\n")); i >= 0 {
		return out[i+4:]
	}
	return out
}
