//go:build verif

package logger

// Concurrent op of the C37 harness:
//
//	conc <goroutines k> <records per goroutine m> <structured 0|1>
//
// k goroutines log m records each, with distinct payloads of varying length, through ONE real Logger
// with the stdout destination (a mutex-protected sink) and the file destination. Then, per destination:
// every line must be a whole record (structured: a JSON object whose level/message are those of one
// expected record; plain: `date time LVL message`), every expected record present exactly once.
// The verdict does not depend on the schedule as long as Logger.Log serialises the destinations.
// The logging runs in a CHILD process (this test binary re-executed, see init): unserialised writers
// corrupt shared buffers and may crash the process, which must not take the harness down.
// Answer: `stdout:lines=N,bad=0,missing=0,dup=0 file:lines=N,bad=0,missing=0,dup=0` (+ diagnostics).

import (
	"bytes"
	"encoding/json"
	"fmt"
	"os"
	"os/exec"
	"path/filepath"
	"regexp"
	"strconv"
	"strings"
	"sync"
	"time"

	"github.com/bluenviron/mediamtx/internal/verifutil"
)

type verifC37Sink struct {
	mu  sync.Mutex
	buf bytes.Buffer
}

func (s *verifC37Sink) Write(p []byte) (int, error) {
	s.mu.Lock()
	defer s.mu.Unlock()
	return s.buf.Write(p)
}

func verifC37ConcMsg(g, r int, structured bool) string {
	n := 1 + (g*131+r*17)%300
	body := strings.Repeat(string(rune('a'+g%26)), n)
	if structured && r%7 == 3 {
		body += " \"quoted\"\tand\nnewline <&> \x01"
	}
	return fmt.Sprintf("g%02d-r%04d-%s", g, r, body)
}

func verifC37ConcLevel(r int) Level { return Level(1 + r%4) }

func init() {
	dir := os.Getenv("VERIF_C37_CONC")
	if dir == "" {
		return
	}
	k, _ := strconv.Atoi(os.Getenv("VERIF_C37_CONC_K"))
	m, _ := strconv.Atoi(os.Getenv("VERIF_C37_CONC_M"))
	structured := os.Getenv("VERIF_C37_CONC_STRUCT") == "1"
	sink := &verifC37Sink{}
	l := &Logger{
		Level:        Debug,
		Destinations: []Destination{DestinationStdout, DestinationFile},
		Structured:   structured,
		File:         filepath.Join(dir, "file.txt"),
		stdout:       sink,
	}
	if err := l.Initialize(); err != nil {
		os.Exit(3)
	}
	start := make(chan struct{})
	var wg sync.WaitGroup
	for g := 0; g < k; g++ {
		wg.Add(1)
		go func(g int) {
			defer wg.Done()
			<-start
			for r := 0; r < m; r++ {
				l.Log(verifC37ConcLevel(r), "%s", verifC37ConcMsg(g, r, structured))
			}
		}(g)
	}
	close(start)
	wg.Wait()
	l.Close()
	if err := os.WriteFile(filepath.Join(dir, "stdout.txt"), sink.buf.Bytes(), 0o644); err != nil {
		os.Exit(4)
	}
	os.Exit(0)
}

var verifC37PlainRe = regexp.MustCompile(`^\d{4}/\d{2}/\d{2} \d{2}:\d{2}:\d{2} (DEB|INF|WAR|ERR) (.*)$`)

var verifC37LevelNames = map[Level]string{Debug: "DEB", Info: "INF", Warn: "WAR", Error: "ERR"}

func verifC37ConcAnalyse(data []byte, k, m int, structured bool) string {
	want := map[string]string{} // message -> level
	for g := 0; g < k; g++ {
		for r := 0; r < m; r++ {
			want[verifC37ConcMsg(g, r, structured)] = verifC37LevelNames[verifC37ConcLevel(r)]
		}
	}
	seen := map[string]int{}
	bad, firstBad := 0, ""
	lines := bytes.Split(data, []byte("\n"))
	if len(lines) > 0 && len(lines[len(lines)-1]) == 0 {
		lines = lines[:len(lines)-1]
	} else if len(data) > 0 {
		bad++ // the last record is not terminated
	}
	for _, ln := range lines {
		msg, lvl, ok := "", "", false
		if structured {
			var rec map[string]any
			if json.Unmarshal(ln, &rec) == nil && len(rec) == 3 {
				ms, ok1 := rec["message"].(string)
				lv, ok2 := rec["level"].(string)
				ts, ok3 := rec["timestamp"].(string)
				if ok1 && ok2 && ok3 {
					if _, err := time.Parse(time.RFC3339Nano, ts); err == nil {
						msg, lvl, ok = ms, lv, true
					}
				}
			}
		} else if mm := verifC37PlainRe.FindSubmatch(ln); mm != nil {
			msg, lvl, ok = string(mm[2]), string(mm[1]), true
		}
		if wl, known := want[msg]; !ok || !known || wl != lvl {
			bad++
			if firstBad == "" {
				if len(ln) > 100 {
					ln = ln[:100]
				}
				firstBad = verifutil.Hex(ln)
			}
			continue
		}
		seen[msg]++
	}
	missing, dup := 0, 0
	for msg := range want {
		switch c := seen[msg]; {
		case c == 0:
			missing++
		case c > 1:
			dup++
		}
	}
	s := fmt.Sprintf("lines=%d,bad=%d,missing=%d,dup=%d", len(lines), bad, missing, dup)
	if firstBad != "" {
		s += ",first-bad=" + firstBad
	}
	return s
}

func verifC37Conc(f []string) string {
	k, m := verifutil.Atoi(f[1]), verifutil.Atoi(f[2])
	structured := f[3] == "1"
	dir, err := os.MkdirTemp("", "verif-c37-conc-")
	if err != nil {
		return "no-temp-dir"
	}
	defer os.RemoveAll(dir) //nolint:errcheck
	exe, err := os.Executable()
	if err != nil {
		return "no-executable"
	}
	cmd := exec.Command(exe, "-test.run", "^$")
	cmd.Env = append(os.Environ(), "VERIF_C37_CONC="+dir, "VERIF_C37_CONC_K="+f[1], "VERIF_C37_CONC_M="+f[2], "VERIF_C37_CONC_STRUCT="+f[3])
	var stderr bytes.Buffer
	cmd.Stderr = &stderr
	done := make(chan error, 1)
	if err = cmd.Start(); err != nil {
		return "child-did-not-start"
	}
	go func() { done <- cmd.Wait() }()
	select {
	case err = <-done:
	case <-time.After(120 * time.Second):
		cmd.Process.Kill() //nolint:errcheck
		return "crashed child-timed-out"
	}
	if err != nil {
		first := strings.SplitN(strings.TrimSpace(stderr.String()), "\n", 2)[0]
		if len(first) > 120 {
			first = first[:120]
		}
		return "crashed " + strings.ReplaceAll(first, " ", "_")
	}
	out, err1 := os.ReadFile(filepath.Join(dir, "stdout.txt"))
	fil, err2 := os.ReadFile(filepath.Join(dir, "file.txt"))
	if err1 != nil || err2 != nil {
		return "child-output-missing"
	}
	return "stdout:" + verifC37ConcAnalyse(out, k, m, structured) + " file:" + verifC37ConcAnalyse(fil, k, m, structured)
}
