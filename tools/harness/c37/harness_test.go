//go:build verif

package logger

import (
	"bytes"
	"encoding/json"
	"fmt"
	"io"
	"os"
	"path/filepath"
	"sort"
	"strconv"
	"strings"
	"testing"
	"time"
	"unicode/utf8"

	"github.com/bluenviron/mediamtx/internal/verifutil"
)

// op line:
//
//	log <level> <sec> <nsec> <tzOffsetSec> <formatHex> <arg> <msgHex> <tsHex> <np>
//
// arg: `-` (no argument) | `s:<hex>` (one string argument) | `d:<int>` (one int argument)
// oracle columns (third-party results, re-checked by Exec against the libraries):
//
//	msgHex = fmt.Sprintf(format, arg…)      tsHex = t.Format(time.RFC3339Nano)
//	np     = `-` or comma separated code points ≥ 0x80 of the message for which !strconv.IsPrint

var (
	verifC37L    *Logger
	verifC37Buf  bytes.Buffer
	verifC37Now  time.Time
	verifC37File string
	verifC37Off  int64
)

func verifC37Setup() {
	if verifC37L != nil {
		return
	}
	d, err := os.MkdirTemp("", "verif-c37-")
	if err != nil {
		panic(err)
	}
	verifC37File = filepath.Join(d, "log.txt")
	verifC37L = &Logger{
		Level:        Debug,
		Destinations: []Destination{DestinationStdout, DestinationFile},
		Structured:   true,
		File:         verifC37File,
		timeNow:      func() time.Time { return verifC37Now },
		stdout:       &verifC37Buf,
	}
	if err := verifC37L.Initialize(); err != nil {
		panic(err)
	}
}

func verifC37Args(spec string) []any {
	switch {
	case spec == "-":
		return nil
	case strings.HasPrefix(spec, "s:"):
		return []any{verifutil.UnHexS(spec[2:])}
	case strings.HasPrefix(spec, "d:"):
		return []any{verifutil.Atoi(spec[2:])}
	}
	panic("bad arg spec " + spec)
}

func verifC37NP(msg string) string {
	seen := map[rune]bool{}
	var l []int
	for i := 0; i < len(msg); {
		r, w := utf8.DecodeRuneInString(msg[i:])
		i += w
		if r == utf8.RuneError && w == 1 {
			continue
		}
		if r >= 0x80 && !strconv.IsPrint(r) && !seen[r] {
			seen[r] = true
			l = append(l, int(r))
		}
	}
	if len(l) == 0 {
		return "-"
	}
	sort.Ints(l)
	p := make([]string, len(l))
	for i, v := range l {
		p[i] = strconv.Itoa(v)
	}
	return strings.Join(p, ",")
}

func verifC37Time(sec, nsec int64, off int) time.Time {
	if off == 0 {
		return time.Unix(sec, nsec).UTC()
	}
	return time.Unix(sec, nsec).In(time.FixedZone("", off))
}

func verifC37GoJSON(line []byte, t time.Time) string {
	var m map[string]any
	if err := json.Unmarshal(line, &m); err != nil {
		return "gojson=err tseq=0"
	}
	ts, ok1 := m["timestamp"].(string)
	lv, ok2 := m["level"].(string)
	ms, ok3 := m["message"].(string)
	if !ok1 || !ok2 || !ok3 {
		return "gojson=nofields tseq=0"
	}
	tseq := 0
	if pt, err := time.Parse(time.RFC3339Nano, ts); err == nil && pt.Equal(t) {
		tseq = 1
	}
	return fmt.Sprintf("gojson=ok:%s:%s:%s tseq=%d", verifutil.HexS(ts), verifutil.HexS(lv), verifutil.HexS(ms), tseq)
}

func verifC37Exec(op string) string {
	verifC37Setup()
	f := strings.Fields(op)
	if f[0] == "reset" { // records are independent: every case is its own one-op history
		return "ok"
	}
	if f[0] == "conc" {
		return verifC37Conc(f)
	}
	if f[0] != "log" {
		return "bad-op"
	}
	lvl := verifutil.Atoi(f[1])
	t := verifC37Time(verifutil.AtoI64(f[2]), verifutil.AtoI64(f[3]), verifutil.Atoi(f[4]))
	format := verifutil.UnHexS(f[5])
	args := verifC37Args(f[6])
	msg := fmt.Sprintf(format, args...)
	if verifutil.HexS(msg) != f[7] || verifutil.HexS(t.Format(time.RFC3339Nano)) != f[8] || verifC37NP(msg) != f[9] {
		return "oracle-mismatch"
	}

	verifC37Now = t
	verifC37Buf.Reset()
	verifC37L.Log(Level(lvl), format, args...)
	out := append([]byte(nil), verifC37Buf.Bytes()...)

	// what reached the file since the previous record
	fh, err := os.Open(verifC37File)
	if err != nil {
		return "file-unreadable"
	}
	defer fh.Close()
	if _, err = fh.Seek(verifC37Off, io.SeekStart); err != nil {
		return "file-unreadable"
	}
	fb, err := io.ReadAll(fh)
	if err != nil {
		return "file-unreadable"
	}
	verifC37Off += int64(len(fb))
	if verifC37Off > 8<<20 { // keep the scratch file small
		os.Truncate(verifC37File, 0) //nolint:errcheck
		verifC37Off = 0
	}

	fs := "same"
	if !bytes.Equal(fb, out) {
		fs = verifutil.Hex(fb)
	}
	return fmt.Sprintf("out=%s file=%s %s", verifutil.Hex(out), fs, verifC37GoJSON(out, t))
}

// ---------------------------------------------------------------------------------------------

func verifC37Text(r *verifutil.Rand) string {
	n := 1 + r.Intn(40)
	var sb strings.Builder
	for i := 0; i < n; i++ {
		switch r.Intn(12) {
		case 0:
			sb.WriteString(r.Pick(" ", ": ", "/", "[conn 127.0.0.1:5544] ", "path 'x' ", "%", "="))
		case 1:
			sb.WriteString(r.Pick("é", "ß", "日本語", "Ω", "😀", "𝄞", "ñ", "\ufffd", "¼"))
		default:
			const alpha = "abcdefghijklmnopqrstuvwxyzABCDEFGHIJKLMNOPQRSTUVWXYZ0123456789 .,:;-_()[]"
			sb.WriteByte(alpha[r.Intn(len(alpha))])
		}
	}
	return sb.String()
}

func verifC37Hostile(r *verifutil.Rand) string {
	switch r.Intn(16) {
	case 0:
		return r.Pick("\"", "\\", "\\\"", "a\"b", "\\n", "\\u0041", "\"}\n{\"level\":\"ERR\"", "\\x41")
	case 1:
		return r.Pick("\n", "\r\n", "\t", "\b", "\f", "line1\nline2")
	case 2:
		return r.Pick("\a", "\v", "\x00", "\x01", "\x1b[31m", "\x1f", "\x7f", "\x0e")
	case 3:
		return r.Pick("\xff", "\xfe", "\x80", "\xbf", "\xc0\x80", "\xc1\xbf", "\xc3", "\xe2\x82", "\xf0\x9f\x98",
			"\xed\xa0\x80", "\xed\xbf\xbf", "\xf4\x90\x80\x80", "\xf5\x80\x80\x80", "\xe0\x80\x80", "\xf0\x80\x80\x80", "\xc3\x28")
	case 4:
		return r.Pick("<", ">", "&", "<script>", "a&b", "'")
	case 5:
		return r.Pick("\u2028", "\u2029", "\u0085", "\u00a0", "\u00ad", "\ufeff", "\u200b", "\u202e", "\u0378", "\ufffe", "\uffff", "\ud7ff", "\ufffd", "\u2028\u2029")
	case 6:
		return r.Pick("\U000e0001", "\U0010ffff", "\U0001f600", "\U00010000", "\U000e0100", "\U000f0000", "\U0002fa1e", "\U00030000")
	case 7:
		return string(r.Bytes(1 + r.Intn(24)))
	case 8:
		return string([]byte{byte(r.Intn(256))})
	case 9:
		// a random scalar value, encoded
		v := rune(r.Intn(0x110000))
		if v >= 0xd800 && v <= 0xdfff {
			v = 0xfffd
		}
		return string(v)
	case 10:
		// a truncated / corrupted encoding of a random scalar value
		v := rune(0x80 + r.Intn(0x110000-0x80))
		if v >= 0xd800 && v <= 0xdfff {
			v = 0x10ffff
		}
		b := []byte(string(v))
		if r.Bool() {
			b = b[:len(b)-1]
		} else {
			b[len(b)-1] ^= byte(0x40 << uint(r.Intn(2)))
		}
		return string(b)
	default:
		return verifC37Text(r)
	}
}

func verifC37Msg(r *verifutil.Rand, thorough bool) string {
	switch r.Intn(10) {
	case 0, 1, 2:
		return verifC37Text(r)
	case 3:
		return ""
	case 4:
		if r.Chance(1, 8) {
			n := 2000 + r.Intn(20000)
			if thorough {
				n *= 3
			}
			return strings.Repeat(verifC37Text(r)+verifC37Hostile(r), n/30)
		}
		return verifC37Hostile(r)
	default:
		n := 1 + r.Intn(6)
		var sb strings.Builder
		for i := 0; i < n; i++ {
			if r.Bool() {
				sb.WriteString(verifC37Hostile(r))
			} else {
				sb.WriteString(verifC37Text(r))
			}
		}
		return sb.String()
	}
}

func verifC37Gen(r *verifutil.Rand, i int, thorough bool) []string {
	if i%2000 == 500 { // concurrent writers (child process, ≈ 1 s each): structured, plain, structured, …
		return []string{fmt.Sprintf("conc %d %d %d", 4+r.Intn(9), 150+r.Intn(300), 1-(i/2000)%2)}
	}
	msg := verifC37Msg(r, thorough)
	format, arg := "%s", "s:"+verifutil.HexS(msg)
	switch r.Intn(10) {
	case 0: // the text is the format itself (how most call sites log constant text)
		format, arg = msg, "-"
	case 1:
		format = r.Pick("[path %s] closed", "%q", "%v", "%x", "%d", "%10s|", "%s %s", "100%% %s", "%+q")
	case 2:
		format, arg = r.Pick("%d", "%s", "%5d%%", "%c", "%U", "%q"), "d:"+strconv.Itoa(r.Intn(0x110000))
	}
	var args []any
	if arg != "-" {
		args = verifC37Args(arg)
	}
	out := fmt.Sprintf(format, args...)

	lvl := 1 + r.Intn(4)
	if r.Chance(1, 40) {
		lvl = []int{0, 5, 7}[r.Intn(3)]
	}
	var sec int64
	switch r.Intn(8) {
	case 0:
		sec = 0
	case 1:
		sec = []int64{-62135500000, 253402214400, 951782400, 1709164800, 2147483647, 2147483648, -1}[r.Intn(7)]
	default:
		sec = int64(r.U64() % 4102444800)
	}
	var nsec int64
	switch r.Intn(6) {
	case 0:
		nsec = 0
	case 1:
		nsec = []int64{1, 999999999, 500000000, 120000000, 1000, 999999000}[r.Intn(6)]
	default:
		nsec = int64(r.U64() % 1000000000)
	}
	off := 0
	if r.Chance(1, 2) {
		off = []int{3600, 7200, -25200, 19800, -12600, 50400, -43200, 20700, 0}[r.Intn(9)]
	}
	t := verifC37Time(sec, nsec, off)
	return []string{fmt.Sprintf("log %d %d %d %d %s %s %s %s %s", lvl, sec, nsec, off, verifutil.HexS(format), arg,
		verifutil.HexS(out), verifutil.HexS(t.Format(time.RFC3339Nano)), verifC37NP(out))}
}

func verifC37Class(op, impl string) string {
	f := strings.Fields(op)
	if len(f) < 10 {
		return f[0]
	}
	msg := verifutil.UnHexS(f[7])
	var c []string
	ctl, inval, esc, html := false, false, false, false
	for i := 0; i < len(msg); {
		r, w := utf8.DecodeRuneInString(msg[i:])
		i += w
		switch {
		case r == utf8.RuneError && w == 1:
			inval = true
		case r == '"' || r == '\\' || r == '\n' || r == '\r' || r == '\t' || r == '\b' || r == '\f':
			esc = true
		case r < 0x20 || r == 0x7f:
			ctl = true
		case r == '<' || r == '>' || r == '&':
			html = true
		}
	}
	if esc {
		c = append(c, "json-escape")
	}
	if ctl {
		c = append(c, "other-control")
	}
	if inval {
		c = append(c, "invalid-utf8")
	}
	if html {
		c = append(c, "html")
	}
	if f[9] != "-" {
		if strings.Contains(","+f[9], ",1") && len(f[9]) > 5 { // crude: a code point ≥ 100000
			c = append(c, "nonprint-big")
		} else {
			c = append(c, "nonprint")
		}
	}
	if len(c) == 0 {
		c = append(c, "plain")
	}
	v := "valid"
	if !strings.Contains(impl, "gojson=ok") {
		v = "INVALID"
	}
	return strings.Join(c, "+") + "/" + v
}

func TestVerifC37(t *testing.T) {
	defer func() {
		if verifC37L != nil {
			verifC37L.Close()
			os.RemoveAll(filepath.Dir(verifC37File)) //nolint:errcheck
		}
	}()
	verifutil.Main(t, &verifutil.Harness{
		ID: "C37", Exec: verifC37Exec, Gen: verifC37Gen, Quick: 5000, Thorough: 100000,
		Class:      verifC37Class,
		NonTrivial: func(op, impl string) bool { return strings.HasPrefix(op, "log") || strings.HasPrefix(op, "conc") },
	})
}
