//go:build verif

package api

import (
	"encoding/json"
	"fmt"
	"net/http/httptest"
	"net/url"
	"os"
	"path/filepath"
	"regexp"
	"sort"
	"strings"
	"testing"
	"time"

	"github.com/gin-gonic/gin"

	"github.com/bluenviron/mediamtx/internal/conf"
	"github.com/bluenviron/mediamtx/internal/logger"
	"github.com/bluenviron/mediamtx/internal/recordstore"
	"github.com/bluenviron/mediamtx/internal/verifutil"
)

const verifC06Root = "/tmp/vc06t"

type verifC06Parent struct{ c *conf.Conf }

func (verifC06Parent) Log(logger.Level, string, ...any)                        {}
func (p verifC06Parent) APIConfigSnapshot() *conf.Conf                         { return p.c }
func (verifC06Parent) APIConfigGlobalPatch(conf.OptionalGlobal) error          { return nil }
func (verifC06Parent) APIConfigPathDefaultsPatch(conf.OptionalPath) error      { return nil }
func (verifC06Parent) APIConfigPathsAdd(string, conf.OptionalPath) error       { return nil }
func (verifC06Parent) APIConfigPathsPatch(string, conf.OptionalPath) error     { return nil }
func (verifC06Parent) APIConfigPathsReplace(string, conf.OptionalPath) error   { return nil }
func (verifC06Parent) APIConfigPathsDelete(string) error                       { return nil }

func verifC06NameClass(err error) string {
	if err == nil {
		return "ok"
	}
	m := err.Error()
	switch {
	case strings.Contains(m, "cannot be empty"):
		return "empty"
	case strings.Contains(m, "begin with a slash"):
		return "lead"
	case strings.Contains(m, "end with a slash"):
		return "trail"
	case strings.Contains(m, "can contain only"):
		return "chars"
	case strings.Contains(m, "dot path segments"):
		return "dots"
	}
	return "other"
}

// confs column: "<keyHex>:<R|S>:<0|1>,…"  (R = regexp conf, oracle bit = its regexp matches the name)
func verifC06Confs(col string, recordPath string) map[string]*conf.Path {
	out := map[string]*conf.Path{}
	if col == "-" {
		return out
	}
	for _, e := range strings.Split(col, ",") {
		p := strings.Split(e, ":")
		key := verifutil.UnHexS(p[0])
		pc := &conf.Path{Name: key, RecordPath: recordPath, RecordFormat: conf.RecordFormatFMP4}
		if p[1] == "R" {
			if key == "all" || key == "all_others" {
				pc.Regexp = regexp.MustCompile("^.*$")
			} else {
				pc.Regexp = regexp.MustCompile(key[1:])
			}
		}
		out[key] = pc
	}
	return out
}

func verifC06FindClass(pc *conf.Path, err error) string {
	if err == nil {
		return "ok " + verifutil.HexS(pc.Name)
	}
	if strings.Contains(err.Error(), "invalid path name") {
		return "invalid"
	}
	if strings.Contains(err.Error(), "is not configured") {
		return "notconf"
	}
	return "other-error"
}

func verifC06Exec(op string) string {
	f := strings.Fields(op)
	switch f[0] {
	case "reset":
		return "ok" // case delimiter only
	case "valid":
		return verifC06NameClass(conf.IsValidPathName(verifutil.UnHexS(f[1])))
	case "find":
		pc, _, err := conf.FindPathConf(verifC06Confs(f[2], ""), verifutil.UnHexS(f[1]))
		return verifC06FindClass(pc, err)
	case "common":
		return verifutil.HexS(recordstore.CommonPath(verifutil.UnHexS(f[1])))
	case "clean":
		return verifutil.HexS(filepath.Clean(verifutil.UnHexS(f[1])))
	case "inside":
		if err := os.Chdir(verifutil.UnHexS(f[1])); err != nil {
			panic(err)
		}
		r, err := absolutePathInside(verifutil.UnHexS(f[2]), verifutil.UnHexS(f[3]))
		if err != nil {
			return "esc"
		}
		return "ok " + verifutil.HexS(r)
	case "paths":
		// paths <cwdHex> <confs: keyHex:R|S:fmtHex,…> <filesHex,…> | <rx table>
		cwd := verifutil.UnHexS(f[1])
		if cwd != verifC06Root {
			panic("paths only runs in " + verifC06Root)
		}
		os.RemoveAll(cwd)
		if err := os.MkdirAll(cwd, 0o755); err != nil {
			panic(err)
		}
		defer os.RemoveAll(cwd)
		if err := os.Chdir(cwd); err != nil {
			panic(err)
		}
		defer os.Chdir("/") //nolint:errcheck
		if f[3] != "-" {
			for _, h := range strings.Split(f[3], ",") {
				full := filepath.Join(cwd, verifutil.UnHexS(h))
				if !strings.HasPrefix(full, cwd+"/") {
					panic("paths: refusing to create a file outside the sandbox")
				}
				os.MkdirAll(filepath.Dir(full), 0o755) //nolint:errcheck
				if err := os.WriteFile(full, []byte("x"), 0o644); err != nil {
					panic(err)
				}
			}
		}
		pcs := map[string]*conf.Path{}
		for _, e := range strings.Split(f[2], ",") {
			p := strings.Split(e, ":")
			key := verifutil.UnHexS(p[0])
			pc := &conf.Path{Name: key, RecordPath: verifutil.UnHexS(p[2]), RecordFormat: conf.RecordFormatFMP4}
			if p[1] == "R" {
				if key == "all" || key == "all_others" {
					pc.Regexp = regexp.MustCompile("^.*$")
				} else {
					pc.Regexp = regexp.MustCompile(key[1:])
				}
			}
			pcs[key] = pc
		}
		join := func(names []string) string {
			if len(names) == 0 {
				return "-"
			}
			h := make([]string, len(names))
			for i, n := range names {
				h[i] = verifutil.HexS(n)
			}
			sort.Strings(h)
			return strings.Join(h, ",")
		}
		direct := join(recordstore.FindAllPathsWithSegments(pcs))
		// the API's recordings list
		a := &API{Parent: verifC06Parent{c: &conf.Conf{Paths: pcs}}}
		gin.SetMode(gin.ReleaseMode)
		rec := httptest.NewRecorder()
		ctx, _ := gin.CreateTestContext(rec)
		ctx.Request = httptest.NewRequest("GET", "/v3/recordings/list?itemsPerPage=1000", nil)
		a.onRecordingsList(ctx)
		var out struct {
			Items []struct {
				Name string `json:"name"`
			} `json:"items"`
		}
		api := "err"
		if rec.Code == 200 && json.Unmarshal(rec.Body.Bytes(), &out) == nil {
			var names []string
			for _, it := range out.Items {
				names = append(names, it.Name)
			}
			api = join(names)
		}
		return direct + " " + api
	case "e2e":
		// e2e <cwdHex> <fmtHex> <nameHex> <confs> <filesHex,…>
		cwd := verifutil.UnHexS(f[1])
		if cwd != verifC06Root {
			panic("e2e only runs in " + verifC06Root)
		}
		os.RemoveAll(cwd)
		if err := os.MkdirAll(cwd, 0o755); err != nil {
			panic(err)
		}
		defer os.RemoveAll(cwd)
		if err := os.Chdir(cwd); err != nil {
			panic(err)
		}
		defer os.Chdir("/") //nolint:errcheck
		var files []string
		if f[5] != "-" {
			for _, h := range strings.Split(f[5], ",") {
				rel := verifutil.UnHexS(h)
				full := filepath.Join(cwd, rel)
				if !strings.HasPrefix(full, cwd+"/") {
					panic("e2e: refusing to create a file outside the sandbox: " + rel)
				}
				os.MkdirAll(filepath.Dir(full), 0o755) //nolint:errcheck
				if err := os.WriteFile(full, []byte("x"), 0o644); err != nil {
					panic(err)
				}
				files = append(files, rel)
			}
		}
		saved := time.Local
		time.Local = time.UTC
		defer func() { time.Local = saved }()

		name := verifutil.UnHexS(f[3])
		cnf := &conf.Conf{Paths: verifC06Confs(f[4], verifutil.UnHexS(f[2]))}
		// the listing side (FindSegments = playback / cleaner / recordings API) for the same name
		lst := "noconf"
		if pc, _, err := conf.FindPathConf(cnf.Paths, name); err == nil {
			segs, err := recordstore.FindSegments(pc, name, nil, nil)
			switch {
			case err != nil && strings.Contains(err.Error(), "invalid path name"):
				lst = "invalid"
			case err != nil:
				lst = "none"
			default:
				var l []string
				for _, s := range segs {
					rel, _ := filepath.Rel(cwd, s.Fpath)
					l = append(l, verifutil.HexS(rel))
				}
				sort.Strings(l)
				lst = strings.Join(l, ",")
			}
		}
		a := &API{Parent: verifC06Parent{c: cnf}}
		gin.SetMode(gin.ReleaseMode)
		rec := httptest.NewRecorder()
		ctx, _ := gin.CreateTestContext(rec)
		v := url.Values{}
		v.Set("path", name)
		v.Set("start", "2023-11-14T22:13:20Z")
		ctx.Request = httptest.NewRequest("DELETE", "/v3/recordings/deletesegment?"+v.Encode(), nil)
		a.onRecordingDeleteSegment(ctx)

		var gone []string
		for _, rel := range files {
			if _, err := os.Stat(filepath.Join(cwd, rel)); err != nil {
				gone = append(gone, verifutil.HexS(rel))
			}
		}
		sort.Strings(gone)
		g := "-"
		if len(gone) > 0 {
			g = strings.Join(gone, ",")
		}
		return fmt.Sprintf("%d %s %s", rec.Code, g, lst)
	}
	return "bad-op"
}

// ---- Gen ----------------------------------------------------------------------------------------

func verifC06ValidSeg(r *verifutil.Rand) string {
	switch r.Intn(8) {
	case 0:
		return r.Pick("...", "..a", "a..", ".a", "a.", ".-", "_", "-", "a.b", "....")
	case 1:
		return r.Pick("cam1", "live", "all", "all_others", "stream", "0")
	default:
		n := 1 + r.Intn(5)
		b := make([]byte, n)
		for i := range b {
			b[i] = "abcXYZ019_-."[r.Intn(12)]
		}
		s := string(b)
		if s == "." || s == ".." {
			return "c"
		}
		return s
	}
}

func verifC06Name(r *verifutil.Rand) string {
	switch r.Intn(10) {
	case 0, 1, 2, 3: // valid
		n := 1 + r.Intn(3)
		p := make([]string, n)
		for i := range p {
			p[i] = verifC06ValidSeg(r)
		}
		return strings.Join(p, "/")
	case 4: // classic traversal
		return r.Pick("..", ".", "../canary", "../other", "cam1/..", "cam1/../..", "a/../b", "a/./b", "./a", "a/.", "a/..",
			"../../etc/passwd", "cam1/../../other", "..//x", "a//b", "a///..", "../recordings2/cam1", "cam1/../../recordings2/cam1",
			"../1700000000", "x/../../canary")
	case 5: // edge slashes / empty
		return r.Pick("", "/", "/a", "a/", "//", "/..", "../", "a//", "//a", "/tmp/vc06t/canary")
	case 6: // encodings and foreign bytes
		return r.Pick("%2e%2e", "%2e%2e/canary", "..%2fcanary", "a\\..\\b", "..\\canary", "a\x00", "\x00", "a\nb", "a b", "a\tb",
			"․․/x", "．．/x", "∕x", "café", "a;b", "a?b", "a#b", "a%b", "a+b", "a:b", "a~b", "~a", "a*", "\xff\xfe", "..\x00")
	case 7: // conf keys used as names
		return r.Pick("~^.*$", "~^live/(.+)$", "~^(../)+x$", "~^cam[0-9]+$", "all", "all_others", "~", "~^../canary$")
	case 8: // mutate a valid name by one hostile insertion
		base := "cam1/sub"
		i := r.Intn(len(base) + 1)
		return base[:i] + r.Pick("..", "/../", "/./", "/", "//", ".", "\x00", "%", "\\", " ") + base[i:]
	default:
		b := r.Bytes(1 + r.Intn(6))
		return string(b)
	}
}

var verifC06Keys = []string{"cam1", "live/a", "all_others", "all", "~^live/(.+)$", "~^.*$", "~^cam[0-9]+$", "~^(../)+x$", "~^../canary$", "x.y", "~^[a-z]+$"}

func verifC06ConfCol(r *verifutil.Rand, name string) string {
	n := r.Intn(5)
	seen := map[string]bool{}
	var out []string
	if verifC06Force != "" {
		seen[verifC06Force] = true
		out = append(out, verifutil.HexS(verifC06Force)+":S:0")
	}
	for k := 0; k < n; k++ {
		key := verifC06Keys[r.Intn(len(verifC06Keys))]
		if k == 0 && r.Chance(1, 4) && strings.HasPrefix(name, "~") {
			if _, err := regexp.Compile(name[1:]); err == nil {
				key = name
			}
		}
		if seen[key] || (key == "all" && seen["all_others"]) || (key == "all_others" && seen["all"]) {
			continue
		}
		seen[key] = true
		kind, hit := "S", "0"
		if key == "all" || key == "all_others" {
			kind = "R"
			hit = "1"
			if strings.Contains(name, "\n") { // ^.*$ : '.' does not match a newline
				if !regexp.MustCompile("^.*$").MatchString(name) {
					hit = "0"
				}
			}
		} else if strings.HasPrefix(key, "~") {
			kind = "R"
			if regexp.MustCompile(key[1:]).FindStringSubmatch(name) != nil {
				hit = "1"
			}
		}
		out = append(out, verifutil.HexS(key)+":"+kind+":"+hit)
	}
	if len(out) == 0 {
		return "-"
	}
	return strings.Join(out, ",")
}

func verifC06PathStr(r *verifutil.Rand) string {
	n := r.Intn(7)
	var sb strings.Builder
	if r.Chance(1, 2) {
		sb.WriteString("/")
	}
	for i := 0; i < n; i++ {
		sb.WriteString(r.Pick("a", "b", "..", ".", "", "...", "a.b", "..a", "tmp", "vc06t", "recordings", "%path", "%Y", "x%s", "\\", "a\\b"))
		if i < n-1 || r.Chance(1, 4) {
			sb.WriteString(r.Pick("/", "/", "/", "//", "\\"))
		}
	}
	return sb.String()
}

var verifC06Formats = []string{
	"recordings/%path/%s", "./recordings/%path/%s", "recordings/%path_%s", "%path/%s", "/tmp/vc06t/recordings/%path/%s",
	"recordings/x%path/%s", "recordings/%path/%Y-%m-%d_%H-%M-%S-%f", "recordings/.%path/%s", "recordings/%path./%s",
	"recordings/%s/%path", "recordings/sub/../%path/%s", "recordings/%path/../%s", "./%path_%s", "recordings//%path/%s",
}

// record paths in which %path is followed by '_', '-', '.', nothing or '/'
var verifC06ListFormats = []string{
	"recordings/%path_%s", "recordings/%path-%s", "recordings/%path.%s", "recordings/%path%s", "recordings/%path/%s",
	"rec/%path_%Y-%m-%d_%H-%M-%S-%f", "rec%path_%s", "recordings/%path/x_%s", "/tmp/vc06t/abs/%path_%s", "recordings/%s_%path",
}

// look-alike files, relative to the directory prefix of the record path; '@' = separator + timestamp text
// + ".mp4" as the record path of the configuration writes them
var verifC06ListFiles = []string{
	"group/@", "group/x@", "@", "..@", ".@", "...@", "a/..@", "a/.@", "..a/b@", "a b@", "a%b@", "caf\xc3\xa9@", "a~b@", "a\\b@",
	"a//b@", "cam1@", "live/a@", "live/@", "x/y/@", "a/_/@", "g/x@", "-@", "_@", "a/../b@", "/@", "a/./b@", "A.b-c_d/e@",
	"group/_1700000000.mp4", "x/_2015-05-20_22-15-25-000427.mp4", "1700000000_cam1.mp4", "1700000000_a/.mp4", "1700000000_.mp4",
	"1700000000_...mp4", "1700000000_../x.mp4", "live/a1700000000.mp4",
}

func verifC06ListTail(format string) string {
	i := strings.Index(format, "%path")
	tail := format[i+len("%path"):]
	tail = strings.NewReplacer("%Y", "2015", "%m", "05", "%d", "20", "%H", "22", "%M", "15", "%S", "25", "%f", "000427", "%s", "1700000000").Replace(tail)
	return tail + ".mp4"
}

func verifC06PathsOp(r *verifutil.Rand) string {
	type cf struct {
		key, format string
		re          bool
	}
	format := verifC06ListFormats[r.Intn(len(verifC06ListFormats))]
	var confs []cf
	seen := map[string]bool{}
	for k := 1 + r.Intn(3); k > 0; k-- {
		key := r.Pick("all_others", "~^.*$", "~^live/(.+)$", "~^[a-z]+/?$", "cam1", "group", "all", "~^(.*)/$", "~^\\.+$")
		if seen[key] || (key == "all" && seen["all_others"]) || (key == "all_others" && seen["all"]) {
			continue
		}
		seen[key] = true
		fm := format
		if r.Chance(1, 4) {
			fm = verifC06ListFormats[r.Intn(len(verifC06ListFormats))]
		}
		confs = append(confs, cf{key, fm, key == "all" || key == "all_others" || strings.HasPrefix(key, "~")})
	}
	fileSet := map[string]bool{}
	add := func(rel string) {
		full := filepath.Join(verifC06Root, rel)
		rel2 := strings.TrimPrefix(full, verifC06Root+"/")
		if !strings.HasPrefix(full, verifC06Root+"/") || strings.ContainsRune(rel2, 0) {
			return
		}
		for ex := range fileSet {
			if strings.HasPrefix(ex, rel2+"/") || strings.HasPrefix(rel2, ex+"/") {
				return
			}
		}
		fileSet[rel2] = true
	}
	for _, c := range confs {
		dir := recordstore.CommonPath(c.format)
		if filepath.IsAbs(dir) {
			dir = strings.TrimPrefix(dir, verifC06Root+"/")
		}
		for k := 2 + r.Intn(5); k > 0; k-- {
			add(dir + "/" + strings.Replace(verifC06ListFiles[r.Intn(len(verifC06ListFiles))], "@", verifC06ListTail(c.format), 1))
		}
		if r.Chance(1, 3) { // glued to the prefix, no separator
			add(dir + strings.Replace(verifC06ListFiles[r.Intn(len(verifC06ListFiles))], "@", verifC06ListTail(c.format), 1))
		}
	}
	add("canary_1700000000.mp4")
	files := make([]string, 0, len(fileSet))
	for k := range fileSet {
		files = append(files, k)
	}
	sort.Strings(files)
	// regexp oracle over a pool of candidate names
	pool := map[string]struct{}{}
	for _, c := range confs {
		pool[c.key] = struct{}{}
		af := c.format + ".mp4"
		if !filepath.IsAbs(af) {
			af = filepath.Join(verifC06Root, af)
		}
		for _, rel := range files {
			var p recordstore.Path
			if p.Decode(af, filepath.Join(verifC06Root, rel)) {
				pool[p.Path] = struct{}{}
			}
			cut := []int{0, len(rel)}
			for j := 0; j < len(rel); j++ {
				if strings.ContainsRune("/_-.", rune(rel[j])) {
					cut = append(cut, j, j+1)
				}
			}
			for _, a := range cut {
				for _, b := range cut {
					if a < b && b-a < 30 {
						pool[rel[a:b]] = struct{}{}
					}
				}
			}
		}
	}
	var rx []string
	var cc []string
	for _, c := range confs {
		kind := "S"
		if c.re {
			kind = "R"
			var re *regexp.Regexp
			if c.key == "all" || c.key == "all_others" {
				re = regexp.MustCompile("^.*$")
			} else {
				re = regexp.MustCompile(c.key[1:])
			}
			for s := range pool {
				hit := "0"
				if re.FindStringSubmatch(s) != nil {
					hit = "1"
				}
				rx = append(rx, verifutil.HexS(c.key)+"~"+verifutil.HexS(s)+"="+hit)
			}
		}
		cc = append(cc, verifutil.HexS(c.key)+":"+kind+":"+verifutil.HexS(c.format))
	}
	sort.Strings(rx)
	rxS := "-"
	if len(rx) > 0 {
		rxS = strings.Join(rx, ";")
	}
	fh := make([]string, len(files))
	for k, s := range files {
		fh[k] = verifutil.HexS(s)
	}
	return fmt.Sprintf("paths %s %s %s | %s", verifutil.HexS(verifC06Root), strings.Join(cc, ","), strings.Join(fh, ","), rxS)
}

// verifC06Force: a static key that must be part of the generated configuration (the name is a malformed
// spelling of it: dot segments, trailing slash, doubled slashes that canonicalise to the key)
var verifC06Force string

func verifC06Gen(r *verifutil.Rand, i int, thorough bool) []string {
	name := verifC06Name(r)
	verifC06Force = ""
	if r.Chance(1, 5) {
		k := r.Pick("cam1", "live/a", "x.y")
		verifC06Force = k
		name = r.Pick("x/../"+k, "./"+k, k+"/", k+"/.", k+"/x/..", "a/b/../../"+k, k+"//", "/"+k, strings.Replace(k, "/", "//", 1),
			strings.Replace(k, "/", "/./", 1), "./"+k+"/", k+"/..", "../"+k)
	}
	ops := []string{"reset"}
	ops = append(ops, "valid "+verifutil.HexS(name))
	ops = append(ops, "find "+verifutil.HexS(name)+" "+verifC06ConfCol(r, name))
	switch r.Intn(3) {
	case 0:
		ops = append(ops, "common "+verifutil.HexS(verifC06PathStr(r)))
	case 1:
		ops = append(ops, "clean "+verifutil.HexS(verifC06PathStr(r)))
	default:
		cwd := r.Pick("/", "/tmp")
		base := verifC06PathStr(r)
		cand := verifC06PathStr(r)
		if r.Bool() {
			cand = base + r.Pick("", "/", "2/x", "/../x", "/a/../../b", "/a") + cand
		}
		ops = append(ops, fmt.Sprintf("inside %s %s %s", verifutil.HexS(cwd), verifutil.HexS(base), verifutil.HexS(cand)))
	}
	// end-to-end delete + listing on a sandbox tree
	format := verifC06Formats[r.Intn(len(verifC06Formats))]
	files := []string{"canary.mp4", "1700000000.mp4", "other/1700000000.mp4", "recordings2/cam1/1700000000.mp4",
		"recordings/cam1/1700000000.mp4", "recordings/1700000000.mp4", "cam1/1700000000.mp4", "recordings/cam1_1700000000.mp4"}
	if conf.IsValidPathName(name) == nil || (strings.HasPrefix(name, "~") && !strings.Contains(name, "..") && !strings.ContainsAny(name, "\x00")) {
		saved := time.Local
		time.Local = time.UTC
		p := recordstore.Path{Start: time.Unix(1700000000, 0)}.Encode(strings.ReplaceAll(format, "%path", name)) + ".mp4"
		time.Local = saved
		full := filepath.Join(verifC06Root, p)
		if filepath.IsAbs(p) {
			full = filepath.Clean(p)
		}
		if rel := strings.TrimPrefix(full, verifC06Root+"/"); strings.HasPrefix(full, verifC06Root+"/") {
			dup := false
			for _, x := range files {
				dup = dup || x == rel
			}
			if !dup {
				files = append(files, rel)
			}
		}
	}
	fh := make([]string, len(files))
	for k, s := range files {
		fh[k] = verifutil.HexS(s)
	}
	col := verifC06ConfCol(r, name)
	if col == "-" || r.Chance(1, 2) {
		col = verifutil.HexS("all_others") + ":R:1"
		if strings.Contains(name, "\n") {
			col = verifutil.HexS("all_others") + ":R:0"
		}
		if strings.HasPrefix(name, "~") && r.Bool() {
			if _, err := regexp.Compile(name[1:]); err == nil {
				hit := "0"
				if regexp.MustCompile(name[1:]).FindStringSubmatch(name) != nil {
					hit = "1"
				}
				col = verifutil.HexS(name) + ":R:" + hit + "," + col
			}
		}
	}
	ops = append(ops, verifC06PathsOp(r))
	ops = append(ops, fmt.Sprintf("e2e %s %s %s %s %s", verifutil.HexS(verifC06Root), verifutil.HexS(format), verifutil.HexS(name), col, strings.Join(fh, ",")))
	return ops
}

func TestVerifC06(t *testing.T) {
	wd, _ := os.Getwd()
	defer os.Chdir(wd) //nolint:errcheck
	verifutil.Main(t, &verifutil.Harness{
		ID: "C06", Exec: verifC06Exec, Gen: verifC06Gen, Quick: 900, Thorough: 20000,
		Class: func(op, impl string) string {
			f := strings.Fields(op)
			a := strings.Fields(impl)
			switch f[0] {
			case "valid", "find":
				return f[0] + "/" + a[0]
			case "inside":
				return "inside/" + a[0]
			case "paths":
				if a[0] == "-" {
					return "paths/none"
				}
				return "paths/names"
			case "e2e":
				if len(a) == 3 {
					d := "deleted"
					if a[1] == "-" {
						d = "nothing"
					}
					l := "listed"
					if a[2] == "noconf" || a[2] == "invalid" || a[2] == "none" {
						l = a[2]
					}
					return "e2e/" + a[0] + "/" + d + "/" + l
				}
				return "e2e/" + a[0]
			}
			return f[0]
		},
	})
}
