//go:build verif

package metrics //nolint:revive

import (
	"encoding/hex"
	"fmt"
	"math"
	"net/http"
	"net/http/httptest"
	"net/url"
	"reflect"
	"strconv"
	"strings"
	"testing"

	"github.com/gin-gonic/gin"
	"github.com/google/uuid"

	"github.com/bluenviron/mediamtx/internal/defs"
	"github.com/bluenviron/mediamtx/internal/verifutil"
)

// Harness for C36.
//
//	tags <n> (<key> <valhex>)*                       -> hex(tags(map))
//	metric <name> <n> (<key> <valhex>)* i <int64>     -> hex(output of metric())      (n = 0: tags "")
//	metric <name> <n> (<key> <valhex>)* f <bits> <txt> -> hex(output of metricFloat()) (txt = FormatFloat oracle)
//	scrape <queryhex> <servers> <nent> (E <section> <nl> (<key> <valhex>)* <base> <nf> (<field> <val>)*)*
//	                                                  -> "<status> <hex(body)>" of the real onMetrics
//
// An entity of a scrape op is turned into the typed API item by reflection (numeric fields by
// lower-cased Go field name); the stub servers return those items.

// ---------- stub servers ----------

type verifC36PM struct {
	paths    []defs.APIPath
	forwards map[string][]defs.APIForwardDest
}

func (p *verifC36PM) APIPathsList() (*defs.APIPathList, error) {
	return &defs.APIPathList{ItemCount: len(p.paths), PageCount: 1, Items: p.paths}, nil
}
func (p *verifC36PM) APIPathsGet(string) (*defs.APIPath, error) { panic("unused") }
func (p *verifC36PM) APIForwardDestList(name string) (*defs.APIForwardDestList, error) {
	return &defs.APIForwardDestList{Items: p.forwards[name]}, nil
}
func (p *verifC36PM) APIForwardDestGet(string, uuid.UUID) (*defs.APIForwardDest, error) {
	panic("unused")
}

type verifC36HLS struct {
	sessions []defs.APIHLSSession
	muxers   []defs.APIHLSMuxer
}

func (s *verifC36HLS) APISessionsList() (*defs.APIHLSSessionList, error) {
	return &defs.APIHLSSessionList{Items: s.sessions}, nil
}
func (s *verifC36HLS) APISessionsGet(uuid.UUID) (*defs.APIHLSSession, error) { panic("unused") }
func (s *verifC36HLS) APISessionsKick(uuid.UUID) error                       { panic("unused") }
func (s *verifC36HLS) APIMuxersList() (*defs.APIHLSMuxerList, error) {
	return &defs.APIHLSMuxerList{Items: s.muxers}, nil
}
func (s *verifC36HLS) APIMuxersGet(string) (*defs.APIHLSMuxer, error) { panic("unused") }

type verifC36RTSP struct {
	conns    []defs.APIRTSPConn
	sessions []defs.APIRTSPSession
}

func (s *verifC36RTSP) APIConnsList() (*defs.APIRTSPConnsList, error) {
	return &defs.APIRTSPConnsList{Items: s.conns}, nil
}
func (s *verifC36RTSP) APIConnsGet(uuid.UUID) (*defs.APIRTSPConn, error) { panic("unused") }
func (s *verifC36RTSP) APISessionsList() (*defs.APIRTSPSessionList, error) {
	return &defs.APIRTSPSessionList{Items: s.sessions}, nil
}
func (s *verifC36RTSP) APISessionsGet(uuid.UUID) (*defs.APIRTSPSession, error) { panic("unused") }
func (s *verifC36RTSP) APISessionsKick(uuid.UUID) error                        { panic("unused") }

type verifC36RTMP struct{ conns []defs.APIRTMPConn }

func (s *verifC36RTMP) APIConnsList() (*defs.APIRTMPConnList, error) {
	return &defs.APIRTMPConnList{Items: s.conns}, nil
}
func (s *verifC36RTMP) APIConnsGet(uuid.UUID) (*defs.APIRTMPConn, error) { panic("unused") }
func (s *verifC36RTMP) APIConnsKick(uuid.UUID) error                     { panic("unused") }

type verifC36SRT struct{ conns []defs.APISRTConn }

func (s *verifC36SRT) APIConnsList() (*defs.APISRTConnList, error) {
	return &defs.APISRTConnList{Items: s.conns}, nil
}
func (s *verifC36SRT) APIConnsGet(uuid.UUID) (*defs.APISRTConn, error) { panic("unused") }
func (s *verifC36SRT) APIConnsKick(uuid.UUID) error                    { panic("unused") }

type verifC36WebRTC struct{ sessions []defs.APIWebRTCSession }

func (s *verifC36WebRTC) APISessionsList() (*defs.APIWebRTCSessionList, error) {
	return &defs.APIWebRTCSessionList{Items: s.sessions}, nil
}
func (s *verifC36WebRTC) APISessionsGet(uuid.UUID) (*defs.APIWebRTCSession, error) { panic("unused") }
func (s *verifC36WebRTC) APISessionsKick(uuid.UUID) error                          { panic("unused") }

type verifC36MoQ struct{ sessions []defs.APIMoQSession }

func (s *verifC36MoQ) APISessionsList() (*defs.APIMoQSessionList, error) {
	return &defs.APIMoQSessionList{Items: s.sessions}, nil
}
func (s *verifC36MoQ) APISessionsGet(uuid.UUID) (*defs.APIMoQSession, error) { panic("unused") }
func (s *verifC36MoQ) APISessionsKick(uuid.UUID) error                       { panic("unused") }

// ---------- sections ----------

// order = bit number in the <servers> mask (paths/forwards are always present)
var verifC36Servers = []string{"hls", "rtsp", "rtsps", "rtmp", "rtmps", "srt", "webrtc", "moq"}

type verifC36Section struct {
	name   string
	server string       // "" = path manager
	typ    reflect.Type // item struct
	labels []string     // label keys
	filter string       // query parameter that filters this section
}

var verifC36Sections = []verifC36Section{
	{"paths", "", reflect.TypeOf(defs.APIPath{}), []string{"name", "state"}, "path"},
	{"paths_readers", "", nil, []string{"name", "state", "readerType"}, "path"},
	{"forward_dests", "", reflect.TypeOf(defs.APIForwardDest{}), []string{"id", "path", "protocol", "state"}, "forward_dest"},
	{"hls_sessions", "hls", reflect.TypeOf(defs.APIHLSSession{}), []string{"id", "path", "remoteAddr"}, "hls_session"},
	{"hls_muxers", "hls", reflect.TypeOf(defs.APIHLSMuxer{}), []string{"name"}, "hls_muxer"},
	{"rtsp_conns", "rtsp", reflect.TypeOf(defs.APIRTSPConn{}), []string{"id"}, "rtsp_conn"},
	{"rtsp_sessions", "rtsp", reflect.TypeOf(defs.APIRTSPSession{}), []string{"id", "state", "path", "remoteAddr"}, "rtsp_session"},
	{"rtsps_conns", "rtsps", reflect.TypeOf(defs.APIRTSPConn{}), []string{"id"}, "rtsps_conn"},
	{"rtsps_sessions", "rtsps", reflect.TypeOf(defs.APIRTSPSession{}), []string{"id", "state", "path", "remoteAddr"}, "rtsps_session"},
	{"rtmp_conns", "rtmp", reflect.TypeOf(defs.APIRTMPConn{}), []string{"id", "state", "path", "remoteAddr"}, "rtmp_conn"},
	{"rtmps_conns", "rtmps", reflect.TypeOf(defs.APIRTMPConn{}), []string{"id", "state", "path", "remoteAddr"}, "rtmps_conn"},
	{"srt_conns", "srt", reflect.TypeOf(defs.APISRTConn{}), []string{"id", "state", "path", "remoteAddr"}, "srt_conn"},
	{"webrtc_sessions", "webrtc", reflect.TypeOf(defs.APIWebRTCSession{}), []string{"id", "state", "path", "remoteAddr"}, "webrtc_session"},
	{"moq_sessions", "moq", reflect.TypeOf(defs.APIMoQSession{}), []string{"id", "state", "path", "remoteAddr"}, "moq_session"},
}

func verifC36Sec(name string) *verifC36Section {
	for i := range verifC36Sections {
		if verifC36Sections[i].name == name {
			return &verifC36Sections[i]
		}
	}
	panic("verif: unknown section " + name)
}

type verifC36Entity struct {
	section string
	labels  [][2]string // key, value (in the order of the section's label keys)
	base    string
	fields  [][2]string // lower-cased field name, printed value
}

func (e *verifC36Entity) label(k string) string {
	for _, l := range e.labels {
		if l[0] == k {
			return l[1]
		}
	}
	return ""
}

func (e *verifC36Entity) encode() string {
	var sb strings.Builder
	fmt.Fprintf(&sb, "E %s %d", e.section, len(e.labels))
	for _, l := range e.labels {
		fmt.Fprintf(&sb, " %s %s", l[0], verifutil.HexS(l[1]))
	}
	fmt.Fprintf(&sb, " %s %d", e.base, len(e.fields))
	for _, f := range e.fields {
		fmt.Fprintf(&sb, " %s %s", f[0], f[1])
	}
	return sb.String()
}

func verifC36FmtFloat(v float64) string { return strconv.FormatFloat(v, 'f', -1, 64) }

// numeric fields of a section's item, with values derived from (base, field index)
func verifC36Fields(typ reflect.Type, base uint64, floatMode int) [][2]string {
	var out [][2]string
	if typ == nil {
		return out
	}
	for j := 0; j < typ.NumField(); j++ {
		f := typ.Field(j)
		name := strings.ToLower(f.Name)
		switch f.Type.Kind() {
		case reflect.Uint64, reflect.Int:
			out = append(out, [2]string{name, strconv.FormatUint(base*1000+uint64(j), 10)})
		case reflect.Float64:
			var v float64
			switch floatMode {
			case 0:
				v = float64(base*1000+uint64(j)) / 8
			case 1:
				v = []float64{math.NaN(), math.Inf(1), math.Inf(-1), 1e21, 1e-7, 0, -0.5}[(int(base)+j)%7]
			default:
				v = float64(base) + float64(j)/1000
			}
			out = append(out, [2]string{name, verifC36FmtFloat(v)})
		}
	}
	return out
}

func verifC36SetFields(v reflect.Value, fields [][2]string) {
	t := v.Type()
	for _, f := range fields {
		for j := 0; j < t.NumField(); j++ {
			if strings.ToLower(t.Field(j).Name) != f[0] {
				continue
			}
			switch t.Field(j).Type.Kind() {
			case reflect.Uint64:
				u, err := strconv.ParseUint(f[1], 10, 64)
				if err != nil {
					panic("verif: bad uint field " + f[1])
				}
				v.Field(j).SetUint(u)
			case reflect.Int:
				u, err := strconv.ParseInt(f[1], 10, 64)
				if err != nil {
					panic("verif: bad int field " + f[1])
				}
				v.Field(j).SetInt(u)
			case reflect.Float64:
				x, err := strconv.ParseFloat(f[1], 64)
				if err != nil {
					panic("verif: bad float field " + f[1])
				}
				v.Field(j).SetFloat(x)
			}
		}
	}
}

func verifC36SetStr(v reflect.Value, field, val string) {
	f := v.FieldByName(field)
	if f.IsValid() {
		f.SetString(val)
	}
}

// ---------- exec ----------

func verifC36ParseLabels(f []string, n int) (map[string]string, []string) {
	m := map[string]string{}
	for i := 0; i < n; i++ {
		m[f[2*i]] = verifutil.UnHexS(f[2*i+1])
	}
	return m, f[2*n:]
}

func verifC36Scrape(f []string) string {
	query := verifutil.UnHexS(f[0])
	mask := verifutil.Atoi(f[1])
	nent := verifutil.Atoi(f[2])
	f = f[3:]

	var ents []verifC36Entity
	for i := 0; i < nent; i++ {
		if f[0] != "E" {
			panic("verif: bad entity token " + f[0])
		}
		e := verifC36Entity{section: f[1]}
		nl := verifutil.Atoi(f[2])
		f = f[3:]
		for j := 0; j < nl; j++ {
			e.labels = append(e.labels, [2]string{f[0], verifutil.UnHexS(f[1])})
			f = f[2:]
		}
		e.base = f[0]
		nf := verifutil.Atoi(f[1])
		f = f[2:]
		for j := 0; j < nf; j++ {
			e.fields = append(e.fields, [2]string{f[0], f[1]})
			f = f[2:]
		}
		ents = append(ents, e)
	}

	pm := &verifC36PM{forwards: map[string][]defs.APIForwardDest{}}
	hls, rtsp, rtsps := &verifC36HLS{}, &verifC36RTSP{}, &verifC36RTSP{}
	rtmp, rtmps, srt := &verifC36RTMP{}, &verifC36RTMP{}, &verifC36SRT{}
	webrtc, moq := &verifC36WebRTC{}, &verifC36MoQ{}

	for _, e := range ents {
		sec := verifC36Sec(e.section)
		if sec.typ == nil {
			continue
		}
		item := reflect.New(sec.typ).Elem()
		verifC36SetFields(item, e.fields)
		for _, l := range e.labels {
			switch l[0] {
			case "id":
				item.FieldByName("ID").Set(reflect.ValueOf(uuid.MustParse(l[1])))
			case "state":
				if e.section == "paths" {
					item.FieldByName("Ready").SetBool(l[1] == "ready")
				} else {
					verifC36SetStr(item, "State", l[1])
				}
			case "path":
				if e.section != "forward_dests" {
					verifC36SetStr(item, "Path", l[1])
				}
			case "remoteAddr":
				verifC36SetStr(item, "RemoteAddr", l[1])
			case "protocol":
				verifC36SetStr(item, "Protocol", l[1])
			case "name":
				if e.section == "paths" {
					verifC36SetStr(item, "Name", l[1])
				} else {
					verifC36SetStr(item, "Path", l[1])
				}
			}
		}
		switch e.section {
		case "paths":
			p := item.Interface().(defs.APIPath)
			for _, r := range ents {
				if r.section == "paths_readers" && r.label("name") == p.Name {
					n := verifutil.Atoi(r.base)
					for k := 0; k < n; k++ {
						p.Readers = append(p.Readers, defs.APIPathReader{
							Type: defs.APIPathReaderType(r.label("readerType")), ID: fmt.Sprint(k),
						})
					}
				}
			}
			pm.paths = append(pm.paths, p)
		case "forward_dests":
			pa := e.label("path")
			pm.forwards[pa] = append(pm.forwards[pa], item.Interface().(defs.APIForwardDest))
		case "hls_sessions":
			hls.sessions = append(hls.sessions, item.Interface().(defs.APIHLSSession))
		case "hls_muxers":
			hls.muxers = append(hls.muxers, item.Interface().(defs.APIHLSMuxer))
		case "rtsp_conns":
			rtsp.conns = append(rtsp.conns, item.Interface().(defs.APIRTSPConn))
		case "rtsp_sessions":
			rtsp.sessions = append(rtsp.sessions, item.Interface().(defs.APIRTSPSession))
		case "rtsps_conns":
			rtsps.conns = append(rtsps.conns, item.Interface().(defs.APIRTSPConn))
		case "rtsps_sessions":
			rtsps.sessions = append(rtsps.sessions, item.Interface().(defs.APIRTSPSession))
		case "rtmp_conns":
			rtmp.conns = append(rtmp.conns, item.Interface().(defs.APIRTMPConn))
		case "rtmps_conns":
			rtmps.conns = append(rtmps.conns, item.Interface().(defs.APIRTMPConn))
		case "srt_conns":
			srt.conns = append(srt.conns, item.Interface().(defs.APISRTConn))
		case "webrtc_sessions":
			webrtc.sessions = append(webrtc.sessions, item.Interface().(defs.APIWebRTCSession))
		case "moq_sessions":
			moq.sessions = append(moq.sessions, item.Interface().(defs.APIMoQSession))
		}
	}

	m := &Metrics{}
	m.SetPathManager(pm)
	has := func(i int) bool { return mask&(1<<i) != 0 }
	if has(0) {
		m.SetHLSServer(hls)
	}
	if has(1) {
		m.SetRTSPServer(rtsp)
	}
	if has(2) {
		m.SetRTSPSServer(rtsps)
	}
	if has(3) {
		m.SetRTMPServer(rtmp)
	}
	if has(4) {
		m.SetRTMPSServer(rtmps)
	}
	if has(5) {
		m.SetSRTServer(srt)
	}
	if has(6) {
		m.SetWebRTCServer(webrtc)
	}
	if has(7) {
		m.SetMoQServer(moq)
	}

	rec := httptest.NewRecorder()
	ctx, _ := gin.CreateTestContext(rec)
	target := "/metrics"
	if query != "" {
		target += "?" + query
	}
	ctx.Request = httptest.NewRequest(http.MethodGet, target, nil)
	m.onMetrics(ctx)
	return fmt.Sprintf("%d %s", rec.Code, verifutil.Hex(rec.Body.Bytes()))
}

func verifC36Exec(op string) string {
	f := strings.Fields(op)
	switch f[0] {
	case "tags":
		n := verifutil.Atoi(f[1])
		m, _ := verifC36ParseLabels(f[2:], n)
		return verifutil.HexS(tags(m))
	case "metric":
		name := f[1]
		n := verifutil.Atoi(f[2])
		m, rest := verifC36ParseLabels(f[3:], n)
		ta := ""
		if n > 0 {
			ta = tags(m)
		}
		var sb strings.Builder
		switch rest[0] {
		case "i":
			metric(&sb, name, ta, verifutil.AtoI64(rest[1]))
		case "f":
			bits, err := strconv.ParseUint(rest[1], 16, 64)
			if err != nil {
				panic("verif: bad float bits")
			}
			metricFloat(&sb, name, ta, math.Float64frombits(bits))
		default:
			return "bad-op"
		}
		return verifutil.HexS(sb.String())
	case "scrape":
		return verifC36Scrape(f[1:])
	}
	return "bad-op"
}

// ---------- generator ----------

var verifC36Hostile = []string{
	`"`, `\`, "\n", `a"b`, `a\`, `\"`, `x",evil="1`, "x\"} 1\nforged_metric 7\nz{p=\"", `a\nb`, "a\rb", "\\\\", `""`,
	"a b", "a\tb", "{", "}", ",", "=", "#", "# HELP x", " ", "", "é", "日本", "\xff\xfe", "\x00", "a,b=c", `a="b"`,
	"x\\", "tab\there", "nl\nnl", strings.Repeat("a", 300), `{k="v"}`, "1", "NaN",
}

// long label values: around 1 KiB and beyond, plain or with a character that needs escaping placed
// around the 1024-byte mark (of the escaped form) — a renderer must neither cut nor cap them
func verifC36Long(r *verifutil.Rand) string {
	n := []int{1023, 1024, 1025, 2048, 4096, 1022, 1026}[r.Intn(7)]
	b := []byte(strings.Repeat("abcdefghijklmnopqrstuvwxyz012345", n/32+1)[:n])
	if r.Chance(2, 3) {
		esc := []byte{'"', '\\', '\n'}[r.Intn(3)]
		for k := 1 + r.Intn(3); k > 0; k-- {
			pos := []int{1019, 1020, 1021, 1022, 1023, 1024, 1025, 0, n - 1, n / 2}[r.Intn(10)]
			if pos < n {
				b[pos] = esc
			}
		}
	}
	return string(b)
}

func verifC36Str(r *verifutil.Rand, hostile bool, base string) string {
	if r.Chance(1, 25) {
		return verifC36Long(r)
	}
	if hostile && r.Chance(1, 2) {
		h := verifC36Hostile[r.Intn(len(verifC36Hostile))]
		switch r.Intn(3) {
		case 0:
			return h
		case 1:
			return base + h
		default:
			return h + base
		}
	}
	return base
}

// the spellings of an id that github.com/google/uuid.Parse accepts (it ignores case, a urn:uuid: prefix,
// any two bytes wrapped around the 36-byte form, and the dash-less 32-digit form), and near-misses
func verifC36IDVariant(r *verifutil.Rand, id string) string {
	nodash := strings.ReplaceAll(id, "-", "")
	flip := func(s string) string { // change one hex digit
		b := []byte(s)
		for k := 0; k < 40; k++ {
			i := r.Intn(len(b))
			if b[i] != '-' {
				if b[i] == '0' {
					b[i] = '1'
				} else {
					b[i] = '0'
				}
				break
			}
		}
		return string(b)
	}
	switch r.Intn(16) {
	case 0, 1:
		return id
	case 2, 3:
		return strings.ToUpper(id)
	case 4:
		return "urn:uuid:" + id
	case 5:
		return "URN:UUID:" + strings.ToUpper(id)
	case 6:
		return "{" + id + "}"
	case 7:
		return "(" + strings.ToUpper(id) + ")"
	case 8:
		return nodash
	case 9:
		return strings.ToUpper(nodash)
	case 10:
		b := []byte(id) // mixed case
		for i := range b {
			if i%2 == 0 && b[i] >= 'a' && b[i] <= 'f' {
				b[i] -= 32
			}
		}
		return string(b)
	case 11:
		return flip(id)
	case 12:
		return strings.ToUpper(flip(id))
	case 13:
		return id[:len(id)-1]
	case 14:
		return id + "0"
	default:
		return " " + id
	}
}

func verifC36UUID(r *verifutil.Rand) string {
	var u uuid.UUID
	copy(u[:], r.Bytes(16))
	return u.String()
}

func verifC36GenScrape(r *verifutil.Rand, thorough bool) string {
	hostile := r.Chance(1, 4)
	floatMode := r.Intn(3)
	mask := 255
	switch r.Intn(4) {
	case 0:
		mask = r.Intn(256)
	case 1:
		mask = 0
	}
	var ents []verifC36Entity
	base := uint64(1 + r.Intn(50))
	nextBase := func() uint64 { base += uint64(1 + r.Intn(3)); return base }

	// paths
	np := r.Intn(4)
	if r.Chance(1, 6) {
		np = 0
	}
	var pathNames []string
	for i := 0; i < np; i++ {
		name := verifC36Str(r, hostile, r.Pick("cam", "live/stream", "a", "test_1", "x~y.z-0")+fmt.Sprint(i))
		dup := false
		for _, n := range pathNames {
			dup = dup || n == name
		}
		if dup {
			continue
		}
		pathNames = append(pathNames, name)
		state := r.Pick("ready", "notReady")
		ents = append(ents, verifC36Entity{
			section: "paths", labels: [][2]string{{"name", name}, {"state", state}}, base: "1",
			fields: verifC36Fields(verifC36Sec("paths").typ, nextBase(), floatMode),
		})
		// readers
		nrt := r.Intn(3)
		if nrt == 0 {
			ents = append(ents, verifC36Entity{section: "paths_readers",
				labels: [][2]string{{"name", name}, {"state", state}, {"readerType", ""}}, base: "0"})
		}
		used := map[string]bool{}
		for k := 0; k < nrt; k++ {
			rt := verifC36Str(r, hostile && r.Chance(1, 3), r.Pick("rtspSession", "rtmpConn", "hlsMuxer", "webRTCSession", "srtConn"))
			if used[rt] || rt == "" {
				if k == 0 {
					ents = append(ents, verifC36Entity{section: "paths_readers",
						labels: [][2]string{{"name", name}, {"state", state}, {"readerType", ""}}, base: "0"})
				}
				break
			}
			used[rt] = true
			ents = append(ents, verifC36Entity{section: "paths_readers",
				labels: [][2]string{{"name", name}, {"state", state}, {"readerType", rt}}, base: fmt.Sprint(1 + r.Intn(3))})
		}
		// forward destinations
		for k := r.Intn(3); k > 0; k-- {
			ents = append(ents, verifC36Entity{
				section: "forward_dests",
				labels: [][2]string{{"id", verifC36UUID(r)}, {"path", name},
					{"protocol", verifC36Str(r, hostile && r.Chance(1, 4), r.Pick("rtmp", "rtsp", "srt", "whip"))},
					{"state", verifC36Str(r, hostile && r.Chance(1, 4), r.Pick("idle", "forwarding", "error"))}},
				base: "1", fields: verifC36Fields(verifC36Sec("forward_dests").typ, nextBase(), floatMode),
			})
		}
	}

	for _, sec := range verifC36Sections {
		if sec.server == "" {
			continue
		}
		bit := 0
		for i, s := range verifC36Servers {
			if s == sec.server {
				bit = i
			}
		}
		if mask&(1<<bit) == 0 {
			continue
		}
		n := r.Intn(3)
		if r.Chance(1, 3) {
			n = 0
		}
		usedNames := map[string]bool{}
		for k := 0; k < n; k++ {
			e := verifC36Entity{section: sec.name, base: "1", fields: verifC36Fields(sec.typ, nextBase(), floatMode)}
			ok := true
			for _, lk := range sec.labels {
				var v string
				switch lk {
				case "id":
					v = verifC36UUID(r)
				case "state":
					v = verifC36Str(r, hostile && r.Chance(1, 5), r.Pick("idle", "read", "publish"))
				case "path":
					v = verifC36Str(r, hostile, r.Pick("cam0", "live/stream1", "", "nonexistent"))
				case "name":
					v = verifC36Str(r, hostile, r.Pick("cam", "live/stream")+fmt.Sprint(k))
					if usedNames[v] {
						ok = false
					}
					usedNames[v] = true
				case "remoteAddr":
					v = verifC36Str(r, hostile && r.Chance(1, 4), r.Pick("127.0.0.1:3455", "[::1]:554", "10.0.0.7:61234"))
				}
				e.labels = append(e.labels, [2]string{lk, v})
			}
			if ok {
				ents = append(ents, e)
			}
		}
	}

	// query
	query := ""
	switch r.Intn(8) {
	case 0:
		query = "type=" + r.Pick("paths", "forward_dests", "hls_sessions", "hls_muxers", "rtsp_conns", "rtsp_sessions",
			"rtsps_conns", "rtsps_sessions", "rtmp_conns", "rtmps_conns", "srt_conns", "webrtc_sessions", "moq_sessions", "bogus")
	case 1:
		if len(ents) > 0 {
			e := ents[r.Intn(len(ents))]
			sec := verifC36Sec(e.section)
			key := "id"
			if sec.filter == "path" || sec.filter == "hls_muxer" {
				key = "name"
			}
			query = sec.filter + "=" + url.QueryEscape(e.label(key))
		}
	case 2:
		query = r.Pick("path=nonexistent", "rtsp_session="+verifC36UUID(r), "type=paths&path=cam0", "hls_muxer=cam0")
	case 3, 4:
		// an id filter that names an existing entity in every spelling uuid.Parse accepts, and near-misses:
		// whatever the filter selects, the id label must be the entity's own (canonical) id
		var idEnts []verifC36Entity
		for _, e := range ents {
			if e.label("id") != "" {
				idEnts = append(idEnts, e)
			}
		}
		if len(idEnts) > 0 {
			e := idEnts[r.Intn(len(idEnts))]
			query = verifC36Sec(e.section).filter + "=" + url.QueryEscape(verifC36IDVariant(r, e.label("id")))
			if r.Chance(1, 5) {
				query = "type=" + e.section + "&" + query
			}
		}
	}

	var sb strings.Builder
	fmt.Fprintf(&sb, "scrape %s %d %d", verifutil.HexS(query), mask, len(ents))
	for i := range ents {
		sb.WriteString(" ")
		sb.WriteString(ents[i].encode())
	}
	return sb.String()
}

var verifC36Keys = []string{"id", "name", "path", "state", "remoteAddr", "readerType", "protocol", "a", "Z_9", "_x"}

func verifC36GenLabels(r *verifutil.Rand, hostile bool, min int) string {
	n := min + r.Intn(4)
	perm := r.Intn(1000)
	var sb strings.Builder
	used := map[string]bool{}
	cnt := 0
	var parts []string
	for i := 0; i < n; i++ {
		k := verifC36Keys[(perm+i*7)%len(verifC36Keys)]
		if used[k] {
			continue
		}
		used[k] = true
		v := verifC36Str(r, hostile, r.Pick("cam", "live/stream", "ready", "127.0.0.1:554", ""))
		if hostile && r.Chance(1, 6) {
			v = string(r.Bytes(1 + r.Intn(6)))
		}
		parts = append(parts, k+" "+verifutil.HexS(v))
		cnt++
	}
	fmt.Fprintf(&sb, "%d", cnt)
	for _, p := range parts {
		sb.WriteString(" " + p)
	}
	return sb.String()
}

func verifC36Gen(r *verifutil.Rand, i int, thorough bool) []string {
	switch r.Intn(10) {
	case 0, 1:
		return []string{"tags " + verifC36GenLabels(r, r.Chance(1, 3), 0)}
	case 2, 3, 4:
		name := r.Pick("paths", "rtsp_sessions_inbound_bytes", "a:b", "_m", "srt_conns_ms_rtt")
		labels := verifC36GenLabels(r, r.Chance(1, 3), 0)
		if r.Chance(1, 3) {
			var v float64
			switch r.Intn(4) {
			case 0:
				v = []float64{math.NaN(), math.Inf(1), math.Inf(-1), 0, math.Copysign(0, -1), 1e21, 1e-7, 5e-324, math.MaxFloat64}[r.Intn(9)]
			case 1:
				v = float64(r.Intn(100000)) / 16
			case 2:
				v = math.Float64frombits(r.U64())
			default:
				v = -float64(r.Intn(1000)) / 3
			}
			return []string{fmt.Sprintf("metric %s %s f %016x %s", name, labels, math.Float64bits(v), verifC36FmtFloat(v))}
		}
		var v int64
		switch r.Intn(4) {
		case 0:
			v = []int64{0, 1, -1, math.MaxInt64, math.MinInt64, 10, 99, 100}[r.Intn(8)]
		case 1:
			v = int64(r.U64())
		default:
			v = int64(r.Intn(1000000))
		}
		return []string{fmt.Sprintf("metric %s %s i %d", name, labels, v)}
	default:
		return []string{verifC36GenScrape(r, thorough)}
	}
}

func verifC36HasUnsafe(op string) bool {
	w := strings.Fields(op)
	for i := 0; i+1 < len(w); i++ {
		isKey := false
		for _, k := range verifC36Keys {
			isKey = isKey || k == w[i]
		}
		if !isKey {
			continue
		}
		if b, err := hex.DecodeString(w[i+1]); err == nil && strings.ContainsAny(string(b), "\"\\\n") {
			return true
		}
	}
	return false
}

func TestVerifC36(t *testing.T) {
	gin.SetMode(gin.ReleaseMode)
	verifutil.Main(t, &verifutil.Harness{
		ID: "C36", Exec: verifC36Exec, Gen: verifC36Gen, Quick: 1500, Thorough: 20000,
		Class: func(op, impl string) string {
			w := strings.Fields(op)[0]
			if verifC36HasUnsafe(op) {
				return w + "/hostile"
			}
			if w == "scrape" {
				f := strings.Fields(op)
				if f[1] != "-" {
					return w + "/filtered"
				}
				if f[3] == "0" {
					return w + "/empty"
				}
			}
			return w + "/benign"
		},
	})
}
