//go:build verif

package conf

// C11 correspondence harness (injected into package conf by overlay).
//
// ops
//   reset <name> <Ty>            type tree of the values of this history, by reflection
//   clone <name> <seed> <V>      build value #seed of type <name>, copy it with the real Clone/deepClone;
//                                answer: "<V of the copy> slots=<n> alias=<paths|->"
//                                (copy numbered jointly with the original: a cell id below the number of
//                                cells of the original IS a cell of the original; alias = slots of the copy
//                                whose mutation changed a fingerprint of the original taken before)
//   clonem <Method> <name> <seed> <V>   the same through another copy constructor found by reflection
//                                (parameterless method of *Conf / *Path returning the same type)
//   apiread <seed> <V>           loader-built Conf #seed as the running configuration of a real api.API (external
//                                half of the harness, package conf_test); all config GET endpoints; "changed=<0|1>"
//   reject <seed> <slot> <V>     loader-built Conf #seed; Clone; PatchPath(first path, source=bogus);
//                                Validate rejects; answer "changed=<0|1>" (fingerprint of the original)

import (
	"fmt"
	"math"
	"reflect"
	"sort"
	"strings"
	"testing"

	"github.com/bluenviron/mediamtx/internal/conf/yamlwrapper"
	"github.com/bluenviron/mediamtx/internal/verifutil"
)

// ---------- synthetic types: every branch of deepClone, kinds Conf does not have ----------

type verifC11Inner struct {
	A int
	P *string
	L []int
}

type verifC11SynA struct {
	S   string
	PP  **int
	LS  []verifC11Inner
	LP  []*verifC11Inner
	M   map[string]*verifC11Inner
	ML  map[string][]string
	MS  map[int]verifC11Inner
	un  *int
	In  verifC11Inner
	PIn *verifC11Inner
}

type verifC11SynB struct {
	I1 any // *int
	I2 any // verifC11Inner by value
	I3 any // string
	M  map[string]any // *verifC11Inner
	L  []any          // *int
	P  *verifC11SynC
}

type verifC11SynC struct {
	hidden []int
	X      float64
	E      []string
	B      bool
	U      uint16
}

type verifC11SynD struct {
	A  int
	Ch chan int
	L  []string
}

// dynamic type of interface-typed places, by "owner type name.field"
func verifC11Dyn(owner string) reflect.Type {
	switch owner {
	case "OptionalPath.Values":
		return reflect.PointerTo(optionalPathValuesType)
	case "verifC11SynB.I1", "verifC11SynB.L[]":
		return reflect.TypeOf(new(int))
	case "verifC11SynB.I2":
		return reflect.TypeOf(verifC11Inner{})
	case "verifC11SynB.I3":
		return reflect.TypeOf("")
	case "verifC11SynB.M{}":
		return reflect.TypeOf(&verifC11Inner{})
	}
	return nil
}

func verifC11Type(name string) reflect.Type {
	switch name {
	case "conf", "lconf":
		return reflect.TypeOf(Conf{})
	case "path":
		return reflect.TypeOf(Path{})
	case "synA":
		return reflect.TypeOf(verifC11SynA{})
	case "synB":
		return reflect.TypeOf(verifC11SynB{})
	case "synD":
		return reflect.TypeOf(verifC11SynD{})
	}
	panic("verif: unknown type name " + name)
}

func verifC11IsScalar(k reflect.Kind) bool {
	switch k {
	case reflect.Bool, reflect.Int, reflect.Int8, reflect.Int16, reflect.Int32, reflect.Int64,
		reflect.Uint, reflect.Uint8, reflect.Uint16, reflect.Uint32, reflect.Uint64, reflect.Uintptr,
		reflect.Float32, reflect.Float64, reflect.String:
		return true
	}
	return false
}

// ---------- type tree ----------

func verifC11EncTy(t reflect.Type, owner string, sb *strings.Builder) {
	switch t.Kind() {
	case reflect.Pointer:
		sb.WriteByte('p')
		verifC11EncTy(t.Elem(), owner+"*", sb)
	case reflect.Slice:
		sb.WriteByte('l')
		verifC11EncTy(t.Elem(), owner+"[]", sb)
	case reflect.Map:
		if !verifC11IsScalar(t.Key().Kind()) {
			panic("verif: map key is not a scalar: " + t.String())
		}
		sb.WriteByte('m')
		verifC11EncTy(t.Elem(), owner+"{}", sb)
	case reflect.Struct:
		sb.WriteString("S(")
		for i := 0; i < t.NumField(); i++ {
			f := t.Field(i)
			if f.IsExported() {
				sb.WriteByte('+')
				o := t.Name() + "." + f.Name
				verifC11EncTy(f.Type, o, sb)
			} else {
				sb.WriteByte('-')
			}
		}
		sb.WriteByte(')')
	case reflect.Interface:
		d := verifC11Dyn(owner)
		if d == nil {
			// unknown dynamic type: may hold anything, in particular a reference
			sb.WriteString("io")
		} else {
			sb.WriteByte('i')
			verifC11EncTy(d, owner+"!", sb)
		}
	case reflect.Chan, reflect.Func, reflect.UnsafePointer, reflect.Array, reflect.Complex64, reflect.Complex128:
		// arrays are copied by value by deepClone (element references shared): treated as not clonable
		sb.WriteByte('o')
	default:
		if !verifC11IsScalar(t.Kind()) {
			panic("verif: unexpected kind " + t.Kind().String())
		}
		sb.WriteByte('s')
	}
}

// ---------- hashing ----------

type verifC11Hash uint64

func (h *verifC11Hash) u64(x uint64) {
	v := uint64(*h)
	for i := 0; i < 8; i++ {
		v ^= x & 0xff
		v *= 1099511628211
		x >>= 8
	}
	*h = verifC11Hash(v)
}

func (h *verifC11Hash) str(s string) {
	v := uint64(*h)
	for i := 0; i < len(s); i++ {
		v ^= uint64(s[i])
		v *= 1099511628211
	}
	v ^= 0xff
	v *= 1099511628211
	*h = verifC11Hash(v)
}

func verifC11ScalarBits(v reflect.Value, h *verifC11Hash) {
	switch v.Kind() {
	case reflect.Bool:
		if v.Bool() {
			h.u64(1)
		} else {
			h.u64(0)
		}
	case reflect.Int, reflect.Int8, reflect.Int16, reflect.Int32, reflect.Int64:
		h.u64(uint64(v.Int()))
	case reflect.Uint, reflect.Uint8, reflect.Uint16, reflect.Uint32, reflect.Uint64, reflect.Uintptr:
		h.u64(v.Uint())
	case reflect.Float32, reflect.Float64:
		h.u64(math.Float64bits(v.Float()))
	case reflect.String:
		h.str(v.String())
	default:
		panic("verif: not a scalar: " + v.Kind().String())
	}
}

func verifC11ScalarLabel(v reflect.Value) uint64 {
	h := verifC11Hash(14695981039346656037)
	h.u64(uint64(v.Kind()))
	verifC11ScalarBits(v, &h)
	return uint64(h) & (1<<40 - 1)
}

// deep fingerprint of everything reachable (unexported fields included), no addresses
func verifC11Fp(v reflect.Value, h *verifC11Hash, depth int) {
	if depth > 40 {
		h.u64(0xdeadbeef)
		return
	}
	switch v.Kind() {
	case reflect.Pointer:
		if v.IsNil() {
			h.u64(2)
			return
		}
		h.u64(3)
		verifC11Fp(v.Elem(), h, depth+1)
	case reflect.Slice:
		if v.IsNil() {
			h.u64(4)
			return
		}
		n := v.Len()
		h.u64(5)
		h.u64(uint64(n))
		if n > 0 && verifC11IsScalar(v.Type().Elem().Kind()) && v.Type().Elem().Kind() == reflect.Uint8 {
			for i := 0; i < n; i++ {
				h.u64(v.Index(i).Uint())
			}
			return
		}
		for i := 0; i < n; i++ {
			verifC11Fp(v.Index(i), h, depth+1)
		}
	case reflect.Map:
		if v.IsNil() {
			h.u64(6)
			return
		}
		h.u64(7)
		h.u64(uint64(v.Len()))
		for _, k := range verifC11SortedKeys(v) {
			verifC11ScalarBits(k, h)
			verifC11Fp(v.MapIndex(k), h, depth+1)
		}
	case reflect.Struct:
		n := v.NumField()
		for i := 0; i < n; i++ {
			verifC11Fp(v.Field(i), h, depth+1)
		}
	case reflect.Interface:
		if v.IsNil() {
			h.u64(8)
			return
		}
		h.u64(9)
		verifC11Fp(v.Elem(), h, depth+1)
	case reflect.Chan, reflect.Func, reflect.UnsafePointer:
		if v.IsNil() {
			h.u64(10)
		} else {
			h.u64(11)
		}
	case reflect.Array:
		for i := 0; i < v.Len(); i++ {
			verifC11Fp(v.Index(i), h, depth+1)
		}
	case reflect.Complex64, reflect.Complex128:
		h.u64(math.Float64bits(real(v.Complex())))
	default:
		verifC11ScalarBits(v, h)
	}
}

func verifC11Fingerprint(v reflect.Value) uint64 {
	h := verifC11Hash(14695981039346656037)
	verifC11Fp(v, &h, 0)
	return uint64(h)
}

func verifC11SortedKeys(m reflect.Value) []reflect.Value {
	keys := m.MapKeys()
	sort.Slice(keys, func(i, j int) bool {
		a, b := keys[i], keys[j]
		switch a.Kind() {
		case reflect.String:
			return a.String() < b.String()
		case reflect.Int, reflect.Int8, reflect.Int16, reflect.Int32, reflect.Int64:
			return a.Int() < b.Int()
		case reflect.Uint, reflect.Uint8, reflect.Uint16, reflect.Uint32, reflect.Uint64:
			return a.Uint() < b.Uint()
		}
		return fmt.Sprint(a) < fmt.Sprint(b)
	})
	return keys
}

// ---------- value encoding with jointly numbered cells ----------

type verifC11Cell struct {
	addr uintptr
	kind byte
}

type verifC11Enc struct {
	ids map[verifC11Cell]int
	sb  strings.Builder
}

func (e *verifC11Enc) id(addr uintptr, kind byte) int {
	c := verifC11Cell{addr, kind}
	if i, ok := e.ids[c]; ok {
		return i
	}
	i := len(e.ids)
	e.ids[c] = i
	return i
}

func (e *verifC11Enc) enc(v reflect.Value, owner string) {
	switch v.Kind() {
	case reflect.Pointer:
		if v.IsNil() {
			e.sb.WriteByte('n')
			return
		}
		if v.Type().Elem().Size() == 0 {
			panic("verif: pointer to zero-size type")
		}
		fmt.Fprintf(&e.sb, "p%d:", e.id(v.Pointer(), 'p'))
		e.enc(v.Elem(), owner+"*")
	case reflect.Slice:
		if v.IsNil() {
			e.sb.WriteByte('n')
			return
		}
		if v.Len() == 0 {
			e.sb.WriteByte('e')
			return
		}
		if v.Type().Elem().Size() == 0 {
			panic("verif: slice of zero-size elements")
		}
		fmt.Fprintf(&e.sb, "l%d:(", e.id(v.Pointer(), 'l'))
		for i := 0; i < v.Len(); i++ {
			e.enc(v.Index(i), owner+"[]")
		}
		e.sb.WriteByte(')')
	case reflect.Map:
		if v.IsNil() {
			e.sb.WriteByte('n')
			return
		}
		fmt.Fprintf(&e.sb, "m%d:(", e.id(v.Pointer(), 'm'))
		for _, k := range verifC11SortedKeys(v) {
			fmt.Fprintf(&e.sb, "%d=", verifC11ScalarLabel(k))
			e.enc(v.MapIndex(k), owner+"{}")
		}
		e.sb.WriteByte(')')
	case reflect.Struct:
		t := v.Type()
		e.sb.WriteString("S(")
		for i := 0; i < t.NumField(); i++ {
			f := t.Field(i)
			if f.IsExported() {
				e.sb.WriteByte('+')
				e.enc(v.Field(i), t.Name()+"."+f.Name)
			} else if v.Field(i).IsZero() {
				e.sb.WriteString("-z")
			} else {
				e.sb.WriteString("-u")
			}
		}
		e.sb.WriteByte(')')
	case reflect.Interface:
		if v.IsNil() {
			e.sb.WriteByte('n')
			return
		}
		if d := verifC11Dyn(owner); d != nil && v.Elem().Type() != d {
			panic("verif: unexpected dynamic type " + v.Elem().Type().String() + " at " + owner)
		}
		e.sb.WriteByte('i')
		e.enc(v.Elem(), owner+"!")
	case reflect.Chan:
		if v.IsNil() {
			e.sb.WriteByte('n')
			return
		}
		fmt.Fprintf(&e.sb, "o%d,", e.id(v.Pointer(), 'o'))
	case reflect.Func, reflect.UnsafePointer, reflect.Array, reflect.Complex64, reflect.Complex128:
		panic("verif: value of unsupported kind " + v.Kind().String())
	default:
		fmt.Fprintf(&e.sb, "s%d,", verifC11ScalarLabel(v))
	}
}

// ---------- mutate every slot of the copy ----------

type verifC11Mut struct {
	orig  reflect.Value
	fp0   uint64
	slots int
	alias []string
	bad   string
}

func (m *verifC11Mut) test(path string, do, undo func()) {
	m.slots++
	if do == nil {
		return
	}
	do()
	after := verifC11Fingerprint(m.orig)
	undo()
	if after != m.fp0 {
		m.alias = append(m.alias, path)
		if verifC11Fingerprint(m.orig) != m.fp0 {
			m.bad = "undo-failed at " + path
		}
	}
}

func verifC11Perturb(v reflect.Value) reflect.Value {
	n := reflect.New(v.Type()).Elem()
	switch v.Kind() {
	case reflect.Bool:
		n.SetBool(!v.Bool())
	case reflect.Int, reflect.Int8, reflect.Int16, reflect.Int32, reflect.Int64:
		n.SetInt(v.Int() ^ 1)
	case reflect.Uint, reflect.Uint8, reflect.Uint16, reflect.Uint32, reflect.Uint64, reflect.Uintptr:
		n.SetUint(v.Uint() ^ 1)
	case reflect.Float32, reflect.Float64:
		n.SetFloat(v.Float() + 1.5)
	case reflect.String:
		n.SetString(v.String() + "~")
	default:
		panic("verif: perturb " + v.Kind().String())
	}
	return n
}

// walk visits the value returned by get(); set(x) assigns the place it lives in (nil = not assignable:
// by-value content of an interface box).
func (m *verifC11Mut) walk(get func() reflect.Value, set func(reflect.Value), path string) {
	v := get()
	old := reflect.New(v.Type()).Elem()
	old.Set(v)
	toggle := func(mk func() reflect.Value) {
		if set == nil {
			return
		}
		if old.IsNil() {
			m.test(path, func() { set(mk()) }, func() { set(old) })
		} else {
			m.test(path, func() { set(reflect.Zero(old.Type())) }, func() { set(old) })
		}
	}
	switch v.Kind() {
	case reflect.Pointer:
		toggle(func() reflect.Value { return reflect.New(old.Type().Elem()) })
		if !old.IsNil() {
			el := old.Elem()
			m.walk(func() reflect.Value { return el }, func(x reflect.Value) { el.Set(x) }, path+"*")
		}
	case reflect.Slice:
		toggle(func() reflect.Value { return reflect.MakeSlice(old.Type(), 1, 1) })
		if !old.IsNil() {
			for i := 0; i < old.Len(); i++ {
				el := old.Index(i)
				m.walk(func() reflect.Value { return el }, func(x reflect.Value) { el.Set(x) }, fmt.Sprintf("%s[%d]", path, i))
			}
		}
	case reflect.Map:
		toggle(func() reflect.Value { return reflect.MakeMap(old.Type()) })
		if !old.IsNil() {
			nk := verifC11NewKey(old)
			m.test(path+"{+}", func() { old.SetMapIndex(nk, reflect.Zero(old.Type().Elem())) },
				func() { old.SetMapIndex(nk, reflect.Value{}) })
			for i, k := range verifC11SortedKeys(old) {
				k := k
				m.walk(func() reflect.Value { return old.MapIndex(k) }, func(x reflect.Value) { old.SetMapIndex(k, x) },
					fmt.Sprintf("%s{%d}", path, i))
			}
		}
	case reflect.Struct:
		t := v.Type()
		for i := 0; i < t.NumField(); i++ {
			if !t.Field(i).IsExported() {
				continue
			}
			i := i
			var fset func(reflect.Value)
			if set != nil {
				fset = func(x reflect.Value) {
					c := reflect.New(t).Elem()
					c.Set(get())
					c.Field(i).Set(x)
					set(c)
				}
			}
			m.walk(func() reflect.Value { return get().Field(i) }, fset, fmt.Sprintf("%s.%d", path, i))
		}
	case reflect.Interface:
		toggle(func() reflect.Value {
			if old.Type().NumMethod() == 0 {
				return reflect.ValueOf(new(int))
			}
			return reflect.Zero(old.Type())
		})
		if !old.IsNil() {
			el := old.Elem()
			m.walk(func() reflect.Value { return el }, nil, path+"!")
		}
	case reflect.Chan:
		toggle(func() reflect.Value { return reflect.MakeChan(old.Type(), 0) })
	default:
		if set != nil {
			m.test(path, func() { set(verifC11Perturb(old)) }, func() { set(old) })
		}
	}
}

func verifC11NewKey(m reflect.Value) reflect.Value {
	kt := m.Type().Key()
	for i := 0; ; i++ {
		k := reflect.New(kt).Elem()
		switch kt.Kind() {
		case reflect.String:
			k.SetString(fmt.Sprintf("\x00verif-new-%d", i))
		case reflect.Int, reflect.Int8, reflect.Int16, reflect.Int32, reflect.Int64:
			k.SetInt(int64(100 + i))
		case reflect.Uint, reflect.Uint8, reflect.Uint16, reflect.Uint32, reflect.Uint64:
			k.SetUint(uint64(100 + i))
		default:
			panic("verif: map key kind")
		}
		if !m.MapIndex(k).IsValid() {
			return k
		}
	}
}

// ---------- value generation ----------

var verifC11Strings = []string{"", "a", "publisher", "rtsp://h/x", "secret1", "~^x$", "all_others", "%path_%Y", "1"}

func verifC11Fill(r *verifutil.Rand, v reflect.Value, owner string, depth int, dens int) {
	nonNil := func() bool { return r.Intn(100) < dens }
	switch v.Kind() {
	case reflect.Pointer:
		if depth < 12 && nonNil() {
			p := reflect.New(v.Type().Elem())
			verifC11Fill(r, p.Elem(), owner+"*", depth+1, dens)
			v.Set(p)
		}
	case reflect.Slice:
		if depth < 12 && nonNil() {
			n := r.Intn(4)
			s := reflect.MakeSlice(v.Type(), n, n+r.Intn(2))
			for i := 0; i < n; i++ {
				verifC11Fill(r, s.Index(i), owner+"[]", depth+1, dens)
			}
			v.Set(s)
		}
	case reflect.Map:
		if depth < 12 && nonNil() {
			m := reflect.MakeMap(v.Type())
			n := r.Intn(3)
			for i := 0; i < n; i++ {
				k := reflect.New(v.Type().Key()).Elem()
				verifC11Fill(r, k, "", depth+1, 100)
				e := reflect.New(v.Type().Elem()).Elem()
				verifC11Fill(r, e, owner+"{}", depth+1, dens)
				m.SetMapIndex(k, e)
			}
			v.Set(m)
		}
	case reflect.Struct:
		t := v.Type()
		for i := 0; i < t.NumField(); i++ {
			f := t.Field(i)
			if f.IsExported() {
				verifC11Fill(r, v.Field(i), t.Name()+"."+f.Name, depth+1, dens)
			}
		}
	case reflect.Interface:
		d := verifC11Dyn(owner)
		if d != nil && depth < 12 && nonNil() {
			x := reflect.New(d).Elem()
			if d.Kind() == reflect.Pointer {
				// a non-nil pointer: that is what OptionalPath.Values always holds
				p := reflect.New(d.Elem())
				verifC11Fill(r, p.Elem(), owner+"!*", depth+1, dens)
				x.Set(p)
			} else {
				verifC11Fill(r, x, owner+"!", depth+1, dens)
			}
			v.Set(x)
		}
	case reflect.Chan:
		if nonNil() {
			v.Set(reflect.MakeChan(v.Type(), 1))
		}
	case reflect.Bool:
		v.SetBool(r.Bool())
	case reflect.Int, reflect.Int8, reflect.Int16, reflect.Int32, reflect.Int64:
		v.SetInt(int64(r.Intn(100)) - 10)
	case reflect.Uint, reflect.Uint8, reflect.Uint16, reflect.Uint32, reflect.Uint64:
		v.SetUint(uint64(r.Intn(100)))
	case reflect.Float32, reflect.Float64:
		v.SetFloat(float64(r.Intn(40)) / 4)
	case reflect.String:
		v.SetString(verifC11Strings[r.Intn(len(verifC11Strings))])
	}
}

// a Conf the way the loader builds one: defaults, document, nil slices → empty, Validate (fills Paths).
func verifC11LoaderConf(r *verifutil.Rand) *Conf {
	var paths []string
	names := []string{"cam1", "cam2", "live/a", "~^x[0-9]+$", "all_others", "proxied"}
	n := 1 + r.Intn(3)
	used := map[string]bool{}
	for i := 0; i < n; i++ {
		nm := names[r.Intn(len(names))]
		if used[nm] {
			continue
		}
		used[nm] = true
		var kv []string
		switch r.Intn(6) {
		case 0, 1:
			kv = append(kv, `"source":"rtsp://10.0.0.1/s"`, `"sourceOnDemand":true`)
		case 2:
			kv = append(kv, `"source":"nonsense"`) // Validate fails: Paths only partly filled
		}
		if r.Chance(1, 3) {
			kv = append(kv, `"record":true`)
		}
		if r.Chance(1, 4) {
			kv = append(kv, `"publishUser":"u1"`, `"publishPass":"pw1"`)
		}
		if r.Chance(1, 4) {
			kv = append(kv, `"readIPs":["10.0.0.0/8","::1/128"]`)
		}
		if r.Chance(1, 4) {
			kv = append(kv, `"rtspUDPSourcePortRange":[1000,2000]`, `"maxReaders":3`)
		}
		if r.Chance(1, 5) {
			kv = append(kv, `"forward":[{"dest":"rtmp://h/x"}]`)
		}
		paths = append(paths, fmt.Sprintf(`%q:{%s}`, nm, strings.Join(kv, ",")))
	}
	var glob []string
	if r.Chance(1, 3) {
		glob = append(glob, `"logLevel":"debug"`, `"rtspTransports":["tcp"]`)
	}
	if r.Chance(1, 3) {
		glob = append(glob, `"authInternalUsers":[{"user":"adm","pass":"pw9","ips":["127.0.0.1/32"],"permissions":[{"action":"api"}]}]`)
	}
	if r.Chance(1, 4) {
		glob = append(glob, `"webrtcICEServers2":[{"url":"stun:x:1","username":"u","password":"p"}]`)
	}
	if r.Chance(1, 5) {
		glob = append(glob, `"pathDefaults":{"readUser":"ru","readPass":"rp"}`)
	}
	glob = append(glob, `"paths":{`+strings.Join(paths, ",")+`}`)
	doc := "{" + strings.Join(glob, ",") + "}"

	c := &Conf{}
	c.setDefaults()
	if err := yamlwrapper.Unmarshal([]byte(doc), c); err != nil {
		panic("verif: loader document rejected: " + err.Error() + " " + doc)
	}
	setAllNilSlicesToEmptyRecursive(reflect.ValueOf(c))
	_ = c.Validate(nil)
	return c
}

func verifC11Build(name string, seed uint64) reflect.Value {
	r := verifutil.NewRand(seed)
	if name == "lconf" {
		return reflect.ValueOf(verifC11LoaderConf(r))
	}
	p := reflect.New(verifC11Type(name))
	dens := []int{10, 35, 60, 90}[r.Intn(4)]
	verifC11Fill(r, p.Elem(), "", 0, dens)
	return p
}

// every parameterless method of *Conf / *Path that returns a *Conf / *Path is a copy constructor
func verifC11Constructors(name string) []string {
	var t reflect.Type
	switch name {
	case "conf", "lconf":
		t = reflect.TypeOf(&Conf{})
	case "path":
		t = reflect.TypeOf(&Path{})
	default:
		return nil
	}
	var out []string
	for i := 0; i < t.NumMethod(); i++ {
		m := t.Method(i)
		if m.Type.NumIn() == 1 && m.Type.NumOut() == 1 && m.Type.Out(0) == t && m.Name != "Clone" {
			out = append(out, m.Name)
		}
	}
	return out
}

// the copy, as a pointer to a fresh variable (Conf.Clone / Path.Clone do exactly that)
func verifC11Clone(name string, p reflect.Value, method string) reflect.Value {
	if method != "Clone" {
		return p.MethodByName(method).Call(nil)[0]
	}
	switch name {
	case "conf", "lconf":
		return reflect.ValueOf(p.Interface().(*Conf).Clone())
	case "path":
		return reflect.ValueOf(p.Interface().(*Path).Clone())
	}
	np := reflect.New(p.Type().Elem())
	np.Elem().Set(deepClone(p.Elem()))
	return np
}

func verifC11EncodeOrig(p reflect.Value) (*verifC11Enc, string) {
	e := &verifC11Enc{ids: map[verifC11Cell]int{}}
	e.enc(p.Elem(), "")
	return e, e.sb.String()
}

func verifC11Exec(op string) string {
	f := strings.Fields(op)
	switch f[0] {
	case "reset":
		var sb strings.Builder
		verifC11EncTy(verifC11Type(f[1]), "", &sb)
		if sb.String() != f[2] {
			return "type-tree-changed " + sb.String()
		}
		return "ok"

	case "clone", "clonem":
		method := "Clone"
		if f[0] == "clonem" {
			method = f[1]
			f = f[1:]
		}
		name := f[1]
		var seed uint64
		fmt.Sscan(f[2], &seed)
		p := verifC11Build(name, seed)
		e, enc := verifC11EncodeOrig(p)
		if enc != f[3] {
			return "value-not-reproducible"
		}
		n := len(e.ids)
		fp0 := verifC11Fingerprint(p.Elem())
		cp := verifC11Clone(name, p, method)
		if verifC11Fingerprint(p.Elem()) != fp0 {
			return "clone-changed-original"
		}
		if got := e.id(cp.Pointer(), 'p'); got != n {
			return "copy-root-is-an-old-cell"
		}
		e.sb.Reset()
		fmt.Fprintf(&e.sb, "p%d:", n)
		e.enc(cp.Elem(), "")
		out := e.sb.String()
		m := &verifC11Mut{orig: p.Elem(), fp0: fp0}
		root := cp.Elem()
		m.walk(func() reflect.Value { return root }, func(x reflect.Value) { root.Set(x) }, "")
		if m.bad != "" {
			return m.bad
		}
		al := "-"
		if len(m.alias) > 0 {
			al = strings.Join(m.alias, ",")
		}
		return fmt.Sprintf("%s slots=%d alias=%s", out, m.slots, al)

	case "apiread":
		// every configuration GET endpoint of the real api.API, the loader-built Conf being the running one:
		// reads (which clone and redact) must leave it untouched
		var seed uint64
		fmt.Sscan(f[1], &seed)
		p := verifC11Build("lconf", seed)
		_, enc := verifC11EncodeOrig(p)
		if enc != f[2] {
			return "value-not-reproducible"
		}
		if VerifC11APIReads == nil {
			return "no-api-hook"
		}
		fp0 := verifC11Fingerprint(p.Elem())
		if e := VerifC11APIReads(p.Interface().(*Conf)); e != "" {
			return e
		}
		if verifC11Fingerprint(p.Elem()) != fp0 {
			return "changed=1"
		}
		return "changed=0"

	case "reject":
		var seed uint64
		fmt.Sscan(f[1], &seed)
		p := verifC11Build("lconf", seed)
		_, enc := verifC11EncodeOrig(p)
		if enc != f[3] {
			return "value-not-reproducible"
		}
		c := p.Interface().(*Conf)
		name, slot := verifC11RejectTarget(c)
		if slot != f[2] {
			return "slot-not-reproducible " + slot
		}
		fp0 := verifC11Fingerprint(p.Elem())
		nc := c.Clone()
		var patch OptionalPath
		if err := patch.UnmarshalJSON([]byte(`{"source":"bogus-rejected-source"}`)); err != nil {
			return "patch-undecodable"
		}
		if err := nc.PatchPath(name, &patch); err != nil {
			return "patch-failed"
		}
		if err := nc.Validate(nil); err == nil {
			return "accepted"
		}
		if verifC11Fingerprint(p.Elem()) != fp0 {
			return "changed=1"
		}
		return "changed=0"
	}
	return "bad-op"
}

// VerifC11APIReads is installed by the external half of the harness (package conf_test, which may import
// internal/api): it serves all configuration GET endpoints with c as the running configuration.
var VerifC11APIReads func(c *Conf) string

// first path (sorted) and the slot of its `source` inside the copy
func verifC11RejectTarget(c *Conf) (string, string) {
	name := sortedKeys(c.OptionalPaths)[0]
	fi, _ := reflect.TypeOf(Conf{}).FieldByName("OptionalPaths")
	si, _ := optionalPathValuesType.FieldByName("Source")
	return name, fmt.Sprintf(".%d{0}*.0!*.%d", fi.Index[0], si.Index[0])
}

func verifC11Gen(r *verifutil.Rand, i int, thorough bool) []string {
	names := []string{"synA", "synB", "synA", "synB", "synD", "path", "path", "lconf", "lconf", "conf"}
	name := names[i%len(names)]
	var sb strings.Builder
	verifC11EncTy(verifC11Type(name), "", &sb)
	ops := []string{"reset " + name + " " + sb.String()}
	k := 1
	if strings.HasPrefix(name, "syn") {
		k = 6
	}
	for j := 0; j < k; j++ {
		seed := r.U64() >> 1
		p := verifC11Build(name, seed)
		_, enc := verifC11EncodeOrig(p)
		ops = append(ops, fmt.Sprintf("clone %s %d %s", name, seed, enc))
		for _, m := range verifC11Constructors(name) {
			ops = append(ops, fmt.Sprintf("clonem %s %s %d %s", m, name, seed, enc))
		}
		if name == "lconf" {
			_, slot := verifC11RejectTarget(p.Interface().(*Conf))
			ops = append(ops, fmt.Sprintf("reject %d %s %s", seed, slot, enc))
			ops = append(ops, fmt.Sprintf("apiread %d %s", seed, enc))
		}
	}
	return ops
}

func TestVerifC11(t *testing.T) {
	verifutil.Main(t, &verifutil.Harness{
		ID: "C11", Exec: verifC11Exec, Gen: verifC11Gen, Quick: 200, Thorough: 6000,
		Class: func(op, impl string) string {
			f := strings.Fields(op)
			switch f[0] {
			case "reset":
				return "reset/" + f[1]
			case "reject":
				return "reject/" + impl
			case "apiread":
				return "apiread/" + impl
			case "clonem":
				f = f[1:]
			}
			cl := "independent"
			if !strings.HasSuffix(impl, "alias=-") {
				cl = "aliased"
			}
			return "clone/" + f[1] + "/" + cl
		},
		NonTrivial: func(op, impl string) bool { return !strings.HasPrefix(op, "reset") },
	})
}
