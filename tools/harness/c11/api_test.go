//go:build verif

package conf_test

// External half of the C11 harness: package conf cannot import internal/api (cycle), an external test package of
// the same directory can.  It installs a hook that serves every configuration GET endpoint of a real api.API
// whose parent hands out the given configuration as the running one.

import (
	"fmt"
	"net/http"
	"net/http/httptest"
	"reflect"
	"sort"
	"time"
	"unsafe"

	"github.com/bluenviron/mediamtx/internal/api"
	"github.com/bluenviron/mediamtx/internal/auth"
	"github.com/bluenviron/mediamtx/internal/conf"
	"github.com/bluenviron/mediamtx/internal/logger"
	"github.com/bluenviron/mediamtx/internal/protocols/httpp"
)

type verifC11Parent struct{ c *conf.Conf }

func (*verifC11Parent) Log(logger.Level, string, ...any)                      {}
func (p *verifC11Parent) APIConfigSnapshot() *conf.Conf                       { return p.c }
func (*verifC11Parent) APIConfigGlobalPatch(conf.OptionalGlobal) error        { return nil }
func (*verifC11Parent) APIConfigPathDefaultsPatch(conf.OptionalPath) error    { return nil }
func (*verifC11Parent) APIConfigPathsAdd(string, conf.OptionalPath) error     { return nil }
func (*verifC11Parent) APIConfigPathsPatch(string, conf.OptionalPath) error   { return nil }
func (*verifC11Parent) APIConfigPathsReplace(string, conf.OptionalPath) error { return nil }
func (*verifC11Parent) APIConfigPathsDelete(string) error                     { return nil }

type verifC11Auth struct{}

func (verifC11Auth) Authenticate(*auth.Request) (string, *auth.Error) { return "", nil }
func (verifC11Auth) RefreshJWTJWKS()                                  {}

var (
	verifC11APIParent  = &verifC11Parent{}
	verifC11APIHandler http.Handler
)

func verifC11Router() (http.Handler, error) {
	if verifC11APIHandler != nil {
		return verifC11APIHandler, nil
	}
	a := &api.API{
		Address:      "127.0.0.1:0",
		ReadTimeout:  conf.Duration(10 * time.Second),
		WriteTimeout: conf.Duration(10 * time.Second),
		AuthManager:  verifC11Auth{},
		Parent:       verifC11APIParent,
	}
	if err := a.Initialize(); err != nil {
		return nil, err
	}
	f := reflect.ValueOf(a).Elem().FieldByName("httpServer")
	srv := reflect.NewAt(f.Type(), unsafe.Pointer(f.UnsafeAddr())).Elem().Interface().(*httpp.Server)
	verifC11APIHandler = srv.Handler
	return verifC11APIHandler, nil
}

func init() {
	conf.VerifC11APIReads = func(c *conf.Conf) string {
		h, err := verifC11Router()
		if err != nil {
			return "api-did-not-start"
		}
		verifC11APIParent.c = c
		get := func(path, query string) int {
			req := httptest.NewRequest(http.MethodGet, "/v3/x"+query, nil)
			req.URL.Path = path
			w := httptest.NewRecorder()
			h.ServeHTTP(w, req)
			return w.Code
		}
		var names []string
		for n := range c.Paths {
			names = append(names, n)
		}
		sort.Strings(names)
		codes := []int{
			get("/v3/config/global/get", ""),
			get("/v3/config/pathdefaults/get", ""),
			get("/v3/config/paths/list", ""),
			get("/v3/config/paths/list", "?itemsPerPage=1&page=1"),
		}
		for _, n := range names {
			codes = append(codes, get("/v3/config/paths/get/"+n, ""))
		}
		for _, cd := range codes {
			if cd != http.StatusOK {
				return fmt.Sprintf("http-%d", cd)
			}
		}
		return ""
	}
}
