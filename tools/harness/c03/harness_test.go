//go:build verif

// C03 correspondence harness: drives the REAL pathManager (and through it real paths) of package core with a
// real auth.Manager, dummy publishers / readers, and configuration reloads between authorization and attach.
package core

import (
	crand "crypto/rand"
	"errors"
	"fmt"
	"net"
	"os"
	"path/filepath"
	"regexp"
	"strings"
	"testing"
	"time"

	"github.com/bluenviron/gortsplib/v5/pkg/description"

	"github.com/bluenviron/mediamtx/internal/auth"
	"github.com/bluenviron/mediamtx/internal/conf"
	"github.com/bluenviron/mediamtx/internal/defs"
	"github.com/bluenviron/mediamtx/internal/externalcmd"
	"github.com/bluenviron/mediamtx/internal/logger"
	"github.com/bluenviron/mediamtx/internal/test"
	"github.com/bluenviron/mediamtx/internal/verifutil"
)

type verifC03Log struct{}

func (verifC03Log) Log(logger.Level, string, ...any) {}

type verifC03Pub struct {
	verifC03Log
	id int
}

func (p *verifC03Pub) Close() {}
func (p *verifC03Pub) APISourceDescribe() *defs.APIPathSource {
	return &defs.APIPathSource{Type: defs.APIPathSourceTypeRTSPSession, ID: fmt.Sprint(p.id)}
}

type verifC03Rd struct {
	verifC03Log
	id int
}

func (r *verifC03Rd) Close() {}
func (r *verifC03Rd) APIReaderDescribe() *defs.APIPathReader {
	return &defs.APIPathReader{Type: defs.APIPathReaderTypeRTSPSession, ID: fmt.Sprint(r.id)}
}

type verifC03Zero struct{}

func (verifC03Zero) Read(p []byte) (int, error) {
	clear(p)
	return len(p), nil
}

var (
	verifC03Tmpl *conf.Path
	verifC03Mgr  *auth.Manager
	verifC03PM   *pathManager
	verifC03Pool *externalcmd.Pool
	verifC03Cur  []verifC03Conf // configuration in force (harness' own record, for the generator)
)

type verifC03Conf struct {
	name, kind, pat string
	v, w            int
}

func (c verifC03Conf) tok() string {
	return fmt.Sprintf("C%s,%s,%s,%d,%d", verifutil.HexS(c.name), c.kind, verifutil.HexS(c.pat), c.v, c.w)
}

func (c verifC03Conf) cmpTok() string {
	return fmt.Sprintf("%s:%s:%s:%d:%d", verifutil.HexS(c.name), c.kind, verifutil.HexS(c.pat), c.v, c.w)
}

func verifC03ParseConf(t string) verifC03Conf {
	p := strings.Split(t, ",")
	return verifC03Conf{name: verifutil.UnHexS(p[0]), kind: p[1], pat: verifutil.UnHexS(p[2]), v: verifutil.Atoi(p[3]), w: verifutil.Atoi(p[4])}
}

// build makes a *conf.Path the way Conf.Validate would: template (all defaults, source publisher,
// overridePublisher) + name/regexp + the two content fields: v = recordDeleteAfter (hot reloadable),
// w = maxReaders (a change re-creates the path).
func (c verifC03Conf) build() *conf.Path {
	p := verifC03Tmpl.Clone()
	p.Name = c.name
	p.Regexp = nil
	switch c.kind {
	case "a":
		p.Regexp = regexp.MustCompile("^.*$")
	case "p":
		p.Regexp = regexp.MustCompile(c.name[1:])
	}
	p.RecordDeleteAfter = conf.Duration(time.Duration(c.v) * time.Hour)
	p.MaxReaders = c.w
	return p
}

func verifC03Map(cs []verifC03Conf) map[string]*conf.Path {
	m := map[string]*conf.Path{}
	for _, c := range cs {
		m[c.name] = c.build()
	}
	return m
}

func verifC03Init() {
	verifC03PRealRand = crand.Reader
	verifC03JWTInit()
	crand.Reader = verifC03Zero{} // auth.LogAndDelayError draws its 0–4 s pause from here: 0 ns
	dir, err := os.MkdirTemp("", "verifc03")
	if err != nil {
		panic(err)
	}
	defer os.RemoveAll(dir)
	cf := filepath.Join(dir, "mediamtx.yml")
	if err = os.WriteFile(cf, []byte("paths:\n  tmpl:\n"), 0o644); err != nil {
		panic(err)
	}
	cnf, _, err := conf.Load(cf, nil, nil)
	if err != nil {
		panic(err)
	}
	verifC03Tmpl = cnf.Paths["tmpl"]
	verifC03Pool = &externalcmd.Pool{}
	verifC03Pool.Initialize()
}

// users: U<userhex>,<passhex>,<ips|->,<action[@pathhex];…>
func verifC03ParseUsers(fs []string) []conf.AuthInternalUser {
	var out []conf.AuthInternalUser
	for _, f := range fs {
		p := strings.Split(f[1:], ",")
		u := conf.AuthInternalUser{User: conf.Credential(verifutil.UnHexS(p[0])), Pass: conf.Credential(verifutil.UnHexS(p[1]))}
		if p[2] != "-" {
			for _, c := range strings.Split(p[2], "+") {
				var n conf.IPNetwork
				if err := n.UnmarshalJSON([]byte(`"` + c + `"`)); err != nil {
					panic(err)
				}
				u.IPs = append(u.IPs, n)
			}
		}
		for _, a := range strings.Split(p[3], ";") {
			act, pth, _ := strings.Cut(a, "@")
			perm := conf.AuthInternalUserPermission{Action: conf.AuthAction(act)}
			if pth != "" {
				perm.Path = verifutil.UnHexS(pth)
			}
			u.Permissions = append(u.Permissions, perm)
		}
		out = append(out, u)
	}
	return out
}

func verifC03Split(fs []string) (cs []verifC03Conf, us []string) {
	for _, f := range fs {
		switch f[0] {
		case 'C':
			cs = append(cs, verifC03ParseConf(f[1:]))
		case 'U':
			us = append(us, f)
		}
	}
	return
}

type verifC03Req struct {
	name           string
	publish, skip  bool
	user, pass, ip string
	proto          int
}

var verifC03Protos = []auth.Protocol{auth.ProtocolRTSP, auth.ProtocolRTMP, auth.ProtocolHLS, auth.ProtocolWebRTC, auth.ProtocolSRT, auth.ProtocolMoQ}

func (q verifC03Req) access() defs.PathAccessRequest {
	return defs.PathAccessRequest{
		Name: q.name, Publish: q.publish, SkipAuth: q.skip, Proto: verifC03Protos[q.proto%len(verifC03Protos)],
		Credentials: &auth.Credentials{User: q.user, Pass: q.pass}, IP: net.ParseIP(q.ip),
	}
}

// oracle columns: IsValidPathName, and the auth manager's verdict on the request the property names
func (q verifC03Req) oracle() (valid bool, res string) {
	valid = conf.IsValidPathName(q.name) == nil
	// the request the property names, built by hand (NOT through ToAuthRequest, which is code under test)
	act := conf.AuthActionRead
	if q.publish {
		act = conf.AuthActionPublish
	}
	if verifC03JWTActive { // jwt method: the harness' own verdict on the token (jwt_test.go)
		res = "deny"
		if verifC03JWTRef(q.pass, string(act), q.name) {
			res = "ok"
		}
		return
	}
	_, err := verifC03Mgr.Authenticate(&auth.Request{Action: act, Path: q.name, Protocol: verifC03Protos[q.proto%len(verifC03Protos)],
		Credentials: &auth.Credentials{User: q.user, Pass: q.pass}, IP: net.ParseIP(q.ip)})
	switch {
	case err == nil:
		res = "ok"
	case err.AskCredentials:
		res = "ask"
	default:
		res = "deny"
	}
	return
}

func verifC03B(b bool) string {
	if b {
		return "1"
	}
	return "0"
}

func (q verifC03Req) line() string {
	valid, res := q.oracle()
	return fmt.Sprintf("%s %s %s %s %s %s %d %s %s", verifutil.HexS(q.name), verifC03B(q.publish), verifC03B(q.skip),
		verifutil.HexS(q.user), verifutil.HexS(q.pass), q.ip, q.proto, verifC03B(valid), res)
}

func verifC03ParseReq(f []string) (verifC03Req, string) {
	q := verifC03Req{name: verifutil.UnHexS(f[0]), publish: f[1] == "1", skip: f[2] == "1", user: verifutil.UnHexS(f[3]),
		pass: verifutil.UnHexS(f[4]), ip: f[5], proto: verifutil.Atoi(f[6])}
	return q, f[7] + " " + f[8]
}

func verifC03Err(err error) string {
	var ae *auth.Error
	var ns *defs.PathNoStreamAvailableError
	switch {
	case errors.As(err, &ae):
		return "autherr " + verifC03B(ae.AskCredentials)
	case errors.As(err, &ns):
		return "nostream"
	case strings.Contains(err.Error(), "is not configured") || strings.Contains(err.Error(), "invalid path name"):
		return "nopath"
	case err.Error() == "configuration has changed":
		return "changed"
	}
	return "other " + strings.ReplaceAll(err.Error(), " ", "_")
}

func verifC03Exec(op string) string {
	f := strings.Fields(op)
	switch f[0] {
	case "reset":
		cs, us := verifC03Split(f[1:])
		if verifC03PM != nil {
			verifC03PM.close()
		}
		verifC03Mgr = &auth.Manager{Method: conf.AuthMethodInternal, InternalUsers: verifC03ParseUsers(us), ReadTimeout: time.Second}
		verifC03JWTSet(verifC03JWTParse(f[1:]))
		if verifC03JWTActive {
			verifC03Mgr = &auth.Manager{Method: conf.AuthMethodJWT, JWTJWKS: verifC03JWTSrv.URL, JWTClaimKey: verifC03JWTClaim, ReadTimeout: 5 * time.Second}
		}
		verifC03PM = &pathManager{
			logLevel: conf.LogLevel(logger.Info), readTimeout: conf.Duration(10 * time.Second), writeTimeout: conf.Duration(10 * time.Second),
			writeQueueSize: 512, udpMaxPayloadSize: 1472, rtpMaxPayloadSize: 1450,
			pathConfs: verifC03Map(cs), authManager: verifC03Mgr, externalCmdPool: verifC03Pool, parent: verifC03Log{},
		}
		verifC03PM.initialize()
		verifC03Cur = cs
		verifC03PUsers = verifC03PParseUsers(us)
		return "ok"
	case "proto":
		return verifC03PExec(f)
	case "reload":
		cs, _ := verifC03Split(f[1:])
		verifC03PM.ReloadPathConfs(verifC03Map(cs))
		verifC03Cur = cs
		return "reloaded"
	}
	cl := verifutil.Atoi(f[1])
	rest := f[2:]
	var cmp *conf.Path
	if f[0] == "addpub" {
		if f[2] != "-" {
			p := strings.Split(f[2], ":")
			cmp = verifC03ParseConf(strings.Join(p, ",")).build()
		}
		rest = f[3:]
	}
	q, orc := verifC03ParseReq(rest)
	if v, r := q.oracle(); verifC03B(v)+" "+r != orc {
		return "oracle-mismatch " + verifC03B(v) + " " + r
	}
	switch f[0] {
	case "find":
		res, err := verifC03PM.FindPathConf(defs.PathFindPathConfReq{Author: verifC03Log{}, AccessRequest: q.access()})
		if err != nil {
			return verifC03Err(err)
		}
		return fmt.Sprintf("found %s:%d:%d", verifutil.HexS(res.Conf.Name), int(time.Duration(res.Conf.RecordDeleteAfter)/time.Hour), res.Conf.MaxReaders)
	case "describe":
		res, err := verifC03PM.Describe(defs.PathDescribeReq{Author: verifC03Log{}, AccessRequest: q.access()})
		if err != nil {
			return verifC03Err(err)
		}
		if res.Stream == nil {
			return "other describe-without-stream"
		}
		return "described"
	case "addreader":
		rd := &verifC03Rd{id: cl}
		res, err := verifC03PM.AddReader(defs.PathAddReaderReq{Author: rd, AccessRequest: q.access()})
		if err != nil {
			return verifC03Err(err)
		}
		name := res.Path.Name()
		res.Path.RemoveReader(defs.PathRemoveReaderReq{Author: rd})
		return fmt.Sprintf("attached %d %s 0", cl, verifutil.HexS(name))
	case "addpub":
		pub := &verifC03Pub{id: cl}
		res, err := verifC03PM.AddPublisher(defs.PathAddPublisherReq{
			Author: pub, Desc: &description.Session{Medias: []*description.Media{test.UniqueMediaH264()}},
			UseRTPPackets: false, ReplaceNTP: true, ConfToCompare: cmp, AccessRequest: q.access(),
		})
		if err != nil {
			return verifC03Err(err)
		}
		return fmt.Sprintf("attached %d %s 1", cl, verifutil.HexS(res.Path.Name()))
	}
	return "bad-op"
}

// ---------- generator ----------

func verifC03GenConfs(r *verifutil.Rand) []verifC03Conf {
	var cs []verifC03Conf
	ver := func() (int, int) { return 1 + r.Intn(2), 1 + r.Intn(2) }
	if r.Chance(4, 5) {
		v, w := ver()
		cs = append(cs, verifC03Conf{"cam", "s", "", v, w})
	}
	if r.Chance(1, 3) {
		v, w := ver()
		cs = append(cs, verifC03Conf{"live/a", "s", "", v, w})
	}
	if r.Chance(2, 3) {
		v, w := ver()
		cs = append(cs, verifC03Conf{"~^dyn/", "p", "dyn/", v, w})
	}
	if r.Chance(1, 4) {
		v, w := ver()
		cs = append(cs, verifC03Conf{"~^d", "p", "d", v, w})
	}
	if r.Chance(1, 3) {
		v, w := ver()
		cs = append(cs, verifC03Conf{"all_others", "a", "", v, w})
	}
	if len(cs) == 0 {
		cs = append(cs, verifC03Conf{"cam", "s", "", 1, 1})
	}
	// map iteration order is random in Go: shuffle so that the model's sort is exercised
	for i := len(cs) - 1; i > 0; i-- {
		j := r.Intn(i + 1)
		cs[i], cs[j] = cs[j], cs[i]
	}
	return cs
}

// a reload: same content, hot change, cold change, a configuration removed / added
func verifC03Mutate(r *verifutil.Rand, cs []verifC03Conf) []verifC03Conf {
	out := append([]verifC03Conf{}, cs...)
	switch r.Intn(6) {
	case 0: // identical content (new pointers)
	case 1:
		i := r.Intn(len(out))
		out[i].v = 3 - out[i].v
	case 2:
		i := r.Intn(len(out))
		out[i].w = 3 - out[i].w
	case 3:
		if len(out) > 1 {
			i := r.Intn(len(out))
			out = append(out[:i], out[i+1:]...)
		}
	case 4:
		return verifC03GenConfs(r)
	case 5:
		has := false
		for _, c := range out {
			has = has || c.name == "all_others"
		}
		if !has {
			out = append(out, verifC03Conf{"all_others", "a", "", 1 + r.Intn(2), 1 + r.Intn(2)})
		}
	}
	return out
}

func verifC03Users(r *verifutil.Rand) []string {
	h := verifutil.HexS
	type u struct{ user, pass, ips, perms string }
	var us []u
	switch r.Intn(7) {
	case 6: // everything depends on the client address
		us = []u{{"any", "", "10.0.0.0/8", "publish;read"}, {"pub", "pp", "10.1.2.3", "publish"}, {"rd", "rp", "192.168.0.0/16+10.0.0.0/8", "read"}}
	case 0: // default-like: anybody may publish and read
		us = []u{{"any", "", "-", "publish;read"}}
	case 1:
		us = []u{{"pub", "pp", "-", "publish"}, {"rd", "rp", "-", "read"}}
	case 2: // path-restricted
		us = []u{{"pub", "pp", "-", "publish@" + h("cam")}, {"rd", "rp", "-", "read@" + h("~^dyn/")}, {"pub2", "p2", "-", "publish@" + h("~^dyn/")}}
	case 3: // anonymous readers, named publisher restricted by IP
		us = []u{{"any", "", "-", "read"}, {"pub", "pp", "10.0.0.0/8", "publish"}}
	case 4: // only administrative permissions: nobody may touch media
		us = []u{{"any", "", "-", "api;metrics;playback"}}
	default:
		acts := []string{"publish", "read"}
		for k := 0; k < 1+r.Intn(3); k++ {
			x := u{fmt.Sprintf("u%d", k), fmt.Sprintf("p%d", k), "-", ""}
			a := acts[r.Intn(2)]
			if r.Bool() {
				a += "@" + h(r.Pick("cam", "dyn/x", "~^dyn/", "~^.*$", "live/a"))
			}
			if r.Chance(1, 3) {
				a += ";" + acts[r.Intn(2)]
			}
			x.perms = a
			us = append(us, x)
		}
	}
	var out []string
	for _, x := range us {
		out = append(out, fmt.Sprintf("U%s,%s,%s,%s", h(x.user), h(x.pass), x.ips, x.perms))
	}
	return out
}

func verifC03Gen(r *verifutil.Rand, i int, thorough bool) []string {
	if i%50 == 7 { // HLS: a session authorized on one path must not open another path
		verifC03JWTSet(nil)
		return verifC03PGenCross(r)
	}
	cs := verifC03GenConfs(r)
	us := verifC03Users(r)
	var toks []string
	for _, c := range cs {
		toks = append(toks, c.tok())
	}
	// every 5th history: authMethod jwt (tokens in the Pass field, JWKS served in-process)
	var kids []string
	if i%5 == 3 {
		kids = []string{"k1"}
		if r.Bool() {
			kids = append(kids, "k2")
		}
		toks = append(toks, verifC03JWTTok(kids))
	}
	verifC03JWTSet(kids)
	reset := "reset " + strings.Join(append(toks, us...), " ")
	ops := []string{reset}
	// the generator needs the oracle: install the permission table now (Exec does the same at replay)
	verifC03Mgr = &auth.Manager{Method: conf.AuthMethodInternal, InternalUsers: verifC03ParseUsers(us), ReadTimeout: time.Second}
	cur := cs

	names := []string{"cam", "cam", "dyn/x", "dyn/x", "dyn/y", "live/a", "dz", "nope", "all_others", "~^dyn/", "../x", "", "cam/"}
	idents := [][2]string{{"", ""}, {"pub", "pp"}, {"rd", "rp"}, {"pub2", "p2"}, {"pub", "wrong"}, {"u0", "p0"}, {"u1", "p1"}, {"ghost", "x"}}
	if kids != nil {
		idents = verifC03JWTIdents(r, kids)
	}
	mk := func(publish, skip bool) verifC03Req {
		id := idents[r.Intn(len(idents))]
		return verifC03Req{name: names[r.Intn(len(names))], publish: publish, skip: skip, user: id[0], pass: id[1],
			ip: r.Pick("10.1.2.3", "192.168.9.9"), proto: r.Intn(6)}
	}
	reload := func() {
		cur = verifC03Mutate(r, cur)
		var t []string
		for _, c := range cur {
			t = append(t, c.tok())
		}
		ops = append(ops, "reload "+strings.Join(t, " "))
	}
	// what the model/real code would find now (harness-side copy of FindPathConf through the real function)
	findNow := func(name string) (verifC03Conf, bool) {
		pc, _, err := conf.FindPathConf(verifC03Map(cur), name)
		if err != nil {
			return verifC03Conf{}, false
		}
		for _, c := range cur {
			if c.name == pc.Name {
				return c, true
			}
		}
		return verifC03Conf{}, false
	}

	// protocol side: a few real client connections against the real rtsp/rtmp/srt servers (recording path
	// manager answering from this history's permission table)
	if i%4 == 0 {
		ops = append(ops, verifC03PGen(r.Fork(), us, 2+r.Intn(2))...)
	}

	n := 6 + r.Intn(10)
	if thorough {
		n = 10 + r.Intn(40)
	}
	for k := 0; k < n; k++ {
		cl := 1 + r.Intn(3)
		switch r.Intn(10) {
		case 0, 1, 2, 3: // the two-step publisher pattern, possibly with a reload in between
			q := mk(true, false)
			ops = append(ops, fmt.Sprintf("find %d %s", cl, q.line()))
			found, ok := findNow(q.name)
			if r.Chance(1, 2) {
				reload()
			}
			if r.Chance(1, 8) {
				ops = append(ops, fmt.Sprintf("addreader %d %s", 1+r.Intn(3), mk(false, r.Chance(1, 4)).line()))
			}
			cmp := "-"
			switch {
			case ok && r.Chance(5, 6):
				cmp = found.cmpTok()
			case r.Chance(1, 2) && len(cur) > 0:
				cmp = cur[r.Intn(len(cur))].cmpTok() // some other configuration
			}
			q2 := q
			q2.skip, q2.user, q2.pass = true, "", ""
			if r.Chance(1, 10) {
				q2.name = names[r.Intn(len(names))] // attaches to another name than it was authorized for
			}
			ops = append(ops, fmt.Sprintf("addpub %d %s %s", cl, cmp, q2.line()))
		case 4: // direct publisher (MoQ style), with or without credentials
			ops = append(ops, fmt.Sprintf("addpub %d - %s", cl, mk(true, false).line()))
		case 5, 6: // reader
			ops = append(ops, fmt.Sprintf("addreader %d %s", cl, mk(false, r.Chance(1, 5)).line()))
		case 7:
			ops = append(ops, fmt.Sprintf("describe %d %s", cl, mk(false, r.Chance(1, 5)).line()))
		case 8:
			reload()
		case 9: // hostile: SkipAuth on find (must be ignored), publisher without ConfToCompare, mismatched flags
			switch r.Intn(3) {
			case 0:
				ops = append(ops, fmt.Sprintf("find %d %s", cl, mk(r.Bool(), true).line()))
			case 1:
				ops = append(ops, fmt.Sprintf("addpub %d - %s", cl, mk(true, true).line()))
			case 2:
				ops = append(ops, fmt.Sprintf("addreader %d %s", cl, mk(true, false).line()))
			}
		}
	}
	return ops
}

func TestVerifC03(t *testing.T) {
	if os.Getenv("VERIF_OUT") == "" {
		t.Skip("VERIF_OUT not set")
	}
	verifC03Init()
	defer func() {
		if verifC03PM != nil {
			verifC03PM.close()
		}
		if verifC03PW != nil {
			verifC03PW.close()
		}
	}()
	verifutil.Main(t, &verifutil.Harness{
		ID: "C03", Exec: verifC03Exec, Gen: verifC03Gen, Quick: 1000, Thorough: 20000,
		Class: func(op, impl string) string {
			o := strings.Fields(op)[0]
			a := strings.Fields(impl)
			k := "?"
			if len(a) > 0 {
				k = a[0]
			}
			if o == "reset" || o == "reload" {
				return o
			}
			if o == "proto" {
				f := strings.Fields(op)
				att := "noattach"
				for _, e := range strings.FieldsFunc(strings.Join(a[1:], ""), func(c rune) bool { return c == ';' || c == '|' }) {
					p := strings.Split(e, ":")
					if len(p) == 7 && (p[0] == "p" || p[0] == "r") && p[5] == "1" {
						att = "attach"
					}
				}
				return fmt.Sprintf("proto/%s/%s/expect%s/%s/%s", f[1], f[2], f[7], k, att)
			}
			f := strings.Fields(op)
			skip := f[len(f)-7]
			return fmt.Sprintf("%s/skip%s/%s/%s", o, skip, f[len(f)-1], k)
		},
		NonTrivial: func(op, impl string) bool { return !strings.HasPrefix(op, "reset") },
	})
}
