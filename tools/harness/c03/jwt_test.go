//go:build verif

// C03, jwt method: histories in which the real pathManager is backed by an auth.Manager with `authMethod: jwt`
// and a JWKS endpoint served in-process.  Tokens travel in the credentials' Pass field.  The oracle column is the
// harness' OWN verdict on the token (ES256 verified with crypto/ecdsa, `kid` must be a published key, `exp`,
// permissions claim matched against action and path) — independent of internal/auth and golang-jwt.
package core

import (
	"crypto/ecdsa"
	"crypto/sha256"
	"crypto/x509"
	"encoding/base64"
	"encoding/json"
	"fmt"
	"math/big"
	"net/http"
	"net/http/httptest"
	"regexp"
	"strings"
	"sync"

	"github.com/bluenviron/mediamtx/internal/verifutil"
)

const verifC03JWTClaim = "mediamtx_permissions"

// fixed keys (so that a replay file reproduces in a new process): k1 is always published, k2 only when the
// reset op lists it ("rotated in"), k9 never.
var verifC03JWTKeyDER = map[string]string{
	"k1": "MHcCAQEEIEHP4uU418iWWGY6i9H0DrrNMuOBkTqLu6gcr8q9x+HwoAoGCCqGSM49AwEHoUQDQgAEipdODnBPImWCGplhSZfAH5QH5taqfpAZdjFVGeutt+75EYAS+elDzZ2XLS6gQ/2oa9o6Z7k4XgTfT08adgvh1Q==",
	"k2": "MHcCAQEEIDjdAPY9KAVw4PdZLDJJNVH4GfNboEfOMFAyPjfcQTE1oAoGCCqGSM49AwEHoUQDQgAExLxe4fBlJl0NEJwkFbxZjZ7aa8dzMuHkQGwklOdcv3wD/TvB/cf0+xKke1lzgcK6id/NvCUg2xKAFx2YCAznuw==",
	"k9": "MHcCAQEEIKQIjFv71OfRskiTJVpIje7ex4u2kEYaf9p4j9AmeRW9oAoGCCqGSM49AwEHoUQDQgAEaeSf3UjQ5L8qie1p1tLcyzXkquawCiMDd2wXRVjO4TL/UXDguKKSiwjAKYJmzhhlIKDKA2VH/UPwDKO7XkThKg==",
}

var (
	verifC03JWTKeys   = map[string]*ecdsa.PrivateKey{}
	verifC03JWTSrv    *httptest.Server
	verifC03JWTMu     sync.Mutex
	verifC03JWTPub    []string // kids published now; nil = internal method in force
	verifC03JWTActive bool
)

func verifC03JWTInit() {
	for kid, der := range verifC03JWTKeyDER {
		b, err := base64.StdEncoding.DecodeString(der)
		if err != nil {
			panic(err)
		}
		k, err := x509.ParseECPrivateKey(b)
		if err != nil {
			panic(err)
		}
		verifC03JWTKeys[kid] = k
	}
	verifC03JWTSrv = httptest.NewServer(http.HandlerFunc(func(w http.ResponseWriter, _ *http.Request) {
		verifC03JWTMu.Lock()
		pub := append([]string{}, verifC03JWTPub...)
		verifC03JWTMu.Unlock()
		type jwk struct {
			Kty string `json:"kty"`
			Crv string `json:"crv"`
			Kid string `json:"kid"`
			Alg string `json:"alg"`
			Use string `json:"use"`
			X   string `json:"x"`
			Y   string `json:"y"`
		}
		var doc struct {
			Keys []jwk `json:"keys"`
		}
		for _, kid := range pub {
			k := verifC03JWTKeys[kid]
			doc.Keys = append(doc.Keys, jwk{"EC", "P-256", kid, "ES256", "sig",
				base64.RawURLEncoding.EncodeToString(k.X.FillBytes(make([]byte, 32))),
				base64.RawURLEncoding.EncodeToString(k.Y.FillBytes(make([]byte, 32)))})
		}
		w.Header().Set("Content-Type", "application/json")
		json.NewEncoder(w).Encode(doc) //nolint:errcheck
	}))
}

type verifC03JWTPerm struct {
	Action string `json:"action"`
	Path   string `json:"path"`
}

// verifC03JWTMake signs header.payload with the named key; `kid` in the header may differ from the signing key.
func verifC03JWTMake(kid, signWith string, perms []verifC03JWTPerm, exp int64) string {
	hdr, _ := json.Marshal(map[string]string{"alg": "ES256", "typ": "JWT", "kid": kid})
	claims := map[string]any{verifC03JWTClaim: perms, "sub": "verif"}
	if exp != 0 {
		claims["exp"] = exp
	}
	pl, _ := json.Marshal(claims)
	in := base64.RawURLEncoding.EncodeToString(hdr) + "." + base64.RawURLEncoding.EncodeToString(pl)
	h := sha256.Sum256([]byte(in))
	r, s, err := ecdsa.Sign(verifC03PRealRand, verifC03JWTKeys[signWith], h[:])
	if err != nil {
		panic(err)
	}
	sig := append(r.FillBytes(make([]byte, 32)), s.FillBytes(make([]byte, 32))...)
	return in + "." + base64.RawURLEncoding.EncodeToString(sig)
}

// verifC03JWTRef: is the bearer of this token admitted for (action, path)?  Independent reading.
func verifC03JWTRef(token, action, path string) bool {
	p := strings.Split(token, ".")
	if len(p) != 3 {
		return false
	}
	hb, err1 := base64.RawURLEncoding.DecodeString(p[0])
	pb, err2 := base64.RawURLEncoding.DecodeString(p[1])
	sb, err3 := base64.RawURLEncoding.DecodeString(p[2])
	if err1 != nil || err2 != nil || err3 != nil || len(sb) != 64 {
		return false
	}
	var hdr struct {
		Alg string `json:"alg"`
		Kid string `json:"kid"`
	}
	if json.Unmarshal(hb, &hdr) != nil || hdr.Alg != "ES256" {
		return false
	}
	verifC03JWTMu.Lock()
	published := false
	for _, k := range verifC03JWTPub {
		published = published || k == hdr.Kid
	}
	verifC03JWTMu.Unlock()
	if !published {
		return false // signed by a key the authority never published (or no longer publishes)
	}
	h := sha256.Sum256([]byte(p[0] + "." + p[1]))
	if !ecdsa.Verify(&verifC03JWTKeys[hdr.Kid].PublicKey, h[:], new(big.Int).SetBytes(sb[:32]), new(big.Int).SetBytes(sb[32:])) {
		return false
	}
	var claims struct {
		Exp   *int64            `json:"exp"`
		Perms []verifC03JWTPerm `json:"mediamtx_permissions"`
	}
	if json.Unmarshal(pb, &claims) != nil {
		return false
	}
	if claims.Exp != nil && *claims.Exp < 4000000000 { // the generator uses 1 (long expired) or 4102444800 (year 2100)
		return false
	}
	for _, pm := range claims.Perms {
		if pm.Action != action {
			continue
		}
		switch {
		case pm.Path == "":
			return true
		case strings.HasPrefix(pm.Path, "~"):
			if m, err := regexp.MatchString(pm.Path[1:], path); err == nil && m {
				return true
			}
		case pm.Path == path:
			return true
		}
	}
	return false
}

// verifC03JWTIdents: the bearer tokens one history tries, as (user, pass) pairs.
func verifC03JWTIdents(r *verifutil.Rand, published []string) [][2]string {
	all := []verifC03JWTPerm{{"publish", ""}, {"read", ""}}
	sets := [][]verifC03JWTPerm{
		all,
		{{"publish", "cam"}},
		{{"read", "~^dyn/"}, {"publish", "dyn/x"}},
		{{"read", ""}},
		{{"api", ""}, {"playback", ""}},
	}
	pick := func() []verifC03JWTPerm { return sets[r.Intn(len(sets))] }
	const far = 4102444800
	out := [][2]string{
		{"", ""},
		{"", "not.a.jwt"},
		{"", verifC03JWTMake("k1", "k1", all, far)},
		{"", verifC03JWTMake("k1", "k1", pick(), 0)},
		{"", verifC03JWTMake("k1", "k1", pick(), far)},
		{"", verifC03JWTMake("k1", "k1", all, 1)},      // expired
		{"", verifC03JWTMake("k9", "k9", all, far)},    // self-signed, key id the authority never published
		{"", verifC03JWTMake("k9", "k9", pick(), 0)},   //
		{"", verifC03JWTMake("k1", "k9", all, far)},    // names a published key but is signed by another one
		{"", verifC03JWTMake("k2", "k2", all, far)},    // valid only while k2 is published (key rotation)
		{"", verifC03JWTMake("k2", "k2", pick(), far)}, //
		{"bob", verifC03JWTMake("k1", "k1", pick(), far)},
	}
	_ = published
	return out
}

func verifC03JWTSet(kids []string) {
	verifC03JWTMu.Lock()
	verifC03JWTPub = kids
	verifC03JWTActive = kids != nil
	verifC03JWTMu.Unlock()
}

func verifC03JWTTok(kids []string) string { return "J" + strings.Join(kids, "+") }

func verifC03JWTParse(fs []string) []string {
	for _, f := range fs {
		if f[0] == 'J' {
			return strings.Split(f[1:], "+")
		}
	}
	return nil
}

var _ = fmt.Sprint
