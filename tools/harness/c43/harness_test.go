//go:build verif

package hls

import (
	"encoding/hex"
	"fmt"
	"github.com/gin-gonic/gin"
	"io"
	"net"
	"net/http"
	"net/http/httptest"
	"path"
	"strings"
	"testing"
	"time"

	"github.com/bluenviron/gohlslib/v2"
	"github.com/bluenviron/gortsplib/v5/pkg/description"
	"github.com/google/uuid"

	"github.com/bluenviron/mediamtx/internal/auth"
	"github.com/bluenviron/mediamtx/internal/conf"
	"github.com/bluenviron/mediamtx/internal/defs"
	"github.com/bluenviron/mediamtx/internal/externalcmd"
	"github.com/bluenviron/mediamtx/internal/protocols/httpp"
	"github.com/bluenviron/mediamtx/internal/stream"
	"github.com/bluenviron/mediamtx/internal/test"
	"github.com/bluenviron/mediamtx/internal/unit"
	"github.com/bluenviron/mediamtx/internal/verifutil"
)

var verifC43Known = []string{"p0", "p1", "dir/p2"}

func verifC43IsKnown(dir string) bool {
	for _, k := range verifC43Known {
		if k == dir {
			return true
		}
	}
	return false
}

// stub decision of the path manager: good credentials = user "good", password "good"
func verifC43AuthOK(c *auth.Credentials) bool {
	return c != nil && c.User == "good" && c.Pass == "good"
}

type verifC43Path struct{ name string }

func (pa *verifC43Path) Name() string                                  { return pa.name }
func (pa *verifC43Path) SafeConf() *conf.Path                          { return &conf.Path{} }
func (pa *verifC43Path) ExternalCmdEnv() externalcmd.Environment       { return nil }
func (pa *verifC43Path) RemovePublisher(_ defs.PathRemovePublisherReq) {}
func (pa *verifC43Path) RemoveReader(_ defs.PathRemoveReaderReq)       {}

type verifC43Stream struct {
	strm *stream.Stream
	sub  *stream.SubStream
	pts  int64
}

type verifC43Env struct {
	srv     *Server
	trusted string
	streams map[string]*verifC43Stream
	secrets []uuid.UUID // index k -> secret of the k-th session seen
	uuids   []uuid.UUID // index k -> API id of that session
	names   map[string][2]string
}

var verifC43E *verifC43Env

// path manager stub
func (e *verifC43Env) SetHLSServer(*Server) []defs.Path { return nil }

func (e *verifC43Env) FindPathConf(req defs.PathFindPathConfReq) (*defs.PathFindPathConfRes, error) {
	return &defs.PathFindPathConfRes{Conf: &conf.Path{}}, nil
}

func (e *verifC43Env) AddReader(req defs.PathAddReaderReq) (*defs.PathAddReaderRes, error) {
	if !req.AccessRequest.SkipAuth && !verifC43AuthOK(req.AccessRequest.Credentials) {
		return nil, &auth.Error{Wrapped: fmt.Errorf("bad credentials"), AskCredentials: false}
	}
	st, ok := e.streams[req.AccessRequest.Name]
	if !ok {
		return nil, &defs.PathNoStreamAvailableError{PathName: req.AccessRequest.Name}
	}
	return &defs.PathAddReaderRes{Path: &verifC43Path{name: req.AccessRequest.Name}, Stream: st.strm}, nil
}

func (e *verifC43Env) close() {
	if e.srv != nil {
		e.srv.Close()
	}
	for _, st := range e.streams {
		st.strm.Close()
	}
}

func verifC43Reset(cdnSecret string, trusted string) string {
	if verifC43E != nil {
		verifC43E.close()
	}
	e := &verifC43Env{streams: map[string]*verifC43Stream{}, names: map[string][2]string{}, trusted: trusted}
	var tp conf.IPNetworks
	if err := tp.UnmarshalEnv("", trusted); err != nil {
		return "error " + err.Error()
	}
	for _, p := range verifC43Known {
		strm := &stream.Stream{
			OrigDesc:          &description.Session{Medias: []*description.Media{test.MediaH264}},
			WriteQueueSize:    512,
			RTPMaxPayloadSize: 1450,
			Parent:            test.NilLogger,
		}
		if err := strm.Initialize(); err != nil {
			return "error " + err.Error()
		}
		sub := &stream.SubStream{Stream: strm, UseRTPPackets: false}
		if err := sub.Initialize(); err != nil {
			return "error " + err.Error()
		}
		e.streams[p] = &verifC43Stream{strm: strm, sub: sub}
	}
	e.srv = &Server{
		Address:         "127.0.0.1:0",
		Variant:         conf.HLSVariant(gohlslib.MuxerVariantMPEGTS),
		SegmentCount:    7,
		SegmentDuration: conf.Duration(1 * time.Second),
		PartDuration:    conf.Duration(200 * time.Millisecond),
		SegmentMaxSize:  50 * 1024 * 1024,
		TrustedProxies:  tp,
		CDNSecret:       cdnSecret,
		ReadTimeout:     conf.Duration(10 * time.Second),
		WriteTimeout:    conf.Duration(10 * time.Second),
		MuxerCloseAfter: conf.Duration(1 * time.Hour),
		PathManager:     e,
		Parent:          test.NilLogger,
	}
	if err := e.srv.Initialize(); err != nil {
		return "error " + err.Error()
	}
	verifC43E = e
	return "ok"
}

func (e *verifC43Env) pump() {
	for _, st := range e.streams {
		st.sub.WriteUnit(test.MediaH264, test.FormatH264, &unit.Unit{
			PTS:     st.pts,
			Payload: unit.PayloadH264{{5, 1}},
		})
		st.pts += 90000
	}
}

// serve one request through the real gin router (middlewarePreflightRequests + onRequest); while it
// blocks (first playlist of a fresh muxer waits for content) feed the streams
func (e *verifC43Env) do(req *http.Request) *httptest.ResponseRecorder {
	rec := httptest.NewRecorder()
	done := make(chan struct{})
	go func() {
		defer close(done)
		e.srv.httpServer.inner.Handler.ServeHTTP(rec, req)
	}()
	deadline := time.After(8 * time.Second)
	for {
		select {
		case <-done:
			return rec
		case <-deadline:
			panic("request did not finish")
		case <-time.After(3 * time.Millisecond):
			e.pump()
		}
	}
}

// session table as the API shows it + indices for secrets seen for the first time
func (e *verifC43Env) counts() (string, int) {
	list, err := e.srv.APISessionsList()
	if err != nil {
		return "n=? cdn=?", -1
	}
	n, cdn := 0, 0
	for _, it := range list.Items {
		if it.IsCDN {
			cdn++
		} else {
			n++
		}
	}
	newIdx := -1
	for _, p := range verifC43Known {
		m, err := e.srv.getMuxer(serverGetMuxerReq{path: p})
		if err != nil {
			continue
		}
		m.mutex.RLock()
		for sec, sx := range m.sessionsBySecret {
			found := false
			for _, s := range e.secrets {
				if s == sec {
					found = true
				}
			}
			if !found {
				e.secrets = append(e.secrets, sec)
				e.uuids = append(e.uuids, sx.uuid)
				if newIdx >= 0 {
					newIdx = -2 // more than one new session
				} else {
					newIdx = len(e.secrets) - 1
				}
			}
		}
		m.mutex.RUnlock()
	}
	return fmt.Sprintf("n=%d cdn=%d", n, cdn), newIdx
}

// name of a segment the muxer of dir currently offers (read from its media playlist, bypassing onRequest)
func (e *verifC43Env) segmentName(dir string) string {
	m, err := e.srv.getMuxer(serverGetMuxerReq{path: dir})
	if err != nil {
		return ""
	}
	m.mutex.RLock()
	inst := m.instance
	m.mutex.RUnlock()
	if inst == nil {
		return ""
	}
	rec := httptest.NewRecorder()
	inst.hmuxer.Handle(rec, httptest.NewRequest(http.MethodGet, "http://hls.test/main_stream.m3u8", nil))
	// the newest segment: the oldest one may be rotated away by units still queued in the stream
	last := ""
	for _, l := range strings.Split(rec.Body.String(), "\n") {
		l = strings.TrimSpace(l)
		if l != "" && !strings.HasPrefix(l, "#") && strings.HasSuffix(l, ".ts") {
			last = l
		}
	}
	return last
}

func verifC43Status(code int) string {
	switch code {
	case http.StatusOK:
		return "ok"
	case http.StatusUnauthorized:
		return "denied"
	case http.StatusNotFound:
		return "notfound"
	case http.StatusFound:
		return "redirect"
	}
	return fmt.Sprintf("status%d", code)
}

func verifC43HostPort(host string) string { return net.JoinHostPort(host, "40000") }

func verifC43Trusted(ip net.IP, trusted string) bool {
	if trusted == "" || ip == nil {
		return false
	}
	for _, t := range strings.Split(trusted, ",") {
		if !strings.Contains(t, "/") {
			if strings.Contains(t, ":") {
				t += "/128"
			} else {
				t += "/32"
			}
		}
		if _, n, err := net.ParseCIDR(t); err == nil && n.Contains(ip) {
			return true
		}
	}
	return false
}

// oracle column, computed by hand and independently of the hls package: the client IP the server is
// configured to believe = the peer address, unless the peer is a trusted proxy: then the right-most
// address of X-Forwarded-For that is not itself a trusted proxy (or the left-most one)
func verifC43CIP(host, xff, trusted string) string {
	ip := net.ParseIP(host)
	if ip == nil {
		return ""
	}
	if verifC43Trusted(ip, trusted) && xff != "" {
		items := strings.Split(xff, ",")
		for i := len(items) - 1; i >= 0; i-- {
			raw := strings.TrimSpace(items[i])
			x := net.ParseIP(raw)
			if x == nil {
				break
			}
			if i == 0 || !verifC43Trusted(x, trusted) {
				return raw // gin hands on the forwarded address as written (not re-formatted)
			}
		}
	}
	return ip.String()
}

// second opinion on the same column: a stand-alone gin engine (not the server's) with the same settings
func verifC43CIPGin(host, xff, trusted string) string {
	eng := gin.New()
	var tp []string
	if trusted != "" {
		tp = strings.Split(trusted, ",")
	}
	if err := eng.SetTrustedProxies(tp); err != nil {
		return "error"
	}
	c := gin.CreateTestContextOnly(httptest.NewRecorder(), eng)
	c.Request = httptest.NewRequest(http.MethodGet, "http://hls.test/", nil)
	c.Request.RemoteAddr = verifC43HostPort(host)
	if xff != "" {
		c.Request.Header.Set("X-Forwarded-For", xff)
	}
	return c.ClientIP()
}

func verifC43AuthCol(hdrs []string) string {
	req := &http.Request{Header: http.Header{}}
	if len(hdrs) > 0 {
		req.Header["Authorization"] = hdrs
	}
	if verifC43AuthOK(httpp.Credentials(req)) {
		return "1"
	}
	return "0"
}

func verifC43Bit(b bool) string {
	if b {
		return "1"
	}
	return "0"
}

func verifC43HdrCols(hdrs []string) string {
	var sb strings.Builder
	fmt.Fprintf(&sb, "%d", len(hdrs))
	for _, h := range hdrs {
		sb.WriteString(" " + verifutil.HexS(h))
	}
	return sb.String()
}

func verifC43CreateOp(trusted, urldir, host, cc string, hdrs []string, xff string) string {
	dir := path.Dir(urldir + "/index.m3u8")
	return fmt.Sprintf("create %s %s %s %s %s %s %s %s %s", verifutil.HexS(urldir), verifutil.HexS(dir),
		verifC43Bit(verifC43IsKnown(dir)), verifutil.HexS(host), verifutil.HexS(verifC43CIP(host, xff, trusted)), cc,
		verifC43HdrCols(hdrs), verifC43AuthCol(hdrs), verifutil.HexS(xff))
}

func verifC43ProbeOp(trusted, kind, urldir, host, cookie, query string, hdrs []string, xff string) string {
	dir := path.Dir(urldir + "/x.ts")
	return fmt.Sprintf("probe %s %s %s %s %s %s %s %s %s", kind, verifutil.HexS(urldir), verifutil.HexS(dir),
		verifutil.HexS(host), verifutil.HexS(verifC43CIP(host, xff, trusted)), cookie, query, verifC43HdrCols(hdrs), verifutil.HexS(xff))
}

func verifC43ParseHdrs(f []string) ([]string, []string) {
	n := verifutil.Atoi(f[0])
	out := make([]string, n)
	for i := 0; i < n; i++ {
		out[i] = verifutil.UnHexS(f[1+i])
	}
	return out, f[1+n:]
}

// resolve a secret designator to the raw string a client would send
func (e *verifC43Env) secretString(d string) (string, bool) {
	if d == "-" {
		return "", false
	}
	form := d[0]
	switch form {
	case 'g':
		return "not-a-uuid", true
	case 'e':
		return "", true
	case 'r':
		return uuid.New().String(), true
	case 'z':
		return "00000000-0000-0000-0000-000000000000", true
	}
	k := verifutil.Atoi(d[1:])
	if k >= len(e.secrets) {
		return uuid.New().String(), true
	}
	s := e.secrets[k].String()
	switch form {
	case 's', 'd', 'm':
		return s, true
	case 'U':
		return strings.ToUpper(s), true
	case 'u':
		return "urn:uuid:" + s, true
	case 'b':
		return "{" + s + "}", true
	case 'h':
		return strings.ReplaceAll(s, "-", ""), true
	case 't':
		return s[:35], true
	case 'x':
		return s + "0", true
	case 'f': // one hex digit flipped
		c := s[0]
		if c == '0' {
			c = '1'
		} else {
			c = '0'
		}
		return string(c) + s[1:], true
	}
	panic("bad designator " + d)
}

func (e *verifC43Env) lookup(raw string) string {
	u, err := uuid.Parse(raw)
	if err != nil {
		return "bad"
	}
	for k, s := range e.secrets {
		if s == u {
			return fmt.Sprintf("%d", k)
		}
	}
	return "unk"
}

func verifC43Exec(op string) string {
	f := strings.Fields(op)
	e := verifC43E
	switch f[0] {
	case "reset":
		return verifC43Reset(verifutil.UnHexS(f[1]), verifutil.UnHexS(f[2]))

	case "create":
		urldir, host, cc := verifutil.UnHexS(f[1]), verifutil.UnHexS(f[4]), f[6]
		hdrs, rest := verifC43ParseHdrs(f[7:])
		xff := verifutil.UnHexS(rest[1])
		if verifC43CreateOp(e.trusted, urldir, host, cc, hdrs, xff) != op {
			return "stale-oracle"
		}
		if verifC43CIP(host, xff, e.trusted) != verifC43CIPGin(host, xff, e.trusted) {
			return "oracle-disagree"
		}
		u := "/" + urldir + "/index.m3u8"
		if cc != "n" {
			u += "?cookieCheck=1"
		}
		req := httptest.NewRequest(http.MethodGet, "http://hls.test"+u, nil)
		req.RemoteAddr = verifC43HostPort(host)
		if len(hdrs) > 0 {
			req.Header["Authorization"] = hdrs
		}
		if cc == "c" {
			req.AddCookie(&http.Cookie{Name: "cookieCheck", Value: "1"})
		}
		if xff != "" {
			req.Header.Set("X-Forwarded-For", xff)
		}
		rec := e.do(req)
		cnt, idx := e.counts()
		st := verifC43Status(rec.Code)
		nw := "-"
		if idx >= 0 {
			nw = fmt.Sprintf("%d", idx)
			// the client must have been told the secret it is expected to present
			sec := e.secrets[idx].String()
			told := strings.Contains(rec.Body.String(), "session="+sec)
			for _, c := range rec.Result().Cookies() {
				if c.Name == sessionCookieName && c.Value == sec {
					told = true
				}
			}
			if !told {
				nw += "-untold"
			}
		} else if idx == -2 {
			nw = "many"
		}
		return fmt.Sprintf("%s new=%s %s", st, nw, cnt)

	case "probe":
		kind, urldir, host, cookie, query := f[1], verifutil.UnHexS(f[2]), verifutil.UnHexS(f[4]), f[6], f[7]
		hdrs, rest := verifC43ParseHdrs(f[8:])
		xff := verifutil.UnHexS(rest[0])
		if verifC43ProbeOp(e.trusted, kind, urldir, host, cookie, query, hdrs, xff) != op {
			return "stale-oracle"
		}
		if verifC43CIP(host, xff, e.trusted) != verifC43CIPGin(host, xff, e.trusted) {
			return "oracle-disagree"
		}
		fname := map[string]string{"m": "main_stream.m3u8", "s": "seg0.ts", "4": "part3.mp4", "p": "init.mp", "v": "video1_stream.m3u8"}[kind]
		if kind == "s" {
			if seg := e.segmentName(path.Dir(urldir + "/x.ts")); seg != "" {
				fname = seg
			}
		}
		u := "/" + urldir + "/" + fname
		var qs []string
		if q, ok := e.secretString(query); ok {
			if query[0] == 'm' {
				qs = append(qs, "session=not-a-uuid")
			}
			qs = append(qs, "session="+q)
		}
		if len(qs) > 0 {
			u += "?" + strings.Join(qs, "&")
		}
		req := httptest.NewRequest(http.MethodGet, "http://hls.test"+u, nil)
		req.RemoteAddr = verifC43HostPort(host)
		if len(hdrs) > 0 {
			req.Header["Authorization"] = hdrs
		}
		if xff != "" {
			req.Header.Set("X-Forwarded-For", xff)
		}
		if c, ok := e.secretString(cookie); ok {
			req.AddCookie(&http.Cookie{Name: "other", Value: "1"})
			if cookie[0] == 'd' {
				req.Header.Add("Cookie", sessionCookieName+"=not-a-uuid")
			}
			req.Header.Add("Cookie", sessionCookieName+"="+c)
		}
		// oracle columns: what net/http's cookie parser, net/url's query parser and uuid.Parse make of it
		ck := "none"
		if c, err := req.Cookie(sessionCookieName); err == nil {
			ck = e.lookup(c.Value)
		}
		qk := e.lookup(req.URL.Query().Get(sessionQueryParamName))
		rec := e.do(req)
		cnt, idx := e.counts()
		st := verifC43Status(rec.Code)
		// 401 = refused; 200 = the muxer served the file; 404 = admitted, but the muxer has no such file
		// (the harness asks for files that exist with kinds m and s, for files that do not with the others)
		exists := kind == "m" || kind == "s"
		switch {
		case rec.Code == http.StatusOK && exists && rec.Body.Len() > 0:
			st = "served"
		case rec.Code == http.StatusNotFound && !exists:
			st = "served"
		case rec.Code != http.StatusUnauthorized:
			st = fmt.Sprintf("served-unexpected-status%d", rec.Code)
		}
		if idx != -1 {
			st += "-new-session"
		}
		return fmt.Sprintf("%s ck=%s qk=%s %s", st, ck, qk, cnt)

	case "kick":
		k := verifutil.Atoi(f[1])
		st := "notfound"
		if k < len(e.uuids) {
			if err := e.srv.APISessionsKick(e.uuids[k]); err == nil {
				st = "ok"
			}
		}
		cnt, _ := e.counts()
		return st + " " + cnt

	case "closemux":
		dir := verifutil.UnHexS(f[1])
		m, err := e.srv.getMuxer(serverGetMuxerReq{path: dir})
		st := "nomux"
		if err == nil {
			st = "ok"
			m.Close()
			for i := 0; i < 2000; i++ {
				if m2, err2 := e.srv.getMuxer(serverGetMuxerReq{path: dir}); err2 != nil || m2 != m {
					break
				}
				time.Sleep(time.Millisecond)
			}
		}
		cnt, _ := e.counts()
		return st + " " + cnt
	}
	return "bad-op"
}

// ---------------------------------------------------------------- generator

var verifC43Hosts = []string{"10.0.0.1", "10.0.0.2", "2001:db8::1", "::ffff:10.0.0.1", "10.0.0.10"}

func verifC43Gen(r *verifutil.Rand, i int, thorough bool) []string {
	cdn := r.Pick("", "", "cdnsecret", "cdnsecret", "s3 cr:et", "Bearer")
	// half of the histories run behind a trusted reverse proxy
	trusted := r.Pick("", "", "", "192.168.0.7", "192.168.0.7", "192.168.0.0/24", "192.168.0.0/24,2001:db8:ff::/64")
	ops := []string{"reset " + verifutil.HexS(cdn) + " " + verifutil.HexS(trusted)}
	good := "Basic " + "Z29vZDpnb29k" // good:good
	bad := "Basic " + "YmFkOmJhZA=="  // bad:bad
	cdnHdr := func() []string {
		switch r.Intn(12) {
		case 0:
			return []string{"Bearer " + cdn + "x"}
		case 1:
			return []string{"bearer " + cdn}
		case 2:
			return []string{"Bearer  " + cdn}
		case 3:
			return []string{"Bearer " + cdn + " "}
		case 4:
			return []string{bad, "Bearer " + cdn}
		case 5:
			return []string{"Bearer " + cdn, good}
		case 6:
			return []string{"Bearer "}
		case 7:
			if len(cdn) > 1 {
				return []string{"Bearer " + cdn[:len(cdn)-1]}
			}
			return []string{"Bearer"}
		case 8:
			return []string{cdn}
		default:
			return []string{"Bearer " + cdn}
		}
	}
	dirs := []string{"p0", "p1", "dir/p2", "nope", "p0/../p1", "p0/.", "/p0", "p0/", "dir", "P0", "dir/p2/../../p0", "p0/x"}
	pickDir := func() string {
		if r.Chance(4, 5) {
			return dirs[r.Intn(3)]
		}
		return dirs[r.Intn(len(dirs))]
	}
	// a client = peer address + X-Forwarded-For. Behind the proxy most clients share the peer address
	// and differ only in the forwarded address; elsewhere X-Forwarded-For is a spoofing attempt.
	type client struct{ host, xff string }
	proxies := []string{"192.168.0.7", "192.168.0.7", "192.168.0.7", "192.168.0.8", "2001:db8:ff::1"}
	pickClient := func() client {
		if trusted != "" && r.Chance(3, 4) {
			c := client{host: proxies[r.Intn(len(proxies))]}
			c.xff = verifC43Hosts[r.Intn(3)]
			switch r.Intn(10) {
			case 0: // client-supplied prefix in front of the address the proxy appended
				c.xff = verifC43Hosts[r.Intn(len(verifC43Hosts))] + ", " + c.xff
			case 1: // two proxies in a row
				c.xff = c.xff + ", 192.168.0.8"
			case 2:
				c.xff = ""
			}
			return c
		}
		c := client{host: verifC43Hosts[r.Intn(len(verifC43Hosts))]}
		if r.Chance(1, 4) {
			c.xff = verifC43Hosts[r.Intn(len(verifC43Hosts))]
		}
		return c
	}
	// another client that reaches the server the same way (same proxy / also direct)
	otherClient := func(c client) client {
		if c.xff != "" && verifC43CIP(c.host, c.xff, trusted) != verifC43CIP(c.host, "", trusted) {
			return client{host: c.host, xff: verifC43Hosts[r.Intn(3)]}
		}
		return pickClient()
	}
	nsess := 0
	n := 6 + r.Intn(20)
	if thorough {
		n = 6 + r.Intn(60)
	}
	type sess struct {
		dir string
		cl  client
	}
	var made []sess // sessions the generator expects to exist (only used to aim probes)
	isCDNHdr := func(hdrs []string) bool { return cdn != "" && len(hdrs) > 0 && hdrs[0] == "Bearer "+cdn }
	for j := 0; j < n; j++ {
		x := r.Intn(20)
		if j < 2 && r.Chance(3, 4) {
			x = 0
		}
		switch {
		case x < 5: // session creation attempts
			d, cl := pickDir(), pickClient()
			cc := r.Pick("q", "q", "q", "c", "c", "c", "n")
			var hdrs []string
			switch r.Intn(14) {
			case 0:
			case 1:
				hdrs = []string{bad}
			case 2:
				hdrs = []string{"Bearer good:good"}
			case 3:
				hdrs = []string{"Bearer good:bad"}
			case 4:
				hdrs = cdnHdr()
			case 5, 6:
				hdrs = []string{"Bearer " + cdn}
			default:
				hdrs = []string{good}
			}
			ops = append(ops, verifC43CreateOp(trusted, d, cl.host, cc, hdrs, cl.xff))
			if verifC43AuthCol(hdrs) == "1" && cc != "n" && !isCDNHdr(hdrs) && verifC43IsKnown(path.Dir(d+"/x")) {
				made = append(made, sess{path.Dir(d + "/x"), cl})
				nsess++
			}
		case x < 18: // probes
			kind := r.Pick("m", "m", "s", "s", "4", "p", "v")
			var d string
			var cl client
			k := 0
			if len(made) > 0 && r.Chance(9, 10) {
				k = r.Intn(nsess)
				d, cl = made[k].dir, made[k].cl
			} else {
				d, cl = pickDir(), pickClient()
			}
			des := func() string {
				form := r.Pick("s", "s", "s", "s", "s", "U", "u", "b", "h", "t", "x", "f")
				return fmt.Sprintf("%s%d", form, k)
			}
			cookie, query := "-", "-"
			switch r.Intn(12) {
			case 0, 1, 2:
				cookie = des()
			case 3, 4, 5:
				query = des()
			case 6: // both, same
				cookie, query = des(), des()
			case 7: // bad cookie shadows a good query
				cookie, query = r.Pick("g", "e", "r", "z"), des()
			case 8: // good cookie, bad query
				cookie, query = des(), r.Pick("g", "e", "r")
			case 9: // cookie of another session
				cookie, query = fmt.Sprintf("s%d", r.Intn(nsess+1)), des()
			case 10:
				cookie = fmt.Sprintf("d%d", k)
				if r.Bool() {
					cookie, query = "-", fmt.Sprintf("m%d", k)
				}
			default:
				cookie, query = r.Pick("-", "g", "e", "r"), r.Pick("-", "g", "e", "r", "z")
			}
			// perturb: another client / wrong path / spoofed or dropped X-Forwarded-For
			switch r.Intn(10) {
			case 0, 1:
				cl = otherClient(cl)
			case 2:
				d = pickDir()
			case 3:
				d = dirs[r.Intn(len(dirs))]
			case 4: // same forwarded address, but sent directly / through a peer that is not trusted
				cl.host = r.Pick("10.0.0.10", "192.168.1.7", "192.168.0.8")
			case 5: // a direct client claims the session's address in X-Forwarded-For
				if len(made) > 0 {
					cl = client{host: verifC43Hosts[r.Intn(len(verifC43Hosts))], xff: verifC43CIP(made[k].cl.host, made[k].cl.xff, trusted)}
				}
			}
			var hdrs []string
			switch r.Intn(8) {
			case 0:
				hdrs = cdnHdr()
			case 1:
				hdrs = []string{"Bearer " + cdn}
			case 2:
				hdrs = []string{good}
			}
			ops = append(ops, verifC43ProbeOp(trusted, kind, d, cl.host, cookie, query, hdrs, cl.xff))
		case x < 19:
			ops = append(ops, fmt.Sprintf("kick %d", r.Intn(nsess+1)))
		default:
			ops = append(ops, "closemux "+verifutil.HexS(pickDir()))
		}
	}
	return ops
}

func verifC43Class(op, impl string) string {
	f := strings.Fields(op)
	a := strings.Fields(impl)
	if len(a) == 0 {
		return f[0] + "/?"
	}
	switch f[0] {
	case "probe":
		via := "none"
		for _, x := range a {
			if strings.HasPrefix(x, "ck=") && x != "ck=none" && x != "ck=bad" && x != "ck=unk" {
				via = "cookie"
			}
			if via == "none" && strings.HasPrefix(x, "qk=") && x != "qk=bad" && x != "qk=unk" {
				via = "query"
			}
		}
		hdr := "nohdr"
		if f[8] != "0" {
			hdr = "hdr"
		}
		return "probe/" + a[0] + "/" + via + "/" + hdr
	}
	return f[0] + "/" + a[0]
}

func TestVerifC43(t *testing.T) {
	gin.SetMode(gin.ReleaseMode)
	gin.DefaultWriter = io.Discard
	defer func() {
		if verifC43E != nil {
			verifC43E.close()
		}
	}()
	_ = hex.EncodeToString
	verifutil.Main(t, &verifutil.Harness{
		ID: "C43", Exec: verifC43Exec, Gen: verifC43Gen, Quick: 400, Thorough: 6000,
		Class:      verifC43Class,
		NonTrivial: func(op, impl string) bool { return !strings.HasPrefix(op, "reset") },
	})
}
