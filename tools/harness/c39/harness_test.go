//go:build verif

package core

import (
	"context"
	"fmt"
	"net/url"
	"runtime"
	"strings"
	"sync"
	"testing"
	"time"

	"github.com/bluenviron/gortsplib/v5/pkg/description"
	"github.com/bluenviron/gortsplib/v5/pkg/format"
	"github.com/google/uuid"

	"github.com/bluenviron/mediamtx/internal/conf"
	"github.com/bluenviron/mediamtx/internal/defs"
	"github.com/bluenviron/mediamtx/internal/externalcmd"
	"github.com/bluenviron/mediamtx/internal/forward"
	"github.com/bluenviron/mediamtx/internal/logger"
	"github.com/bluenviron/mediamtx/internal/stream"
	"github.com/bluenviron/mediamtx/internal/test"
	"github.com/bluenviron/mediamtx/internal/verifutil"
)

// Harness for C39.  Two worlds, chosen by the reset op:
//   reset <confs>        manager level: a bare forward.Manager driven through Initialize/Start/Stop/ReloadConf;
//   reset @path <confs>  path level: the REAL core.path (real initialize()/run() loop, real forward.Manager
//                        inside it) with `start` = a publisher is added (setAvailable), `stop` = it is removed
//                        (setNotAvailable), `reload` = pathManager's reloadConf with the new forward list;
//                        observed only through path.APIForwardDestList/Get and the goroutine dump.
// Manager level: drives a real forward.Manager whose destinations point at a closed loopback port
// (the forwarder goroutines run, fail to connect and sit in their retry pause), and reports after
// every operation the manager's in-package state in canonical form.

var (
	verifC39M        *forward.Manager
	verifC39IDs      map[uuid.UUID]int
	verifC39IDBase   int
	verifC39Epochs   map[chan struct{}]int
	verifC39EpBase   int
	verifC39Seen     []uuid.UUID
	verifC39Ptr      map[uuid.UUID]*forward.DestHandler
	verifC39Avail    bool
	verifC39Streams  map[*stream.Stream]int
	verifC39Baseline int
	verifC39Dead     bool
	// total time spent in waits that ran into their deadline (only happens when the code under test
	// misbehaves); beyond the budget every op answers "harness-gave-up" so that a broken tree is
	// reported in seconds instead of after hundreds of timeouts
	verifC39Wasted time.Duration
)

const verifC39WasteBudget = 15 * time.Second

func verifC39ParseConfs(ws []string) conf.Forward {
	out := make(conf.Forward, 0, len(ws))
	un := func(s string) string {
		if s == "-" {
			return ""
		}
		return s
	}
	for _, w := range ws {
		p := strings.Split(w, ",")
		if len(p) != 3 {
			panic("verif: bad conf token " + w)
		}
		out = append(out, conf.ForwardDest{Dest: p[0], DestFingerprint: un(p[1]), WHIPBearerToken: un(p[2])})
	}
	return out
}

func verifC39FmtConf(c conf.ForwardDest) string {
	en := func(s string) string {
		if s == "" {
			return "-"
		}
		return s
	}
	return c.Dest + "," + en(c.DestFingerprint) + "," + en(c.WHIPBearerToken)
}

// number of goroutines whose root function is DestHandler.run
var verifC39StackBuf = make([]byte, 256<<10)

// Forwarder goroutines of this package, from the goroutine dump: goroutines created by
// (*forward.DestHandler).start (counted even before they have run), or — should start be renamed — goroutines
// with a (*forward.DestHandler).run frame.
func verifC39Goroutines() int {
	for {
		n := runtime.Stack(verifC39StackBuf, true)
		if n < len(verifC39StackBuf) {
			d := string(verifC39StackBuf[:n])
			a := strings.Count(d, "created by github.com/bluenviron/mediamtx/internal/forward.(*DestHandler).start ")
			b := strings.Count(d, "forward.(*DestHandler).run(")
			if b > a {
				return b
			}
			return a
		}
		verifC39StackBuf = make([]byte, 2*len(verifC39StackBuf))
	}
}

// ---- optional seams into unexported state (one shim file each, see shim_*.go; a shim that stops
// compiling is dropped by ./check and the harness goes on with the exported surface) ----

func verifC39Handlers(m *forward.Manager) []*forward.DestHandler {
	if f, ok := verifutil.Funcs["c39_handlers"].(func(*forward.Manager) []*forward.DestHandler); ok {
		return f(m)
	}
	return nil
}

func verifC39Done(h *forward.DestHandler) (chan struct{}, bool) {
	if f, ok := verifutil.Funcs["c39_done"].(func(*forward.DestHandler) chan struct{}); ok {
		return f(h), true
	}
	return nil, false
}

func verifC39StartedTok(m *forward.Manager) string {
	if f, ok := verifutil.Funcs["c39_started"].(func(*forward.Manager) bool); ok {
		if f(m) {
			return "1"
		}
		return "0"
	}
	return "x"
}

func verifC39StreamTok(m *forward.Manager) string {
	if f, ok := verifutil.Funcs["c39_stream"].(func(*forward.Manager) *stream.Stream); ok {
		return fmt.Sprint(verifC39Streams[f(m)])
	}
	return "x"
}

func verifC39Cancel(h *forward.DestHandler) bool {
	if f, ok := verifutil.Funcs["c39_cancel"].(func(*forward.DestHandler)); ok {
		f(h)
		return true
	}
	return false
}

// is the goroutine of the handler's current done channel alive?  (known only through the done seam)
func verifC39Live(h *forward.DestHandler) (live bool, known bool) {
	d, ok := verifC39Done(h)
	if !ok {
		return false, false
	}
	if d == nil {
		return false, true
	}
	select {
	case <-d:
		return false, true
	default:
		return true, true
	}
}

func verifC39Desc() *description.Session {
	return &description.Session{Medias: []*description.Media{{
		Type:    description.MediaTypeVideo,
		Formats: []format.Format{test.FormatH264},
	}}}
}

func verifC39NewStream() *stream.Stream {
	desc := verifC39Desc()
	strm := &stream.Stream{
		OrigDesc:          desc,
		WriteQueueSize:    512,
		RTPMaxPayloadSize: 1450,
		Parent:            test.NilLogger,
	}
	if err := strm.Initialize(); err != nil {
		panic("verif: stream init: " + err.Error())
	}
	return strm
}

// run f with a deadline, so that a deadlocked Stop/ReloadConf becomes an answer instead of a hang.
func verifC39Timed(f func()) (res string) {
	ch := make(chan string, 1)
	go func() {
		defer func() {
			if r := recover(); r != nil {
				ch <- "panic " + strings.ReplaceAll(fmt.Sprint(r), "\n", " ")
			}
		}()
		f()
		ch <- ""
	}()
	select {
	case r := <-ch:
		return r
	case <-time.After(8 * time.Second):
		verifC39Wasted += 8 * time.Second
		return "timeout"
	}
}

func verifC39NonIdle(items []defs.APIForwardDest) int {
	n := 0
	for _, it := range items {
		if it.State != defs.APIForwardDestStateIdle {
			n++
		}
	}
	return n
}

// ---- the two worlds ----

// what is observed: the destination list as the API shows it, and (manager level only) the manager
// itself for the optional seams
func verifC39List() []defs.APIForwardDest {
	if verifC39P != nil {
		return verifC39P.pa.APIForwardDestList().Items
	}
	return verifC39M.APIList().Items
}

func verifC39Get(id uuid.UUID) (*defs.APIForwardDest, error) {
	if verifC39P != nil {
		return verifC39P.pa.APIForwardDestGet(id)
	}
	return verifC39M.APIGet(id)
}

// path level: pathParent stub (what pathManager would be) and a publisher stub
type verifC39PathWorld struct {
	pa   *path
	pool *externalcmd.Pool
	wg   sync.WaitGroup
	pub  *verifC39Pub
	npub int
}

func (w *verifC39PathWorld) Log(logger.Level, string, ...any) {}
func (w *verifC39PathWorld) setPathReady(*path)               {}
func (w *verifC39PathWorld) setPathNotReady(*path)            {}
func (w *verifC39PathWorld) closePathIfIdle(*path)            {}
func (w *verifC39PathWorld) removePath(*path)                 {}
func (w *verifC39PathWorld) AddReader(defs.PathAddReaderReq) (*defs.PathAddReaderRes, error) {
	return nil, fmt.Errorf("not available in harness")
}

type verifC39Pub struct{ id int }

func (p *verifC39Pub) Log(logger.Level, string, ...any) {}
func (p *verifC39Pub) Close()                           {}
func (p *verifC39Pub) APISourceDescribe() *defs.APIPathSource {
	return &defs.APIPathSource{Type: "rtspSession", ID: fmt.Sprint(p.id)}
}

var verifC39P *verifC39PathWorld

func verifC39PathConf(fw conf.Forward) *conf.Path {
	return &conf.Path{Name: "p", Source: "publisher", Forward: fw}
}

func verifC39NewPath(fw conf.Forward) {
	w := &verifC39PathWorld{pool: &externalcmd.Pool{}}
	w.pool.Initialize()
	w.pa = &path{
		parentCtx: context.Background(), conf: verifC39PathConf(fw), name: "p", wg: &w.wg,
		externalCmdPool: w.pool, parent: w,
		writeQueueSize: 512, rtpMaxPayloadSize: 1450, rtspAddress: ":8554",
		readTimeout: conf.Duration(2 * time.Second), writeTimeout: conf.Duration(2 * time.Second),
	}
	verifC39P = w
	w.pa.initialize()
}

// a request the path loop answers only after everything queued before it has been handled
func (w *verifC39PathWorld) barrier() {
	w.pa.APIPathsGet(pathAPIPathsGetReq{}) //nolint:errcheck
}

func (w *verifC39PathWorld) teardown() {
	w.pa.close()
	w.pa.wait()
	w.pool.Close()
}

// Number the handlers / done channels that are new in the current list (no waiting: also used between
// the two halves of a back-to-back op).
func verifC39Register(advanceIDs, advanceEpochs bool) ([]defs.APIForwardDest, []*forward.DestHandler, string) {
	m := verifC39M
	items := verifC39List()
	var hs []*forward.DestHandler
	if m != nil {
		hs = verifC39Handlers(m)
	}
	if len(hs) != len(items) {
		hs = nil
	}
	for i, it := range items {
		if hs != nil && hs[i].ID() != it.ID {
			return nil, nil, "apilist-item-differs"
		}
		if _, ok := verifC39IDs[it.ID]; !ok {
			verifC39IDs[it.ID] = verifC39IDBase + i
			verifC39Seen = append(verifC39Seen, it.ID)
			if hs != nil {
				verifC39Ptr[it.ID] = hs[i]
			}
		}
		if hs != nil {
			if d, ok := verifC39Done(hs[i]); ok && d != nil {
				if _, ok2 := verifC39Epochs[d]; !ok2 {
					verifC39Epochs[d] = verifC39EpBase + i
				}
			}
		}
	}
	if advanceIDs {
		verifC39IDBase += len(items)
	}
	if advanceEpochs {
		verifC39EpBase += len(items)
	}

	return items, hs, ""
}

// First-seen handlers/channels get the number base+index (the model numbers them the same way: the
// object created for list index i by an operation is nextId+i / nextEpoch+i).
func verifC39Observe(advanceIDs, advanceEpochs bool) string {
	m := verifC39M // nil at path level: no seam into the manager is used there

	// quiescence, through the exported surface only: every forwarder goroutine that exists has left
	// the idle state (it never returns to it before it exits) and every goroutine whose handler is idle
	// has returned.  In a correct tree this settles within microseconds; otherwise bounded wait.
	deadline := time.Now().Add(1500 * time.Millisecond)
	for verifC39Goroutines()-verifC39Baseline != verifC39NonIdle(verifC39List()) {
		if time.Now().After(deadline) {
			// Forwarder goroutines and running handlers do not add up: a goroutine was orphaned or never
			// stopped — or a listed destination was never started.  This answer is reported (the spec
			// fails on it); everything after it answers "harness-gave-up" at once: an orphaned goroutine
			// wakes up after retryPause (5 s) and, once its handler is stopped, closes the handler's done
			// channel a second time — a panic that would kill this process and every answer collected.
			verifC39Wasted = verifC39WasteBudget + 1
			break
		}
		time.Sleep(200 * time.Microsecond)
	}

	items, hs, bad := verifC39Register(advanceIDs, advanceEpochs)
	if bad != "" {
		return bad
	}

	current := map[uuid.UUID]bool{}
	for _, it := range items {
		current[it.ID] = true
	}
	retired := 0
	var rl []string
	for _, id := range verifC39Seen {
		if current[id] {
			continue
		}
		retired++
		if h := verifC39Ptr[id]; h != nil {
			live, _ := verifC39Live(h)
			if live || h.APIItem().State != defs.APIForwardDestStateIdle {
				rl = append(rl, fmt.Sprint(verifC39IDs[id]))
			}
		}
	}
	rls := "-"
	if len(rl) > 0 {
		rls = strings.Join(rl, ",")
	}

	b := func(v bool) string {
		if v {
			return "1"
		}
		return "0"
	}
	st, tk := "x", "x"
	if m != nil {
		st, tk = verifC39StartedTok(m), verifC39StreamTok(m)
	}
	var sb strings.Builder
	fmt.Fprintf(&sb, "s=%s t=%s g=%d r=%d rl=%s h=", st, tk, verifC39Goroutines()-verifC39Baseline, retired, rls)
	for i, it := range items {
		if got, err := verifC39Get(it.ID); err != nil || got.ID != it.ID || got.Conf != it.Conf {
			return "apiget-differs"
		}
		api := it.State != defs.APIForwardDestStateIdle
		live, ep := api, 0
		if hs != nil {
			if l, known := verifC39Live(hs[i]); known {
				live = l
				if d, _ := verifC39Done(hs[i]); d != nil {
					ep = verifC39Epochs[d]
				}
			}
		}
		fmt.Fprintf(&sb, " %d|%d|%s|%d|%s|%s", verifC39IDs[it.ID], it.Pos, b(live), ep, b(api), verifC39FmtConf(it.Conf))
	}
	return sb.String()
}

func verifC39Cleanup() {
	// stop whatever the previous history left running (not part of any answer); after a panic the
	// manager may hold its mutex for ever, so nothing that locks is called on a dead manager
	if verifC39P != nil {
		w := verifC39P
		verifC39P = nil
		verifC39Timed(w.teardown)
	}
	for _, id := range verifC39Seen {
		if h := verifC39Ptr[id]; h != nil {
			verifC39Cancel(h)
		}
	}
	if verifC39M != nil && !verifC39Dead && verifC39Avail {
		verifC39Timed(verifC39M.Stop) // the exported way
	}
	verifC39M = nil
	verifC39Avail = false
	for s := range verifC39Streams {
		if s != nil {
			s.Close()
		}
	}
	verifC39Streams = map[*stream.Stream]int{nil: 0}
}

func verifC39Exec(op string) string {
	if verifC39Wasted > verifC39WasteBudget {
		return "harness-gave-up"
	}
	f := strings.Fields(op)
	pathLevel := verifC39P != nil
	switch f[0] {
	case "reset":
		verifC39Cleanup()
		verifC39IDs = map[uuid.UUID]int{}
		verifC39IDBase = 0
		verifC39Epochs = map[chan struct{}]int{}
		verifC39EpBase = 1
		verifC39Seen = nil
		verifC39Ptr = map[uuid.UUID]*forward.DestHandler{}
		verifC39Dead = false
		// every goroutine of the previous history has been cancelled and has closed its done channel;
		// wait until they have really returned (normally microseconds)
		for dl := time.Now().Add(2 * time.Second); verifC39Goroutines() != 0; {
			if !time.Now().Before(dl) {
				verifC39Wasted += 2 * time.Second
				break
			}
			time.Sleep(200 * time.Microsecond)
		}
		verifC39Baseline = verifC39Goroutines()
		if len(f) > 1 && f[1] == "@path" {
			fw := verifC39ParseConfs(f[2:])
			if r := verifC39Timed(func() { verifC39NewPath(fw) }); r != "" {
				verifC39Dead = true
				return r
			}
			return verifC39Observe(true, false)
		}
		verifC39M = &forward.Manager{
			ReadTimeout:  conf.Duration(2 * time.Second),
			WriteTimeout: conf.Duration(2 * time.Second),
			PathName:     "p",
			Forward:      verifC39ParseConfs(f[1:]),
			Parent:       test.NilLogger,
		}
		if r := verifC39Timed(verifC39M.Initialize); r != "" {
			verifC39Dead = true
			return r
		}
		return verifC39Observe(true, false)

	case "start":
		if verifC39Dead {
			return "dead"
		}
		verifC39Avail = true
		if pathLevel {
			w := verifC39P
			w.npub++
			w.pub = &verifC39Pub{id: w.npub}
			res := ""
			if r := verifC39Timed(func() {
				w.pa.pendingRequests.Add(1) // what pathManager does before it hands the request on
				_, err := w.pa.addPublisher(defs.PathAddPublisherReq{
					Author: w.pub, Desc: verifC39Desc(), ReplaceNTP: true,
					AccessRequest: defs.PathAccessRequest{Name: "p", SkipAuth: true, Publish: true},
					Res:           make(chan defs.PathAddPublisherRes),
				})
				if err != nil {
					res = "addpublisher-failed " + err.Error()
				}
			}); r != "" {
				verifC39Dead = true
				return r
			}
			if res != "" {
				return res
			}
			return verifC39Observe(false, true)
		}
		strm := verifC39NewStream()
		verifC39Streams[strm] = verifutil.Atoi(f[1])
		if r := verifC39Timed(func() { verifC39M.Start(strm) }); r != "" {
			verifC39Dead = true
			return r
		}
		return verifC39Observe(false, true)

	case "stop":
		if verifC39Dead {
			return "dead"
		}
		verifC39Avail = false
		if pathLevel {
			w := verifC39P
			if r := verifC39Timed(func() { w.pa.RemovePublisher(defs.PathRemovePublisherReq{Author: w.pub}) }); r != "" {
				verifC39Dead = true
				return r
			}
			return verifC39Observe(false, false)
		}
		if r := verifC39Timed(verifC39M.Stop); r != "" {
			verifC39Dead = true
			return r
		}
		return verifC39Observe(false, false)

	case "reload":
		if verifC39Dead {
			return "dead"
		}
		fw := verifC39ParseConfs(f[1:])
		wasStarted := verifC39Avail // Start/Stop alternate in every generated history that reaches this point
		if pathLevel {
			w := verifC39P
			if r := verifC39Timed(func() { w.pa.reloadConf(verifC39PathConf(fw)); w.barrier() }); r != "" {
				verifC39Dead = true
				return r
			}
			return verifC39Observe(true, wasStarted)
		}
		if r := verifC39Timed(func() { verifC39M.ReloadConf(fw) }); r != "" {
			verifC39Dead = true
			return r
		}
		return verifC39Observe(true, wasStarted)

	case "start+stop", "start+reload", "reload+reload", "reload+stop":
		// Two manager calls back to back, as the path goroutine issues them when nothing blocks in
		// between (sub-stream initialisation failing right after setAvailable, a publisher leaving at
		// once, two hot reloads in a row): the second call runs before the goroutines launched by the
		// first have been scheduled — pinned with GOMAXPROCS(1).  Observed after quiescence only.
		if verifC39Dead {
			return "dead"
		}
		if pathLevel {
			return "bad-op"
		}
		m := verifC39M
		var first, second func()
		adv1IDs, adv1Ep, adv2IDs, adv2Ep := false, false, false, false
		was := verifC39Avail
		switch f[0] {
		case "start+stop":
			strm := verifC39NewStream()
			verifC39Streams[strm] = verifutil.Atoi(f[1])
			first, adv1Ep = func() { m.Start(strm) }, true
			second = m.Stop
			verifC39Avail = false
		case "start+reload":
			strm := verifC39NewStream()
			verifC39Streams[strm] = verifutil.Atoi(f[1])
			fw := verifC39ParseConfs(f[2:])
			first, adv1Ep = func() { m.Start(strm) }, true
			second, adv2IDs, adv2Ep = func() { m.ReloadConf(fw) }, true, true
			verifC39Avail = true
		case "reload+reload":
			cut := len(f)
			for i, w := range f {
				if w == "/" {
					cut = i
				}
			}
			fw1 := verifC39ParseConfs(f[1:cut])
			var fw2 conf.Forward
			if cut < len(f) {
				fw2 = verifC39ParseConfs(f[cut+1:])
			}
			first, adv1IDs, adv1Ep = func() { m.ReloadConf(fw1) }, true, was
			second, adv2IDs, adv2Ep = func() { m.ReloadConf(fw2) }, true, was
		case "reload+stop":
			fw := verifC39ParseConfs(f[1:])
			first, adv1IDs, adv1Ep = func() { m.ReloadConf(fw) }, true, was
			second = m.Stop
			verifC39Avail = false
		}
		prev := runtime.GOMAXPROCS(1)
		r := verifC39Timed(func() {
			first()
			verifC39Register(adv1IDs, adv1Ep)
			second()
		})
		runtime.GOMAXPROCS(prev)
		if r != "" {
			verifC39Dead = true
			return r
		}
		return verifC39Observe(adv2IDs, adv2Ep)
	}
	return "bad-op"
}

var verifC39Dests = []string{
	"rtmp://127.0.0.1:1/a", "rtmp://127.0.0.1:1/b", "rtsp://127.0.0.1:1/a", "rtsp://127.0.0.1:1/b",
	"rtmps://127.0.0.1:1/a", "rtsps://127.0.0.1:1/a", "srt://127.0.0.1:1?streamid=publish:a",
	"rtmp://127.0.0.1:1/$MTX_PATH",
}

func verifC39Conf(r *verifutil.Rand, plain bool) string {
	d := verifC39Dests[r.Intn(len(verifC39Dests))]
	if plain {
		d = verifC39Dests[r.Intn(2)]
	} else if r.Chance(1, 40) {
		d = "whip://127.0.0.1:1/a/whip"
	}
	fp, tok := "-", "-"
	if r.Chance(1, 4) {
		fp = "ab"
	}
	if r.Chance(1, 5) {
		tok = "tk"
	}
	return d + "," + fp + "," + tok
}

// change exactly one component of a configured destination: userinfo user / password, host spelling,
// port, path, query, fragment, scheme, fingerprint, token
func verifC39MutateComponent(r *verifutil.Rand, c string) string {
	p := strings.Split(c, ",")
	u, err := url.Parse(p[0])
	if err != nil || u.Host == "" {
		p[1] = r.Pick("-", "ab", "cd")
		return strings.Join(p, ",")
	}
	user, pass := "", ""
	if u.User != nil {
		user = u.User.Username()
		pass, _ = u.User.Password()
	}
	switch r.Intn(10) {
	case 0: // user name
		u.User = url.UserPassword(r.Pick("pub", "pub2", "admin"), pass)
	case 1, 2: // password only
		if user == "" {
			user = "pub"
		}
		u.User = url.UserPassword(user, r.Pick("oldpass", "newpass", "s3cret"))
	case 3: // host spelling (same machine)
		host := u.Hostname()
		nh := map[string]string{"127.0.0.1": "localhost", "localhost": "LOCALHOST", "LOCALHOST": "127.0.0.1"}[host]
		if nh == "" {
			nh = "localhost"
		}
		u.Host = nh + ":" + u.Port()
	case 4: // port (both closed)
		u.Host = u.Hostname() + ":" + map[string]string{"1": "2", "2": "1"}[u.Port()]
		if strings.HasSuffix(u.Host, ":") {
			u.Host += "1"
		}
	case 5:
		u.Path = u.Path + r.Pick("2", "/x", "_")
	case 6:
		q := u.Query()
		q.Set("k", r.Pick("1", "2", "3"))
		u.RawQuery = q.Encode()
	case 7:
		u.Fragment = r.Pick("f", "g", "")
	case 8:
		u.Scheme = map[string]string{"rtmp": "rtmps", "rtmps": "rtmp", "rtsp": "rtsps", "rtsps": "rtsp",
			"srt": "srt", "whip": "whips", "whips": "whip"}[u.Scheme]
	default:
		if r.Bool() {
			p[1] = r.Pick("-", "ab", "cd")
		} else {
			p[2] = r.Pick("-", "tk", "tk2")
		}
	}
	d := u.String()
	if strings.ContainsAny(d, " ,|") {
		return c
	}
	p[0] = d
	return strings.Join(p, ",")
}

func verifC39Mutate(r *verifutil.Rand, cur []string, plain bool) []string {
	out := append([]string{}, cur...)
	k := 1 + r.Intn(2)
	for ; k > 0; k-- {
		switch r.Intn(13) {
		case 10, 11, 12: // ONE component of one destination changes: any difference in the configured value counts
			if len(out) > 0 {
				i := r.Intn(len(out))
				out[i] = verifC39MutateComponent(r, out[i])
			}
		case 0: // unchanged list
		case 1, 2: // change one entry
			if len(out) > 0 {
				out[r.Intn(len(out))] = verifC39Conf(r, plain)
			}
		case 3: // change only a parameter of one entry
			if len(out) > 0 {
				i := r.Intn(len(out))
				p := strings.Split(out[i], ",")
				if r.Bool() {
					p[1] = r.Pick("-", "ab", "cd")
				} else {
					p[2] = r.Pick("-", "tk", "tk2")
				}
				out[i] = strings.Join(p, ",")
			}
		case 4: // append
			if len(out) < 6 {
				out = append(out, verifC39Conf(r, plain))
			}
		case 5: // drop the tail
			if len(out) > 0 {
				out = out[:r.Intn(len(out))]
			}
		case 6: // delete one in the middle (everything after it shifts)
			if len(out) > 0 {
				i := r.Intn(len(out))
				out = append(out[:i], out[i+1:]...)
			}
		case 7: // insert in front / middle
			if len(out) < 6 {
				i := r.Intn(len(out) + 1)
				out = append(out[:i], append([]string{verifC39Conf(r, plain)}, out[i:]...)...)
			}
		case 8: // swap two
			if len(out) > 1 {
				i, j := r.Intn(len(out)), r.Intn(len(out))
				out[i], out[j] = out[j], out[i]
			}
		case 9: // duplicate an entry
			if len(out) > 0 && len(out) < 6 {
				out = append(out, out[r.Intn(len(out))])
			}
		}
	}
	return out
}

func verifC39Gen(r *verifutil.Rand, i int, thorough bool) []string {
	pathLevel := r.Chance(1, 3)
	misuse := !pathLevel && r.Chance(1, 20) // the path itself never misuses its manager
	n0 := r.Intn(5)
	if pathLevel && r.Bool() {
		n0 = 0 // a path without destinations whose stream becomes available, destinations added later
	}
	var cur []string
	for j := 0; j < n0; j++ {
		cur = append(cur, verifC39Conf(r, misuse))
	}
	head := "reset "
	if pathLevel {
		head = "reset @path "
	}
	ops := []string{strings.TrimSpace(head + strings.Join(cur, " "))}
	n := 4 + r.Intn(9)
	if thorough {
		n = 4 + r.Intn(24)
	}
	started := false
	strm := 0
	for j := 0; j < n; j++ {
		c := r.Intn(10)
		switch {
		case misuse && c == 0: // unknown scheme: destProtocol panics (terminal)
			bad := append(append([]string{}, cur...), "http://127.0.0.1:1/x,-,-")
			ops = append(ops, "reload "+strings.Join(bad, " "))
			return ops
		case misuse && c == 1 && !started: // Stop without Start (nil ctxCancel: panics unless the list is empty)
			// A second Start without Stop is NOT generated: the orphaned goroutine later closes the
			// new done channel a second time, which kills the whole test process (see notes/C39.md).
			ops = append(ops, "stop")
		case !pathLevel && !misuse && r.Chance(1, 6):
			// back-to-back manager calls (the second before the first one's goroutines ran)
			switch {
			case !started && r.Bool():
				strm++
				ops = append(ops, fmt.Sprintf("start+stop %d", strm))
			case !started:
				strm++
				cur = verifC39Mutate(r, cur, false)
				ops = append(ops, strings.TrimSpace(fmt.Sprintf("start+reload %d ", strm)+strings.Join(cur, " ")))
				started = true
			case r.Bool():
				a := verifC39Mutate(r, cur, false)
				cur = verifC39Mutate(r, a, false)
				ops = append(ops, strings.TrimSpace("reload+reload "+strings.Join(a, " ")+" / "+strings.Join(cur, " ")))
			default:
				cur = verifC39Mutate(r, cur, false)
				ops = append(ops, strings.TrimSpace("reload+stop "+strings.Join(cur, " ")))
				started = false
			}
		case c < 4:
			if started {
				ops = append(ops, "stop")
			} else {
				strm++
				ops = append(ops, fmt.Sprintf("start %d", strm))
			}
			started = !started
		default:
			cur = verifC39Mutate(r, cur, misuse)
			ops = append(ops, strings.TrimSpace("reload "+strings.Join(cur, " ")))
		}
	}
	return ops
}

func TestVerifC39(t *testing.T) {
	verifutil.Main(t, &verifutil.Harness{
		ID: "C39", Exec: verifC39Exec, Gen: verifC39Gen, Quick: 250, Thorough: 3000,
		Class: func(op, impl string) string {
			w := strings.Fields(op)[0]
			switch {
			case strings.HasPrefix(impl, "panic"):
				return w + "/panic"
			case strings.HasPrefix(impl, "s=x") && strings.Contains(impl, "|1|0|1|"):
				return w + "/path-forwarding"
			case strings.HasPrefix(impl, "s=x"):
				return w + "/path-idle"
			case strings.HasPrefix(impl, "s=1"):
				return w + "/started"
			case strings.HasPrefix(impl, "s=0"):
				return w + "/idle"
			}
			return w + "/other"
		},
		NonTrivial: func(op, impl string) bool { return !strings.HasPrefix(op, "reset") },
	})
	verifC39Cleanup()
}
