//go:build verif

package forward

// C39 shim (injected with -overlay, never part of the repository): one seam into unexported state.
// If the field disappears from the source only this file stops compiling; ./check drops it and the
// harness carries on with the exported surface (APIList/APIGet, goroutine dump).
import (
	"github.com/bluenviron/mediamtx/internal/stream"
	"github.com/bluenviron/mediamtx/internal/verifutil"
)

func init() {
	verifutil.Register("c39_stream", func(m *Manager) *stream.Stream { return m.stream })
}
