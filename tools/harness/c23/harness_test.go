//go:build verif

package stream

import (
	"bytes"
	"fmt"
	"strconv"
	"strings"
	"sync"
	"testing"
	"time"

	"github.com/bluenviron/gortsplib/v5/pkg/description"
	"github.com/bluenviron/gortsplib/v5/pkg/format"
	"github.com/pion/rtp"

	"github.com/bluenviron/mediamtx/internal/conf"
	"github.com/bluenviron/mediamtx/internal/logger"
	"github.com/bluenviron/mediamtx/internal/unit"
	"github.com/bluenviron/mediamtx/internal/verifutil"
)

// C23 — a real Stream / SubStream / Reader; the answer of an op is what the reader callback received:
// the RTP packets of the unit and the unit payload.  Modes:
//   payload: UseRTPPackets=false (encoder created in initialize, every unit is packetised by the server)
//   rtp:     UseRTPPackets=true  (publisher packets are passed on until one exceeds the maximum)
//   force:   H264 packetization-mode 0 input (forceRemux: encoder created in initialize)
// `rt=` is a TEST done here: the generated packets are fed to a fresh rtpDecoder of the repository and
// the result is compared with the delivered payload (used by the spec only for codecs without a Lean decoder).

type verifC23Log struct{}

func (verifC23Log) Log(logger.Level, string, ...any) {}

type verifC23State struct {
	codec string
	max   int
	mode  string
	forma format.Format
	media *description.Media
	strm  *Stream
	sub   *SubStream
	rd    *Reader
	recv  chan *unit.Unit
}

var verifC23 *verifC23State

// ---- always-available streams: several sub streams over the life of one stream ----
//
// The offline filler is paced by the wall clock, so these histories are not predicted by the model; every
// unit the reader receives is reported (its PTS as delivered and seq/timestamp/length of its packets) and the
// life-of-stream spec is evaluated on them: one SSRC, consecutive sequence numbers and ONE constant
// `timestamp - uint32(unit PTS)` from the first filler unit to the last publisher unit.

type verifC23AA struct {
	codec string
	strm  *Stream
	rd    *Reader
	pub   *SubStream
	mu    sync.Mutex
	units []string
	total int
}

var verifC23aa *verifC23AA

func verifC23AAClose() {
	a := verifC23aa
	if a != nil {
		a.strm.RemoveReader(a.rd)
		a.strm.Close()
	}
	verifC23aa = nil
}

func verifC23AATrack(codec string) conf.AlwaysAvailableTrack {
	switch codec {
	case "g711":
		return conf.AlwaysAvailableTrack{Codec: conf.CodecG711, SampleRate: 8000, ChannelCount: 1, MULaw: true}
	case "lpcm":
		return conf.AlwaysAvailableTrack{Codec: conf.CodecLPCM, SampleRate: 48000, ChannelCount: 2}
	case "opus":
		return conf.AlwaysAvailableTrack{Codec: conf.CodecOpus}
	default:
		return conf.AlwaysAvailableTrack{Codec: conf.CodecH264}
	}
}

func verifC23AAInFormat(codec string) format.Format {
	switch codec {
	case "g711":
		return &format.G711{PayloadTyp: 0, MULaw: true, SampleRate: 8000, ChannelCount: 1}
	case "lpcm":
		return &format.LPCM{PayloadTyp: 96, BitDepth: 16, SampleRate: 48000, ChannelCount: 2}
	case "opus":
		return &format.Opus{PayloadTyp: 96, ChannelCount: 2}
	default:
		return &format.H264{PayloadTyp: 96, PacketizationMode: 1}
	}
}

// take what the reader got so far; wait until at least `min` units are there (or the deadline passes)
func (a *verifC23AA) take(min int, d time.Duration) string {
	dl := time.Now().Add(d)
	for {
		a.mu.Lock()
		n := len(a.units)
		a.mu.Unlock()
		if n >= min || time.Now().After(dl) {
			break
		}
		time.Sleep(500 * time.Microsecond)
	}
	a.mu.Lock()
	defer a.mu.Unlock()
	if len(a.units) < min {
		return "timeout"
	}
	out := "-"
	if len(a.units) != 0 {
		out = strings.Join(a.units, "|")
	}
	a.units = nil
	return "un=" + out
}

func verifC23AAExec(f []string) string {
	switch f[0] {
	case "reset":
		verifC23Close()
		verifC23AAClose()
		a := &verifC23AA{codec: f[1]}
		a.strm = &Stream{
			AlwaysAvailable:       true,
			AlwaysAvailableTracks: []conf.AlwaysAvailableTrack{verifC23AATrack(a.codec)},
			WriteQueueSize:        512,
			RTPMaxPayloadSize:     verifutil.Atoi(f[2]),
			ReplaceNTP:            true,
			Parent:                verifC23Log{},
		}
		if err := a.strm.Initialize(); err != nil {
			return "err-init"
		}
		a.rd = &Reader{Parent: verifC23Log{}}
		m := a.strm.OrigDesc.Medias[0]
		a.rd.OnData(m, m.Formats[0], func(u *unit.Unit) error {
			ssrc := uint32(0)
			pk := "-"
			if len(u.RTPPackets) != 0 {
				ssrc = u.RTPPackets[0].SSRC
				s := make([]string, len(u.RTPPackets))
				for i, p := range u.RTPPackets {
					s[i] = fmt.Sprintf("%d:%d:%d", p.SequenceNumber, p.Timestamp, len(p.Payload))
					if p.SSRC != ssrc {
						s[i] += "x" // unparsable on purpose: SSRC differs inside a unit
					}
				}
				pk = strings.Join(s, "/")
			}
			a.mu.Lock()
			a.units = append(a.units, fmt.Sprintf("%d,%d,%s", u.PTS, ssrc, pk))
			a.total++
			a.mu.Unlock()
			return nil
		})
		a.strm.AddReader(a.rd)
		verifC23aa = a
		return "ok"
	}
	a := verifC23aa
	if a == nil {
		return "bad-op"
	}
	switch f[0] {
	case "aafill":
		// only meaningful while the offline sub stream is the current one (the shrinker may produce the other
		// case: nobody would ever write).  The deadline is a guard against a broken implementation only.
		if a.pub != nil {
			return "bad-op"
		}
		return a.take(verifutil.Atoi(f[1]), 60*time.Second)
	case "aapub":
		in := verifC23AAInFormat(a.codec)
		a.pub = &SubStream{
			Stream:        a.strm,
			InDesc:        &description.Session{Medias: []*description.Media{{Type: a.strm.OrigDesc.Medias[0].Type, Formats: []format.Format{in}}}},
			UseRTPPackets: false,
		}
		if err := a.pub.Initialize(); err != nil {
			return "err-subinit"
		}
		return a.take(0, 0)
	case "aau":
		if a.pub == nil {
			return "bad-op"
		}
		m := a.pub.InDesc.Medias[0]
		a.pub.WriteUnit(m, m.Formats[0], &unit.Unit{PTS: verifutil.AtoI64(f[1]), Payload: verifC23MakePayload(a.codec, f[2])})
		return a.take(1, 60*time.Second)
	case "aaoff":
		a.pub = nil
		if err := a.strm.StartOfflineSubStream(); err != nil {
			return "err-offline"
		}
		return a.take(0, 0)
	}
	return "bad-op"
}

func verifC23Format(codec, mode string) format.Format {
	switch codec {
	case "h264":
		pm := 1
		if mode == "force" {
			pm = 0
		}
		return &format.H264{PayloadTyp: 96, PacketizationMode: pm}
	case "h265":
		return &format.H265{PayloadTyp: 96}
	case "av1":
		return &format.AV1{PayloadTyp: 96}
	case "vp8":
		return &format.VP8{PayloadTyp: 96}
	case "vp9":
		return &format.VP9{PayloadTyp: 96}
	case "m4v":
		return &format.MPEG4Video{PayloadTyp: 96}
	case "latm":
		return &format.MPEG4AudioLATM{PayloadTyp: 96, CPresent: true, ProfileLevelID: 30}
	case "opus":
		return &format.Opus{PayloadTyp: 96, ChannelCount: 2}
	case "g711":
		return &format.G711{PayloadTyp: 0, MULaw: true, SampleRate: 8000, ChannelCount: 1}
	case "lpcm":
		return &format.LPCM{PayloadTyp: 96, BitDepth: 16, SampleRate: 48000, ChannelCount: 2}
	case "klv":
		return &format.KLV{PayloadTyp: 96}
	}
	return nil
}

func verifC23IsList(codec string) bool {
	switch codec {
	case "h264", "h265", "av1", "opus":
		return true
	}
	return false
}

func verifC23Close() {
	st := verifC23
	if st != nil && st.strm != nil {
		st.strm.RemoveReader(st.rd)
		st.strm.Close()
	}
	verifC23 = nil
}

func verifC23ParseList(s string) [][]byte {
	parts := strings.Split(s, ",")
	out := make([][]byte, len(parts))
	for i, p := range parts {
		out[i] = verifutil.UnHex(p)
		if out[i] == nil {
			out[i] = []byte{}
		}
	}
	return out
}

func verifC23MakePayload(codec, s string) unit.Payload {
	if verifC23IsList(codec) {
		l := verifC23ParseList(s)
		switch codec {
		case "h264":
			return unit.PayloadH264(l)
		case "h265":
			return unit.PayloadH265(l)
		case "av1":
			return unit.PayloadAV1(l)
		default:
			return unit.PayloadOpus(l)
		}
	}
	b := verifutil.UnHex(s)
	switch codec {
	case "vp8":
		return unit.PayloadVP8(b)
	case "vp9":
		return unit.PayloadVP9(b)
	case "m4v":
		return unit.PayloadMPEG4Video(b)
	case "latm":
		return unit.PayloadMPEG4AudioLATM(b)
	case "g711":
		return unit.PayloadG711(b)
	case "lpcm":
		return unit.PayloadLPCM(b)
	default:
		return unit.PayloadKLV(b)
	}
}

// flatten a payload into (isList, elements)
func verifC23Elems(p unit.Payload) (bool, [][]byte, bool) {
	switch p := p.(type) {
	case nil:
		return false, nil, true
	case unit.PayloadH264:
		return true, p, p == nil
	case unit.PayloadH265:
		return true, p, p == nil
	case unit.PayloadAV1:
		return true, p, p == nil
	case unit.PayloadOpus:
		return true, p, p == nil
	case unit.PayloadVP8:
		return false, [][]byte{p}, p == nil
	case unit.PayloadVP9:
		return false, [][]byte{p}, p == nil
	case unit.PayloadMPEG4Video:
		return false, [][]byte{p}, p == nil
	case unit.PayloadMPEG4AudioLATM:
		return false, [][]byte{p}, p == nil
	case unit.PayloadG711:
		return false, [][]byte{p}, p == nil
	case unit.PayloadLPCM:
		return false, [][]byte{p}, p == nil
	case unit.PayloadKLV:
		return false, [][]byte{p}, p == nil
	}
	return false, nil, true
}

func verifC23FmtPayload(p unit.Payload) string {
	_, el, isNil := verifC23Elems(p)
	if isNil {
		return "nil"
	}
	if len(el) == 0 {
		return "empty"
	}
	s := make([]string, len(el))
	for i, e := range el {
		s[i] = verifutil.Hex(e)
	}
	return strings.Join(s, ",")
}

// round trip through a fresh decoder of the repository (tested contract)
func verifC23RoundTrip(forma format.Format, pkts []*rtp.Packet, delivered unit.Payload) string {
	dec, err := newRTPDecoder(forma)
	if err != nil {
		return "0"
	}
	isList, want, _ := verifC23Elems(delivered)
	var got [][]byte
	var gotBytes []byte
	for _, pkt := range pkts {
		p, err := dec.decode(pkt)
		if err != nil {
			// rtpDecoderKLV, unlike the other wrappers, hands "need more packets" on as an error
			if err.Error() == "need more packets" {
				continue
			}
			return "0"
		}
		_, el, isNil := verifC23Elems(p)
		if isNil {
			continue
		}
		for _, e := range el {
			got = append(got, e)
			gotBytes = append(gotBytes, e...)
		}
	}
	if isList {
		if len(got) != len(want) {
			return "0"
		}
		for i := range got {
			if !bytes.Equal(got[i], want[i]) {
				return "0"
			}
		}
		return "1"
	}
	if len(want) == 1 && bytes.Equal(gotBytes, want[0]) {
		return "1"
	}
	return "0"
}

// a delivered unit, retained WITHOUT copying; `seen` = its packets as formatted when the callback ran
type verifC23Kept struct {
	u    *unit.Unit
	seen string
}

var verifC23Kepts []verifC23Kept

func verifC23FmtPackets(u *unit.Unit) string {
	if len(u.RTPPackets) == 0 {
		return "-"
	}
	s := make([]string, len(u.RTPPackets))
	for i, p := range u.RTPPackets {
		m := 0
		if p.Marker {
			m = 1
		}
		s[i] = fmt.Sprintf("%d:%d:%d:%d:%s", p.SSRC, p.SequenceNumber, p.Timestamp, m, verifutil.Hex(p.Payload))
	}
	return strings.Join(s, ";")
}

// `final`: re-read the packets of every unit handed to the reader during this history
func verifC23Final() string {
	for i, k := range verifC23Kepts {
		now := verifC23FmtPackets(k.u)
		if now != k.seen {
			if len(now) > 160 {
				now = now[:160]
			}
			seen := k.seen
			if len(seen) > 160 {
				seen = seen[:160]
			}
			return fmt.Sprintf("changed unit=%d was=%s now=%s", i, seen, now)
		}
	}
	return "same"
}

func verifC23Answer(st *verifC23State, u *unit.Unit, generated bool) string {
	verifC23Kepts = append(verifC23Kepts, verifC23Kept{u: u, seen: verifC23FmtPackets(u)})
	ssrc := "-"
	pk := "-"
	if len(u.RTPPackets) != 0 {
		ssrc = strconv.FormatUint(uint64(u.RTPPackets[0].SSRC), 10)
		s := make([]string, len(u.RTPPackets))
		for i, p := range u.RTPPackets {
			m := 0
			if p.Marker {
				m = 1
			}
			if p.SSRC != u.RTPPackets[0].SSRC {
				ssrc = "mixed"
			}
			s[i] = fmt.Sprintf("%d:%d:%d:%s", p.SequenceNumber, p.Timestamp, m, verifutil.Hex(p.Payload))
		}
		pk = strings.Join(s, ";")
	}
	pl := "nil"
	if !u.NilPayload() {
		pl = verifC23FmtPayload(u.Payload)
	}
	rt := "-"
	if generated && len(u.RTPPackets) != 0 && !u.NilPayload() {
		rt = verifC23RoundTrip(st.sub.Stream.medias[st.media].formats[st.forma].outFormat, u.RTPPackets, u.Payload)
	}
	return "ssrc=" + ssrc + " pk=" + pk + " pl=" + pl + " rt=" + rt
}

func verifC23Exec(op string) (res string) {
	f := strings.Fields(op)
	if f[0] == "reset" {
		verifC23Kepts = nil
	}
	if f[0] == "final" {
		return verifC23Final()
	}
	if (f[0] == "reset" && len(f) > 3 && f[3] == "aa") || strings.HasPrefix(f[0], "aa") {
		return verifC23AAExec(f)
	}
	switch f[0] {
	case "reset":
		verifC23AAClose()
		verifC23Close()
		st := &verifC23State{codec: f[1], max: verifutil.Atoi(f[2]), mode: f[3]}
		st.forma = verifC23Format(st.codec, st.mode)
		if st.forma == nil {
			return "bad-op"
		}
		st.media = &description.Media{Type: description.MediaTypeVideo, Formats: []format.Format{st.forma}}
		desc := &description.Session{Medias: []*description.Media{st.media}}
		st.strm = &Stream{OrigDesc: desc, WriteQueueSize: 8, RTPMaxPayloadSize: st.max, Parent: verifC23Log{}}
		if err := st.strm.Initialize(); err != nil {
			return "err-init"
		}
		st.sub = &SubStream{Stream: st.strm, UseRTPPackets: st.mode != "payload"}
		if err := st.sub.Initialize(); err != nil {
			st.strm.Close()
			return "err-subinit"
		}
		st.recv = make(chan *unit.Unit, 4)
		st.rd = &Reader{Parent: verifC23Log{}}
		recv := st.recv
		st.rd.OnData(st.media, st.forma, func(u *unit.Unit) error {
			recv <- u
			return nil
		})
		st.strm.AddReader(st.rd)
		verifC23 = st
		return "ok"
	}
	st := verifC23
	if st == nil {
		return "bad-op"
	}
	defer func() {
		if r := recover(); r != nil {
			res = "panic"
		}
	}()
	var u *unit.Unit
	var in *rtp.Packet
	switch f[0] {
	case "u":
		u = &unit.Unit{PTS: verifutil.AtoI64(f[1]), Payload: verifC23MakePayload(st.codec, f[2])}
	case "r":
		seq, _ := strconv.ParseUint(f[2], 10, 16)
		ts, _ := strconv.ParseUint(f[3], 10, 32)
		ssrc, _ := strconv.ParseUint(f[4], 10, 32)
		pay := verifutil.UnHex(f[6])
		if pay == nil {
			pay = []byte{}
		}
		in = &rtp.Packet{
			Header:  rtp.Header{Version: 2, PayloadType: 96, SequenceNumber: uint16(seq), Timestamp: uint32(ts), SSRC: uint32(ssrc), Marker: f[5] == "1"},
			Payload: pay,
		}
		u = &unit.Unit{PTS: verifutil.AtoI64(f[1]), RTPPackets: []*rtp.Packet{in}}
	default:
		return "bad-op"
	}
	errBefore := st.strm.InboundFramesInError()
	st.sub.WriteUnit(st.media, st.forma, u)
	if st.strm.InboundFramesInError() != errBefore {
		return "err"
	}
	select {
	case got := <-st.recv:
		generated := !(len(got.RTPPackets) == 1 && got.RTPPackets[0] == in)
		return verifC23Answer(st, got, generated)
	case <-time.After(60 * time.Second): // guard against a broken implementation only
		return "timeout"
	}
}

// ---- generator ----

func verifC23Max(r *verifutil.Rand) int {
	switch r.Intn(8) {
	case 0:
		return 64
	case 1:
		return 64 + r.Intn(64)
	case 2:
		return 100 + r.Intn(200)
	case 3:
		return 1200
	case 4:
		return 1450
	case 5:
		return 1460
	default:
		return 64 + r.Intn(1397)
	}
}

// sizes around the maximum and its multiples
func verifC23Size(r *verifutil.Rand, max int) int {
	switch r.Intn(10) {
	case 0:
		return 1 + r.Intn(4)
	case 1:
		return max - 3 + r.Intn(7)
	case 2:
		return 2*max - 6 + r.Intn(12)
	case 3:
		return max*(2+r.Intn(3)) - 8 + r.Intn(16)
	case 4, 5:
		return 1 + r.Intn(40)
	case 6:
		return 1 + r.Intn(3*max)
	default:
		return 1 + r.Intn(max)
	}
}

// bytes without any 00 00 01 (emulation prevention holds in valid H.26x streams): no two zeros in a row
func verifC23Clean(r *verifutil.Rand, n int) []byte {
	b := r.Bytes(n)
	for i := 1; i < len(b); i++ {
		if b[i] == 0 && b[i-1] == 0 {
			b[i] = 3
		}
	}
	return b
}

func verifC23NALU264(r *verifutil.Rand, size int) []byte {
	if size < 1 {
		size = 1
	}
	b := verifC23Clean(r, size)
	typ := []byte{1, 1, 5, 5, 6, 7, 8, 9, 1, 19, 23, 30, 31, 12}[r.Intn(14)]
	b[0] = typ | byte(r.Intn(4))<<5
	if len(b) > 1 && b[0] == 0 && b[1] == 0 {
		b[1] = 3
	}
	return b
}

func verifC23NALU265(r *verifutil.Rand, size int) []byte {
	if size < 2 {
		size = 2
	}
	b := verifC23Clean(r, size)
	typ := []byte{1, 1, 19, 20, 21, 39, 0, 9, 40, 16, 1, 19}[r.Intn(12)] // no VPS/SPS/PPS/AUD: C22 remux = identity
	b[0] = typ << 1
	b[1] = 1
	return b
}

func verifC23KLV(r *verifutil.Rand, size int) []byte {
	key := []byte{0x06, 0x0e, 0x2b, 0x34, 1, 1, 1, 1, 2, 3, 4, 5, 6, 7, 8, 9}
	if size < 1 {
		size = 1
	}
	var l []byte
	switch {
	case size < 128:
		l = []byte{byte(size)}
	case size < 256:
		l = []byte{0x81, byte(size)}
	default:
		l = []byte{0x82, byte(size >> 8), byte(size)}
	}
	return append(append(key, l...), r.Bytes(size)...)
}

func verifC23GenPayload(r *verifutil.Rand, codec string, max int) string {
	switch codec {
	case "h264", "h265":
		k := 1 + r.Intn(5)
		if r.Chance(1, 6) {
			k = 1 + r.Intn(12)
		}
		parts := make([]string, k)
		for i := range parts {
			sz := verifC23Size(r, max)
			if k > 2 && r.Chance(1, 2) {
				sz = 1 + r.Intn(30) // aggregation candidates
			}
			if codec == "h264" {
				parts[i] = verifutil.Hex(verifC23NALU264(r, sz))
			} else {
				parts[i] = verifutil.Hex(verifC23NALU265(r, sz))
			}
		}
		return strings.Join(parts, ",")
	case "av1":
		k := 1 + r.Intn(3)
		parts := make([]string, k)
		for i := range parts {
			b := r.Bytes(1 + verifC23Size(r, max))
			b[0] = byte([]int{1, 3, 4, 5, 6}[r.Intn(5)]) << 3 // no extension, no size field
			parts[i] = verifutil.Hex(b)
		}
		return strings.Join(parts, ",")
	case "opus":
		// 1..5 Opus packets per unit with mixed TOCs: any config (2.5 .. 60 ms frames), codes 0..3, code 3 with a
		// frame-count byte (VBR / padding bits set at random), now and then a 1-byte code-3 packet (duration 0)
		k := 1 + r.Intn(5)
		if r.Chance(1, 4) {
			k = 1
		}
		parts := make([]string, k)
		for i := range parts {
			b := r.Bytes(2 + r.Intn(40))
			cfg := byte(r.Intn(32))
			if r.Chance(1, 2) {
				cfg = []byte{1, 3, 9, 11, 13, 15, 19, 31}[r.Intn(8)] // 20 / 60 / 20 / 60 / 20 / 20 / 20 / 20 ms families
			}
			code := byte(r.Intn(4))
			b[0] = cfg<<3 | byte(r.Intn(2))<<2 | code
			if code == 3 {
				b[1] = byte(r.Intn(4))<<6 | byte(1+r.Intn(6))
				if r.Chance(1, 12) {
					b = b[:1]
				}
			}
			parts[i] = verifutil.Hex(b)
		}
		return strings.Join(parts, ",")
	case "lpcm":
		return verifutil.Hex(r.Bytes(4 * (1 + verifC23Size(r, max)/4)))
	case "klv":
		return verifutil.Hex(verifC23KLV(r, verifC23Size(r, max)))
	case "m4v":
		b := r.Bytes(verifC23Size(r, max))
		if r.Chance(1, 3) && len(b) > 12 { // config + GOV so that C22's remuxer has something to do
			copy(b, []byte{0, 0, 1, 0xB0, 1, 0, 0, 1, 0xB3, 9, 0, 0, 1, 0xB6}[:min(14, len(b))])
		}
		return verifutil.Hex(b)
	case "vp9":
		b := r.Bytes(verifC23Size(r, max) + 3)
		b[0] = 0x82 // frame marker, profile 0, key frame header start
		return verifutil.Hex(b)
	default:
		return verifutil.Hex(r.Bytes(verifC23Size(r, max)))
	}
}

// offline filler -> publisher -> filler again -> second publisher (-> filler)
func verifC23GenAA(r *verifutil.Rand) []string {
	codec := []string{"g711", "g711", "opus", "lpcm", "h264"}[r.Intn(5)]
	max := []int{200, 400, 1200, 1450}[r.Intn(4)]
	ops := []string{fmt.Sprintf("reset %s %d aa", codec, max)}
	pay := func() string {
		switch codec {
		case "g711":
			return verifutil.Hex(r.Bytes(1 + r.Intn(3*max)))
		case "lpcm":
			return verifutil.Hex(r.Bytes(4 * (1 + r.Intn(max))))
		case "opus":
			return verifC23GenPayload(r, "opus", max)
		default:
			k := 1 + r.Intn(3)
			parts := make([]string, k)
			for i := range parts {
				b := verifC23NALU264(r, verifC23Size(r, max))
				b[0] = []byte{1, 5, 6}[r.Intn(3)] | 0x40 // nothing the remuxer drops
				parts[i] = verifutil.Hex(b)
			}
			return strings.Join(parts, ",")
		}
	}
	ops = append(ops, fmt.Sprintf("aafill %d", 1+r.Intn(2)))
	rounds := 2 + r.Intn(2)
	for k := 0; k < rounds; k++ {
		ops = append(ops, "aapub")
		pts := int64(r.Intn(100000))
		for j := 0; j < 1+r.Intn(3); j++ {
			pts += int64(1 + r.Intn(5000))
			ops = append(ops, fmt.Sprintf("aau %d %s", pts, pay()))
		}
		ops = append(ops, "aaoff", "aafill 1")
	}
	return ops
}

func verifC23Gen(r *verifutil.Rand, i int, thorough bool) []string {
	// wall-clock paced (≈ 0.3 s each): every 15th history in the quick tier, every 40th in the thorough one
	if (!thorough && i%15 == 7) || (thorough && i%40 == 7) {
		return verifC23GenAA(r)
	}
	codecs := []string{"h264", "h264", "h264", "m4v", "latm", "h265", "av1", "av1", "vp8", "opus", "opus", "g711", "lpcm", "klv"}
	codec := codecs[r.Intn(len(codecs))]
	max := verifC23Max(r)
	mode := "payload"
	switch codec {
	case "h264":
		mode = []string{"payload", "payload", "rtp", "rtp", "force"}[r.Intn(5)]
	case "m4v", "latm":
		mode = []string{"payload", "rtp"}[r.Intn(2)]
	}
	ops := []string{fmt.Sprintf("reset %s %d %s", codec, max, mode)}
	n := 3 + r.Intn(8)
	if thorough {
		n = 3 + r.Intn(30)
	}
	pts := int64(r.Intn(1 << 20))
	if r.Chance(1, 8) {
		pts = int64(1)<<32 - 5000 // uint32(PTS) wraps inside the history
	}
	if r.Chance(1, 16) {
		pts = -int64(r.Intn(100000))
	}
	seq := r.Intn(65536)
	if r.Chance(1, 4) {
		seq = 65536 - 1 - r.Intn(6) // uint16 wrap-around
	}
	ssrc := 1 + r.Intn(1<<31)
	tsBase := r.Intn(1 << 32)
	for j := 0; j < n; j++ {
		pts += int64(r.Intn(6000))
		if mode == "payload" {
			ops = append(ops, fmt.Sprintf("u %d %s", pts, verifC23GenPayload(r, codec, max)))
			continue
		}
		// RTP publisher: one packet per unit; mostly within the maximum, sometimes beyond (camera MTU larger
		// than the server's).  H264: single NAL unit packets; m4v / latm: whole frame with marker.
		sz := 1 + r.Intn(max)
		switch r.Intn(8) {
		case 0, 1:
			sz = max + 1 + r.Intn(max)
		case 2:
			sz = max - 1 + r.Intn(3) // max-1, max, max+1
		}
		ts := (int64(tsBase) + pts) & 0xffffffff
		emit := func(marker int, pay []byte) {
			ops = append(ops, fmt.Sprintf("r %d %d %d %d %d %s", pts, seq, ts, ssrc, marker, verifutil.Hex(pay)))
			seq = (seq + 1) & 0xffff
		}
		if r.Chance(1, 4) {
			// a frame spread over 2..3 publisher packets (each packet is its own unit, as RTSP sources deliver
			// them): the first ones decode to a nil payload
			k := 2 + r.Intn(2)
			if codec == "h264" {
				nalu := verifC23NALU264(r, k*sz+1)
				body := nalu[1:]
				for x := 0; x < k; x++ {
					piece := body[x*sz : (x+1)*sz]
					fh := nalu[0] & 0x1F
					if x == 0 {
						fh |= 0x80
					}
					if x == k-1 {
						fh |= 0x40
					}
					m := 0
					if x == k-1 {
						m = 1
					}
					emit(m, append([]byte{nalu[0]&0x60 | 28, fh}, piece...))
				}
			} else {
				for x := 0; x < k; x++ {
					m := 0
					if x == k-1 {
						m = 1
					}
					emit(m, r.Bytes(sz))
				}
			}
			continue
		}
		var pay []byte
		if codec == "h264" {
			pay = verifC23NALU264(r, sz)
		} else {
			pay = r.Bytes(sz)
		}
		emit(1, pay)
	}
	return append(ops, "final")
}

func verifC23Class(op, impl string) string {
	f := strings.Fields(op)
	if strings.HasPrefix(f[0], "aa") || (f[0] == "reset" && f[3] == "aa") {
		c := "aa/" + f[0]
		if f[0] == "reset" {
			c += "/" + f[1]
		}
		if strings.HasPrefix(impl, "un=") && impl != "un=-" {
			c += "/units"
		} else if !strings.HasPrefix(impl, "un=") && impl != "ok" {
			c += "/" + impl
		}
		return c
	}
	if f[0] == "reset" {
		return "reset/" + f[1] + "/" + f[3]
	}
	c := "?"
	if verifC23 != nil {
		c = verifC23.codec + "/" + verifC23.mode
	}
	if !strings.HasPrefix(impl, "ssrc=") {
		return c + "/" + impl
	}
	n := strings.Count(impl, ";") + 1
	if strings.Contains(impl, "pk=- ") {
		n = 0
	}
	switch {
	case n == 0:
		return c + "/0pkt"
	case n == 1:
		return c + "/1pkt"
	default:
		return c + "/multi"
	}
}

func TestVerifC23(t *testing.T) {
	defer verifC23Close()
	defer verifC23AAClose()
	verifutil.Main(t, &verifutil.Harness{
		ID: "C23", Exec: verifC23Exec, Gen: verifC23Gen, Quick: 900, Thorough: 12000,
		Class:      verifC23Class,
		NonTrivial: func(op, impl string) bool { return !strings.HasPrefix(op, "reset") },
	})
}
