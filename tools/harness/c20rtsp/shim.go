//go:build verif

// Behavioural tie for the per-object hooks of C20 (runOnRead/runOnUnread per RTSP reader session,
// runOnConnect/runOnDisconnect per RTSP connection).  Injected into package internal/servers/rtsp by
// overlay and imported by the PathSM harness in internal/core (core already imports this package).
//
// It builds REAL `session` / `conn` values and calls the REAL handlers onPlay / onPause / onClose
// (session) and initialize / onClose (conn).  What is played instead of the real thing:
//   - gortsplib's dispatch: the shim calls a handler only in the states in which
//     gortsplib.ServerSession.handleRequest calls it (PLAY: PrePlay|Play; PAUSE: PrePlay|Play) and
//     performs gortsplib's own state change afterwards (PrePlay->Play after a successful PLAY,
//     Play->PrePlay after a successful PAUSE); the unexported `state` / `setuppedTransport` fields of
//     a zero gortsplib.ServerSession are written with reflect+unsafe;
//   - onSetup (needs a path manager and a stream): the shim only stores the stub path in the session.
//
// Hook executions are observed like for the path hooks: the log lines the hooks package writes
// immediately before externalcmd.Cmd.Start().
package rtsp

import (
	"fmt"
	"net"
	"reflect"
	"strings"
	"sync"
	"unsafe"

	"github.com/bluenviron/gortsplib/v5"
	"github.com/google/uuid"

	"github.com/bluenviron/mediamtx/internal/conf"
	"github.com/bluenviron/mediamtx/internal/counterdumper"
	"github.com/bluenviron/mediamtx/internal/defs"
	"github.com/bluenviron/mediamtx/internal/errordumper"
	"github.com/bluenviron/mediamtx/internal/externalcmd"
	"github.com/bluenviron/mediamtx/internal/logger"
	"github.com/bluenviron/mediamtx/internal/verifutil"
)

func init() {
	verifutil.Register("c20_rtsp_session", VerifRTSPSession)
	verifutil.Register("c20_rtsp_conn", VerifRTSPConn)
}

const verifNoCmd = "verif_no_such_command_zz"

type verifLog struct {
	mu   sync.Mutex
	toks []string
}

func (l *verifLog) Log(_ logger.Level, f string, a ...any) {
	m := fmt.Sprintf(f, a...)
	t := ""
	switch {
	case strings.HasSuffix(m, "runOnRead command started"):
		t = "h+read"
	case strings.HasSuffix(m, "runOnUnread command launched"):
		t = "h-read"
	case strings.HasSuffix(m, "runOnConnect command started"):
		t = "h+connect"
	case strings.HasSuffix(m, "runOnDisconnect command launched"):
		t = "h-connect"
	}
	if t != "" {
		l.mu.Lock()
		l.toks = append(l.toks, t)
		l.mu.Unlock()
	}
}

func (l *verifLog) getConnByRConnUnsafe(*gortsplib.ServerConn) *conn             { return nil }
func (l *verifLog) getSessionByRSessionUnsafe(*gortsplib.ServerSession) *session { return nil }

type verifPath struct{ c *conf.Path }

func (p *verifPath) Name() string         { return "p" }
func (p *verifPath) SafeConf() *conf.Path { return p.c }
func (p *verifPath) ExternalCmdEnv() externalcmd.Environment {
	return externalcmd.Environment{"MTX_PATH": "p", "RTSP_PATH": "p", "RTSP_PORT": "8554"}
}
func (p *verifPath) RemovePublisher(defs.PathRemovePublisherReq) {}
func (p *verifPath) RemoveReader(defs.PathRemoveReaderReq)       {}

func verifSetField(obj any, name string, val any) {
	f := reflect.ValueOf(obj).Elem().FieldByName(name)
	if !f.IsValid() {
		panic("verif shim: gortsplib field not found: " + name)
	}
	reflect.NewAt(f.Type(), unsafe.Pointer(f.UnsafeAddr())).Elem().Set(reflect.ValueOf(val))
}

// VerifRTSPSession plays one reader session: events setup | play | pause | close (comma separated).
// It returns the hook executions in order ("h+read" / "h-read"); "PANIC" if a handler panicked.
func VerifRTSPSession(events []string) (out string) {
	l := &verifLog{}
	pool := &externalcmd.Pool{}
	pool.Initialize()
	rs := &gortsplib.ServerSession{}
	s := &session{
		rsession:        rs,
		externalCmdPool: pool,
		parent:          l,
		uuid:            uuid.New(),
	}
	s.inboundRTPPacketsLost = &counterdumper.Dumper{OnReport: func(uint64) {}}
	s.inboundRTPPacketsLost.Start()
	s.inboundRTPPacketsInError = &errordumper.Dumper{OnReport: func(uint64, error) {}}
	s.inboundRTPPacketsInError.Start()
	s.outboundRTPPacketsDiscarded = &counterdumper.Dumper{OnReport: func(uint64) {}}
	s.outboundRTPPacketsDiscarded.Start()
	closed := false
	safeStop := func(f func()) {
		defer func() { _ = recover() }() // already stopped by onClose
		f()
	}
	defer func() {
		if r := recover(); r != nil {
			l.toks = append(l.toks, "PANIC")
		}
		// not part of the op: release the dumpers if onClose did not get to it
		safeStop(s.outboundRTPPacketsDiscarded.Stop)
		safeStop(s.inboundRTPPacketsInError.Stop)
		safeStop(s.inboundRTPPacketsLost.Stop)
		pool.Close()
		if len(l.toks) == 0 {
			out = "-"
		} else {
			out = strings.Join(l.toks, " ")
		}
	}()
	setState := func(st gortsplib.ServerSessionState) { verifSetField(rs, "state", st) }
	for _, e := range events {
		if closed {
			break
		}
		st := rs.State()
		switch e {
		case "setup":
			if st == gortsplib.ServerSessionStateInitial || st == gortsplib.ServerSessionStatePrePlay {
				s.path = &verifPath{c: &conf.Path{Name: "p", RunOnRead: verifNoCmd, RunOnUnread: verifNoCmd}}
				verifSetField(rs, "setuppedTransport", &gortsplib.SessionTransport{})
				setState(gortsplib.ServerSessionStatePrePlay)
			}
		case "play":
			if st == gortsplib.ServerSessionStatePrePlay || st == gortsplib.ServerSessionStatePlay {
				if _, err := s.onPlay(nil); err == nil && st == gortsplib.ServerSessionStatePrePlay {
					setState(gortsplib.ServerSessionStatePlay)
				}
			}
		case "pause":
			if st == gortsplib.ServerSessionStatePrePlay || st == gortsplib.ServerSessionStatePlay {
				if _, err := s.onPause(nil); err == nil && st == gortsplib.ServerSessionStatePlay {
					setState(gortsplib.ServerSessionStatePrePlay)
				}
			}
		case "close":
			s.onClose(fmt.Errorf("terminated"))
			closed = true
		}
	}
	return ""
}

// VerifRTSPConn plays one connection: initialize, then (if `closeIt`) onClose.
func VerifRTSPConn(closeIt bool) (out string) {
	l := &verifLog{}
	pool := &externalcmd.Pool{}
	pool.Initialize()
	a, b := net.Pipe()
	defer a.Close()
	defer b.Close()
	rc := &gortsplib.ServerConn{}
	verifSetField(rc, "nconn", a)
	c := &conn{
		rtspAddress: ":8554", runOnConnect: verifNoCmd, runOnDisconnect: verifNoCmd,
		externalCmdPool: pool, rconn: rc, parent: l,
	}
	defer func() {
		if r := recover(); r != nil {
			l.toks = append(l.toks, "PANIC")
		}
		pool.Close()
		if len(l.toks) == 0 {
			out = "-"
		} else {
			out = strings.Join(l.toks, " ")
		}
	}()
	c.initialize()
	if closeIt {
		c.onClose(fmt.Errorf("terminated"))
	}
	return ""
}
