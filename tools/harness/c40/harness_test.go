//go:build verif

package core

// C40 search harness: a stress run of the REAL pathManager / path loops (real initialize()/run(), real
// stream.Stream) under concurrent publishing, reading, describing, API queries, path-configuration
// reloads (hot-reloadable and not), publisher kicks and shutdown, with a watchdog.  One op = one stress
// run; the answer is `done` unless the watchdog fires, in which case it names the internal/core
// functions the leftover goroutines are blocked in.  With -race (thorough tier) the same runs are the
// data-race search.

import (
	"fmt"
	"regexp"
	"runtime"
	"sort"
	"strings"
	"sync"
	"sync/atomic"
	"testing"
	"time"

	"github.com/bluenviron/gortsplib/v5/pkg/description"

	"github.com/bluenviron/mediamtx/internal/conf"
	"github.com/bluenviron/mediamtx/internal/defs"
	"github.com/bluenviron/mediamtx/internal/externalcmd"
	"github.com/bluenviron/mediamtx/internal/logger"
	"github.com/bluenviron/mediamtx/internal/test"
	"github.com/bluenviron/mediamtx/internal/verifutil"
)

// a publisher that, like a real session, leaves the path from its own goroutine when it is kicked
type verifC40Pub struct {
	mu   sync.Mutex
	pa   defs.Path
	wg   *sync.WaitGroup
	gone bool
}

func (p *verifC40Pub) Log(logger.Level, string, ...any) {}
func (p *verifC40Pub) APISourceDescribe() *defs.APIPathSource {
	return &defs.APIPathSource{Type: "rtspSession", ID: ""}
}

func (p *verifC40Pub) Close() {
	p.mu.Lock()
	pa, gone := p.pa, p.gone
	p.gone = true
	p.mu.Unlock()
	if pa != nil && !gone {
		p.wg.Add(1)
		go func() {
			defer p.wg.Done()
			pa.RemovePublisher(defs.PathRemovePublisherReq{Author: p})
		}()
	}
}

type verifC40Rd struct {
	mu   sync.Mutex
	pa   defs.Path
	wg   *sync.WaitGroup
	gone bool
}

func (r *verifC40Rd) Log(logger.Level, string, ...any) {}
func (r *verifC40Rd) APIReaderDescribe() *defs.APIPathReader {
	return &defs.APIPathReader{Type: "rtspSession", ID: ""}
}

func (r *verifC40Rd) Close() {
	r.mu.Lock()
	pa, gone := r.pa, r.gone
	r.gone = true
	r.mu.Unlock()
	if pa != nil && !gone {
		r.wg.Add(1)
		go func() {
			defer r.wg.Done()
			pa.RemoveReader(defs.PathRemoveReaderReq{Author: r})
		}()
	}
}

var verifC40All = regexp.MustCompile("^.*$")

// path configurations: variant v differs from variant 0 in ways that are hot-reloadable (recordPath),
// not hot-reloadable (maxReaders, overridePublisher: the path is closed and recreated) or structural
// (a static path disappears)
func verifC40Confs(v int) map[string]*conf.Path {
	m := map[string]*conf.Path{
		"all_others": {Regexp: verifC40All, Name: "all_others", Source: "publisher"},
		"s1":         {Name: "s1", Source: "publisher", OverridePublisher: true},
		"s2":         {Name: "s2", Source: "publisher"},
	}
	switch v % 5 {
	case 1:
		m["all_others"].MaxReaders = 3
		m["s1"].RecordPath = "/nonexistent/a"
	case 2:
		delete(m, "s2")
		m["s1"].RecordPath = "/nonexistent/b"
	case 3:
		m["all_others"].OverridePublisher = true
		m["s1"].MaxReaders = 2
	case 4:
		m["s2"].OverridePublisher = true
		m["all_others"].RecordPath = "/nonexistent/c"
	}
	return m
}

var verifC40Names = []string{"s1", "s2", "dyn1", "dyn2", "dyn3"}

func verifC40Worker(pm *pathManager, r *verifutil.Rand, iters int, mix int, wg *sync.WaitGroup, ops *atomic.Int64) {
	type held struct {
		pa  defs.Path
		pub *verifC40Pub
		rd  *verifC40Rd
	}
	var mine []held
	release := func(h held) {
		if h.pub != nil {
			h.pub.mu.Lock()
			gone := h.pub.gone
			h.pub.gone = true
			h.pub.mu.Unlock()
			if !gone {
				h.pa.RemovePublisher(defs.PathRemovePublisherReq{Author: h.pub})
			}
		}
		if h.rd != nil {
			h.rd.mu.Lock()
			gone := h.rd.gone
			h.rd.gone = true
			h.rd.mu.Unlock()
			if !gone {
				h.pa.RemoveReader(defs.PathRemoveReaderReq{Author: h.rd})
			}
		}
	}
	for i := 0; i < iters; i++ {
		ops.Add(1)
		name := verifC40Names[r.Intn(len(verifC40Names))]
		ar := defs.PathAccessRequest{Name: name, SkipAuth: true}
		k := r.Intn(100)
		switch {
		case k < 22: // publish
			pub := &verifC40Pub{wg: wg}
			ar.Publish = true
			res, err := pm.AddPublisher(defs.PathAddPublisherReq{
				Author:        pub,
				Desc:          &description.Session{Medias: []*description.Media{test.UniqueMediaH264()}},
				AccessRequest: ar,
			})
			if err == nil {
				pub.mu.Lock()
				pub.pa = res.Path
				pub.mu.Unlock()
				mine = append(mine, held{pa: res.Path, pub: pub})
			}
		case k < 44: // read
			rd := &verifC40Rd{wg: wg}
			res, err := pm.AddReader(defs.PathAddReaderReq{Author: rd, AccessRequest: ar})
			if err == nil {
				rd.mu.Lock()
				rd.pa = res.Path
				rd.mu.Unlock()
				mine = append(mine, held{pa: res.Path, rd: rd})
			}
		case k < 56:
			pm.Describe(defs.PathDescribeReq{AccessRequest: ar}) //nolint:errcheck
		case k < 62:
			pm.FindPathConf(defs.PathFindPathConfReq{AccessRequest: ar}) //nolint:errcheck
		case k < 70:
			pm.APIPathsList() //nolint:errcheck
		case k < 76:
			pm.APIPathsGet(name) //nolint:errcheck
		case k < 76+mix: // configuration reload
			pm.ReloadPathConfs(verifC40Confs(r.Intn(5)))
		default: // leave
			if len(mine) > 0 {
				j := r.Intn(len(mine))
				release(mine[j])
				mine = append(mine[:j], mine[j+1:]...)
			}
		}
		if r.Chance(1, 8) {
			runtime.Gosched()
		}
	}
	for _, h := range mine {
		release(h)
	}
}

// verifC40Sites: for every goroutine parked in a channel operation / select / WaitGroup.Wait whose
// innermost non-runtime frame is code of internal/core (not this harness): "Type.method" (line numbers
// are not used: they are imprecise under inlining and -race).
// This is what the extracted table must know about (conformance of the model's waits).
func verifC40Sites(into map[string]bool) {
	buf := make([]byte, 4<<20)
	n := runtime.Stack(buf, true)
	for _, g := range strings.Split(string(buf[:n]), "\n\n") {
		lines := strings.Split(g, "\n")
		if len(lines) < 3 {
			continue
		}
		hdr := lines[0]
		if !(strings.Contains(hdr, "[chan send") || strings.Contains(hdr, "[chan receive") ||
			strings.Contains(hdr, "[select") || strings.Contains(hdr, "WaitGroup.Wait")) {
			continue
		}
		for i := 1; i+1 < len(lines); i += 2 {
			fn := lines[i]
			if strings.HasPrefix(fn, "runtime.") || strings.HasPrefix(fn, "sync.") || strings.HasPrefix(fn, "internal/") {
				continue
			}
			const pfx = "github.com/bluenviron/mediamtx/internal/core."
			if !strings.HasPrefix(fn, pfx) {
				break
			}
			f := fn[len(pfx):]
			if j := strings.LastIndex(f, "("); j >= 0 {
				f = f[:j]
			}
			f = strings.NewReplacer("(*", "", ")", "").Replace(f)
			if strings.HasPrefix(f, "verifC40") || strings.HasPrefix(f, "TestVerif") || strings.Contains(f, ".func") {
				break
			}
			into[f] = true
			break
		}
	}
}

var verifC40Hangs int

// names of the internal/core functions goroutines are blocked in
func verifC40Blocked() string {
	buf := make([]byte, 4<<20)
	n := runtime.Stack(buf, true)
	set := map[string]bool{}
	for _, g := range strings.Split(string(buf[:n]), "\n\n") {
		if strings.Contains(g, "verifC40Blocked") {
			continue
		}
		for _, l := range strings.Split(g, "\n") {
			if i := strings.Index(l, "mediamtx/internal/core."); i >= 0 && !strings.HasPrefix(l, "\t") {
				f := l[i+len("mediamtx/internal/core."):]
				if j := strings.LastIndex(f, "("); j >= 0 {
					f = f[:j]
				}
				f = strings.NewReplacer("(*", "", ")", "").Replace(f)
				if strings.HasPrefix(f, "verifC40") || strings.HasPrefix(f, "TestVerif") {
					continue
				}
				set[f] = true
				break
			}
		}
	}
	var l []string
	for f := range set {
		l = append(l, f)
	}
	sort.Strings(l)
	if len(l) == 0 {
		return "?"
	}
	return strings.Join(l, ",")
}

func verifC40Exec(op string) string {
	f := strings.Fields(op)
	if f[0] != "stress" {
		return "bad-op"
	}
	if verifC40Hangs >= 3 {
		// the process already carries the leaked goroutines of three hung runs: stop searching
		return "skipped"
	}
	seed := uint64(verifutil.AtoI64(f[1]))
	workers, iters, mix, closeEarly := verifutil.Atoi(f[2]), verifutil.Atoi(f[3]), verifutil.Atoi(f[4]), f[5] == "1"
	watchdog := time.Duration(verifutil.Atoi(f[6])) * time.Millisecond

	pool := &externalcmd.Pool{}
	pool.Initialize()
	pm := &pathManager{
		logLevel:          conf.LogLevel(logger.Error),
		readTimeout:       conf.Duration(10 * time.Second),
		writeTimeout:      conf.Duration(10 * time.Second),
		writeQueueSize:    512,
		udpMaxPayloadSize: 1452,
		rtpMaxPayloadSize: 1440,
		authManager:       test.NilAuthManager,
		externalCmdPool:   pool,
		pathConfs:         verifC40Confs(0),
		parent:            test.NilLogger,
	}
	pm.initialize()

	var wg sync.WaitGroup
	var ops atomic.Int64
	root := verifutil.NewRand(seed)
	for w := 0; w < workers; w++ {
		r := root.Fork()
		wg.Add(1)
		go func() {
			defer wg.Done()
			verifC40Worker(pm, r, iters, mix, &wg, &ops)
		}()
	}
	finished := make(chan struct{})
	go func() {
		if closeEarly {
			// shutdown races with the operations: wait until roughly half of them were issued
			for ops.Load() < int64(workers*iters/2) {
				runtime.Gosched()
			}
		} else {
			wg.Wait()
		}
		pm.close()
		wg.Wait()
		pool.Close()
		close(finished)
	}()
	sites := map[string]bool{}
	tick := time.NewTicker(3 * time.Millisecond)
	defer tick.Stop()
	start := time.Now()
	last, lastChange := ops.Load(), time.Now()
	for {
		select {
		case <-finished:
			var l []string
			for s := range sites {
				l = append(l, s)
			}
			sort.Strings(l)
			if len(l) == 0 {
				return "done sites=-"
			}
			return "done sites=" + strings.Join(l, ",")
		case <-tick.C:
			if len(sites) < 64 {
				verifC40Sites(sites)
			}
			if cur := ops.Load(); cur != last {
				last, lastChange = cur, time.Now()
			}
			// the watchdog fires when no operation completed for `watchdog` AND goroutines are parked
			// inside internal/core (a slow machine alone is not a hang); hard cap 90 s
			if time.Since(lastChange) > watchdog {
				b := verifC40Blocked()
				if b != "?" || time.Since(start) > 90*time.Second {
					verifC40Hangs++
					return "hang " + b
				}
				lastChange = time.Now()
			}
		}
	}
}

func verifC40Gen(r *verifutil.Rand, i int, thorough bool) []string {
	workers := 2 + r.Intn(7)
	iters := 40 + r.Intn(160)
	if thorough {
		iters = 100 + r.Intn(600)
	}
	mix := []int{0, 4, 10, 18}[r.Intn(4)] // share of reload operations
	closeEarly := 0
	if r.Chance(1, 2) {
		closeEarly = 1
	}
	return []string{fmt.Sprintf("stress %d %d %d %d %d %d", r.U64()>>1, workers, iters, mix, closeEarly, 4000)}
}

func TestVerifC40(t *testing.T) {
	verifutil.Main(t, &verifutil.Harness{
		ID: "C40", Exec: verifC40Exec, Gen: verifC40Gen,
		Quick: 60, Thorough: 400,
		Class: func(op, impl string) string {
			f := strings.Fields(op)
			k := "reload" + f[4]
			if f[5] == "1" {
				k += "/close-early"
			}
			return k + "/" + strings.Fields(impl)[0]
		},
	})
}
